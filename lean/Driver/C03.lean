import AITB.Model.Proto
import AITB.Model.POMDP3
import AITB.Model.Interp
open AITB AITB.MDP AITB.POMDP3

/-!
  Driver for C03.  Every line carries the POMDP, the initial belief, the call parameters and (after `|`) the implementation's exact output.
  `diff` = executable model (AITB.Model.POMDP3) and implementation differ;  `fail` = a clause of the property is false on the
  implementation's own output.

  line  := C03 <op> <pomdp> <b0> <op args> | <impl output>
  pomdp := S A γ  T[a][s][s1]…  R[s][a]…  O  Ob[a][s1][o]…
  The optimal value is enclosed by the two reference families of AITB.Model.POMDP3 (`upperRefV`, `lowerRefV`), all in exact rationals.
-/
namespace DrvC03

def arrT (S : Nat) (l : Array Rat) (s a s1 : Nat) : Rat := l.getD ((a * S + s) * S + s1) 0
def arrR (A : Nat) (l : Array Rat) (s a : Nat) : Rat := l.getD (s * A + a) 0
def arrO (S O : Nat) (l : Array Rat) (s1 a o : Nat) : Rat := l.getD ((a * S + s1) * O + o) 0

def vecP (n : Nat) : P Vec := do let l ← P.rep P.q n; pure l.toArray
def lvecP : P Vec := do let n ← P.nat; vecP n
def matP : P Mat := do let n ← P.nat; let k ← P.nat; let l ← P.rep (vecP k) n; pure l.toArray

def pomdpP : P POMDP := do
  let S ← P.nat; let A ← P.nat; let γ ← P.q
  let t ← P.rep P.q (A * S * S); let r ← P.rep P.q (S * A)
  let O ← P.nat
  let ob ← P.rep P.q (A * S * O)
  let ta := t.toArray; let ra := r.toArray; let oa := ob.toArray
  pure { S := S, A := A, O := O, T := arrT S ta, R := arrR A ra, Ob := arrO S O oa, γ := γ }

structure VE where
  action : Nat
  values : Vec
  links : List Nat

def veP (links : Bool) : P VE := do
  let a ← P.nat; let v ← lvecP
  let l ← (if links then P.nats else pure [])
  pure ⟨a, v, l⟩
def vlistP (links : Bool) : P (Array VE) := do let l ← P.list (veP links); pure l.toArray

def ubvP : P (Array (Vec × Rat)) := do
  let l ← P.list (do let p ← lvecP; let v ← P.q; pure (p, v))
  pure l.toArray

def powR (x : Rat) : Nat → Rat
  | 0 => 1
  | n+1 => x * powR x n

def maxAbsR (m : POMDP) : Rat :=
  (List.range m.S).foldl (fun acc s => (List.range m.A).foldl (fun acc a => if acc < absR (m.R s a) then absR (m.R s a) else acc) acc) 0

/-- float slack granted to inequalities evaluated on double outputs -/
def epsOf (m : POMDP) : Rat := (if 1 < maxAbsR m / (1 - m.γ) then maxAbsR m / (1 - m.γ) else 1) / 1000000000

def close (a b : Rat) : Bool := closeQ (1 / 1000000000) a b
def closeVec (n : Nat) (a b : Vec) : Bool := a.size == b.size && allLt n (fun i => close (a.get i) (b.get i))
def closeMat (n k : Nat) (a b : Mat) : Bool := allLt n (fun i => allLt k (fun j => close (a.get i j) (b.get i j)))
def showVec (v : Vec) : String := " ".intercalate (v.toList.map ratStr)

/-- rows written as decimal literals (0.85 + 0.15) sum to 1 only up to one rounding of the double: accepted within 1e-12, far below `epsOf` -/
def rowSumOK (x : Rat) : Bool := decide (absR (x - 1) ≤ 1 / 1000000000000)

def validModel (m : POMDP) : Bool :=
  decide (0 ≤ m.γ) && decide (m.γ < 1) && decide (0 < m.S) && decide (0 < m.A) && decide (0 < m.O) &&
  allLt m.S (fun s => allLt m.A (fun a => allLt m.S (fun s1 => decide (0 ≤ m.T s a s1)) && rowSumOK (sumTo m.S (m.T s a)) &&
    allLt m.O (fun o => decide (0 ≤ m.Ob s a o)) && rowSumOK (sumTo m.O (m.Ob s a))))

/-- upper reference of the `t`-step optimal value started from the constant `c`: `H^k (lin B^(t-k) c)` -/
def finU (m : POMDP) (c : Rat) (t kmax : Nat) (x : Vec) : Rat :=
  let k := min t kmax
  upperRefV m c (t - k) k x
/-- lower reference of the `t`-step optimal value started from 0 -/
def finL (m : POMDP) (t kmax : Nat) (x : Vec) : Rat :=
  let k := min t kmax
  lowerRefV m (fun _ => 0) (t - k) k x

def unitV (S s : Nat) : Vec := mkVec S (fun i => if i = s then 1 else 0)

/-- probe beliefs: b0, the corners, the centre -/
def probes (m : POMDP) (b0 : Vec) : List Vec :=
  b0 :: ((List.range m.S).map (unitV m.S)) ++ [mkVec m.S (fun _ => 1 / (m.S : Rat))]

def basicValV (m : POMDP) (Q : Mat) (x : Vec) : Rat := basicVal m.S m.A Q.get x.get

def isBelief (S : Nat) (b : Vec) : Bool := b.size == S && allLt S (fun s => decide (0 ≤ b.get s)) && decide (sumTo S b.get = 1)

def firstSome {α β : Type} (l : List α) (f : α → Option β) : Option β :=
  l.foldl (fun acc x => match acc with | some y => some y | none => f x) none

/-- first vector / probe where a lower-bound vector exceeds `ref x + slack` -/
def vecAbove (m : POMDP) (vs : List Vec) (xs : List (Vec × Rat)) (slack : Rat) : Option String :=
  firstSome vs (fun α => firstSome xs (fun (x, u) =>
    if decide (dotV m.S x α ≤ u + slack) then none else some s!"alpha·x={ratStr (dotV m.S x α)} ref={ratStr u} at x={showVec x}"))

def reportedSlack (m : POMDP) (useTol : Bool) (var : Rat) (h : Nat) : Rat :=
  if useTol then var * m.γ / (1 - m.γ) else powR m.γ h * maxAbsR m / (1 - m.γ)

def clampActive (m : POMDP) : Bool := decide (1 - m.γ < Gen.C03Src.clamp)

/-- the model has a positive transition / observation probability (or product) at or below the library's `equalToleranceSmall`: the
    1e-6 cut-offs of `GapMin::makeNewPomdp`, `LPInterpolation` and `bestPromisingAction` drop mass that is really there -/
def tinyModel (m : POMDP) : Bool :=
  let θ := Gen.equalToleranceSmall
  (List.range m.A).any (fun a => (List.range m.S).any (fun s => (List.range m.S).any (fun s1 =>
    (decide (0 < m.T s a s1) && decide (m.T s a s1 ≤ θ)) ||
    (List.range m.O).any (fun o => (decide (0 < m.Ob s1 a o) && decide (m.Ob s1 a o ≤ θ)) ||
      (decide (0 < m.T s a s1 * m.Ob s1 a o) && decide (m.T s a s1 * m.Ob s1 a o ≤ θ))))))

/-- the slack `anytimeT_sound` (Props/C03Trunc) proves sufficient for the cut-offs: `e = C·D/(1−γ)` with `C = max(0, max R)/(1−γ)` (bounds `H L`),
    `D = O·(S+N)·θ` (mass dropped per pseudo-state and action: `truncW_residual` over `S+N` pseudo-states, zero-state classification) -/
def cutSlack (m : POMDP) (npts : Nat) : Rat :=
  let rmax := let r := maxRall m; if r < 0 then 0 else r
  truncSlack m.γ (rmax / (1 - m.γ)) ((m.O : Rat) * ((m.S + npts : Nat) : Rat) * Gen.equalToleranceSmall)

/-- the slack `pointBackup_src_cut_sound` (Props/C03Trunc) proves sufficient for Projecter's possible-observation cut on the LOWER side:
    `e = γ·K·O·θ/(1−γ)` with `K = max|R|/(1−γ)`, `θ` = the threshold the source has (0 once the test is `> 0.0`) -/
def lowCutSlack (m : POMDP) : Rat :=
  let θ : Rat := if Gen.C03Src.projecterObsCut then Gen.equalToleranceSmall else 0
  m.γ * (maxAbsR m / (1 - m.γ)) * ((m.O : Rat) * θ) / (1 - m.γ)

/-- first vector / probe where a lower-bound vector exceeds `ref x + slack`, with the amount -/
def vecAboveBy (m : POMDP) (vs : List Vec) (xs : List (Vec × Rat)) (slack : Rat) : Option (Rat × String) :=
  firstSome vs (fun α => firstSome xs (fun (x, u) =>
    if decide (dotV m.S x α ≤ u + slack) then none else some (dotV m.S x α - u - slack, s!"alpha·x={ratStr (dotV m.S x α)} ref={ratStr u} at x={showVec x}")))

/-- name of a failing lower-bound clause: within the proved cut-off slack on a model with sub-threshold probabilities it is the recorded
    cut-off defect; anything larger is the plain failure -/
def lbKind (kind : String) (m : POMDP) (excess : Rat) : String :=
  if tinyModel m && decide (excess ≤ lowCutSlack m) then kind ++ "_within_proved_cutoff_slack" else kind


/-! ### blind -/

/-- `blind <pomdp> <b0> fast h tol | variation vlist` -/
def blindOp : P String := do
  let m ← pomdpP; let b0 ← lvecP
  let fast ← P.bool; let h ← P.nat; let tol ← P.q; P.bar
  let iVar ← P.q; let iVl ← vlistP false; P.eof
  if !validModel m then return "skip invalid_model"
  let comp := "BlindStrategies"
  let useTol := checkDifferentSmall tol 0
  let hm := min h 400
  let out := blind m fast hm tol
  let capped := hm < h && out.steps.any (· == hm)
  let v : Verdict := { tag := (if fast then "blind_fast" else "blind_plain") ++ (if useTol then " tol" else " dp") ++ (if capped then " capped" else "")
                              ++ (if clampActive m then " clamp_active" else "") }
  let v := v.diffIf (iVl.size != m.A) s!"{comp} size {iVl.size}"
  let v := v.diffIf (!capped && !(close out.variation iVar)) s!"{comp} variation model={ratStr out.variation} impl={ratStr iVar}"
  let v := v.diffIf (!capped && !(allLt m.A (fun a => closeVec m.S (out.alphas.getD a #[]) (iVl.getD a ⟨0, #[], []⟩).values)))
    s!"{comp} alphas model={out.alphas.map showVec}"
  let v := v.diffIf (!(allLt m.A (fun a => (iVl.getD a ⟨0, #[], []⟩).action == a))) s!"{comp} actions"
  -- property: every vector is below the optimal value at every probe belief, up to the slack the call reports itself
  let r := mkRefs m 40 400
  let xs := (probes m b0).map (fun x => (x, r.U x))
  let eps := epsOf m
  let rep := reportedSlack m useTol iVar (h + 1)
  let res := firstSome (List.range m.A) (fun a =>
    let safe := fast && (!(clampActive m) || decide (0 ≤ minRa m a))     -- monotone from a safe start: no slack at all
    match vecAbove m [(iVl.getD a ⟨0, #[], []⟩).values] xs ((if safe then 0 else rep) + eps) with
    | some s => some s!"a={a} {s}"
    | none => none)
  let v := v.failIf res.isSome s!"{comp} {if fast then "fast" else "plain"}_vector_above_optimal_value {res.getD ""}"
  -- plain start, tolerance 0: the result is exactly the (h+1)-step value of the blind policy, hence below the (h+1)-step optimum
  let v := if !fast && !useTol then
      let xsf := (probes m b0).map (fun x => (x, finU m 0 (h + 1) r.k x))
      let res := vecAbove m (iVl.toList.map (·.values)) xsf eps
      v.failIf res.isSome s!"{comp} plain_vector_above_finite_horizon_optimum {res.getD ""}"
    else v
  return v.render

/-! ### FIB and QMDP -/

/-- `ub <pomdp> <b0> h tol | fibVar fibQ qmdpVar qmdpQ qmdpVList` -/
def ubOp : P String := do
  let m ← pomdpP; let b0 ← lvecP
  let h ← P.nat; let tol ← P.q; P.bar
  let fVar ← P.q; let fQ ← matP; let qVar ← P.q; let qQ ← matP; let qVl ← vlistP false; P.eof
  if !validModel m then return "skip invalid_model"
  let useTol := checkDifferentSmall tol 0
  let hm := min h 400
  let fo := fib m hm tol
  let fcap := hm < h && fo.timestep == hm
  let qo := valueIteration m.toMDP .eigen hm tol none
  let qcap := hm < h && qo.timestep == hm
  let v : Verdict := { tag := "fib_qmdp" ++ (if useTol then " tol" else " dp") ++ (if fcap || qcap then " capped" else "") ++ (if clampActive m then " clamp_active" else "") }
  let v := v.diffIf (!fcap && !(close fo.variation fVar)) s!"FastInformedBound variation model={ratStr fo.variation} impl={ratStr fVar}"
  let v := v.diffIf (!fcap && !(closeMat m.S m.A fo.x fQ)) s!"FastInformedBound q"
  let v := v.diffIf (!qcap && !(close qo.variation qVar)) s!"QMDP variation model={ratStr qo.variation} impl={ratStr qVar}"
  let v := v.diffIf (!qcap && h > 0 && !(closeMat m.S m.A qo.q qQ)) s!"QMDP q"
  -- fromQFunction: entry a is column a of Q
  let v := v.diffIf (!(qVl.size == m.A && allLt m.A (fun a => let e := qVl.getD a ⟨0, #[], []⟩; e.action == a && allLt m.S (fun s => e.values.get s == qQ.get s a))))
    "QMDP fromQFunction_not_columns"
  let r := mkRefs m 40 400
  let eps := epsOf m
  let ps := probes m b0
  let fsafe := !(clampActive m) || decide (maxRall m ≤ 0)
  let fslack := (if fsafe then 0 else reportedSlack m useTol fVar h) + eps
  let resF := firstSome ps (fun x => let l := r.L x; if decide (l ≤ basicValV m fQ x + fslack) then none else some s!"ub={ratStr (basicValV m fQ x)} ref={ratStr l} x={showVec x}")
  let v := v.failIf resF.isSome s!"FastInformedBound below_optimal_value {resF.getD ""}"
  let qslack := reportedSlack m useTol qVar h + eps
  let resQ := if h == 0 then none else firstSome ps (fun x => let l := r.L x; if decide (l ≤ basicValV m qQ x + qslack) then none else some s!"ub={ratStr (basicValV m qQ x)} ref={ratStr l} x={showVec x}")
  let v := v.failIf resQ.isSome s!"QMDP below_optimal_value {resQ.getD ""}"
  -- tolerance 0: Q_h is the h-step MDP value, which dominates the h-step POMDP optimum exactly
  let v := if !useTol && h > 0 then
      let res := firstSome ps (fun x => let l := finL m h r.k x; if decide (l ≤ basicValV m qQ x + eps) then none else some s!"ub={ratStr (basicValV m qQ x)} ref={ratStr l} x={showVec x}")
      v.failIf res.isSome s!"QMDP below_finite_horizon_optimum {res.getD ""}"
    else v
  -- QMDP is never below FIB (each up to its own reported slack)
  let fs2 := reportedSlack m useTol fVar h
  let resO := if h == 0 then none else firstSome (List.range m.S) (fun s => firstSome (List.range m.A) (fun a =>
    if decide (fQ.get s a - fs2 ≤ qQ.get s a + qslack) then none else some s!"s={s} a={a} fib={ratStr (fQ.get s a)} qmdp={ratStr (qQ.get s a)}"))
  let v := v.failIf resO.isSome s!"QMDP below_fib {resO.getD ""}"
  return v.render

/-! ### PBVI / PERSEUS -/

def veVals (vl : Array VE) (i : Nat) : Vec := (vl.getD i ⟨0, #[], []⟩).values

/-- every entry of `cur` is the point backup of the entries of `prev` its links name -/
def linksOK (m : POMDP) (prev cur : Array VE) : Option String :=
  firstSome cur.toList (fun e =>
    let α := mkVec m.S (backupVec m e.action (fun o => (veVals prev (e.links.getD o 0)).get))
    if e.links.length == m.O && closeVec m.S α e.values then none else some s!"a={e.action} links={e.links} model={showVec α} impl={showVec e.values}")

def vfP : P (List (Array VE)) := P.list (vlistP true)

/-- common part of pbvi / perseus: links, and soundness of every timestep against the finite-horizon reference started at `c0` -/
def vfChecks (comp : String) (m : POMDP) (xs : List Vec) (c0 : Rat) (kmax : Nat) (vf : List (Array VE)) (v : Verdict) (alsoInf : Option Refs) : Verdict :=
  let eps := epsOf m
  let idx := List.range vf.length
  let resL := firstSome idx (fun t => if t == 0 then none else
    match linksOK m (vf.getD (t-1) #[]) (vf.getD t #[]) with | some s => some s!"t={t} {s}" | none => none)
  let v := v.diffIf resL.isSome s!"{comp} vector_not_backup_of_its_links {resL.getD ""}"
  let resS := firstSome idx (fun t =>
    let xsf := xs.map (fun x => (x, finU m c0 t kmax x))
    match vecAboveBy m ((vf.getD t #[]).toList.map (·.values)) xsf eps with | some (d, s) => some (d, s!"t={t} {s}") | none => none)
  let v := match resS with
    | some (d, s) => v.failIf true s!"{comp} {lbKind "vector_above_finite_horizon_optimum" m d} {s}"
    | none => v
  match alsoInf with
  | none => v
  | some r =>
    let xsi := xs.map (fun x => (x, r.U x))
    let resI := firstSome idx (fun t => match vecAboveBy m ((vf.getD t #[]).toList.map (·.values)) xsi eps with | some (d, s) => some (d, s!"t={t} {s}") | none => none)
    match resI with
    | some (d, s) => v.failIf true s!"{comp} {lbKind "vector_above_optimal_value" m d} {s}"
    | none => v

/-- `pbvi <pomdp> <b0> h tol nb beliefs… | variation T vlists` -/
def pbviOp : P String := do
  let m ← pomdpP; let b0 ← lvecP
  let h ← P.nat; let tol ← P.q; let bl ← P.list lvecP; P.bar
  let _iVar ← P.q; let vf ← vfP; P.eof
  if !validModel m then return "skip invalid_model"
  let k := depthFor m 200
  let xs := (probes m b0 ++ bl.take 4)
  let v : Verdict := { tag := "pbvi" ++ (if checkDifferentSmall tol 0 then " tol" else " dp") }
  let v := v.diffIf (vf.length > h + 1 || vf.length == 0) s!"PBVI timesteps {vf.length}"
  let v := v.diffIf (!((vf.getD 0 #[]).size == 1 && allLt m.S (fun s => (veVals (vf.getD 0 #[]) 0).get s == 0))) "PBVI start_not_zero"
  return (vfChecks "PBVI" m xs 0 k vf v none).render

/-- `perseus <pomdp> <b0> h tol minReward | variation T vlists` -/
def perseusOp : P String := do
  let m ← pomdpP; let b0 ← lvecP
  let h ← P.nat; let tol ← P.q; let minR ← P.q; P.bar
  let _iVar ← P.q; let vf ← vfP; P.eof
  if !validModel m then return "skip invalid_model"
  let k := depthFor m 200
  let c0 := minR / (1 - m.γ)
  let v : Verdict := { tag := "perseus" ++ (if checkDifferentSmall tol 0 then " tol" else " dp") }
  let v := v.diffIf (vf.length > h + 1 || vf.length == 0) s!"PERSEUS timesteps {vf.length}"
  let v := v.diffIf (!((vf.getD 0 #[]).size == 1 && allLt m.S (fun s => close ((veVals (vf.getD 0 #[]) 0).get s) c0))) "PERSEUS start_not_minReward_over_1_minus_discount"
  -- the start is a safe lower bound only if minReward really is below every reward (documented precondition)
  let pre := decide (minR ≤ minRall m)
  let r := mkRefs m 40 200
  return (vfChecks "PERSEUS" m (probes m b0) c0 k vf v (if pre then some r else none)).render

/-! ### SARSOP / GapMin: snapshots and returned tuples -/

/-- an upper-bound clause `ref ≤ val`: fine within the float slack; within the proved cut-off slack on a model with sub-threshold
    probabilities it is the (recorded) cut-off defect and named so; anything else is the plain failure -/
def ubKind (kind : String) (tiny : Bool) (eps cut l val : Rat) : Option String :=
  if decide (l ≤ val + eps) then none
  else if tiny && decide (l ≤ val + eps + cut) then some (kind ++ "_within_proved_cutoff_slack")
  else some kind

/-- clauses common to a snapshot and a returned tuple -/
def boundClauses (comp : String) (m : POMDP) (r : Refs) (b0 : Vec) (lb ub : Rat) (vl : Array VE) (Q : Mat) (pts : Array (Vec × Rat)) (npts : Nat) (v : Verdict) : Verdict :=
  let eps := epsOf m
  let tiny := tinyModel m
  let cut := if tiny then cutSlack m npts else 0
  let u0 := r.U b0
  let l0 := r.L b0
  let v := v.failIf (!(decide (lb ≤ u0 + eps))) s!"{comp} {lbKind "lb_above_optimal_value" m (lb - u0 - eps)} lb={ratStr lb} ref={ratStr u0}"
  let v := match ubKind "ub_below_optimal_value" tiny eps cut l0 ub with
    | some k => v.failIf true s!"{comp} {k} ub={ratStr ub} ref={ratStr l0}"
    | none => v
  let v := if decide (lb ≤ ub + eps) then v else
    v.failIf true s!"{comp} {if tiny && decide (lb ≤ ub + eps + cut + lowCutSlack m) then "lb_above_ub_within_proved_cutoff_slack" else "lb_above_ub"} lb={ratStr lb} ub={ratStr ub}"
  let ps := probes m b0
  let resV := vecAboveBy m (vl.toList.map (·.values)) (ps.map (fun x => (x, r.U x))) eps
  let v := match resV with
    | some (d, s) => v.failIf true s!"{comp} {lbKind "lb_vector_above_optimal_value" m d} {s}"
    | none => v
  let resQ := firstSome ps (fun x => let l := r.L x; match ubKind "ubQ_below_optimal_value" tiny eps cut l (basicValV m Q x) with
    | some k => some (k, s!"ubQ(x)={ratStr (basicValV m Q x)} ref={ratStr l} x={showVec x}")
    | none => none)
  let v := match resQ with | some (k, d) => v.failIf true s!"{comp} {k} {d}" | none => v
  let resP := firstSome (pts.toList.take 6) (fun (p, val) =>
    if !(isBelief m.S p) then none else
    let l := r.L p; match ubKind "ubV_point_below_optimal_value" tiny eps cut l val with
    | some k => some (k, s!"point={showVec p} value={ratStr val} ref={ratStr l}")
    | none => none)
  match resP with | some (k, d) => v.failIf true s!"{comp} {k} {d}" | none => v

def matRows (Q : Mat) : List (List Rat) := Q.toList.map (·.toList)

/-- value of `bestPromisingAction<false>` at the unnormalised belief `b` on the surface `(Q, pts)`: the model function -/
def promisingOn (m : POMDP) (Q : Mat) (pts : Array (Vec × Rat)) (b : Vec) : Option Rat := bestPromisingSaw m Q pts b

/-- upper-bound items of a snapshot that were not there before: stored points and overwritten corner entries -/
inductive UbItem where
  | point (b : Vec) (u : Rat)
  | corner (s a : Nat) (u : Rat)

/-- certify new upper-bound items in any admissible order: an item is accepted when its value is at least the promising backup of its
    belief on the surface certified so far (events `poolAdd` + `pushPoint` / `setCorner` of `anytime_sound`); accepted items join the surface -/
def certifyUbPass (m : POMDP) (eps : Rat) (st : Mat × Array (Vec × Rat) × List UbItem) : Mat × Array (Vec × Rat) × List UbItem :=
  st.2.2.foldl (fun (acc : Mat × Array (Vec × Rat) × List UbItem) it =>
    let (b, u) := match it with | .point b u => (b, u) | .corner s _ u => (unitV m.S s, u)
    match promisingOn m acc.1 acc.2.1 b with
    | some pv => if decide (pv ≤ u + eps) then
        (match it with
         | .point b u => (acc.1, acc.2.1.push (b, u), acc.2.2)
         | .corner s a u => (mkMat m.S m.A (fun s' a' => if s' == s && a' == a then u else acc.1.get s' a'), acc.2.1, acc.2.2))
      else (acc.1, acc.2.1, acc.2.2 ++ [it])
    | none => (acc.1, acc.2.1, acc.2.2 ++ [it])) (st.1, st.2.1, [])

/-- one leaf-to-root sweep of model promising backups at the (normalised) reachable beliefs: points that are certified by construction -/
def enrichUb (m : POMDP) (B : List Vec) (Q : Mat) (pts : Array (Vec × Rat)) : Array (Vec × Rat) :=
  B.foldl (fun (acc : Array (Vec × Rat)) b =>
    let ms := mass m.S b.get
    if decide (ms ≤ 0) then acc else
    let nb := mkVec m.S (fun s => b.get s / ms)
    if (List.range m.S).any (fun s => nb.get s == 1) then acc else        -- corners live in Q
    match promisingOn m Q acc nb with
    | some pv => if acc.any (fun q => q.1 == nb && decide (q.2 ≤ pv)) then acc else acc.push (nb, pv)
    | none => acc) pts

def certifyUb (m : POMDP) (eps : Rat) (B : List Vec) (Q0 : Mat) (pts0 : Array (Vec × Rat)) (items : List UbItem) (rounds : Nat) : Nat :=
  let rec loop (r : Nat) (st : Mat × Array (Vec × Rat) × List UbItem) : Nat :=
    let s1 := certifyUbPass m eps st
    let s2 := if s1.2.2.length == 0 || s1.2.2.length == st.2.2.length then s1 else certifyUbPass m eps s1
    let s3 := if s2.2.2.length == 0 || s2.2.2.length == s1.2.2.length then s2 else certifyUbPass m eps s2
    match r with
    | 0 => s3.2.2.length
    | r+1 => if s3.2.2.length == 0 || s3.2.1.size > 80 then s3.2.2.length else loop r (s3.1, enrichUb m B s3.1 s3.2.1, s3.2.2)
  loop rounds (Q0, pts0, items)

/-! ### trace validation: every new lower-bound vector must be (dominated by) a point backup of certified vectors -/

/-- `g_o(c)(s) = Σ_s1 T(s,a,s1) O(s1,a,o) c(s1)` -/
def gvec (m : POMDP) (a o : Nat) (c : Vec) : Vec := mkVec m.S (fun s => sumTo m.S (fun s1 => m.T s a s1 * m.Ob s1 a o * c.get s1))
def vadd (S : Nat) (x y : Vec) : Vec := mkVec S (fun s => x.get s + y.get s)
def vmaxc (S : Nat) (x y : Vec) : Vec := mkVec S (fun s => if x.get s < y.get s then y.get s else x.get s)

/-- depth-first search for one candidate per observation with `α ≤ R_a + γ Σ_o g_o(c_o) + δ` componentwise; `rem n` = componentwise
    bound of what the last `n` observations can still contribute (prunes hopeless prefixes) -/
def searchW (m : POMDP) (a : Nat) (α : Vec) (δ : Rat) (G : Array (Array Vec)) (rem : Array Vec) (ncand : Nat) :
    Nat → Vec → List Nat → Option (List Nat)
  | 0, P, chosen => if allLt m.S (fun s => decide (α.get s ≤ m.R s a + m.γ * P.get s + δ)) then some chosen.reverse else none
  | n+1, P, chosen =>
    let o := m.O - (n+1)
    firstSome (List.range ncand) (fun c =>
      let P' := vadd m.S P ((G.getD o #[]).getD c #[])
      let bound := vadd m.S P' (rem.getD n #[])
      if allLt m.S (fun s => decide (α.get s ≤ m.R s a + m.γ * bound.get s + δ)) then searchW m a α δ G rem ncand n P' (c :: chosen) else none)

def findWitness (m : POMDP) (a : Nat) (α : Vec) (cands : Array Vec) (δ : Rat) : Option (List Nat) :=
  let G : Array (Array Vec) := (Array.range m.O).map (fun o => cands.map (gvec m a o))
  let zero := mkVec m.S (fun _ => 0)
  let best : Array Vec := G.map (fun row => if row.size == 0 then zero else row.foldl (vmaxc m.S) (row.getD 0 zero))
  -- rem[n] = Σ over the last n observations of the componentwise maximum
  let rem : Array Vec := (Array.range (m.O + 1)).map (fun n => (List.range n).foldl (fun acc i => vadd m.S acc (best.getD (m.O - 1 - i) zero)) zero)
  searchW m a α δ G rem cands.size m.O zero []

/-- unnormalised beliefs reachable from `b0` in at most `D` steps (zero-mass successors dropped, duplicates removed), deepest first -/
def reachable (m : POMDP) (b0 : Vec) (D : Nat) : List Vec :=
  let step := fun (bs : List Vec) => bs.flatMap (fun b => (List.range m.A).flatMap (fun a => (List.range m.O).filterMap (fun o =>
    let nb := bstepV m b a o
    if decide (mass m.S nb.get ≤ 0) then none else some nb)))
  let dedup := fun (l : List Vec) => l.foldl (fun (acc : List Vec) b => if acc.any (· == b) then acc else acc ++ [b]) []
  let rec go (d : Nat) (front : List Vec) (levels : List (List Vec)) : List (List Vec) := match d with
    | 0 => levels
    | d+1 => let nxt := dedup (step front); go d nxt (nxt :: levels)
  let levels := go D [b0] [[b0]]
  dedup (levels.flatMap id)

/-- one leaf-to-root sweep of model backups at the reachable beliefs: what SARSOP's own backups along any sampled path inside that part of
    the tree can produce, each with its certificate -/
def enrich (m : POMDP) (B : List Vec) (st : Array Vec × List (Nat × Vec × List Nat)) : Array Vec × List (Nat × Vec × List Nat) :=
  B.foldl (fun (acc : Array Vec × List (Nat × Vec × List Nat)) b =>
    let (a, _, α) := bestConservative m b acc.1
    if acc.1.any (· == α) then acc else
    let idx := (List.range m.O).map (fun o => bestAt m.S (bstepV m b a o) acc.1)
    (acc.1.push α, acc.2 ++ [(a, α, idx)])) st

/-- try to certify the vectors in `todo` against the candidate set; returns the extended state and what is left -/
def justifyPass (m : POMDP) (δ : Rat) (st : Array Vec × List (Nat × Vec × List Nat)) (todo : List (Nat × Vec)) :
    (Array Vec × List (Nat × Vec × List Nat)) × List (Nat × Vec) :=
  todo.foldl (fun (acc : (Array Vec × List (Nat × Vec × List Nat)) × List (Nat × Vec)) (e : Nat × Vec) =>
    match findWitness m e.1 e.2 acc.1.1 δ with
    | some idx => ((acc.1.1.push e.2, acc.1.2 ++ [(e.1, e.2, idx)]), acc.2)
    | none => (acc.1, acc.2 ++ [e])) (st, [])

/-- certify the new vectors of a snapshot: directly from the previous vectors and each other, else after up to `rounds` sweeps of model
    backups at the beliefs of the explored tree near the root (SARSOP improves a vector several times along one sampled path and prunes the
    intermediate ones, so a surviving vector is in general a multi-step backup of the previous snapshot) -/
def justify (m : POMDP) (δ : Rat) (B : List Vec) (prev : Array Vec) (news : List (Nat × Vec)) (rounds : Nat) :
    List (Nat × Vec × List Nat) × Nat :=
  let rec loop (r : Nat) (st : Array Vec × List (Nat × Vec × List Nat)) (todo : List (Nat × Vec)) : List (Nat × Vec × List Nat) × Nat :=
    let (st1, left1) := justifyPass m δ st todo
    let (st2, left2) := if left1.length == 0 || left1.length == todo.length then (st1, left1) else justifyPass m δ st1 left1
    match r with
    | 0 => (st2.2, left2.length)
    | r+1 => if left2.length == 0 || st2.1.size > 60 then (st2.2, left2.length) else loop r (enrich m B st2) left2
  loop rounds (prev, []) news

/-- `snap <pomdp> <b0> algo iter havePrev prevVList havePrevUb [prevQ prevUbV] | lb ub vlist Q ubV` -/
def snapOp : P String := do
  let m ← pomdpP; let b0 ← lvecP
  let algo ← P.tok; let it ← P.nat; let havePrev ← P.bool; let prev ← vlistP false
  let havePrevUb ← P.bool
  let prevUb ← (if havePrevUb then do let q ← matP; let p ← ubvP; pure (some (q, p)) else pure none)
  P.bar
  let lb ← P.q; let ub ← P.q; let vl ← vlistP false; let Q ← matP; let pts ← ubvP; P.eof
  if !validModel m then return "skip invalid_model"
  if clampActive m then return "skip clamp_active"
  let r := mkRefs m 30 150
  let eps := epsOf m
  let v : Verdict := { tag := s!"snap_{algo}" ++ (if it == 0 then " first" else "") }
  let v := boundClauses algo m r b0 lb ub vl Q pts pts.size v
  -- GapMin's lb is the value of its vector set at the initial belief
  let v := if algo == "GapMin" && vl.size > 0 then
      let best := maxTo (vl.size - 1) (fun i => dotV m.S b0 (veVals vl i))
      v.diffIf (!(close best lb)) s!"GapMin lb_not_value_of_vectors lb={ratStr lb} max={ratStr best}"
    else v
  -- trace validation (lower bound). Base: the solver's start set (blind vectors) carries its own certificate.
  let v := if it == 0 && havePrev then
      let bad := firstSome prev.toList (fun e => if blindCertOK m e.action e.values eps then none else some s!"a={e.action} {showVec e.values}")
      v.failIf bad.isSome s!"{algo} initial_vector_not_a_blind_subsolution {bad.getD ""}"
    else v
  -- Step: every vector that was not there before is certified by a point backup of certified vectors (SARSOP adds one backup per
  -- sampled node; GapMin's vectors come out of a multi-step PBVI run and are not validated here)
  -- trace validation (upper bound, SARSOP): every stored point / corner entry that was not there before must be worth at least the
  -- promising backup of its belief on the already certified surface
  let v := match prevUb with
    | some (pQ, pPts) =>
      if algo != "SARSOP" then v else
      let newPts := pts.toList.filter (fun (p : Vec × Rat) => !(pPts.any (fun q => q.1 == p.1 && q.2 == p.2)))
      let newCorners := (List.range m.S).flatMap (fun s => (List.range m.A).filterMap (fun a =>
        if Q.get s a == pQ.get s a then none else some (UbItem.corner s a (Q.get s a))))
      let items := newCorners ++ newPts.map (fun (p : Vec × Rat) => UbItem.point p.1 p.2)
      if items.length == 0 then { v with tag := v.tag ++ " ubtrace_no_change" }
      else if items.length + pPts.size > 60 then { v with tag := v.tag ++ " ubtrace_too_large" }
      else
        let left := certifyUb m eps (reachable m b0 2) pQ pPts items 4
        { v with tag := v.tag ++ (if left == 0 then " ubtrace_certified" else " ubtrace_unjustified") }
    | none => v
  if havePrev then
    let prevA := prev.map (·.values)
    let news := vl.toList.filter (fun e => !(prevA.any (fun p => p == e.values)))
    if news.length == 0 then return { v with tag := v.tag ++ " trace_no_new_vector" }.render
    if prevA.size + news.length > 40 || m.O > 4 then return { v with tag := v.tag ++ " trace_too_large" }.render
    let (cert, left) := justify m eps (reachable m b0 2) prevA (news.map (fun e => (e.action, e.values))) (if algo == "SARSOP" then 8 else 14)
    -- the certificate is re-checked by the verified checker `certChain` (Props/C03Trace: `certChain_sound`)
    let okChain := (certChain m eps prevA cert).isSome
    let v := v.diffIf (!okChain) s!"{algo} trace_certificate_rejected"
    let v := { v with tag := v.tag ++ (if left == 0 then " trace_certified" else " trace_unjustified") }
    -- not certified: undecided by the kernel clause, so probe harder — every belief of the explored tree near the root
    let v := if left == 0 then v else
      let res := vecAbove m (news.map (·.values)) ((reachable m b0 2).filterMap (fun x =>
        let ms := mass m.S x.get
        if decide (ms ≤ 0) then none else let nx := mkVec m.S (fun s => x.get s / ms); some (nx, r.U nx))) eps
      v.failIf res.isSome s!"{algo} lb_vector_above_optimal_value {res.getD ""}"
    return v.render
  return v.render

/-- `final <pomdp> <b0> algo p1 p2 nsnap budgetStop | lb ub vlist Q` -/
def finalOp : P String := do
  let m ← pomdpP; let b0 ← lvecP
  let algo ← P.tok; let _p1 ← P.q; let _p2 ← P.q; let _n ← P.nat; let bs ← P.bool; P.bar
  let lb ← P.q; let ub ← P.q; let vl ← vlistP false; let Q ← matP; P.eof
  if !validModel m then return "skip invalid_model"
  if clampActive m then return "skip clamp_active"
  let r := mkRefs m 40 400
  let v : Verdict := { tag := s!"final_{algo}" ++ (if bs then " budget_stop" else " converged") }
  return (boundClauses algo m r b0 lb ub vl Q #[] 100 v).render

/-! ### look-ahead kernels -/

/-- `cons <pomdp> <b0> b vlist | action value alpha` -/
def consOp : P String := do
  let m ← pomdpP; let b0 ← lvecP
  let b ← lvecP; let vl ← vlistP false; P.bar
  let ia ← P.nat; let iv ← P.q; let iα ← lvecP; P.eof
  if !validModel m then return "skip invalid_model"
  let Γ := vl.map (·.values)
  let (ma, mv, mα) := bestConservative m b Γ
  let v : Verdict := { tag := "bestConservativeAction" }
  let v := v.diffIf (!(close mv iv)) s!"bestConservativeAction value model={ratStr mv} impl={ratStr iv}"
  let v := v.diffIf (ma == ia && !(closeVec m.S mα iα)) s!"bestConservativeAction alpha model={showVec mα} impl={showVec iα}"
  let v := v.failIf (!(close (dotV m.S b iα) iv)) s!"bestConservativeAction value_not_alpha_at_belief"
  let r := mkRefs m 40 400
  let res := vecAbove m [iα] ((probes m b0 ++ [b]).map (fun x => (x, r.U x))) (epsOf m)
  -- the known defect is exactly the as-found model's behaviour: a failing vector the model does not reproduce is something else
  let asModel := ma == ia && closeVec m.S mα iα
  let v := v.failIf res.isSome s!"bestConservativeAction alpha_above_optimal_value{if asModel then "" else "_and_model_mismatch"} {res.getD ""}"
  return v.render


/-- `prom <pomdp> <b0> b useLP ubQ ubV | action value vals` -/
def promOp : P String := do
  let m ← pomdpP; let _b0 ← lvecP
  let b ← lvecP; let lp ← P.bool; let Q ← matP; let pts ← ubvP; P.bar
  let ia ← P.nat; let iv ← P.q; let ivals ← lvecP; P.eof
  if !validModel m then return "skip invalid_model"
  let eps := epsOf m
  -- model: `promisingActSaw` (AITB.Model.POMDP3), the observation loop of bestPromisingAction<false> over the C12 sawtooth model
  let mvals : Array (Option Rat) := (Array.range m.A).map (promisingActSaw m Q pts b)
  let v : Verdict := { tag := if lp then "bestPromisingAction_lp" else "bestPromisingAction_sawtooth" }
  let v := v.diffIf (ivals.size != m.A) "bestPromisingAction vals_size"
  let res := firstSome (List.range m.A) (fun a => match mvals.getD a none with
    | none => none
    | some x => if lp then none   -- LPInterpolation ignores the plane bound `basicV` once a stored point is compatible: it may exceed sawtooth
                else (if close x (ivals.get a) then none else some s!"a={a} model={ratStr x} impl={ratStr (ivals.get a)}"))
  let v := v.diffIf res.isSome s!"bestPromisingAction {res.getD ""}"
  let v := v.failIf (!(ia < m.A && close (ivals.get ia) iv && allLt m.A (fun a => decide (ivals.get a ≤ iv)))) "bestPromisingAction value_not_max"
  let r := mkRefs m 40 400
  let l := r.L b
  let v := v.failIf (!(decide (l ≤ iv + eps))) s!"bestPromisingAction value_below_optimal_value v={ratStr iv} ref={ratStr l}"
  return v.render

/-! ### helpers one level below the anchored code: each is held to its own contract on the implementation's outputs -/

/-- `bel <pomdp> <b0> b a o | unnorm partial partialUnnorm hasMass normalised expectedReward` -/
def belOp : P String := do
  let m ← pomdpP; let _b0 ← lvecP
  let b ← lvecP; let a ← P.nat; let o ← P.nat; P.bar
  let un ← lvecP; let part ← lvecP; let pun ← lvecP; let has ← P.bool; let nb ← lvecP; let er ← P.q; P.eof
  if !validModel m then return "skip invalid_model"
  let v : Verdict := { tag := "belief_update_helpers" ++ (if decide (mass m.S b.get = 1) then "" else " unnormalised_input") ++ (if has then "" else " impossible_observation") }
  let ref := bstepV m b a o
  let refPart := mkVec m.S (fun s1 => sumTo m.S (fun s => b.get s * m.T s a s1))
  let v := v.failIf (!(closeVec m.S ref un)) s!"updateBeliefUnnormalized not_T_then_O model={showVec ref} impl={showVec un}"
  let v := v.failIf (!(closeVec m.S refPart part)) s!"updateBeliefPartial not_b_times_T model={showVec refPart} impl={showVec part}"
  let v := v.failIf (!(closeVec m.S ref pun)) s!"updateBeliefPartialUnnormalized not_O_times_partial model={showVec ref} impl={showVec pun}"
  let ms := mass m.S ref.get
  let v := v.failIf (has != decide (0 < ms)) s!"updateBeliefUnnormalized mass_sign mass={ratStr ms}"
  let v := if has && decide (0 < ms) then
      v.failIf (!(closeVec m.S (mkVec m.S (fun s => ref.get s / ms)) nb)) s!"updateBelief not_normalised_successor impl={showVec nb}"
    else v
  let v := v.failIf (!(close (rew m b.get a) er)) s!"beliefExpectedReward not_b_dot_R model={ratStr (rew m b.get a)} impl={ratStr er}"
  return v.render

def sameVE (S : Nat) (x y : VE) : Bool := x.action == y.action && x.values.size == y.values.size && allLt S (fun s => x.values.get s == y.values.get s)

/-- `dom <pomdp> <b0> b vlist | best bestIdx kept eqNear eqFar eqFarSym` -/
def domOp : P String := do
  let m ← pomdpP; let _b0 ← lvecP
  let b ← lvecP; let vl ← vlistP false; P.bar
  let best ← P.q; let bi ← P.nat; let kept ← vlistP false; let e1 ← P.bool; let e2 ← P.bool; let e3 ← P.bool; P.eof
  if !validModel m then return "skip invalid_model"
  let v : Verdict := { tag := "prune_helpers" }
  -- findBestAtPoint: the reported value is the value of the reported entry and no entry is worth more
  let v := v.failIf (!(bi < vl.size && close (dotV m.S b (veVals vl bi)) best)) s!"findBestAtPoint value_not_of_returned_entry idx={bi} value={ratStr best}"
  let worse := firstSome (List.range vl.size) (fun i => if decide (dotV m.S b (veVals vl i) ≤ best + epsOf m) then none else some s!"i={i} value={ratStr (dotV m.S b (veVals vl i))} best={ratStr best}")
  let v := v.failIf worse.isSome s!"findBestAtPoint not_the_maximum {worse.getD ""}"
  -- extractDominated: survivors are members of the input (never invents a vector: soundness of GapMin's start set) ...
  let inv := firstSome kept.toList (fun e => if vl.any (sameVE m.S e) then none else some s!"a={e.action} {showVec e.values}")
  let v := v.failIf inv.isSome s!"extractDominated survivor_not_in_input {inv.getD ""}"
  -- ... and every input vector is dominated (1e-5) by a survivor, so the represented function is unchanged
  let tol : Rat := 1 / 100000
  let lost := firstSome vl.toList (fun e => if kept.any (fun k => allLt m.S (fun s => decide (e.values.get s ≤ k.values.get s + tol))) then none else some s!"a={e.action} {showVec e.values}")
  let v := v.failIf lost.isSome s!"extractDominated dropped_undominated_vector {lost.getD ""}"
  let dup := firstSome (List.range kept.size) (fun i => firstSome (List.range kept.size) (fun j =>
    if i != j && allLt m.S (fun s => decide ((veVals kept i).get s ≤ (veVals kept j).get s)) then some s!"i={i} j={j}" else none))
  let v := v.failIf dup.isSome s!"extractDominated kept_dominated_vector {dup.getD ""}"
  -- checkEqualProbability: entries within 1e-6 are equal, an entry 3e-6 away is not, and the test is symmetric
  let v := v.failIf (!(e1 && (!e2 || m.S == 0) && e2 == e3)) s!"checkEqualProbability tolerance_contract near={e1} far={e2} farSym={e3}"
  return v.render

def handle (toks : List String) : String :=
  let r := match toks with
    | "blind" :: rest => P.run blindOp rest
    | "ub" :: rest => P.run ubOp rest
    | "pbvi" :: rest => P.run pbviOp rest
    | "perseus" :: rest => P.run perseusOp rest
    | "snap" :: rest => P.run snapOp rest
    | "final" :: rest => P.run finalOp rest
    | "cons" :: rest => P.run consOp rest
    | "prom" :: rest => P.run promOp rest
    | "bel" :: rest => P.run belOp rest
    | "dom" :: rest => P.run domOp rest
    | _ => none
  r.getD "bad-op"

end DrvC03
