import AITB.Model.Proto
import AITB.Model.Learners
import AITB.Model.LearnersCheck
import AITB.Model.Dyna2
import AITB.Model.PSGeneric
import AITB.Model.LearnPolicies
open AITB AITB.Learn

/-!  C11 protocol handlers.

  td  : one-step learners (ql hyst sarsa esarsa dq dyna), one whole experience sequence per line
  tr  : eligibility-trace learners (sarsal, c-ql c-retrace c-tb c-is, e-ql e-retrace e-tb e-is)
  ps  : PrioritizedSweeping run to an empty queue
  dynab : DynaQ planning batches on a deterministic model

  Every step is checked two ways: (L2b) the model applied to the implementation's OWN previous state
  must reproduce the implementation's next state (tolerance 1e-11, one step of rounding), and the pure
  model trajectory must stay within 1e-9; (L3) the property clauses (bounds / fixed point / λ=0 /
  trace range) are evaluated on the implementation's own outputs. -/
namespace DrvC11

def tolStep : Rat := 1 / 100000000000      -- 1e-11
def tolRun : Rat := 1 / 1000000000         -- 1e-9
/-- the pure model trajectory is re-synchronised with the implementation every `window` steps (keeps the exact
    rationals small on long non-dyadic runs; the per-step check from the implementation's own state never lapses) -/
def window : Nat := 16

abbrev Rows := List (List Rat)

def tab (S A : Nat) : P Rows := P.rep (P.rep P.q A) S

def closeRows (tol : Rat) (a b : Rows) : Bool :=
  a.length == b.length && (a.zip b).all (fun (x, y) => x.length == y.length && (x.zip y).all (fun (u, v) => closeQ tol u v))

def eqRows (a b : Rows) : Bool := a == b

def maxAbsRows (a : Rows) : Rat := a.foldl (fun acc r => r.foldl (fun m x => if m < absQ x then absQ x else m) acc) 0

/-- comparison for the trace learners: absolute tolerance scaled by the largest magnitude in the tables (one update adds
    `error * el` with the SAME error to every stored pair, so a small entry inherits the absolute rounding error of a large one;
    matters for ImportanceSampling, whose ratios above one let values grow) -/
def closeRowsScaled (tol : Rat) (a b : Rows) : Bool :=
  let sc := 1 + (if maxAbsRows a < maxAbsRows b then maxAbsRows b else maxAbsRows a)
  a.length == b.length && (a.zip b).all (fun (x, y) => x.length == y.length && (x.zip y).all (fun (u, v) => decide (absQ (u - v) ≤ tol * sc)))

def showRows (r : Rows) : String := " ; ".intercalate (r.map (fun row => " ".intercalate (row.map ratStr)))

def component (L : String) : String :=
  match L with
  | "ql" => "QLearning" | "hyst" => "HystereticQLearning" | "sarsa" => "SARSA" | "esarsa" => "ExpectedSARSA" | "esarsap" => "ExpectedSARSA"
  | "dq" => "DoubleQLearning" | "dyna" => "DynaQ" | "sarsal" => "SARSAL"
  | "c-ql" => "QL" | "c-retrace" => "RetraceL" | "c-tb" => "TreeBackupL" | "c-is" => "ImportanceSampling"
  | "e-ql" => "QLEvaluation" | "e-retrace" => "RetraceLEvaluation" | "e-tb" => "TreeBackupLEvaluation"
  | "e-is" => "ImportanceSamplingEvaluation" | _ => "C11"

structure StepIn where
  s : Nat
  a : Nat
  s1 : Nat
  a1 : Nat
  r : Rat
  α : Rat
  β : Rat
  γ : Rat := 0       -- the discount in force at that step (one-step learners: `setDiscount` between steps)

def stepIn : P StepIn := do
  let s ← P.nat; let a ← P.nat; let s1 ← P.nat; let a1 ← P.nat; let r ← P.q; let α ← P.q; let β ← P.q; let γ ← P.q
  pure ⟨s, a, s1, a1, r, α, β, γ⟩

def stepTD (L : String) (γ : Rat) (A : Nat) (π : QF) (q : QF) (e : StepIn) : QF :=
  match L with
  | "hyst" => hystStep γ e.α e.β A q e.s e.a e.s1 e.r
  | "sarsa" => sarsaStep γ e.α q e.s e.a e.s1 e.a1 e.r
  | "esarsa" | "esarsap" => esarsaStep γ e.α A π q e.s e.a e.s1 e.r
  | _ => qlStep γ e.α A q e.s e.a e.s1 e.r      -- ql, dyna (DynaQ::stepUpdateQ forwards to its QLearning)

def inRange (S A : Nat) (e : StepIn) : Bool := e.s < S && e.a < A && e.s1 < S && e.a1 < A

def lookupNext (l : List ((Nat × Nat) × Nat)) (k : Nat × Nat) : Option Nat := (l.find? (fun p => p.1 == k)).map (·.2)

/-- one DoubleQLearning model step from `(qa, qc)` rows, for the coin that reproduces the implementation.
    In the `else` branch the library takes the arg-max of the COMPUTED differences `qc - qa`; entries whose exact
    differences are within 1e-11 of the maximum may be ordered either way by rounding, so each of them is a
    legitimate `a1` (the step is ill-conditioned in the tie-break, not in the arithmetic). -/
def dqPick (γ α : Rat) (S A : Nat) (pa pc : Rows) (e : StepIn) (out outC : Rows) : Rows × Rows × Bool × Nat :=
  let d : DQ := ⟨ofRows pa, ofRows pc⟩
  let aT := dqArg A d true e.s1
  let dT := dqStepAt γ α d true aT e.s e.a e.s1 e.r
  let rTa := toRows S A dT.qa
  let rTc := toRows S A dT.qc
  if closeRows tolStep rTa out && closeRows tolStep rTc outC then (rTa, rTc, true, aT)
  else
    let aF := dqArg A d false e.s1
    let mx := d.qc e.s1 aF - d.qa e.s1 aF
    let cands := aF :: (List.range A).filter (fun x => x != aF && closeQ tolStep (d.qc e.s1 x - d.qa e.s1 x) mx)
    let res := cands.map (fun a1 => let dF := dqStepAt γ α d false a1 e.s e.a e.s1 e.r; (toRows S A dF.qa, toRows S A dF.qc, false, a1))
    match res.find? (fun r => closeRows tolStep r.1 out && closeRows tolStep r.2.1 outC) with
    | some r => r
    | none => res.headD (rTa, rTc, true, aT)

/-- `td L S A γ rmin rmax mode [π] init [initC] n steps…` ; mode 0 = zero start + bounds clause,
    1 = start at Q* of a deterministic MDP + fixed-point clause, 2 = arbitrary start (correspondence only) -/
def td : P String := do
  let L ← P.tok; let S ← P.nat; let A ← P.nat; let γ ← P.q; let rmin ← P.q; let rmax ← P.q; let mode ← P.nat
  -- "esarsap": the policy is an OBJECT over the learner's own table (1 = QGreedyPolicy, 2 = EpsilonPolicy(QGreedyPolicy, ε2)),
  -- re-evaluated from the current table at every step (model: AITB.Learn.polOf / esarsaStepP)
  let pk ← if L == "esarsap" then P.nat else pure 0
  let ε2 ← if L == "esarsap" then P.q else pure 0
  let πrows ← if L == "esarsa" then tab S A else pure []
  let init ← tab S A
  let initC ← if L == "dq" then tab S A else pure []
  let k0 ← if mode == 3 then P.nat else pure 0
  let n ← P.nat
  if A == 0 || S == 0 || !(decide (0 ≤ γ)) then P.fail
  let comp := component L
  let πm := ofRows πrows
  -- the policy as a function of the table it reads (materialised per use: closures must not pile up)
  let πOf : Rows → QF := fun rows => if pk == 0 then πm else ofRows (toRows S A (polOf pk ε2 A πm (ofRows rows)))
  if pk != 0 && !(decide (0 ≤ ε2) && decide (ε2 ≤ 1)) then P.fail
  let mut γmax := γ
  let mut discChanged := false
  let isDQ := L == "dq"
  -- hypotheses of the clauses, checked by the driver itself
  let zeroStart := init.all (fun r => r.all (· == 0)) && initC.all (fun r => r.all (· == 0))
  let boundsClause := mode == 0 && zeroStart && decide (γ < 1)
  -- mode 3: the first k0 steps are ordinary steps (a sweep that reaches Q* through the learner's own updates); the table
  -- they leave is the candidate Q* for the remaining steps
  let mut starRows := init
  let mut prev := init
  let mut prevC := initC
  let mut mdl := init
  let mut mdlC := initC
  let mut v : Verdict := { tag := s!"td-{L}-m{mode}" }
  -- mode 0: the start table is what the constructor produced ("zero-initialised tables" is a clause of the property)
  if mode == 0 && L != "esarsa" && L != "esarsap" then
    v := v.failIf (!zeroStart) s!"{comp} table_not_zero_initialised start={showRows init}"
  let mut exact := 0
  let mut nxt : List ((Nat × Nat) × Nat) := []
  let mut hypOK := true
  let mut hypS := true
  let mut starSteps := 0
  for k in [0:n] do
    let e ← stepIn
    let out ← tab S A
    let outC ← if isDQ then tab S A else pure []
    if !(inRange S A e) then P.fail
    let qp := ofRows prev
    -- (L2b) one model step from the implementation's own previous state
    let (m1, m1C, coin, a1) :=
      if isDQ then dqPick e.γ e.α S A prev prevC e out outC
      else (toRows S A (stepTD L e.γ A (πOf prev) qp e), [], true, 0)
    -- policy-object runs start from tables with entries ~2^21: the expectation is rounded at that magnitude (absolute ~1e-10) and
    -- lands in an entry of magnitude ~1, so the comparison is scaled by the largest magnitude in the table
    -- (and in the table BEFORE the step: with α = 1 the new entry is `q + (target − q)`, rounded at the magnitude of the old q)
    let scAll := 1 + maxAbsRows prev + maxAbsRows out
    let cmp := fun (tol : Rat) (x y : Rows) =>
      if L == "esarsap" then
        x.length == y.length && (x.zip y).all (fun (u, w) => u.length == w.length && (u.zip w).all (fun (p, q) => decide (absQ (p - q) ≤ tol * scAll)))
      else closeRows tol x y
    let bad := !(cmp tolStep m1 out) || (isDQ && !(closeRows tolStep m1C outC))
    v := v.diffIf bad s!"{comp} step {k} from-impl-state model={showRows m1} impl={showRows out}"
    if eqRows m1 out && (!isDQ || eqRows m1C outC) then exact := exact + 1
    -- pure model trajectory
    let (mm, mmC) :=
      if isDQ then
        let d := dqStepAt e.γ e.α ⟨ofRows mdl, ofRows mdlC⟩ coin a1 e.s e.a e.s1 e.r
        (toRows S A d.qa, toRows S A d.qc)
      else (toRows S A (stepTD L e.γ A (πOf mdl) (ofRows mdl) e), [])
    v := v.diffIf (!(cmp tolRun mm out) || (isDQ && !(closeRows tolRun mmC outC)))
      s!"{comp} step {k} trajectory model={showRows mm} impl={showRows out}"
    -- (L3) clause 1: bounds on the implementation's own tables
    let okEv := decide (rmin ≤ e.r) && decide (e.r ≤ rmax) && decide (0 < e.α) && decide (e.α ≤ 1) && decide (0 ≤ e.β) && decide (e.β ≤ 1)
      && decide (0 ≤ e.γ) && decide (e.γ < 1)
    if !okEv then hypOK := false
    -- `setDiscount` between steps: the interval is the hull interval of the largest discount used so far (theorems *_bounded_discounts)
    if γmax < e.γ then γmax := e.γ
    let lo := loC rmin γmax
    let hi := hiC rmax γmax
    let slack := tolRun * (1 + absQ lo + absQ hi)
    if e.γ != γ then discChanged := true
    if boundsClause && hypOK then
      match firstOutside lo hi slack out with
      | some (s, a, x) => v := v.failIf true s!"{comp} td_out_of_bounds step {k} entry ({s},{a}) = {ratStr x} outside [{ratStr lo},{ratStr hi}]"
      | none => pure ()
      if isDQ then
        let qb := (outC.zip out).map (fun (rc, ra) => (rc.zip ra).map (fun (c, a) => c - a))
        match firstOutside lo hi slack qb with
        | some (s, a, x) => v := v.failIf true s!"{comp} td_out_of_bounds step {k} tableB ({s},{a}) = {ratStr x} outside [{ratStr lo},{ratStr hi}]"
        | none => pure ()
    -- (L3) clause 2: Q* of a deterministic MDP is a fixed point
    if mode == 3 && k + 1 == k0 then starRows := out
    if mode == 1 || (mode == 3 && k ≥ k0) then
      let q0 := ofRows starRows
      let mx := maxA A (q0 e.s1)
      let consistent := match lookupNext nxt (e.s, e.a) with
        | some s1' => s1' == e.s1
        | none => true
      if (lookupNext nxt (e.s, e.a)).isNone then nxt := ((e.s, e.a), e.s1) :: nxt
      let hyp := consistent && e.γ == γ && e.r == q0 e.s e.a - γ * mx
        && (L != "sarsa" || q0 e.s1 e.a1 == mx)
        && (!(L == "esarsa" || L == "esarsap") || expectedQ A (πOf starRows) q0 e.s1 == mx)
        && (!isDQ || initC == starRows.map (fun r => r.map (· * 2)))
      if !hyp then hypS := false
      if hypS then
        starSteps := starSteps + 1
        v := v.failIf (!(eqRows out starRows) || (isDQ && !(eqRows outC initC)))
          s!"{comp} qstar_not_fixed step {k} ({e.s},{e.a})->{e.s1} r={ratStr e.r} table={showRows out}"
    prev := out; prevC := outC
    if (k + 1) % window == 0 then
      mdl := out; mdlC := outC
    else
      mdl := mm; mdlC := mmC
  P.eof
  if (mode == 1 || mode == 3) && !hypS then v := { v with tag := v.tag ++ " hyp-not-met" }
  if (mode == 1 || mode == 3) && hypS && starSteps > 0 then v := { v with tag := v.tag ++ " qstar" }
  if mode == 0 && !(boundsClause && hypOK) then v := { v with tag := v.tag ++ " bounds-hyp-not-met" }
  if exact == n then v := { v with tag := v.tag ++ " exact" }
  if discChanged then v := { v with tag := v.tag ++ " setDiscount" }
  if n == 0 then v := { v with tag := v.tag ++ " trivial" }
  return v.render

/-! ### trace learners -/

def traces : P (List Tr) := P.list (do let s ← P.nat; let a ← P.nat; let el ← P.q; pure ⟨s, a, el⟩)

def kindOf (L : String) : Kind :=
  match L with
  | "c-ql" | "e-ql" => .ql
  | "c-retrace" | "e-retrace" => .retrace
  | "c-tb" | "e-tb" => .tb
  | _ => .is

def closeTraces (tol : Rat) (a b : List Tr) : Bool :=
  a.length == b.length && (a.zip b).all (fun (x, y) => x.s == y.s && x.a == y.a && closeQ tol x.el y.el)

def showTraces (t : List Tr) : String := " ".intercalate (t.map (fun x => s!"({x.s},{x.a},{ratStr x.el})"))

/-- model step of trace learner `L` from `(tr, q)`; returns also the trace discount used -/
def stepTR (L : String) (γ α lam tol ε : Rat) (A : Nat) (πt πb : QF) (tr : List Tr) (q : QF) (e : StepIn) : (List Tr × QF) × Rat :=
  if L == "sarsal" then (sarsalStep γ α lam tol tr q e.s e.a e.s1 e.a1 e.r, lam * γ)
  else if L.startsWith "c-" then
    (controlStep (kindOf L) γ α lam tol ε A πb tr q e.s e.a e.s1 e.r,
      γ * cEval (kindOf L) lam (probGreedy ε A e.a (argmaxA A (q e.s1))) (πb e.s e.a))
  else
    (evalStep (kindOf L) γ α lam tol A πt πb tr q e.s e.a e.s1 e.r, γ * cEval (kindOf L) lam (πt e.s e.a) (πb e.s e.a))

/-- the one-step expected backup the property's λ=0 clause refers to -/
def oneStep (L : String) (γ α ε : Rat) (A : Nat) (πt : QF) (q : QF) (e : StepIn) : QF :=
  if L == "sarsal" then sarsaStep γ α q e.s e.a e.s1 e.a1 e.r
  else if L.startsWith "c-" then upd q e.s e.a (q e.s e.a + α * (e.r + γ * expectedEps ε A q e.s1 - q e.s e.a))
  else upd q e.s e.a (q e.s e.a + α * (e.r + γ * sumTo A (fun x => q e.s1 x * πt e.s1 x) - q e.s e.a))

/-- `tr L S A γ α λ tol ε πt πb init n events…`, event = `0 s a s1 a1 r  k (s a el)*k  table` (stepUpdateQ) |
    `1 traces table` (clearTraces) | `2 traces table` (caller keeps getTraces()) | `3 traces table` (setTraces(kept)).
    `trp` (withObj): after ε come `kt εt kb εb tt[S×A] tb[S×A]`: target / behaviour are policy OBJECTS (1 = QGreedyPolicy over `tt`/`tb`,
    2 = EpsilonPolicy(QGreedyPolicy) with εt / εb, 0 = the stored matrix that follows); their probabilities are computed by the
    model of the objects (`polOf`), never taken from the implementation. -/
def trCore (withObj : Bool) : P String := do
  let L ← P.tok; let S ← P.nat; let A ← P.nat
  let γ ← P.q; let α ← P.q; let lam ← P.q; let tol ← P.q; let ε ← P.q
  let kt ← if withObj then P.nat else pure 0
  let εt ← if withObj then P.q else pure 0
  let kb ← if withObj then P.nat else pure 0
  let εb ← if withObj then P.q else pure 0
  let ttR ← if withObj then tab S A else pure []
  let tbR ← if withObj then tab S A else pure []
  let πtR0 ← tab S A; let πbR0 ← tab S A
  let πtR := if kt == 0 then πtR0 else toRows S A (polOf kt εt A (ofRows πtR0) (ofRows ttR))
  let πbR := if kb == 0 then πbR0 else toRows S A (polOf kb εb A (ofRows πbR0) (ofRows tbR))
  let init ← tab S A
  let fresh ← P.nat        -- 1: `init` is the constructor's own table (no setQFunction)
  let n ← P.nat
  if A == 0 || S == 0 then P.fail
  let comp := component L
  let πt := ofRows πtR; let πb := ofRows πbR
  -- the parameters may be changed between steps through the setters (events 4..8)
  let mut γ := γ
  let mut α := α
  let mut lam := lam
  let mut tol := tol
  let mut ε := ε
  let mut paramChanged := false
  let mut tolChanged := false
  let isIS := kindOf L == .is && L != "sarsal"
  let lamFamily := !isIS
  let mut prevT : List Tr := []
  let mut prev := init
  let mut mT : List Tr := []
  let mut mQ := init
  let mut v : Verdict := { tag := s!"tr-{L}" ++ (if lam == 0 then "-lam0" else "") ++ (if withObj then s!" obj{kt}{kb}" else "") }
  let mut ill := false
  if fresh == 1 then
    v := v.failIf (!(init.all (fun r => r.all (· == 0)))) s!"{comp} table_not_zero_initialised start={showRows init}"
  let mut savedT : List Tr := []      -- the list the caller kept (implementation's own output at the time)
  let mut savedM : List Tr := []      -- its counterpart on the pure model trajectory
  let mut nBook := 0
  let mut maxLen := 0
  -- clause 2 applies when the samples come from a deterministic MDP whose Q* is the start table and the
  -- learner's target is greedy (control learners with ε = 0; SARSA(λ) with greedy next actions)
  let q0 := ofRows init
  let mut hypS := (L.startsWith "c-" && ε == 0) || L == "sarsal"
  let mut nxt : List ((Nat × Nat) × Nat) := []
  let mut starSteps := 0
  -- clause 1 at λ = 0 (theorems control|eval|sarsal_lambda0_bounded): zero start, γ < 1, α ∈ (0,1], ε ∈ [0,1], target rows
  -- are distributions; the interval is the hull of the rewards seen so far
  -- sub-stochastic rows suffice (theorem eval_lambda0_bounded_sub; checker `subDistRows`, sound by `subDistRows_iff`): the greedy
  -- policy objects sum to less than one on near-ties
  let isDistRows (rows : Rows) : Bool := subDistRows rows
  let bndClause := lamFamily && lam == 0 && init.all (fun r => r.all (· == 0)) && decide (0 ≤ γ) && decide (γ < 1)
    && decide (0 < α) && decide (α ≤ 1) && decide (0 ≤ ε) && decide (ε ≤ 1) && (!(L.startsWith "e-") || isDistRows πtR)
  let mut rlo : Rat := 0
  let mut rhi : Rat := 0
  for k in [0:n] do
    let ev ← P.nat
    if ev != 0 then
      -- trace bookkeeping through the public interface: the table must not move, the list is [] / unchanged / the kept one
      let val ← if ev ≥ 4 then P.q else pure 0
      let outT ← traces
      let out ← tab S A
      if ev == 4 then γ := val
      if ev == 5 then lam := val
      if ev == 6 then α := val
      if ev == 7 then
        tol := val; tolChanged := true
      if ev == 8 then ε := val
      if ev ≥ 4 then
        paramChanged := true; hypS := false
      if ill then continue
      let expT := if ev == 1 then [] else if ev == 3 then savedT else prevT
      v := v.diffIf (!(expT == outT)) s!"{comp} event {k} kind={ev} traces expected={showTraces expT} impl={showTraces outT}"
      v := v.diffIf (!(eqRows out prev)) s!"{comp} event {k} kind={ev} moved the table impl={showRows out}"
      if lamFamily && decide (tol ≤ 1) && !tolChanged then
        v := v.failIf (!(tracesInRange tol outT)) s!"{comp} trace_out_of_range event {k} kind={ev} traces={showTraces outT} tol={ratStr tol}"
      v := v.failIf (!(tracesNodup outT)) s!"{comp} trace_duplicate event {k} kind={ev} traces={showTraces outT}"
      if ev == 2 then
        savedT := outT; savedM := mT
      if ev == 1 then mT := []
      if ev == 3 then mT := savedM
      prevT := outT; prev := out
      nBook := nBook + 1
      -- the window re-synchronisation of the pure trajectory must not be skipped when its boundary falls on a bookkeeping call
      if (k + 1) % window == 0 then
        mT := outT; mQ := out
      continue
    let s ← P.nat; let a ← P.nat; let s1 ← P.nat; let a1 ← P.nat; let r ← P.q
    if r < rlo then rlo := r
    if rhi < r then rhi := r
    let e : StepIn := ⟨s, a, s1, a1, r, α, 0, γ⟩
    let outT ← traces
    let out ← tab S A
    if !(inRange S A e) then P.fail
    if ill then continue
    let qp := ofRows prev
    let ((t1, q1), td) := stepTR L γ α lam tol ε A πt πb prevT qp e
    -- ill-conditioned cut-off decision: a decayed eligibility within 1e-11 (relative) of the cut-off but not equal
    let near := prevT.any (fun t => !(t.s == s && t.a == a) && (t.el * td != tol) && closeQ tolStep (t.el * td) tol)
    if near then
      ill := true
      continue
    let r1 := toRows S A q1
    -- every stored pair receives `error * el`: the rounding error of `error` (relative 1e-16 of the table magnitude) is
    -- amplified by the eligibility, which ImportanceSampling lets grow above one — scale the tolerances accordingly
    let elMax := (outT ++ t1).foldl (fun m x => if m < absQ x.el then absQ x.el else m) 1
    let tolS := tolStep * elMax
    let tolR := tolRun * elMax
    v := v.diffIf (!(closeTraces tolStep t1 outT)) s!"{comp} step {k} traces model={showTraces t1} impl={showTraces outT}"
    v := v.diffIf (!(closeRowsScaled tolS r1 out)) s!"{comp} step {k} table from-impl-state model={showRows r1} impl={showRows out}"
    -- pure trajectory
    let ((t2, q2), tdM) := stepTR L γ α lam tol ε A πt πb mT (ofRows mQ) e
    let r2 := toRows S A q2
    -- the same ill-conditioned cut-off decision on the TRAJECTORY's own traces: the implementation's eligibility may have been
    -- rounded onto the cut-off exactly (kept) while the exact rational sits one ulp below it (pruned); not comparable, re-synchronised
    let nearCutM := mT.any (fun t => !(t.s == s && t.a == a) && (t.el * tdM != tol) && closeQ tolStep (t.el * tdM) tol)
    -- the control learners' trace discount depends on WHICH action attains the max at s1: when the trajectory
    -- table has a near-tie there, one ulp decides and the trajectory is not comparable (it is re-synchronised)
    let qm := ofRows mQ
    let mAm := argmaxA A (qm s1)
    let nearTie := nearCutM || (L.startsWith "c-" && (List.range A).any (fun x => x != mAm && closeQ tolRun (qm s1 x) (qm s1 mAm)))
    v := v.diffIf (!nearTie && !(closeRowsScaled tolR r2 out)) s!"{comp} step {k} table trajectory model={showRows r2} impl={showRows out}"
    -- (L3) trace clauses on the implementation's own list
    if lamFamily && decide (tol ≤ 1) then
      v := v.failIf (!(tracesInRange tol outT)) s!"{comp} trace_out_of_range step {k} traces={showTraces outT} tol={ratStr tol}"
    if lamFamily && !(decide (tol ≤ 1)) then
      v := v.failIf (!(tracesInRange tol outT)) s!"{if L == "sarsal" then "SARSAL" else "OffPolicyBase"} trace_below_cutoff_above_one step {k} learner={comp} traces={showTraces outT} tol={ratStr tol}"
    v := v.failIf (!(tracesNodup outT)) s!"{comp} trace_duplicate step {k} traces={showTraces outT}"
    if bndClause && !paramChanged then
      let lo := loC rlo γ
      let hi := hiC rhi γ
      let slack := tolRun * (1 + absQ lo + absQ hi)
      match firstOutside lo hi slack out with
      | some (s', a', x) => v := v.failIf true s!"{comp} td_out_of_bounds step {k} entry ({s'},{a'}) = {ratStr x} outside [{ratStr lo},{ratStr hi}] (lambda = 0)"
      | none => pure ()
    -- (L3) λ = 0: exactly the one-step expected backup of the target policy, nothing else moves
    if lamFamily && lam == 0 then
      let exp := toRows S A (oneStep L γ α ε A πt qp e)
      v := v.failIf (!(closeRowsScaled tolS exp out)) s!"{comp} lambda0_not_one_step step {k} expected={showRows exp} impl={showRows out}"
      let othersSame := ((prev.zip out).zipIdx).all (fun ((rp, ro), si) => ((rp.zip ro).zipIdx).all (fun ((x, y), ai) => (si == s && ai == a) || x == y))
      v := v.failIf (!othersSame) s!"{comp} lambda0_not_one_step step {k} other entries moved impl={showRows out}"
    if hypS then
      let mx := maxA A (q0 s1)
      let consistent := match lookupNext nxt (s, a) with
        | some s1' => s1' == s1
        | none => true
      if (lookupNext nxt (s, a)).isNone then nxt := ((s, a), s1) :: nxt
      if !(consistent && r == q0 s a - γ * mx && (L != "sarsal" || q0 s1 a1 == mx)) then hypS := false
      if hypS then
        starSteps := starSteps + 1
        v := v.failIf (!(eqRows out init)) s!"{comp} qstar_not_fixed step {k} ({s},{a})->{s1} r={ratStr r} table={showRows out}"
    prevT := outT; prev := out
    if (k + 1) % window == 0 || nearTie then
      mT := outT; mQ := out
    else
      mT := t2; mQ := r2
    if outT.length > maxLen then maxLen := outT.length
  P.eof
  if ill then return "skip ill_conditioned"
  if n == 0 then v := { v with tag := v.tag ++ " trivial" }
  if starSteps > 0 && starSteps == n then v := { v with tag := v.tag ++ " qstar" }
  if bndClause && !paramChanged then v := { v with tag := v.tag ++ " bounds" }
  if paramChanged then v := { v with tag := v.tag ++ " setters" }
  if nBook > 0 then v := { v with tag := v.tag ++ " bookkeeping" }
  v := { v with tag := v.tag ++ s!" len{if maxLen > 3 then 4 else maxLen}" }
  return v.render

def tr : P String := trCore false
def trp : P String := trCore true

/-! ### PrioritizedSweeping -/

def mkMDP (S A : Nat) (γ : Rat) (T : List Rat) (R : Rows) : MDP :=
  { S := S, A := A, γ := γ, T := fun s a s1 => T.getD ((s * A + a) * S + s1) 0, R := ofRows R }

def psGo (stepF : PS → Nat → Nat → PS) (S A : Nat) : Nat → PS → PS × Nat
  | 0, st => (st, 0)
  | f+1, st =>
    if st.queue.isEmpty then (st, f+1) else
    let i := topIdx st.queue
    match st.queue[i]? with
    | none => (st, f+1)
    | some e =>
      let st' := stepF { st with queue := removeAt st.queue i } e.s e.a
      psGo stepF S A f { st' with q := ofRows (toRows S A st'.q), v := ofVec (toVec S st'.v), done := [] }

/-- the backup the library performs for this kind of model: Eigen branch (`psStep`) for dense/sparse models, the
    explicit loop skipping exact zeros (`psStepGen`, with the 3-argument rewards) for generic ones -/
def psStepOf (kind : String) (m0 : MDP) (r3 : Nat → Nat → Nat → Rat) (θ : Rat) : PS → Nat → Nat → PS :=
  if kind == "generic" then psStepGen m0 r3 θ else psStep m0 θ

/-- `ps S A γ θ T[S*A*S] R[S×A] k (s a)*k | Q[S×A] V[S] qlen VIQ[S×A]` : explicit steps in the given order,
    then batchUpdateQ until the queue is empty -/
def ps : P String := do
  let kind ← P.tok
  let S ← P.nat; let A ← P.nat; let γ ← P.q; let θ ← P.q
  let T ← P.rep P.q (S * A * S)
  let R ← tab S A
  let R3 ← P.rep P.q (S * A * S)
  -- public calls before the drain: `1 s a` = stepUpdateQ(s,a), `2 table` = setQFunction(table) (replaces the table only: the value
  -- function and the queue stay as they are)
  -- `3 T[S*A*S] R[S×A]` = the model the planner refers to was re-synced (MaximumLikelihoodModel over growing experience)
  let ops ← P.list (do
    let c ← P.nat
    if c == 1 then (do let s ← P.nat; let a ← P.nat; pure (some (s, a), ([] : Rows), ([] : List Rat)))
    else if c == 2 then (do let t ← tab S A; pure (none, t, []))
    else (do let t' ← P.rep P.q (S * A * S); let r' ← tab S A; pure (none, r', t')))
  P.bar
  let implQ ← tab S A
  let implV ← P.rep P.q S
  let qlen ← P.nat
  let viQ ← tab S A
  P.eof
  if A == 0 || S == 0 then P.fail
  -- the MDP in force at the end (L3 is evaluated against it): the last re-synced one, else the one given at construction
  let lastModel := ops.foldl (fun (acc : List Rat × Rows) o => if o.2.2.isEmpty then acc else (o.2.2, o.2.1)) (T, R)
  let m0 := mkMDP S A γ lastModel.1 lastModel.2
  let stepOf := fun (m : MDP) => psStepOf kind m (fun s a s1 => R3.getD ((s * A + a) * S + s1) 0) θ
  let stepF := stepOf m0
  let comp := if kind == "generic" then "PrioritizedSweeping.generic" else "PrioritizedSweeping"
  let v : Verdict := { tag := s!"ps-{kind}" }
  -- model: same explicit steps, then pop max-priority until empty (fuel bounds the run)
  let st0 := (ops.foldl (fun (ms : MDP × PS) (o : Option (Nat × Nat) × Rows × List Rat) =>
      match o.1 with
      | some p =>
        let st' := stepOf ms.1 ms.2 p.1 p.2
        (ms.1, { st' with q := ofRows (toRows S A st'.q), v := ofVec (toVec S st'.v), done := [] })
      | none =>
        if o.2.2.isEmpty then (ms.1, { ms.2 with q := ofRows o.2.1, done := [] })
        else (mkMDP S A γ o.2.2 o.2.1, { ms.2 with done := [] })) (mkMDP S A γ T R, PS.init)).2
  let (stF, left) := psGo stepF S A 200000 st0
  -- the pairs stepped explicitly AFTER the last setQFunction (theorem ps_fixed_point_setq)
  let order := ops.foldl (fun (acc : List (Nat × Nat)) o => match o.1 with | some p => p :: acc | none => []) []
  let usedSetQ := ops.any (fun o => o.1.isNone && o.2.2.isEmpty)
  let usedResync := ops.any (fun o => !o.2.2.isEmpty)
  let covered := (List.range S).all (fun s => (List.range A).all (fun a => order.contains (s, a)))
  let mQ := toRows S A stF.q
  let tolPS : Rat := 1 / 10000000
  let v := v.diffIf (left == 0) s!"PrioritizedSweeping model queue not empty after fuel"
  let v := v.diffIf (left != 0 && !(closeRows tolPS mQ implQ)) s!"PrioritizedSweeping final Q model={showRows mQ} impl={showRows implQ}"
  -- (L3) on the implementation's own output
  let v := v.failIf (qlen != 0) s!"{comp} queue_not_empty {qlen}"
  let qi := ofRows implQ
  let res := bellmanResidual m0 qi
  let scale := 1 + absQ (hiC (R.foldl (fun acc r => r.foldl (fun a x => if a < absQ x then absQ x else a) acc) 0) γ)
  let v := if covered && qlen == 0 then
      let v := v.failIf (decide (res > tolPS * scale)) s!"{comp} not_bellman_fixed_point residual={ratStr res}"
      let v := v.failIf (!(closeRows tolPS implQ viQ)) s!"{comp} differs_from_value_iteration ps={showRows implQ} vi={showRows viQ}"
      let vOK := ((List.range S).zip implV).all (fun (s, x) => x == maxA A (qi s))
      v.failIf (!vOK) s!"{comp} value_not_row_max"
    else { v with tag := v.tag ++ " uncovered" }
  let v := if usedSetQ then { v with tag := v.tag ++ " setq" } else v
  let v := if usedResync then { v with tag := v.tag ++ " resync" } else v
  return v.render

/-! ### DynaQ batch on a deterministic model -/

/-- `dynab S A γ α next[S×A] rew[S×A] init[S×A] nvis (s a)*nvis n tables…` : after the visited pairs have been
    registered, each `batchUpdateQ()` with N=1 must be a QLearning step on SOME visited pair with the model's sample -/
def dynab : P String := do
  let S ← P.nat; let A ← P.nat; let γ ← P.q; let α ← P.q
  let nextR ← P.rep (P.rep P.nat A) S
  let rew ← tab S A
  let init ← tab S A
  let vis ← P.list (do let s ← P.nat; let a ← P.nat; pure (s, a))
  let n ← P.nat
  if A == 0 || S == 0 then P.fail
  let mut prev := init
  let mut v : Verdict := { tag := "dynab" }
  let rq := ofRows rew
  -- clause 2 for DynaQ's embedded learner: if the table the batches start from is Q* of the (deterministic) model,
  -- every planning pass must leave it unchanged, whichever visited pair it samples
  let q0 := ofRows init
  let isStar := decide (0 ≤ γ) && (List.range S).all (fun s => (List.range A).all (fun a =>
      q0 s a == rq s a + γ * maxA A (q0 ((nextR.getD s []).getD a 0))))
  if isStar then v := { v with tag := "dynab qstar" }
  for k in [0:n] do
    let out ← tab S A
    if isStar then
      v := v.failIf (!(eqRows out init)) s!"DynaQ qstar_not_fixed batch {k} table={showRows out} qstar={showRows init}"
    let qp := ofRows prev
    let cands := vis.map (fun (s, a) => toRows S A (qlStep γ α A qp s a ((nextR.getD s []).getD a 0) (rq s a)))
    v := v.diffIf (!(cands.any (fun c => closeRows tolStep c out))) s!"DynaQ batch {k} is not a QLearning step on a visited pair impl={showRows out}"
    prev := out
  P.eof
  return v.render

/-- `dynam kind S A γ N star T[S*A*S] R[S×A] rmin rmax nev events…` : DynaQ over the library's own Model / SparseModel.
    event = `1 s a s1 r α table` (stepUpdateQ) | `0 α table` (batchUpdateQ: N planning passes, each a QLearning step on a visited
    pair towards a successor `model.sampleSR` can return, with the model's reward R(s,a)).  The visited list is carried by the model
    (`dynaStep`).  Clauses on the implementation's own tables: bounds (zero start, all rewards seen in [rmin,rmax] which includes the
    model's rewards), and — `star` — once the sweep has produced Q* of the deterministic model, no batch may change it. -/
def dynam : P String := do
  let mkind ← P.tok
  let S ← P.nat; let A ← P.nat; let γ ← P.q; let N ← P.nat; let star ← P.nat
  let T ← P.rep P.q (S * A * S)
  let R ← tab S A
  let rmin ← P.q; let rmax ← P.q
  let nev ← P.nat
  if A == 0 || S == 0 || N == 0 then P.fail
  let m0 := mkMDP S A γ T R
  let rq := ofRows R
  let succs := fun (s a : Nat) => (List.range S).filter (fun s1 => decide (0 < m0.T s a s1))
  let zero : Rows := (List.range S).map (fun _ => (List.range A).map (fun _ => (0 : Rat)))
  let lo := loC rmin γ
  let hi := hiC rmax γ
  let slack := tolRun * (1 + absQ lo + absQ hi)
  let mut prev := zero
  let mut vis : List (Nat × Nat) := []
  let mut v : Verdict := { tag := s!"dynam-{mkind}" ++ (if star == 1 then " star" else "") }
  let mut hypOK := decide (0 ≤ γ) && decide (γ < 1)
  let mut qstar : Option Rows := none
  let mut batches := 0
  for k in [0:nev] do
    let kind ← P.nat
    if kind == 1 then
      let s ← P.nat; let a ← P.nat; let s1 ← P.nat; let r ← P.q; let α ← P.q
      let out ← tab S A
      if !(s < S && a < A && s1 < S) then P.fail
      let d := dynaStep γ α A ⟨ofRows prev, vis⟩ s a s1 r
      let m1 := toRows S A d.q
      v := v.diffIf (!(closeRows tolStep m1 out)) s!"DynaQ event {k} stepUpdateQ model={showRows m1} impl={showRows out}"
      vis := d.visited
      if !(decide (rmin ≤ r) && decide (r ≤ rmax) && decide (0 < α) && decide (α ≤ 1)) then hypOK := false
      prev := out
    else
      let α ← P.q
      let out ← tab S A
      batches := batches + 1
      if !(decide (0 < α) && decide (α ≤ 1)) then hypOK := false
      -- all tables reachable by N planning passes (deduplicated after every pass)
      let passOnce (tabs : List Rows) : List Rows :=
        (tabs.flatMap (fun t => vis.flatMap (fun (s, a) => (succs s a).map (fun s1 => toRows S A (qlStep γ α A (ofRows t) s a s1 (rq s a)))))).eraseDups
      let cands := if vis.isEmpty then [prev] else (List.range N).foldl (fun tabs _ => passOnce tabs) [prev]
      v := v.diffIf (!(cands.any (fun c => closeRows tolStep c out)))
        s!"DynaQ event {k} batchUpdateQ is not {N} QLearning step(s) on visited pairs with the model's samples impl={showRows out} candidates={cands.length}"
      -- clause 2: Q* of the deterministic model, once reached, is kept by every planning pass
      if star == 1 then
        if qstar.isNone then
          let q0 := ofRows prev
          let isDet := (List.range S).all (fun s => (List.range A).all (fun a => (succs s a).length == 1))
          let isStar := isDet && (List.range S).all (fun s => (List.range A).all (fun a =>
            q0 s a == rq s a + γ * maxA A (q0 ((succs s a).headD 0))))
          let allVisited := (List.range (S - 1)).all (fun s => (List.range A).all (fun a => vis.contains (s, a)))
          if isStar && allVisited then qstar := some prev
        match qstar with
        | some qs => v := v.failIf (!(eqRows out qs)) s!"DynaQ qstar_not_fixed event {k} table={showRows out} qstar={showRows qs}"
        | none => pure ()
      prev := out
    if hypOK then
      match firstOutside lo hi slack prev with
      | some (s', a', x) => v := v.failIf true s!"DynaQ td_out_of_bounds event {k} entry ({s'},{a'}) = {ratStr x} outside [{ratStr lo},{ratStr hi}]"
      | none => pure ()
  P.eof
  if star == 1 && qstar.isSome then v := { v with tag := v.tag ++ " qstar" }
  if star == 1 && qstar.isNone then v := { v with tag := v.tag ++ " hyp-not-met" }
  if hypOK then v := { v with tag := v.tag ++ " bounds" }
  if batches == 0 then v := { v with tag := v.tag ++ " trivial" }
  return v.render

/-- `rl S A α ρ init n (s a s1 r table ravg)*n` : RLearning as written (no clause of C11 applies: correspondence only) -/
def rl : P String := do
  let S ← P.nat; let A ← P.nat; let α ← P.q; let ρ ← P.q
  let init ← tab S A
  let n ← P.nat
  if A == 0 || S == 0 then P.fail
  let mut prev := init
  let mut ravg : Rat := 0
  let mut v : Verdict := { tag := "rl" }
  let mut ill := false
  for k in [0:n] do
    let s ← P.nat; let a ← P.nat; let s1 ← P.nat; let r ← P.q
    let out ← tab S A
    let outR ← P.q
    if !(s < S && a < A && s1 < S) then P.fail
    if ill then continue
    let st := rlStep α ρ A ⟨ofRows prev, ravg⟩ s a s1 r
    let m1 := toRows S A st.q
    -- the branch `checkEqualGeneral(q(s,a), max)` is decided on rounded values: near its thresholds the step is ill-conditioned
    let cur := maxA A (st.q s)
    let d := absQ (st.q s a - cur)
    let thr := if absQ (st.q s a) < absQ cur then absQ (st.q s a) * AITB.Pol.tolG else absQ cur * AITB.Pol.tolG
    if d != 0 && (closeQ (1 / 1000) d AITB.Pol.tolS || (decide (AITB.Pol.tolS < d) && closeQ (1 / 1000) d thr)) then
      ill := true
      continue
    let sc := 1 + maxAbsRows m1 + absQ st.ravg
    v := v.diffIf (!(closeRowsScaled tolStep m1 out)) s!"RLearning step {k} table model={showRows m1} impl={showRows out}"
    v := v.diffIf (!(decide (absQ (st.ravg - outR) ≤ tolStep * sc))) s!"RLearning step {k} average reward model={ratStr st.ravg} impl={ratStr outR}"
    prev := out; ravg := outR
  P.eof
  if ill then return "skip ill_conditioned"
  if n == 0 then v := { v with tag := v.tag ++ " trivial" }
  return v.render

/-- `tolguard L tol` : the constructor rejected a cut-off above one with std::invalid_argument (repaired library) -/
def tolguard : P String := do
  let _L ← P.tok; let tol ← P.q; P.eof
  return (if decide (tol ≤ 1) then "diff OffPolicyBase setTolerance rejected a cut-off <= 1" else "ok tol-rejected")

/-- priority-queue view used by the stepwise handler: indices whose priority is maximal up to an absolute 1e-13.
    A priority is `|V'(s) - V(s)| * T`; the difference of two doubles of magnitude ~1..10 carries an absolute
    rounding error of ~1e-15, so priorities closer than that bound may be ordered either way by the heap. -/
def topCands (queue : List QE) : List Nat :=
  match queue[topIdx queue]? with
  | none => []
  | some b => (List.range queue.length).filter (fun i => match queue[i]? with
      | some e => decide (b.prio ≤ e.prio + 1 / 10000000000000)
      | none => false)

/-- `psw S A γ θ T R nev events…` ; event = `1 s a Q V qlen` (stepUpdateQ) or `0 Q V qlen` (batchUpdateQ, N = 1).
    Q and V are re-synchronised with the implementation after every event; the queue (not observable beyond its
    length) is carried by the model. -/
def psw : P String := do
  let kind ← P.tok
  let S ← P.nat; let A ← P.nat; let γ ← P.q; let θ ← P.q
  let T ← P.rep P.q (S * A * S)
  let R ← tab S A
  let R3 ← P.rep P.q (S * A * S)
  let nev ← P.nat
  if A == 0 || S == 0 then P.fail
  let m0 := mkMDP S A γ T R
  let stepF := psStepOf kind m0 (fun s a s1 => R3.getD ((s * A + a) * S + s1) 0) θ
  let mut q : Rows := (List.range S).map (fun _ => (List.range A).map (fun _ => (0 : Rat)))
  let mut vv : List Rat := (List.range S).map (fun _ => (0 : Rat))
  -- the heap's choice among equal priorities is not observable when both backups leave the table unchanged, so the
  -- model carries the SET of queues consistent with everything observed so far (deduplicated, capped)
  let mut queues : List (List QE) := [[]]
  let mut v : Verdict := { tag := "psw" }
  let mut ill := false
  let mut pops := 0
  let mut lastQ : Rows := q
  let mut lastLen := 0
  let mut stepped : List (Nat × Nat) := []
  for k in [0:nev] do
    let kind ← P.nat
    let (s, a) ← if kind == 1 then (do let s ← P.nat; let a ← P.nat; pure (s, a)) else pure (0, 0)
    let newQ ← if kind == 2 then tab S A else pure []
    let outQ ← tab S A
    let outV ← P.rep P.q S
    let qlen ← P.nat
    if kind == 1 && !(s < S && a < A) then P.fail
    lastQ := outQ; lastLen := qlen
    if kind == 1 then stepped := (s, a) :: stepped
    if kind == 2 then stepped := []
    if ill then continue
    let candsOf (queue : List QE) : List PS :=
      let base : PS := { q := ofRows q, v := ofVec vv, queue := queue, done := [] }
      if kind == 1 then [stepF base s a]
      else if kind == 2 then [{ base with q := ofRows newQ }]
      else if queue.isEmpty then [base]
      else (topCands queue).filterMap (fun i => (queue[i]?).map (fun e => stepF { base with queue := removeAt queue i } e.s e.a))
    let cands := queues.flatMap candsOf
    let v0 := ofVec vv
    -- a parent priority within rounding (absolute 1e-13: |V' - V| carries up to ~1e-14) of the threshold makes the push
    -- decision ill-conditioned
    let near := cands.any (fun c => (List.range S).any (fun ss => (List.range A).any (fun aa =>
        (List.range S).any (fun s0 =>
          let d := absR (c.v s0 - v0 s0) * m0.T ss aa s0
          d != θ && d != 0 && decide (absR (d - θ) ≤ 1 / 10000000000000)))))
    -- once the largest pending priority is below 1e-9 the table changes are at the level of the comparison
    -- tolerance (1e-11) and the popped pair can no longer be identified from the implementation's output
    let faint := kind == 0 && queues.any (fun queue => match queue[topIdx queue]? with | some b => decide (b.prio < tolRun) | none => false)
    if near || faint then
      ill := true
      continue
    let good := cands.filter (fun c => closeRows tolStep (toRows S A c.q) outQ && closeRows tolStep [toVec S c.v] [outV] && c.queue.length == qlen)
    if good.isEmpty then
      let c0 := cands.headD { q := ofRows q, v := v0, queue := [], done := [] }
      v := v.diffIf true s!"PrioritizedSweeping event {k} kind={kind} ({s},{a}) model Q={showRows (toRows S A c0.q)} V={showRows [toVec S c0.v]} qlen={c0.queue.length} impl Q={showRows outQ} V={showRows [outV]} qlen={qlen} queue={" ".intercalate ((queues.headD []).map (fun e => s!"({e.s},{e.a},{ratStr e.prio})"))}"
      queues := [c0.queue]
    else
      queues := (good.map (·.queue)).eraseDups
      if queues.length > 24 then ill := true
    if kind == 0 then pops := pops + 1
    q := outQ; vv := outV
  P.eof
  -- from the first ill-conditioned push decision on, the unobservable queue can no longer be tracked: the verdict
  -- covers the prefix of events before it (the deltas shrink geometrically towards θ, so this is the tail of the run)
  if ill then v := { v with tag := v.tag ++ " prefix-only" }
  if nev == 0 then v := { v with tag := v.tag ++ " trivial" }
  if pops > 0 then v := { v with tag := v.tag ++ " pops" }
  -- (L3) theorem ps_residual_bound on the implementation's own final table: every event is exactly one backup, so after
  -- `nev` events with an empty queue and every pair stepped explicitly the Bellman residual is at most γ·θ·nev
  let covered := (List.range S).all (fun s => (List.range A).all (fun a => stepped.contains (s, a)))
  if lastLen == 0 && covered && decide (0 ≤ θ) && decide (0 ≤ γ) then
    let res := bellmanResidual m0 (ofRows lastQ)
    let bound := γ * θ * (nev : Rat)
    let slack := tolRun * (1 + maxAbsRows lastQ)
    v := v.failIf (decide (res > bound + slack)) s!"{if kind == "generic" then "PrioritizedSweeping.generic" else "PrioritizedSweeping"} residual_exceeds_theta_bound residual={ratStr res} bound={ratStr bound} events={nev}"
    v := { v with tag := v.tag ++ (if decide (θ > 1 / 1000000) then " theta-bound" else " drained") }
  return v.render

/-! ### Dyna2 (model: AITB.Model.Dyna2) -/

/-- `dyna2 kind S A γ α λP λT tol N next[S×A] rew[S×A] act[S] n events…`; event = `1 s a s1 a1 r` (stepUpdateQ) | `2 s0`
    (batchUpdateQ(s0)) | `3` (resetTransientLearning); after each: permanent table, transient table.  Traces are not
    observable through Dyna2 and are carried by the model; both tables are re-synchronised after every event. -/
def dyna2 : P String := do
  let mkind ← P.tok
  let S ← P.nat; let A ← P.nat; let γ ← P.q; let α ← P.q; let lamP ← P.q; let lamT ← P.q; let tol ← P.q; let N ← P.nat
  let nextR ← P.rep (P.rep P.nat A) S
  let rew ← tab S A
  let act ← P.rep P.nat S
  let n ← P.nat
  if A == 0 || S == 0 then P.fail
  let nextF := fun (s a : Nat) => (nextR.getD s []).getD a 0
  let rq := ofRows rew
  let pol := fun (s : Nat) => act.getD s 0
  -- `model_.isTerminal(s)`: for the library's Model / SparseModel "every action stays in s with probability 1 (±1e-6)", for the
  -- harness's own model either the same rule ("det-term") or never ("det")
  let termL := (List.range S).map (fun s => mkind != "det" && (List.range A).all (fun a => nextF s a == s))
  let term := fun (s : Nat) => termL.getD s false
  let zero : Rows := (List.range S).map (fun _ => (List.range A).map (fun _ => (0 : Rat)))
  let mut qP := zero
  let mut qT := zero
  let mut trP : List Tr := []
  let mut trT : List Tr := []
  -- a stand-alone SARSA(λP) learner fed with the real steps only (theorem d2_permanent_is_sarsal), windowed
  let mut soloT : List Tr := []
  let mut soloQ := zero
  let mut v : Verdict := { tag := s!"dyna2-{mkind}" ++ (if termL.any id then " terminal" else "") }
  let mut ill := false
  let mut rlo : Rat := 0
  let mut rhi : Rat := 0
  let mut real := 0
  for k in [0:n] do
    let kind ← P.nat
    let mut e : Smp := ⟨0, 0, 0, 0, 0⟩
    let mut s0 := 0
    if kind == 1 then
      let s ← P.nat; let a ← P.nat; let s1 ← P.nat; let a1 ← P.nat; let r ← P.q
      e := ⟨s, a, s1, a1, r⟩
      if !(s < S && a < A && s1 < S && a1 < A) then P.fail
    if kind == 2 then
      s0 ← P.nat
      if !(s0 < S) then P.fail
    let outP ← tab S A
    let outT ← tab S A
    if ill then continue
    -- cut-off decisions within rounding of the cut-off cannot be followed without seeing the traces
    let nearCut (lam : Rat) (tr : List Tr) : Bool := tr.any (fun t => (t.el * (lam * γ) != tol) && closeQ tolStep (t.el * (lam * γ)) tol)
    if nearCut lamP trP || nearCut lamT trP || nearCut lamT trT then
      ill := true
      continue
    let d : D2 := ⟨trP, ofRows qP, trT, ofRows qT⟩
    let sims := if kind == 2 then d2Chain nextF rq pol term s0 N s0 (pol s0) else []
    let d' := if kind == 1 then d2Step γ α lamP lamT tol d e else if kind == 2 then d2Batch γ α lamT tol d sims else d2Reset d
    let rP := toRows S A d'.qP
    let rT := toRows S A d'.qT
    v := v.diffIf (!(closeRows tolStep rP outP)) s!"Dyna2 event {k} kind={kind} permanent model={showRows rP} impl={showRows outP}"
    v := v.diffIf (!(closeRows tolStep rT outT)) s!"Dyna2 event {k} kind={kind} transient model={showRows rT} impl={showRows outT}"
    -- (L3) what the theorems say of Dyna2, on the implementation's own tables:
    -- batches and resets never touch the permanent table
    if kind != 1 then
      v := v.failIf (!(eqRows outP qP)) s!"Dyna2 permanent_table_touched event {k} kind={kind} before={showRows qP} after={showRows outP}"
    -- a reset makes the transient table equal to the permanent one
    if kind == 3 then
      v := v.failIf (!(eqRows outT outP)) s!"Dyna2 reset_not_equal event {k} permanent={showRows outP} transient={showRows outT}"
    -- the permanent learner is a stand-alone SARSA(λP) learner on the real experience
    if kind == 1 then
      let solo := sarsalStep γ α lamP tol soloT (ofRows soloQ) e.s e.a e.s1 e.a1 e.r
      let rS := toRows S A solo.2
      v := v.failIf (!(closeRows tolRun rS outP)) s!"Dyna2 permanent_not_sarsal event {k} sarsal={showRows rS} impl={showRows outP}"
      real := real + 1
      if real % window == 0 then
        soloT := d'.trP; soloQ := outP
      else
        soloT := solo.1; soloQ := rS
      if e.r < rlo then rlo := e.r
      if rhi < e.r then rhi := e.r
    -- with both lambdas 0 both tables obey the one-step bound (rewards: real ones seen so far and the model's table)
    if lamP == 0 && lamT == 0 && decide (γ < 1) && decide (0 < α) && decide (α ≤ 1) then
      let mlo := rew.foldl (fun acc r => r.foldl (fun m x => if x < m then x else m) acc) rlo
      let mhi := rew.foldl (fun acc r => r.foldl (fun m x => if m < x then x else m) acc) rhi
      let lo := loC mlo γ
      let hi := hiC mhi γ
      let slack := tolRun * (1 + absQ lo + absQ hi)
      v := v.failIf (!(rowsWithin lo hi slack outP && rowsWithin lo hi slack outT)) s!"Dyna2 td_out_of_bounds event {k} permanent={showRows outP} transient={showRows outT} interval=[{ratStr lo},{ratStr hi}]"
    trP := d'.trP; trT := d'.trT
    qP := outP; qT := outT
  P.eof
  if ill then v := { v with tag := v.tag ++ " prefix-only" }
  if lamP == 0 && lamT == 0 then v := { v with tag := v.tag ++ " lam0" }
  if n == 0 then v := { v with tag := v.tag ++ " trivial" }
  return v.render

def handle (toks : List String) : String :=
  let r := match toks with
    | "tolguard" :: rest => P.run tolguard rest
    | "td" :: rest => P.run td rest
    | "tr" :: rest => P.run tr rest
    | "trp" :: rest => P.run trp rest
    | "ps" :: rest => P.run ps rest
    | "psw" :: rest => P.run psw rest
    | "dynab" :: rest => P.run dynab rest
    | "dynam" :: rest => P.run dynam rest
    | "rl" :: rest => P.run rl rest
    | "dyna2" :: rest => P.run dyna2 rest
    | _ => none
  r.getD "bad-op"

end DrvC11
