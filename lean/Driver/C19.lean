import AITB.Model.Proto
import AITB.Model.Tree
import AITB.Gen.C19
open AITB AITB.Tree

namespace DrvC19

/-- the harness's generative model (tables), enough to decide whether a logged outcome is possible -/
structure Gm where
  kind : Nat
  layered : Bool
  nb : Nat
  tcap : Nat
  nO : Nat
  amax : Nat
  gamma : Rat
  rmin : Rat
  rmax : Rat
  termR : Rat
  numA : List Nat
  term : List Nat
  out : List (List (Nat × Nat × Rat))     -- index b * amax + a

def Gm.isTerm (g : Gm) (s : Nat) : Bool := g.term.getD (s % g.nb) 0 == 1
def Gm.nA (g : Gm) (s : Nat) : Nat := if g.kind == 1 then g.numA.getD (s % g.nb) 0 else g.amax
def Gm.nS (g : Gm) : Nat := g.nb * g.tcap

/-- is `(s1, o, r)` a possible outcome of `(s, a)` and `term = isTerminal(s1)`? -/
def Gm.valid (g : Gm) (st : Step) : Bool :=
  let b := st.s % g.nb; let t := st.s / g.nb
  let b1 := st.s1 % g.nb; let t1 := st.s1 / g.nb
  let tOk := if g.layered then t1 == (if t + 1 ≥ g.tcap then g.tcap - 1 else t + 1) else t1 == t
  let oOk := if g.isTerm st.s then b1 == b && st.o == 0 && st.r == g.termR
             else ((g.out.getD (b * g.amax + st.a) []).any (fun oc => oc.1 == b1 && oc.2.1 == st.o && oc.2.2 == st.r))
  tOk && oOk && (st.term == g.isTerm st.s1) && decide (st.s < g.nS) && decide (st.a < g.amax)

/-! Double arithmetic for the two transcendental ingredients (`log`, `sqrt`): the driver evaluates the *same expressions*
    as the C++ code in IEEE doubles (Lean `Float` = C `double`, `Float.log`/`Float.sqrt` = libm `log`/`sqrt`) and hands the
    exact value of the resulting double to the model as a parameter. -/

def floatToX (f : Float) : XRat :=
  if f.isNaN then .nan
  else if f.isInf then (if f > 0 then .pinf else .ninf)
  else
    let bits : Nat := f.toBits.toNat
    let neg : Bool := bits / 2 ^ 63 == 1
    let ex : Nat := (bits / 2 ^ 52) % 2048
    let frac : Nat := bits % 2 ^ 52
    let mag : Rat := if ex == 0 then ((frac : Nat) : Rat) * pow2 (-1074)
                     else (((2 ^ 52 + frac : Nat) : Nat) : Rat) * pow2 (((ex : Nat) : Int) - 1075)
    .fin (if neg then -mag else mag)

/-- exact for the dyadic rationals the protocol carries -/
def ratToFloat (q : Rat) : Float := Float.ofInt q.num / Float.ofNat q.den

/-- `exploration_ * std::sqrt(std::log(count + 1.0) / an.N)` -/
def bonusF (c : Float) (count n : Nat) : XRat :=
  floatToX (c * Float.sqrt (Float.log (count.toFloat + 1.0) / n.toFloat))

/-- `p * std::log(p)` with `p = double(c) / double(n)` -/
def plogpF (c n : Nat) : Rat :=
  let p := c.toFloat / n.toFloat
  match floatToX (p * Float.log p) with
  | .fin q => q
  | _ => 0

def Gm.mdl (g : Gm) (expl : Rat) (slack : Option Rat) (entropy : Bool) : Mdl :=
  { pomcp := g.kind == 2,
    bonus := bonusF (ratToFloat expl),
    uctSlack := slack,
    entropy := entropy,
    plogp := plogpF,
    gamma := g.gamma,
    rollOff := if g.kind == 2 then Gen.C19.pomcpRollOff else Gen.C19.mctsRollOff,
    rollGuard := Gen.C19.pomcpRollGuard,
    advGuard := if g.kind == 2 then Gen.C19.pomcpAdvGuard else Gen.C19.mctsAdvGuard,
    rLeafV := Gen.C19.rpomcpLeafV,
    numA := g.nA,
    valid := g.valid }

def pOutcome : P (Nat × Nat × Rat) := do let b ← P.nat; let o ← P.nat; let r ← P.q; pure (b, o, r)

def pGm : P Gm := do
  let kind ← P.nat; let layered ← P.bool; let nb ← P.nat; let tcap ← P.nat; let nO ← P.nat; let amax ← P.nat
  let gamma ← P.q; let rmin ← P.q; let rmax ← P.q; let termR ← P.q
  let numA ← P.nats; let term ← P.nats
  let out ← P.rep (P.list pOutcome) (nb * amax)
  pure { kind, layered, nb, tcap, nO, amax, gamma, rmin, rmax, termR, numA, term, out }

def pStep : P Step := do
  let s ← P.nat; let a ← P.nat; let s1 ← P.nat; let o ← P.nat; let r ← P.q; let term ← P.bool
  pure { s, a, s1, o, r, term }

/-- one node of the `getGraph()` dump -/
structure DNode where
  path : Path
  n : Nat
  parts : List Nat
  acts : List (Nat × Rat)

def pKey : P Key := do let a ← P.nat; let k ← P.nat; pure (a, k)
/-- a non-finite value (nan / inf) is carried as an absurdly large number so that the value clauses fail on it -/
def pVal : P Rat := do
  let v ← P.x
  match v with
  | .fin q => pure q
  | _ => pure (10 ^ 40 : Nat)
def pAct : P (Nat × Rat) := do let n ← P.nat; let v ← pVal; pure (n, v)
def pDNode : P DNode := do
  let path ← P.list pKey; let n ← P.nat; let parts ← P.nats; let acts ← P.list pAct
  pure { path, n, parts, acts }

structure CallRec where
  fresh : Bool
  support : List Nat
  a : Nat
  k : Nat
  h : Nat
  iters : Nat
  ret : Nat
  expl : Rat
  bs : Nat
  log : List Step
  dump : List DNode

def pCall : P (Option CallRec) := do
  let t ← P.tok
  if t == "end" then pure none
  else
    let (fresh, support, a, k) ←
      (if t == "fresh" then do let s ← P.nats; pure (true, s, 0, 0)
       else if t == "adv" then do let a ← P.nat; let k ← P.nat; pure (false, [], a, k)
       else P.fail : P (Bool × List Nat × Nat × Nat))
    let h ← P.nat; let iters ← P.nat; let ret ← P.nat; let expl ← P.q; let bs ← P.nat
    let log ← P.list pStep
    let dump ← P.list pDNode
    pure (some { fresh, support, a, k, h, iters, ret, expl, bs, log, dump })

def pCalls : Nat → P (List CallRec)
  | 0 => P.fail
  | fuel+1 => do
    match ← pCall with
    | none => pure []
    | some c => do let r ← pCalls fuel; pure (c :: r)

def comp (g : Gm) : String := if g.kind == 2 then "POMCP" else if g.kind == 3 then "rPOMCP" else "MCTS"

def findNode (d : List DNode) (p : Path) : Option DNode := d.find? (fun n => n.path == p)

/-- first maximum, as `std::max_element` -/
def firstArgmax : List Rat → Nat → Nat → Rat → Nat
  | [], _, best, _ => best
  | x :: xs, i, best, bv => if bv < x then firstArgmax xs (i+1) i x else firstArgmax xs (i+1) best bv

def tol : Rat := 1 / 1000000000

/-- compare the model tree with a dump: (structure differences, value differences) -/
def compareTree (pomcp : Bool) (t : Tree) (d : List DNode) : List String × List String :=
  let s0 : List String := if t.nodes.length != d.length then [s!"node_count model={t.nodes.length} impl={d.length}"] else []
  d.foldl (fun (acc : List String × List String) n =>
    let p := n.path
    let sd := acc.1
    let sd := if !(t.ex p) then sd ++ [s!"node {p} absent in model"] else sd
    let sd := if t.nN p != n.n then sd ++ [s!"N at {p} model={t.nN p} impl={n.n}"] else sd
    let sd := if t.nA p != n.acts.length then sd ++ [s!"nA at {p} model={t.nA p} impl={n.acts.length}"] else sd
    let sd := if pomcp && t.parts p != n.parts then sd ++ [s!"particles at {p} model={t.parts p} impl={n.parts}"] else sd
    let r := (List.range n.acts.length).foldl (fun (acc2 : List String × List String) a =>
      let (an, av) := n.acts.getD a (0, 0)
      let s2 := if t.aN p a != an then acc2.1 ++ [s!"N at {p} action {a} model={t.aN p a} impl={an}"] else acc2.1
      let v2 := if !(closeQ tol (t.aV p a) av) then acc2.2 ++ [s!"V at {p} action {a} mean_of_returns={ratStr (t.aV p a)} impl={ratStr av}"] else acc2.2
      (s2, v2)) (sd, acc.2)
    r) (s0, [])

/-- property clauses on one dump alone.  `budget` = steps the returns below the root may span. -/
def dumpClauses (g : Gm) (d : List DNode) (budget : Nat) (extended : Bool) : List String :=
  d.foldl (fun (acc : List String) n =>
    let sumA := n.acts.foldl (fun s x => s + x.1) 0
    let acc := if (n.acts.length > 0 || n.n > 0) && sumA != n.n then acc ++ [s!"node_count_ne_sum at {n.path}: N={n.n} sum={sumA}"] else acc
    let rem := budget - n.path.length
    let hi := hiR g.gamma g.rmax rem; let lo := loR g.gamma g.rmin rem
    let kindS := if extended then "value_outside_extended_range" else "value_outside_return_range"
    n.acts.foldl (fun acc x =>
      if x.1 == 0 then (if x.2 != 0 then acc ++ [s!"unvisited_action_nonzero at {n.path}"] else acc)
      else if x.2 < lo - tol || hi + tol < x.2 then acc ++ [s!"{kindS} at {n.path} depth={n.path.length} steps_left={rem} V={ratStr x.2} range=[{ratStr lo},{ratStr hi}]"]
      else acc) acc) []

/-- particles / child keys are possible given the parent's particles / state and the model's support -/
def consistentClauses (g : Gm) (d : List DNode) (rootStates : List Nat) : List String :=
  d.foldl (fun (acc : List String) n =>
    match n.path.reverse with
    | [] => acc
    | (a, k) :: revParent =>
      let parent := revParent.reverse
      if g.kind == 2 then
        let pparts := if parent == [] then (match findNode d [] with | some r => r.parts | none => []) else
                        (match findNode d parent with | some r => r.parts | none => [])
        if findNode d parent |>.isNone then acc ++ [s!"orphan_node at {n.path}"] else
        n.parts.foldl (fun acc x =>
          let ok := pparts.any (fun s =>
            (if g.isTerm s then x % g.nb == s % g.nb && k == 0
             else (g.out.getD ((s % g.nb) * g.amax + a) []).any (fun oc => oc.1 == x % g.nb && oc.2.1 == k)) &&
            (if g.layered then x / g.nb == (if s / g.nb + 1 ≥ g.tcap then g.tcap - 1 else s / g.nb + 1) else x / g.nb == s / g.nb))
          if ok then acc else acc ++ [s!"particle_inconsistent at {n.path}: state {x} not reachable by action {a} obs {k} from parent particles {pparts}"]) acc
      else
        -- MCTS: the key is the state; the parent's state is the last key of its path, or the root state
        let ps := match revParent with | (_, s) :: _ => [s] | [] => rootStates
        let ok := ps.any (fun s => (g.out.getD ((s % g.nb) * g.amax + a) []).any (fun oc => oc.1 == k % g.nb) &&
            (if g.layered then k / g.nb == (if s / g.nb + 1 ≥ g.tcap then g.tcap - 1 else s / g.nb + 1) else k / g.nb == s / g.nb) &&
            !(g.isTerm s))
        if ok then acc else acc ++ [s!"particle_inconsistent at {n.path}: state {k} not reachable by action {a} from {ps}"]) []

def subtreeOf (d : List DNode) (k : Key) : List DNode :=
  d.filterMap (fun n => match n.path with | k' :: r => if k' == k then some { n with path := r } else none | [] => none)

def sameNode (x y : DNode) (rootResize : Bool) : Bool :=
  x.path == y.path && x.n == y.n && x.parts == y.parts &&
  (x.acts == y.acts || (rootResize && x.path == [] && x.acts == [] && y.acts.all (fun a => a.1 == 0 && a.2 == 0)))

/-- `new` is exactly `old` (as a set of nodes); the root may have been given its (all-zero) action nodes -/
def sameDump (old new : List DNode) : Bool :=
  old.length == new.length && old.all (fun x => match findNode new x.path with | some y => sameNode x y true | none => false)

/-- `y` extends `x` (`advance_extends_subtree`): counts do not go down, particles are only appended -/
def extendsNode (x y : DNode) : Bool :=
  decide (x.n ≤ y.n) && decide (x.acts.length ≤ y.acts.length) &&
  (List.range x.acts.length).all (fun a => decide ((x.acts.getD a (0, 0)).1 ≤ (y.acts.getD a (0, 0)).1)) &&
  x.parts.isPrefixOf y.parts

/-- every node of `old` is still in `new`, extended -/
def extendsDump (old new : List DNode) : Bool :=
  old.all (fun x => match findNode new x.path with | some y => extendsNode x y | none => false)

structure St where
  t : Tree
  prev : List DNode
  budget : Nat           -- strict (no overrun) budget, tracked from the impl's own dumps
  rootStates : List Nat
  diffs : List String
  fails : List String
  sims : Nat

def runCall (g : Gm) (mk : Rat → Mdl) (st : St) (c : CallRec) : St :=
  let cn := comp g
  let m := mk c.expl   -- `setExploration` between calls: the bonus of this call
  let bs := c.bs
  let rootD := findNode c.dump []
  let rootParts := match rootD with | some r => r.parts | none => []
  let rootNA := match rootD with | some r => r.acts.length | none => 0
  -- external choices for the restart: MCTS restarts at the given state; POMCP's particles are read off the dump
  let parts := if g.kind == 2 then rootParts else (if c.fresh then c.support else [c.k])
  let nA := if g.kind == 2 then g.amax else g.nA (parts.headD 0)
  let op := if c.fresh then Op.fresh parts nA c.h c.iters else Op.adv c.a c.k parts nA c.h c.iters
  let hit := !c.fresh && (findNode st.prev [(c.a, c.k)]).isSome
  -- ---------- clauses on the implementation's own output
  let fails := st.fails
  let fails := if c.ret ≥ rootNA || rootNA != nA then fails ++ [s!"{cn} invalid_action returned={c.ret} actions={nA} root_children={rootNA}"] else fails
  let budget := if hit then (if st.budget - 1 < c.h then c.h else st.budget - 1) else c.h
  let fails := fails ++ (dumpClauses g c.dump (budget + m.overrun) true).map (fun s => s!"{cn} {s}")
  let rootStates := if g.kind == 2 then rootParts else parts
  let fails := fails ++ (consistentClauses g c.dump rootStates).map (fun s => s!"{cn} {s}")
  let fails := if c.fresh && g.kind == 2 && !(rootParts.all (fun s => c.support.contains s)) then
      fails ++ [s!"{cn} particle_inconsistent root particles {rootParts} outside the support {c.support} of the given belief"] else fails
  let fails := if g.kind == 2 && !(rootParts.all (fun s => decide (s < g.nS))) then fails ++ [s!"{cn} particle_inconsistent root particle out of range"] else fails
  -- promotion with zero iterations: the new tree is exactly the old subtree, or a clean restart
  let fails := if !c.fresh && c.iters == 0 then
      (if hit then
         (if sameDump (subtreeOf st.prev (c.a, c.k)) c.dump then fails
          else fails ++ [s!"{cn} advance_not_subtree after ({c.a},{c.k})"])
       else if c.dump.length != 1 || !(c.dump.all (fun n => n.n == 0 && n.acts.all (fun a => a.1 == 0 && a.2 == 0))) then
          fails ++ [s!"{cn} advance_restart_not_clean after ({c.a},{c.k}) nodes={c.dump.length}"] else fails)
    else fails
  -- the generative model is only ever asked about actions that exist in the state it is asked about (UCT and the rollout)
  let fails := match c.log.find? (fun st => decide (g.nA st.s ≤ st.a)) with
    | some st => fails ++ [s!"{cn} model_called_with_invalid_action state={st.s} action={st.a} actions={g.nA st.s}"]
    | none => fails
  -- promotion followed by simulations: the promoted subtree is still there, only extended (`advance_extends_subtree`)
  let fails := if hit && c.iters != 0 && !(extendsDump (subtreeOf st.prev (c.a, c.k)) c.dump) then
      fails ++ [s!"{cn} advance_lost_subtree after ({c.a},{c.k}) iters={c.iters}: a node of the promoted subtree is missing or shrank"] else fails
  -- ---------- trace validation against the transition system
  let diffs := st.diffs
  let (t', diffs, fails) := match call m st.t op c.log with
    | none => (st.t, diffs ++ [s!"{cn} trace_not_a_run call h={c.h} iters={c.iters} steps={c.log.length}"], fails)
    | some (t', rest) =>
      let diffs := if rest.length != 0 then diffs ++ [s!"{cn} trace_longer_than_run extra_steps={rest.length} h={c.h} iters={c.iters}"] else diffs
      let (sd, vd) := compareTree (g.kind == 2) t' c.dump
      let diffs := diffs ++ (sd.take 3).map (fun s => s!"{cn} tree {s}")
      -- same structure and counts, different value: the estimate is not the mean of the returns sampled through it
      let fails := if sd.isEmpty && rest.length == 0 then fails ++ (vd.take 2).map (fun s => s!"{cn} v_not_mean {s}") else fails
      let diffs := if !sd.isEmpty then diffs ++ (vd.take 1).map (fun s => s!"{cn} tree {s}") else diffs
      (t', diffs, fails)
  -- returned action = first maximum of the root values (tie-break of std::max_element); not a property clause
  let rootVs : List Rat := match rootD with | some r => r.acts.map (fun x => x.2) | none => []
  let bestM := if c.h == 0 then 0 else argmaxV (fun a => rootVs.getD a 0) rootVs.length
  let diffs := if bestM != c.ret then diffs ++ [s!"{cn} returned_action model={bestM} impl={c.ret}"] else diffs
  -- POMCP: a belief built by `makeSampledBelief` (fresh call, restart) holds exactly `beliefSize_` particles
  let diffs := if g.kind == 2 && !hit && rootParts.length != bs then diffs ++ [s!"{cn} root_belief_size model={bs} impl={rootParts.length}"] else diffs
  { t := t', prev := c.dump, budget := budget, rootStates := rootStates, diffs := diffs, fails := fails, sims := st.sims + c.iters }

def emptyTree : Tree := Tree.fresh [] 0 0

def slackTol : Rat := 1 / 1000000000
/-- the near-tie slack on UCT scores, scaled with the magnitude of the returns (rounding of `V` is relative) -/
def slackFor (g : Gm) : Rat :=
  let mag := if absQ g.rmin < absQ g.rmax then absQ g.rmax else absQ g.rmin
  slackTol * (if mag < 1 then 1 else 16 * mag)

def run : P String := do
  let g ← pGm
  let _expl ← P.q; let _bs ← P.nat; let _ent ← P.bool
  let calls ← pCalls 64
  P.eof
  let st0 : St := { t := emptyTree, prev := [], budget := 0, rootStates := [], diffs := [], fails := [], sims := 0 }
  let st := calls.foldl (runCall g (fun e => g.mdl e none false)) st0
  -- a run the strict selection rule rejects but a 1e-9 slack on the scores accepts: rounding of V decided a near-tie
  if !st.diffs.isEmpty && st.fails.isEmpty then
    let st2 := calls.foldl (runCall g (fun e => g.mdl e (some (slackFor g)) false)) st0
    if st2.diffs.isEmpty && st2.fails.isEmpty then return "skip ill_conditioned_uct_tie" else pure ()
  let v : Verdict := { tag := (if st.sims == 0 then "trivial" else comp g), diffs := st.diffs, fails := st.fails }
  return v.render

/-- `hz kind h iters rootT clamped n t₁ … t_n`: strict horizon clause from the state ids alone:
    every call of the generative model is made on a state fewer than `h` transitions below the root -/
def hz : P String := do
  let kind ← P.nat; let h ← P.nat; let iters ← P.nat; let rootT ← P.nat; let _cl ← P.nat
  let ts ← P.nats; P.eof
  let cn := if kind == 2 then "POMCP" else if kind == 3 then "rPOMCP" else "MCTS"
  let worst := ts.foldl (fun w t => if t - rootT > w then t - rootT else w) 0
  let v : Verdict := { tag := if ts.isEmpty then "trivial" else "hz" }
  let v := v.failIf (ts.any (fun t => t < rootT)) s!"{cn} call_above_root"
  -- an excess of up to two steps is the recorded rollout-length defect; anything beyond is a different failure
  let v := v.failIf (worst ≥ h + 2 && !ts.isEmpty) s!"{cn} depth_exceeds_horizon_by_3_or_more horizon={h} deepest_call_depth={worst} iters={iters}"
  let v := v.failIf (ts.length > (h + 2) * iters) s!"{cn} depth_exceeds_horizon_by_3_or_more total_calls={ts.length} > (horizon+2)*iterations"
  let v := v.failIf (worst ≥ h && !ts.isEmpty) s!"{cn} depth_exceeds_horizon horizon={h} deepest_call_depth={worst} (allowed < {h}) iters={iters}"
  let v := v.failIf (ts.length > h * iters) s!"{cn} depth_exceeds_horizon total_calls={ts.length} > horizon*iterations={h * iters}"
  return v.render

/-- plain (non-layered) runs: only the pigeonhole form is available from the outputs alone -/
def hzp : P String := do
  let kind ← P.nat; let h ← P.nat; let iters ← P.nat; let n ← P.nat; P.eof
  let cn := if kind == 2 then "POMCP" else if kind == 3 then "rPOMCP" else "MCTS"
  let v : Verdict := { tag := if n == 0 then "trivial" else "hzp" }
  let v := v.failIf (n > (h + 2) * iters) s!"{cn} depth_exceeds_horizon_by_3_or_more total_calls={n} > (horizon+2)*iterations"
  let v := v.failIf (n > h * iters) s!"{cn} depth_exceeds_horizon total_calls={n} > horizon*iterations={h * iters}"
  return v.render

/-- `rng kind gamma rmin rmax budget dump`: strict return-range clause on the dumped values alone -/
def rng : P String := do
  let kind ← P.nat; let gamma ← P.q; let rmin ← P.q; let rmax ← P.q; let budget ← P.nat
  let dump ← P.list pDNode; P.eof
  let g : Gm := { kind, layered := false, nb := 1, tcap := 1, nO := 1, amax := 1, gamma, rmin, rmax, termR := 0, numA := [], term := [], out := [] }
  let fs := dumpClauses g dump budget false
  let v : Verdict := { tag := if dump.length ≤ 1 then "trivial" else "rng" }
  let v := { v with fails := (fs.filter (fun (s : String) => s.startsWith "value_outside")).map (fun s => s!"{comp g} {s}") }
  return v.render

/-! rPOMCP -/

structure RNode where
  path : Path
  n : Nat
  tb : List (Nat × Nat)
  km : Rat
  v : Rat
  actV : Rat
  acts : List (Nat × Rat)

def pPair : P (Nat × Nat) := do let a ← P.nat; let b ← P.nat; pure (a, b)
def pRNode : P RNode := do
  let path ← P.list pKey; let n ← P.nat; let tb ← P.list pPair
  let km ← pVal; let v ← pVal; let actV ← pVal; let acts ← P.list pAct
  pure { path, n, tb, km, v, actV, acts }

structure RCallRec where
  fresh : Bool
  support : List Nat
  a : Nat
  k : Nat
  h : Nat
  iters : Nat
  ret : Nat
  expl : Rat
  bs : Nat
  log : List Step
  dump : List RNode

def pRCall : P (Option RCallRec) := do
  let t ← P.tok
  if t == "end" then pure none
  else
    let (fresh, support, a, k) ←
      (if t == "fresh" then do let s ← P.nats; pure (true, s, 0, 0)
       else if t == "adv" then do let a ← P.nat; let k ← P.nat; pure (false, [], a, k)
       else P.fail : P (Bool × List Nat × Nat × Nat))
    let h ← P.nat; let iters ← P.nat; let ret ← P.nat; let expl ← P.q; let bs ← P.nat
    let log ← P.list pStep
    let dump ← P.list pRNode
    pure (some { fresh, support, a, k, h, iters, ret, expl, bs, log, dump })

def pRCalls : Nat → P (List RCallRec)
  | 0 => P.fail
  | fuel+1 => do
    match ← pRCall with
    | none => pure []
    | some c => do let r ← pRCalls fuel; pure (c :: r)

def findRNode (d : List RNode) (p : Path) : Option RNode := d.find? (fun n => n.path == p)

def compareRTree (t : R.RTree) (d : List RNode) : List String × List String :=
  let s0 : List String := if t.nodes.length != d.length then [s!"node_count model={t.nodes.length} impl={d.length}"] else []
  d.foldl (fun (acc : List String × List String) n =>
    let p := n.path
    let sd := acc.1
    let sd := if !(t.ex p) then sd ++ [s!"node {p} absent in model"] else sd
    let sd := if t.nN p != n.n then sd ++ [s!"N at {p} model={t.nN p} impl={n.n}"] else sd
    let sd := if t.nA p != n.acts.length then sd ++ [s!"nA at {p} model={t.nA p} impl={n.acts.length}"] else sd
    -- particle counts (non-root: the root's map is moved into the private sampling vector)
    let sd := if p != [] && !(n.tb.all (fun sc => t.tb p sc.1 == sc.2) && (t.keys p).all (fun s => t.tb p s == 0 || n.tb.any (fun sc => sc.1 == s)))
              then sd ++ [s!"particles at {p} model={(t.keys p).map (fun s => (s, t.tb p s))} impl={n.tb}"] else sd
    let vd := acc.2
    let vd := if p != [] && !(closeQ tol (t.km p) n.km) then vd ++ [s!"knowledge at {p} model={ratStr (t.km p)} impl={ratStr n.km}"] else vd
    let vd := if !(closeQ tol (t.v p) n.v) then vd ++ [s!"node V at {p} model={ratStr (t.v p)} impl={ratStr n.v}"] else vd
    let vd := if p != [] && !(closeQ tol (t.actV p) n.actV) then vd ++ [s!"actionsV at {p} model={ratStr (t.actV p)} impl={ratStr n.actV}"] else vd
    (List.range n.acts.length).foldl (fun (acc2 : List String × List String) a =>
      let (an, av) := n.acts.getD a (0, 0)
      let s2 := if t.aN p a != an then acc2.1 ++ [s!"N at {p} action {a} model={t.aN p a} impl={an}"] else acc2.1
      let v2 := if !(closeQ tol (t.aV p a) av) then acc2.2 ++ [s!"V at {p} action {a} mean_of_datapoints={ratStr (t.aV p a)} impl={ratStr av}"] else acc2.2
      (s2, v2)) (sd, vd)) (s0, [])

/-- clauses on one rPOMCP dump alone: particle counts add up to the visits; every particle state is reachable
    from a particle of the parent (root: unknown, the sampling vector is private) -/
def rDumpClauses (g : Gm) (d : List RNode) : List String :=
  d.foldl (fun (acc : List String) n =>
    match n.path.reverse with
    | [] => acc
    | (a, k) :: revParent =>
      let parent := revParent.reverse
      let tot := n.tb.foldl (fun s x => s + x.2) 0
      let acc := if tot != n.n then acc ++ [s!"particle_inconsistent at {n.path}: {tot} particles for {n.n} visits"] else acc
      match findRNode d parent with
      | none => acc ++ [s!"orphan_node at {n.path}"]
      | some pn =>
        if parent == [] then acc else
        n.tb.foldl (fun acc sc =>
          let x := sc.1
          if sc.2 == 0 then acc else
          let ok := pn.tb.any (fun pc => pc.2 != 0 &&
            (let s := pc.1
             (if g.isTerm s then x % g.nb == s % g.nb && k == 0
              else (g.out.getD ((s % g.nb) * g.amax + a) []).any (fun oc => oc.1 == x % g.nb && oc.2.1 == k)) &&
             (if g.layered then x / g.nb == (if s / g.nb + 1 ≥ g.tcap then g.tcap - 1 else s / g.nb + 1) else x / g.nb == s / g.nb)))
          if ok then acc else acc ++ [s!"particle_inconsistent at {n.path}: state {x} not reachable by action {a} obs {k} from the parent's particles {pn.tb}"]) acc) []

/-- rPOMCP, max-of-belief: action values against `[0, 1 + γ + … + γ^(rem-1)]`, `rem` = steps left below the node -/
def rRangeClauses (g : Gm) (d : List RNode) (budget : Nat) : List String :=
  d.foldl (fun (acc : List String) n =>
    let rem := budget - n.path.length
    let hi := hiR g.gamma 1 rem
    n.acts.foldl (fun acc x => if x.1 != 0 && (x.2 < 0 - tol || hi + tol < x.2) then
      acc ++ [s!"value_outside_return_range at {n.path} depth={n.path.length} steps_left={rem} V={ratStr x.2} N={x.1} range=[0,{ratStr hi}]"] else acc) acc) []

structure RSt where
  budget : Nat := 0
  t : R.RTree
  prev : List RNode
  diffs : List String
  fails : List String
  sims : Nat

def sameRNode (x y : RNode) : Bool :=
  x.path == y.path && x.n == y.n && x.km == y.km && x.actV == y.actV &&
  (x.path == [] || (x.tb == y.tb && x.v == y.v)) &&
  (x.acts == y.acts || (x.path == [] && x.acts == [] && y.acts.all (fun a => a.1 == 0 && a.2 == 0)))

def runRCall (g : Gm) (mk : Rat → Mdl) (kk : Nat) (st : RSt) (c : RCallRec) : RSt :=
  let cn := "rPOMCP"
  let m := mk c.expl
  let rootD := findRNode c.dump []
  let rootNA := match rootD with | some r => r.acts.length | none => 0
  let allS := List.range g.nS
  let op := if c.fresh then Op.fresh c.support g.amax c.h c.iters else Op.adv c.a c.k allS g.amax c.h c.iters
  let hit := !c.fresh && (findRNode st.prev [(c.a, c.k)]).isSome
  let fails := st.fails
  let fails := if c.ret ≥ rootNA || rootNA != g.amax then fails ++ [s!"{cn} invalid_action returned={c.ret} actions={g.amax} root_children={rootNA}"] else fails
  let fails := fails ++ (rDumpClauses g c.dump).map (fun s => s!"{cn} {s}")
  let fails := if !c.fresh && c.iters == 0 then
      (if hit then
         (let sub := st.prev.filterMap (fun n => match n.path with | k' :: r => if k' == (c.a, c.k) then some { n with path := r } else none | [] => none)
          if sub.length == c.dump.length && sub.all (fun x => match findRNode c.dump x.path with | some y => sameRNode x y | none => false) then fails
          else fails ++ [s!"{cn} advance_not_subtree after ({c.a},{c.k})"])
       else if c.dump.length != 1 || !(c.dump.all (fun n => n.n == 0 && n.acts.all (fun a => a.1 == 0 && a.2 == 0))) then
          fails ++ [s!"{cn} advance_restart_not_clean after ({c.a},{c.k}) nodes={c.dump.length}"] else fails)
    else fails
  let fails := if hit && c.iters != 0 then
      (let sub := st.prev.filterMap (fun n => match n.path with | k' :: r => if k' == (c.a, c.k) then some { n with path := r } else none | [] => none)
       if sub.all (fun x => match findRNode c.dump x.path with
            | some y => decide (x.n ≤ y.n) && decide (x.acts.length ≤ y.acts.length) &&
                        (List.range x.acts.length).all (fun a => decide ((x.acts.getD a (0, 0)).1 ≤ (y.acts.getD a (0, 0)).1)) &&
                        (x.path == [] || x.tb.all (fun sc => y.tb.any (fun tc => tc.1 == sc.1 && decide (sc.2 ≤ tc.2))))
            | none => false) then fails
       else fails ++ [s!"{cn} advance_lost_subtree after ({c.a},{c.k}) iters={c.iters}: a node of the promoted subtree is missing or shrank"])
    else fails
  -- max-of-belief: the "returns" are knowledge measures in [0, 1] (`R.km_is_max_frequency`), one per step: every action value
  -- must lie in the range of discounted sums over the remaining horizon (strict bound: `rrng` line; here with no slack either,
  -- the rPOMCP simulations never run past the horizon)
  let budget := if hit then (if st.budget - 1 < c.h then c.h else st.budget - 1) else c.h
  let fails := if !m.entropy then fails ++ (rRangeClauses g c.dump budget).map (fun s => s!"{cn} {s}") else fails
  let diffs := st.diffs
  let (t', diffs, fails) := match R.rcall m kk st.t op c.log with
    | none => (st.t, diffs ++ [s!"{cn} trace_not_a_run call h={c.h} iters={c.iters} steps={c.log.length}"], fails)
    | some (t', rest) =>
      let diffs := if rest.length != 0 then diffs ++ [s!"{cn} trace_longer_than_run extra_steps={rest.length} h={c.h} iters={c.iters}"] else diffs
      let (sd, vd) := compareRTree t' c.dump
      let diffs := diffs ++ (sd.take 3).map (fun s => s!"{cn} tree {s}")
      let fails := if sd.isEmpty && rest.length == 0 then fails ++ ((vd.filter (fun (s : String) => s.startsWith "V at")).take 1).map (fun s => s!"{cn} v_not_mean {s}") else fails
      let diffs := diffs ++ ((vd.filter (fun (s : String) => !(s.startsWith "V at") || !sd.isEmpty)).take 2).map (fun s => s!"{cn} tree {s}")
      (t', diffs, fails)
  let rootVs : List Rat := match rootD with | some r => r.acts.map (fun x => x.2) | none => []
  let bestM := if c.h == 0 then 0 else argmaxV (fun a => rootVs.getD a 0) rootVs.length
  let diffs := if bestM != c.ret then diffs ++ [s!"{cn} returned_action model={bestM} impl={c.ret}"] else diffs
  { t := t', prev := c.dump, diffs := diffs, fails := fails, sims := st.sims + c.iters, budget := budget }

def rrun : P String := do
  let g ← pGm
  let _expl ← P.q; let kk ← P.nat; let ent ← P.bool
  let calls ← pRCalls 64
  P.eof
  let st0 : RSt := { t := R.RTree.fresh [] g.amax, prev := [], diffs := [], fails := [], sims := 0 }   -- the constructor allocates the head's A action nodes
  let st := calls.foldl (runRCall g (fun e => { g.mdl e none ent with pomcp := true }) kk) st0
  if !st.diffs.isEmpty && st.fails.isEmpty then
    let st2 := calls.foldl (runRCall g (fun e => { g.mdl e (some slackTol) ent with pomcp := true }) kk) st0
    if st2.diffs.isEmpty && st2.fails.isEmpty then return "skip ill_conditioned_uct_tie" else pure ()
  -- a value comparison decided by less than the tolerance: the double run may legitimately branch the other way
  match st.t.margin with
  | some d => if d < tol && st.fails.isEmpty && !st.diffs.isEmpty then return "skip ill_conditioned" else pure ()
  | none => pure ()
  let v : Verdict := { tag := (if st.sims == 0 then "trivial" else if ent then "rPOMCPent" else "rPOMCP"), diffs := st.diffs, fails := st.fails }
  return v.render

/-- `rcnt n (N sumA)*`: the literal count clause on rPOMCP's belief nodes -/
def rcnt : P String := do
  let l ← P.list pPair; P.eof
  let v : Verdict := { tag := if l.length ≤ 1 then "trivial" else "rcnt" }
  let bad := l.filter (fun x => x.1 != x.2)
  let v := v.failIf (!bad.isEmpty) s!"rPOMCP node_count_ne_sum {bad.length} of {l.length} nodes, e.g. N={(bad.headD (0,0)).1} sum over actions={(bad.headD (0,0)).2}"
  return v.render

/-- `trm kind calls fromTerminal`: calls of the generative model made on a terminal state that the previous call
    of the same simulation had just returned -/
def trm : P String := do
  let kind ← P.nat; let n ← P.nat; let ft ← P.nat; P.eof
  let cn := if kind == 2 then "POMCP" else if kind == 3 then "rPOMCP" else "MCTS"
  let v : Verdict := { tag := if n == 0 then "trivial" else "trm" }
  let v := v.failIf (ft != 0) s!"{cn} simulates_past_terminal_state {ft} of {n} calls were made on a terminal state reached in the same simulation"
  return v.render

/-- `lib n (log(k+1), 0.7*sqrt(log(k+1)/(1+k%7)), p*log p with p=(1+k%5)/(k+5))*`: the driver's double arithmetic
    (`Float.log`, `Float.sqrt`) reproduces the implementation's bit for bit -/
def lib : P String := do
  let n ← P.nat
  let rows ← P.rep (do let a ← P.x; let b ← P.x; let c ← P.x; pure (a, b, c)) n
  P.eof
  let bad := (List.range n).filter (fun i =>
    let k := i + 1
    let (a, b, c) := rows.getD i (.nan, .nan, .nan)
    let lg := Float.log (k.toFloat + 1.0)
    let bon := bonusF (ratToFloat (7 / 10 : Rat)) k (1 + k % 7)
    let pl := plogpF (1 + k % 5) (k + 5)
    !(floatToX lg == a && bon == b && XRat.fin pl == c))
  let v : Verdict := { tag := "lib" }
  let v := v.diffIf (!bad.isEmpty) s!"libm double arithmetic of the driver differs from the implementation's at samples {bad.take 5}"
  return v.render

/-- `rhead mode nS beliefParam ref head beliefSize_ mostCommon (pick res)* sync`: the head node of rPOMCP after one public
    call, as the implementation holds it (private `sampleBelief_`, `beliefSize_`).  `mode` 0: built from the given belief
    (`ref` = its support), 1: promoted child (`ref` = the child's particle map before the call), 2: restart from the uniform
    belief.  Clauses (on the implementation's own data; `R.headOk_sound`, `R.headFreshOk_sound`, `R.sampleWalk_spec`,
    `R.mostCommon_spec` say what they imply): the head's belief is exactly the promoted node's particles / inside the support
    of the given belief, `beliefSize_` is its total, every state `sampleBelief()` returns is a particle with positive count,
    `getMostCommonParticle()` has maximal count.  The exact walk and the exact scan are compared with the model (`diff`). -/
def rhead : P String := do
  let mode ← P.nat; let nS ← P.nat; let bp ← P.nat
  let ref ← P.list pPair
  let head ← P.list pPair
  let bsz ← P.nat; let mc ← P.nat
  let samples ← P.list pPair
  let sync ← P.bool
  P.eof
  let cn := "rPOMCP"
  let v : Verdict := { tag := "rhead" }
  let okHead := if mode == 1 then R.headOk ref head bsz
                else R.headFreshOk (if mode == 0 then ref.map (·.1) else List.range nS) head bp bsz
  let what := if mode == 1 then "promoted child's particle map" else if mode == 0 then "support of the given belief" else "uniform restart"
  let v := v.failIf (!okHead) s!"{cn} head_belief_inconsistent mode={mode} ({what}) ref={ref} sampleBelief_={head} beliefSize_={bsz} requested={bp}"
  -- draws
  let badState := samples.filter (fun pr => R.countOf head pr.2 == 0)
  let v := v.failIf (!badState.isEmpty) s!"{cn} sampled_state_not_a_particle (pick,state)={badState.headD (0,0)} sampleBelief_={head}"
  let v := v.diffIf (!sync) s!"{cn} head engine out of sync with the predicted draws"
  let v := v.diffIf (Gen.C19.sampleDrawLo != 1) "rPOMCP sampleBelief draw does not start at 1"
  let badWalk := samples.filter (fun pr => R.sampleWalk head (pr.1 : Int) != some pr.2)
  let v := v.diffIf (sync && !badWalk.isEmpty) s!"{cn} sampleBelief walk (pick,state)={badWalk.headD (0,0)} model={R.sampleWalk head ((badWalk.headD (0,0)).1 : Int)} sampleBelief_={head}"
  -- most common particle
  let v := v.failIf (R.countOf head mc < R.maxCount head || (R.maxCount head > 0 && R.countOf head mc == 0))
    s!"{cn} most_common_particle_wrong returned={mc} count={R.countOf head mc} max={R.maxCount head} sampleBelief_={head}"
  let v := v.diffIf (R.mostCommon head != some mc) s!"{cn} getMostCommonParticle model={R.mostCommon head} impl={mc}"
  return v.render

def handle (toks : List String) : String :=
  let r := match toks with
    | "run" :: rest => P.run run rest
    | "hz" :: rest => P.run hz rest
    | "hzp" :: rest => P.run hzp rest
    | "rng" :: rest => P.run rng rest
    | "rrun" :: rest => P.run rrun rest
    | "rcnt" :: rest => P.run rcnt rest
    | "trm" :: rest => P.run trm rest
    | "lib" :: rest => P.run lib rest
    | "rhead" :: rest => P.run rhead rest
    | _ => none
  r.getD "bad-op"

end DrvC19
