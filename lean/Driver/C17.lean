import AITB.Model.Proto
import AITB.Model.Codec
import AITB.Model.CodecNum
import AITB.Gen.Constants
import AITB.Gen.IOPrec
open AITB AITB.Codec

namespace DrvC17

/-- the model instance: exact rationals, library tolerance, writer precisions and reader facts from the source -/
def io : DblIO Rat := ratIO AITB.Gen.equalToleranceSmall
def prec : Prec := ⟨AITB.Gen.IOPrec.scalar, AITB.Gen.IOPrec.dense, AITB.Gen.IOPrec.sparse, AITB.Gen.IOPrec.pomdpPolicy, AITB.Gen.IOPrec.vector⟩
def prec17 : Prec := ⟨17, 17, 17, 17, 17⟩
def viaDouble : Bool := AITB.Gen.IOPrec.sparseTableViaDouble

inductive Obj where
  | dmodel (m : DModel Rat)
  | smodel (m : SModel Rat)
  | dexp (e : DExp Rat)
  | sexp (e : SExp Rat)
  | mpol (m : Mat Rat)
  | ppol (vf : VF Rat)
  | pdd (x : DModel Rat × List (Mat Rat))
  | pss (x : SModel Rat × List (SpMat Rat))
  | pds (x : SModel Rat × List (Mat Rat))
  | psd (x : DModel Rat × List (SpMat Rat))
  | vec (v : List Rat)
  deriving BEq

structure Shape where
  S : Nat
  A : Nat
  O : Nat

def component : String → String
  | "dmodel" => "MDP::Model"
  | "smodel" => "MDP::SparseModel"
  | "dexp" => "MDP::Experience"
  | "sexp" => "MDP::SparseExperience"
  | "mpol" => "MDP::Policy"
  | "ppol" => "POMDP::Policy"
  | "pdd" => "POMDP::Model<MDP::Model>"
  | "pss" => "POMDP::SparseModel<MDP::SparseModel>"
  | "pds" => "POMDP::Model<MDP::SparseModel>"
  | "psd" => "POMDP::SparseModel<MDP::Model>"
  | "vec" => "read(Vector)"
  | k => k

def Rd.map {α β} (f : α → β) (m : Rd α) : Rd β := Rd.bind m (fun a => Rd.pure (f a))

def readObj (vd : Bool) (kind : String) (sh : Shape) : Option (Rd Obj) :=
  match kind with
  | "dmodel" => some (Rd.map .dmodel (rdDModel io sh.S sh.A))
  | "smodel" => some (Rd.map .smodel (rdSModel io sh.S sh.A))
  | "dexp" => some (Rd.map .dexp (rdDExp io sh.S sh.A))
  | "sexp" => some (Rd.map .sexp (rdSExp io vd sh.S sh.A))
  | "mpol" => some (Rd.map .mpol (rdMPol io sh.S sh.A))
  | "ppol" => some (Rd.map .ppol (rdPPol io sh.S sh.A sh.O))
  | "pdd" => some (Rd.map .pdd (rdPD io (rdDModel io sh.S sh.A) sh.S sh.A sh.O))
  | "pss" => some (Rd.map .pss (rdPS io (rdSModel io sh.S sh.A) sh.S sh.A sh.O))
  | "pds" => some (Rd.map .pds (rdPD io (rdSModel io sh.S sh.A) sh.S sh.A sh.O))
  | "psd" => some (Rd.map .psd (rdPS io (rdDModel io sh.S sh.A) sh.S sh.A sh.O))
  | "vec" => some (Rd.map .vec (rdVec io sh.S))
  | _ => none

def writeObj (pr : Prec) : Obj → Stream
  | .dmodel m => wrDModel io pr m
  | .smodel m => wrSModel io pr m
  | .dexp e => wrDExp io pr e
  | .sexp e => wrSExp io pr e
  | .mpol m => wrMPol io pr m
  | .ppol vf => wrPPol io pr vf
  | .pdd x => wrPD io pr (wrDModel io pr) x
  | .pss x => wrPS io pr (wrSModel io pr) x
  | .pds x => wrPD io pr (wrSModel io pr) x
  | .psd x => wrPS io pr (wrDModel io pr) x
  | .vec v => wrVec io pr.vector v

def validObj (sh : Shape) : Obj → Bool
  | .dmodel m => dmodelValidB io sh.S sh.A m
  | .smodel m => smodelValidB io sh.S sh.A m
  | .dexp e => dexpValidB sh.S sh.A e
  | .sexp e => sexpValidB sh.S sh.A e
  | .mpol m => mpolValidB io sh.S sh.A m
  | .ppol vf => ppolValidB io sh.S sh.A sh.O vf
  | .pdd x => pdValidB io (dmodelValidB io sh.S sh.A) sh.S sh.A sh.O x
  | .pss x => psValidB io (smodelValidB io sh.S sh.A) sh.S sh.A sh.O x
  | .pds x => pdValidB io (smodelValidB io sh.S sh.A) sh.S sh.A sh.O x
  | .psd x => psValidB io (dmodelValidB io sh.S sh.A) sh.S sh.A sh.O x
  | .vec v => v.length == sh.S

/-! the hypothesis `IsDbl` of the `*_final` round-trip theorems, evaluated on every number of a generated object
    (`isDoubleB_iff_IsPosDbl`: the executable predicate is the structural one) -/
def matVals (m : Mat Rat) : List Rat := m.flatMap id
def spVals (m : SpMat Rat) : List Rat := m.map (·.v)
def dmodelVals (m : DModel Rat) : List Rat := m.discount :: (m.T.flatMap matVals ++ matVals m.R)
def smodelVals (m : SModel Rat) : List Rat := m.discount :: (m.T.flatMap spVals ++ spVals m.R)
def objValues : Obj → List Rat
  | .dmodel m => dmodelVals m
  | .smodel m => smodelVals m
  | .dexp e => matVals e.rewards ++ matVals e.m2
  | .sexp e => spVals e.rewards ++ spVals e.m2
  | .mpol m => matVals m
  | .ppol vf => vf.flatMap (fun l => l.flatMap (·.values))
  | .pdd x => dmodelVals x.1 ++ x.2.flatMap matVals
  | .pss x => smodelVals x.1 ++ x.2.flatMap spVals
  | .pds x => smodelVals x.1 ++ x.2.flatMap matVals
  | .psd x => dmodelVals x.1 ++ x.2.flatMap spVals
  | .vec v => v

/-! dump parsers (harness `dumpObj`) -/
def pMat (r c : Nat) : P (Mat Rat) := P.rep (P.rep P.q c) r
def pMat3 (k r c : Nat) : P (List (Mat Rat)) := P.rep (pMat r c) k
def pTab (r c : Nat) : P (Mat Nat) := P.rep (P.rep P.nat c) r
def pSp {V} (pv : P V) : P (SpMat V) := do
  let n ← P.nat
  P.rep (do let r ← P.nat; let c ← P.nat; let v ← pv; pure ⟨r, c, v⟩) n
def pDModel (sh : Shape) : P (DModel Rat) := do
  let d ← P.q; let t ← pMat3 sh.A sh.S sh.S; let r ← pMat sh.S sh.A; pure ⟨d, t, r⟩
def pSModel (sh : Shape) : P (SModel Rat) := do
  let d ← P.q; let t ← P.rep (pSp P.q) sh.A; let r ← pSp P.q; pure ⟨d, t, r⟩
def pEntry (S : Nat) : P (VEntry Rat) := do
  let v ← P.rep P.q S; let a ← P.nat; let o ← P.nats; pure ⟨v, a, o⟩

def pObj (kind : String) (sh : Shape) : P Obj :=
  match kind with
  | "dmodel" => do let m ← pDModel sh; pure (.dmodel m)
  | "smodel" => do let m ← pSModel sh; pure (.smodel m)
  | "dexp" => do
      let t ← P.nat; let v ← P.rep (pTab sh.S sh.S) sh.A; let vs ← pTab sh.S sh.A
      let r ← pMat sh.S sh.A; let m ← pMat sh.S sh.A; pure (.dexp ⟨t, v, vs, r, m⟩)
  | "sexp" => do
      let t ← P.nat; let v ← P.rep (pSp P.nat) sh.A; let vs ← pTab sh.S sh.A
      let r ← pSp P.q; let m ← pSp P.q; pure (.sexp ⟨t, v, vs, r, m⟩)
  | "mpol" => do let m ← pMat sh.S sh.A; pure (.mpol m)
  | "ppol" => do
      let n ← P.nat
      let vf ← P.rep (do let k ← P.nat; P.rep (pEntry sh.S) k) n
      pure (.ppol vf)
  | "pdd" => do let m ← pDModel sh; let o ← pMat3 sh.A sh.S sh.O; pure (.pdd (m, o))
  | "pss" => do let m ← pSModel sh; let o ← P.rep (pSp P.q) sh.A; pure (.pss (m, o))
  | "pds" => do let m ← pSModel sh; let o ← pMat3 sh.A sh.S sh.O; pure (.pds (m, o))
  | "psd" => do let m ← pDModel sh; let o ← P.rep (pSp P.q) sh.A; pure (.psd (m, o))
  | "vec" => do let v ← P.rep P.q sh.S; pure (.vec v)
  | _ => P.fail

def hexVal (c : Char) : Nat :=
  if c.toNat ≥ 97 then c.toNat - 87 else c.toNat - 48

def unhexAux : List Char → List Char
  | a :: b :: r => Char.ofNat (hexVal a * 16 + hexVal b) :: unhexAux r
  | _ => []
def unhex (s : String) : List Char := if s == "-" then [] else unhexAux s.toList

def pHead : P (String × Shape) := do
  let k ← P.tok; let s ← P.nat; let a ← P.nat; let o ← P.nat; pure (k, ⟨s, a, o⟩)

/-- outcome of one load as observed on the implementation -/
inductive Out where
  | failed (sig : Sig) (destSame : Bool)
  | good (rem : Stream) (y : Obj)
  /-- the same bytes loaded through a stream that reports failures by exception ended differently -/
  | exmode (plain ex : Nat)
  /-- loaded, but the object holds a non-finite value (duplicate triplets summed to inf): outside the quantifier -/
  | nonfinite

def pOut (kind : String) (sh : Shape) : P Out := do
  let t ← P.tok
  match t with
  | "f" => pure (.failed .failbit true)
  | "F" => pure (.failed .failbit false)
  | "t" => pure (.failed .threw true)
  | "T" => pure (.failed .threw false)
  | "g" => do let rem ← P.tok; let y ← pObj kind sh; pure (.good (tokenize (unhex rem)) y)
  | "X" => do let a ← P.nat; let b ← P.nat; pure (.exmode a b)
  | "N" => pure .nonfinite
  | _ => P.fail

def sigName : Sig → String
  | .failbit => "failbit"
  | .threw => "exception"

/-! tolerance margins: `isProbability` compares a double sum with 1 ± 1e-6; the model sums exactly.  When an object has a
    row whose |sum − 1| is within 1e-9 of the tolerance the two may legitimately disagree: such an outcome is not judged. -/
def nearTol (r : List Rat) : Bool :=
  decide (absR (absR (sumQ r - 1) - AITB.Gen.equalToleranceSmall) < 1 / 1000000000)
def illMat (m : Mat Rat) : Bool := m.any nearTol
def illSp (rows : Nat) (m : SpMat Rat) : Bool :=
  (List.range rows).any (fun i => nearTol (spRow m i) || nearTol ((spRow m i).map absR))
def illObj (sh : Shape) : Obj → Bool
  | .dmodel m => m.T.any illMat
  | .smodel m => m.T.any (illSp sh.S)
  | .mpol m => illMat m
  | .pdd x => x.1.T.any illMat || x.2.any illMat
  | .pss x => x.1.T.any (illSp sh.S) || x.2.any (illSp sh.S)
  | .pds x => x.1.T.any (illSp sh.S) || x.2.any illMat
  | .psd x => x.1.T.any illMat || x.2.any (illSp sh.S)
  | _ => false

def judgeCore (v : Verdict) (comp : String) (m : R Obj) (sh : Shape) (o : Out) (what : String) (saved : Option Obj) : Verdict :=
  match o, m with
  | .exmode a b, _ => v.failIf true s!"{comp} exception_mode_outcome_differs {what} plain={a} exceptions={b}"
  | .nonfinite, _ => { v with tag := if (v.tag.splitOn " ").contains "nonfinite_not_judged" then v.tag else v.tag ++ " nonfinite_not_judged" }
  | .failed sig same, .bad msig =>
      let v := v.failIf (!same) s!"{comp} dest_modified_on_failed_load {what} signal={sigName sig}"
      v.diffIf (sig != msig) s!"{comp} signal {what} model={sigName msig} impl={sigName sig}"
  | .failed sig same, .ok _ _ =>
      let v := v.failIf (!same) s!"{comp} dest_modified_on_failed_load {what} signal={sigName sig}"
      v.diffIf true s!"{comp} outcome {what} model=loaded impl={sigName sig}"
  | .good _ y, .bad msig =>
      let v := v.failIf (!(validObj sh y)) s!"{comp} loaded_invalid_object {what}"
      v.diffIf true s!"{comp} outcome {what} model={sigName msig} impl=loaded"
  | .good rem y, .ok ym mrest =>
      let v := v.failIf (!(validObj sh y)) s!"{comp} loaded_invalid_object {what}"
      let v := v.diffIf (rem != mrest) s!"{comp} unread_rest {what} model and impl leave different input unread"
      -- a sparse-table count read through a `double` and out of `unsigned long` range is converted by undefined
      -- behaviour: the value the implementation ends up with is unspecified, no comparison
      let ub := viaDouble && comp == "MDP::SparseExperience" && what.endsWith "hugeidx2"
      -- both report success on the same bytes: the objects must agree.  When the Lean reader's object is the SAVED
      -- object (the bytes still denote it) and the implementation reports success with something else, the property's
      -- own clause is false: a load that reports success must yield the saved object
      let differs := !ub && !(y == ym)
      let denotesSaved := match saved with | some x => ym == x | none => false
      let v := v.failIf (differs && denotesSaved) s!"{comp} loaded_object_differs_from_saved {what}"
      v.diffIf differs s!"{comp} loaded_object {what} model and impl load different objects"

/-- compare one implementation outcome with the model's on stream `s`; `what` labels the fault -/
def judge (v : Verdict) (comp : String) (rd : Rd Obj) (sh : Shape) (s : Stream) (o : Out) (what : String)
    (saved : Option Obj := none) : Verdict :=
  let m := rd s
  let ill := (match o with | .good _ y => illObj sh y | _ => false) || (match m with | .ok ym _ => illObj sh ym | _ => false)
  if ill then { v with tag := if (v.tag.splitOn " ").contains "ill_conditioned" then v.tag else v.tag ++ " ill_conditioned" }
  else judgeCore v comp m sh o what saved

def isStrictPrefix {α} [BEq α] : List α → List α → Bool
  | [], _ :: _ => true
  | a :: as, b :: bs => a == b && isStrictPrefix as bs
  | _, [] => false

/-- `rt kind S A O | hex | dump x | sig bitsame decisionDiffs destUntouched [dump y]` -/
def rt : P String := do
  let (kind, sh) ← pHead; P.bar
  let hex ← P.tok; P.bar
  let x ← pObj kind sh; P.bar
  let sig ← P.nat; let bitsame ← P.bool; let dd ← P.int; let _untouched ← P.bool
  let nd ← P.nat
  let decs ← P.rep (do let h ← P.nat; let s ← P.nat; let a ← P.nat; let id ← P.nat; pure (h, s, a, id)) nd
  let comp := component kind
  match readObj viaDouble kind sh with
  | none => P.fail
  | some rd =>
    let text := tokenize (unhex hex)
    let v : Verdict := { tag := "rt " ++ kind }
    -- writer: model text (at the precisions found in the source) vs the library's text, token by token
    let v := v.diffIf (writeObj prec x != text) s!"{comp} writer model and impl texts differ"
    let v := v.diffIf (!(validObj sh x)) s!"{comp} generator object not valid in the model"
    let v := v.diffIf (!((objValues x).all isDblB)) s!"{comp} generator object holds a number that is not a finite double (hypothesis IsDbl)"
    -- the trusted hypothesis of the round-trip theorems, evaluated on this object: written at 17 digits (and with the
    -- count read as an integer) the model must read back exactly x
    let rt17 := match readObj false kind sh with
      | some rd' => (match rd' (writeObj prec17 x) with | .ok y' _ => y' == x | _ => false)
      | none => false
    let v := v.diffIf (!rt17) s!"{comp} hypothesis a value of this object does not survive 17 significant digits in the model"
    -- decisions of the original at the simplex corners: model `decision` vs `Policy::sampleAction(b, h)`
    let v := match x with
      | .ppol vf => v.diffIf (decs.any (fun (h, s, a, id) =>
          decision vf h ((List.range sh.S).map (fun i => if i == s then (1 : Rat) else 0)) != some (a, id)))
          s!"{comp} decision model and impl choose different entries at a corner belief"
      | _ => v
    if sig != 0 then
      P.eof
      let v := v.failIf true s!"{comp} roundtrip_load_failed signal={sig}"
      return v.render
    else
      let remHex ← P.tok
      let y ← pObj kind sh; P.eof
      let trailer : Stream := ["77".toList, "@".toList, "tail".toList]
      let ym := rd (text ++ trailer)
      let v := match ym with
        | .ok _ mrest => v.diffIf (tokenize (unhex remHex) != mrest) s!"{comp} unread_rest model and impl leave different input unread after the round trip"
        | .bad _ => v
      -- the reader must stop exactly where the written object ends
      let v := v.failIf (tokenize (unhex remHex) != trailer) s!"{comp} roundtrip_consumed_wrong_amount"
      let v := match ym with
        | .ok ym _ => v.diffIf (!(ym == y)) s!"{comp} reader model and impl load different objects from the written text"
        | .bad e => v.diffIf true s!"{comp} reader model fails ({sigName e}) on the written text, impl loads"
      -- property clause on the implementation's own output
      let differs := !(y == x) || !bitsame
      let ymOK := match ym with | .ok ym _ => ym == y | _ => false
      let reload (pr : Prec) (vd : Bool) : Bool :=
        match readObj vd kind sh with
        | some rd' => (match rd' (writeObj pr x) with | .ok y' _ => y' == x | _ => false)
        | none => false
      -- the difference is attributed to a writer precision / to the count detour only when the model with the
      -- source's own facts reproduces it and the model with the fact repaired does not
      let explained : String :=
        if ymOK && !reload prec viaDouble && reload prec17 viaDouble then "_low_precision"
        else if ymOK && !reload prec17 viaDouble && reload prec17 false then "_count_via_double"
        else ""
      let v := v.failIf differs s!"{comp} roundtrip_differs{explained}"
      let v := v.failIf (dd != 0) s!"{comp} roundtrip_decision_differs {dd}"
      return v.render

def truncGo (kind : String) (sh : Shape) (comp : String) (rd : Rd Obj) (bytes : List Char) (full : Stream) (x : Obj) : Nat → Nat → Verdict → P Verdict
  | _, 0, v => pure v
  | k, fuel + 1, v => do
    let o ← pOut kind sh
    let s := tokenize (bytes.take k)
    -- only trailing white space removed (every token of the written object is still there): a load that reports
    -- success must give back the saved object (`roundtrip_trimmed_bytes`)
    let v := match o with
      | .good _ y => v.failIf (s == full && !(illObj sh y) && !(y == x)) s!"{comp} trimmed_file_loads_different_object prefix={k}"
      | _ => v
    let v := judge v comp rd sh s o s!"prefix={k}" (some x)
    -- a cut on a token boundary that removes at least one token must be rejected
    let v := match o with
      | .good _ _ => v.failIf (isStrictPrefix s full) s!"{comp} truncated_input_accepted prefix={k}"
      | _ => v
    truncGo kind sh comp rd bytes full x (k + 1) fuel v

/-- `trunc kind S A O | hex | n outcome*n` : outcome k = load of the first k bytes -/
def trunc : P String := do
  let (kind, sh) ← pHead; P.bar
  let hex ← P.tok; P.bar
  let x ← pObj kind sh; P.bar
  let n ← P.nat
  let comp := component kind
  match readObj viaDouble kind sh with
  | none => P.fail
  | some rd =>
    let bytes := unhex hex
    let full := tokenize bytes
    let v ← truncGo kind sh comp rd bytes full x 0 n { tag := "trunc " ++ kind }
    P.eof
    return v.render

def corruptToks (t : Stream) (i : Nat) (c : String) : Option Stream :=
  let pre := t.take i
  match t.drop i with
  | [] => none
  | x :: post =>
    match c with
    | "del" => some (pre ++ post)
    | "dup" => some (pre ++ x :: x :: post)
    | "neg1" => some (pre ++ "-1".toList :: post)
    | "big" => some (pre ++ "1e999".toList :: post)
    | "nan" => some (pre ++ "nan".toList :: post)
    | "abc" => some (pre ++ "abc".toList :: post)
    | "hugeidx" => some (pre ++ "4000000000".toList :: post)
    | "hugeidx2" => some (pre ++ "99999999999999999999".toList :: post)
    | "plus1" =>
        if x.all isDig && x.length < 18 then some (pre ++ printN (natOfDigits x + 1) :: post)
        else some (pre ++ ('1' :: x) :: post)
    | "flip" => some (pre ++ (match x with | '-' :: r => r | _ => '-' :: x) :: post)
    | "zero" => some (pre ++ "0".toList :: post)
    | "cnegA" => some ((pre ++ "1.5".toList :: post).set (i + 1) "-0.5".toList)
    | "cnegB" => some ((pre ++ "1.5".toList :: post).set (i + 3) "-0.5".toList)
    | _ => none

def corruptGo (kind : String) (sh : Shape) (comp : String) (rd : Rd Obj) (full : Stream) (x : Obj) : Nat → Verdict → P Verdict
  | 0, v => pure v
  | fuel + 1, v => do
    let i ← P.nat; let c ← P.tok
    let o ← pOut kind sh
    match corruptToks full i c with
    | none => P.fail
    | some s =>
      let v := judge v comp rd sh s o s!"token={i}:{c}" (some x)
      -- `corrupted_load_rejected`: a token no scanner accepts in place of any token of a written object must be rejected
      let v := match o with
        | .good _ _ => v.failIf (c == "abc" || c == "nan") s!"{comp} junk_token_accepted token={i}:{c}"
        | _ => v
      corruptGo kind sh comp rd full x fuel v

/-- `corrupt kind S A O | hex | n (i c outcome)*n` -/
def corrupt : P String := do
  let (kind, sh) ← pHead; P.bar
  let hex ← P.tok; P.bar
  let x ← pObj kind sh; P.bar
  let n ← P.nat
  let comp := component kind
  match readObj viaDouble kind sh with
  | none => P.fail
  | some rd =>
    let full := tokenize (unhex hex)
    let v ← corruptGo kind sh comp rd full x n { tag := "corrupt " ++ kind }
    P.eof
    return v.render

def bcorruptGo (kind : String) (sh : Shape) (comp : String) (rd : Rd Obj) (bytes : List Char) (x : Obj) : Nat → Verdict → P Verdict
  | 0, v => pure v
  | fuel + 1, v => do
    let pos ← P.nat; let c ← P.nat
    let o ← pOut kind sh
    let s := tokenize (bytes.set pos (Char.ofNat c))
    bcorruptGo kind sh comp rd bytes x fuel (judge v comp rd sh s o s!"byte={pos}:{c}" (some x))

/-- `bcorrupt kind S A O | hex | n (pos char outcome)*n` : one byte overwritten -/
def bcorrupt : P String := do
  let (kind, sh) ← pHead; P.bar
  let hex ← P.tok; P.bar
  let x ← pObj kind sh; P.bar
  let n ← P.nat
  let comp := component kind
  match readObj viaDouble kind sh with
  | none => P.fail
  | some rd =>
    let v ← bcorruptGo kind sh comp rd (unhex hex) x n { tag := "bcorrupt " ++ kind }
    P.eof
    return v.render

/-- `trim kind S A O | hex | dump x | decisionDiffs bitsame outcome` : the written text without its trailing white space
    (optionally one blank): every token is there, the last one ends at end-of-input -/
def trim : P String := do
  let (kind, sh) ← pHead; P.bar
  let hex ← P.tok; P.bar
  let x ← pObj kind sh; P.bar
  let dd ← P.int; let bitsame ← P.bool
  let comp := component kind
  match readObj viaDouble kind sh with
  | none => P.fail
  | some rd =>
    let o ← pOut kind sh; P.eof
    let s := tokenize (unhex hex)
    let v : Verdict := { tag := "trim " ++ kind }
    let v := v.diffIf (writeObj prec x != s) s!"{comp} writer model and impl texts differ (trimmed)"
    let v := match o with
      | .good _ y =>
          let v := v.failIf (!(y == x) || !bitsame) s!"{comp} trimmed_file_loads_different_object"
          v.failIf (dd != 0) s!"{comp} trimmed_file_decisions_differ {dd}"
      | _ => v
    let v := judge v comp rd sh s o "trimmed" (some x)
    return v.render

/-- `xload kind S' A' O' | hex | outcome` : a text written for another shape offered to a destination of shape S' A' O' -/
def xload : P String := do
  let (kind, sh) ← pHead; P.bar
  let hex ← P.tok; P.bar
  let comp := component kind
  match readObj viaDouble kind sh with
  | none => P.fail
  | some rd =>
    let o ← pOut kind sh; P.eof
    let v := judge { tag := "xload " ++ kind } comp rd sh (tokenize (unhex hex)) o "shape_mismatch"
    return v.render

/-- model state of one stream across consecutive loads: `none` = failbit set (sticky: every later read fails) -/
def seqStep (v : Verdict) (comp kind : String) (rd : Rd Obj) (sh : Shape) (st : Option Stream) (saved : Obj) (what : String) :
    P (Verdict × Option (Option Stream)) := do
  let o ← pOut kind sh
  let (rd', s) : Rd Obj × Stream := match st with | some s => (rd, s) | none => ((fun _ => .bad .failbit), [])
  let v := judge v comp rd' sh s o what (some saved)
  -- a load on a stream whose failbit is already set must fail and leave its destination alone
  let v := match st, o with
    | none, .good _ _ => v.failIf true s!"{comp} load_succeeded_on_failed_stream {what}"
    | _, _ => v
  let next : Option (Option Stream) := match rd' s, o with
    | .bad .threw, _ => none
    | _, .failed .threw _ => none
    | _, .nonfinite => none
    | .ok _ s', _ => some (some s')
    | .bad .failbit, _ => some none
  pure (v, next)

/-- `seq kindT S A O kindU | hex | dump x | dump y | ci label allSaved steps outcome…` : x, y, x written into one stream and
    read back one after the other through it (never cleared); one token optionally corrupted -/
def seq : P String := do
  let (kindT, sh) ← pHead; let kindU ← P.tok; P.bar
  let hex ← P.tok; P.bar
  let x ← pObj kindT sh; P.bar
  let y ← pObj kindU sh; P.bar
  let ci ← P.nat; let lab ← P.tok; let allSaved ← P.bool; let steps ← P.nat
  let compT := component kindT
  let compU := component kindU
  match readObj viaDouble kindT sh, readObj viaDouble kindU sh with
  | some rdT, some rdU =>
    let full := tokenize (unhex hex)
    let s0? := if lab == "none" then some full else corruptToks full ci lab
    match s0? with
    | none => P.fail
    | some s0 =>
      let v : Verdict := { tag := "seq " ++ kindT ++ " " ++ kindU }
      let v := v.diffIf (writeObj prec x ++ writeObj prec y ++ writeObj prec x != full) s!"{compT} writer model and impl texts differ (sequence)"
      let w := s!"seq token={ci}:{lab}"
      let (v, n1) ← seqStep v compT kindT rdT sh (some s0) x (w ++ " load=1")
      let (v, n2) ← match n1 with
        | some st => if steps ≥ 2 then seqStep v compU kindU rdU sh st y (w ++ " load=2") else pure (v.diffIf true s!"{compT} sequence model continues, impl stopped {w}", none)
        | none => pure (v.diffIf (steps ≥ 2) s!"{compT} sequence impl continues after an exception the model raises {w}", none)
      let (v, n3) ← match n2 with
        | some st => if steps ≥ 3 then seqStep v compT kindT rdT sh st x (w ++ " load=3") else pure (v.diffIf true s!"{compU} sequence model continues, impl stopped {w}", none)
        | none => pure (v, none)
      -- the property's clause on the uncorrupted sequence: three loads, each destination bit-identical to what was saved,
      -- nothing left unread
      let v := if lab == "none" then
          let v := v.failIf (!allSaved || steps != 3) s!"{compT} sequence_roundtrip_differs next={compU}"
          match n3 with
          | some (some []) => v
          | some (some _) => v.diffIf true s!"{compT} sequence leaves input unread in the model"
          | _ => v.diffIf true s!"{compT} sequence model fails on the written text"
        else v
      return v.render
  | _, _ => P.fail

/-- `rtbits kind | sig bitsame restOk` : objects holding -0.0 and denormals (no model: the rationals have no negative zero) -/
def rtbits : P String := do
  let kind ← P.tok; P.bar
  let sig ← P.nat; let bitsame ← P.bool; let restOk ← P.bool; P.eof
  let comp := component kind
  let v : Verdict := { tag := "rtbits " ++ kind }
  let v := v.failIf (sig != 0) s!"{comp} roundtrip_load_failed signal={sig} negative_zero"
  let v := v.failIf (sig == 0 && !bitsame) s!"{comp} roundtrip_differs_negative_zero"
  let v := v.failIf (sig == 0 && !restOk) s!"{comp} roundtrip_consumed_wrong_amount negative_zero"
  return v.render

def fmtGo (site : String) : Nat → Verdict → P Verdict
  | 0, v => pure v
  | n + 1, v => do
    let mode ← P.tok; let sig ← P.nat; let same ← P.bool; let restored ← P.bool
    -- the property's clause on the implementation's own output: what was written must load back identical
    let v := v.failIf (sig != 0 || !same) s!"{site} roundtrip_differs_stream_flags mode={mode} signal={sig}"
    let v := v.failIf (!restored) s!"{site} writer_leaves_stream_flags_changed mode={mode}"
    fmtGo site n v

/-- `fmt kind S A O | n (mode sig bitsame flagsRestored)*n` : the object written to a stream whose formatting flags are
    not the default ones, loaded from a fresh stream.  Component = the site that formats the numbers: the shared
    `write(os, …)` family of src/Utils/IO.cpp (every kind but the POMDP policy), or the POMDP policy writer. -/
def fmt : P String := do
  let (kind, _) ← pHead; P.bar
  let n ← P.nat
  let site := if kind == "ppol" then "POMDP::Policy" else "Utils::write"
  let v ← fmtGo site n { tag := "fmt " ++ kind }
  P.eof
  return v.render

/-- `rtcopy S A | sig dump x | dump y` : load into a copy-constructed MDP::Policy (not modelled: the model has no aliasing) -/
def rtcopy : P String := do
  let s ← P.nat; let a ← P.nat; P.bar
  let sig ← P.nat; let x ← pMat s a; P.bar; let y ← pMat s a; P.eof
  let v : Verdict := { tag := "rtcopy" }
  let v := v.failIf (sig != 0) s!"MDP::Policy roundtrip_load_failed signal={sig}"
  let v := v.failIf (x != y) "MDP::Policy load_not_visible_in_copied_policy"
  return v.render

def handle (toks : List String) : String :=
  match toks with
  | "rt" :: r => (P.run rt r).getD "bad-op"
  | "trunc" :: r => (P.run trunc r).getD "bad-op"
  | "corrupt" :: r => (P.run corrupt r).getD "bad-op"
  | "rtcopy" :: r => (P.run rtcopy r).getD "bad-op"
  | "xload" :: r => (P.run xload r).getD "bad-op"
  | "trim" :: r => (P.run trim r).getD "bad-op"
  | "bcorrupt" :: r => (P.run bcorrupt r).getD "bad-op"
  | "seq" :: r => (P.run seq r).getD "bad-op"
  | "fmt" :: r => (P.run fmt r).getD "bad-op"
  | "rtbits" :: r => (P.run rtbits r).getD "bad-op"
  | _ => "bad-op"

end DrvC17
