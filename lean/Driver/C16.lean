import AITB.Model.Proto
open AITB
namespace DrvC16

/-- `same <subject> <scenario> | n a… n b…` : two runs that the property requires to be bit-identical -/
def same : P String := do
  let subj ← P.tok; let scen ← P.tok; P.bar
  let a ← P.xs; let b ← P.xs; P.eof
  let eqX : XRat → XRat → Bool := fun x y => match x, y with
    | .nan, .nan => true | .pinf, .pinf => true | .ninf, .ninf => true
    | .fin p, .fin q => p == q | _, _ => false
  let rec firstDiff : List XRat → List XRat → Nat → Option Nat
    | [], [], _ => none
    | x :: xs, y :: ys, i => if eqX x y then firstDiff xs ys (i+1) else some i
    | _, _, i => some i
  match firstDiff a b 0 with
  | none => return (if a.length ≤ 1 then "ok trivial" else s!"ok {scen}")
  | some i => return s!"fail {subj} {scen} first_difference_at={i} a={a.getD i .nan} b={b.getD i .nan} lens={a.length},{b.length}"

def handle (toks : List String) : String :=
  (match toks with
   | "same" :: rest => P.run same rest
   | _ => none).getD "bad-op"
end DrvC16
