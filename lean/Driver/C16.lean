import AITB.Model.Proto
import AITB.Model.C16Check
open AITB
namespace DrvC16

/-- `same <subject> <scenario> | n a… n b…` : two runs that the property requires to be bit-identical -/
def same : P String := do
  let subj ← P.tok; let scen ← P.tok; P.bar
  let a ← P.xs; let b ← P.xs; P.eof
  match Hidden.firstDiff a b 0 with
  | none => return (if a.length ≤ 1 then "ok trivial" else s!"ok {scen}")
  | some i =>
    -- the clause failed either way; the kind says whether the two runs agree up to a few units in the last place (same
    -- discrete results, rounding differs) or really differ, so that a recorded last-bits finding cannot absorb a real one
    let scen := if Hidden.lastBitsOnly a b then scen ++ "_last_bits_only" else scen
    return s!"fail {subj} {scen} first_difference_at={i} a={a.getD i .nan} b={b.getD i .nan} lens={a.length},{b.length}"

/-- `differ <subject> <scenario> | n a… n b…` : two engine-driven streams that must not coincide -/
def differ : P String := do
  let subj ← P.tok; let scen ← P.tok; P.bar
  let a ← P.xs; let b ← P.xs; P.eof
  if a.length < Hidden.minStream then return "ok trivial"
  if Hidden.streamsDifferB a b then return s!"ok {scen}"
  return s!"fail {subj} {scen}_stream_identical len={a.length} (engine not seeded from the root seed: same stream for both)"

def handle (toks : List String) : String :=
  (match toks with
   | "same" :: rest => P.run same rest
   | "differ" :: rest => P.run differ rest
   | _ => none).getD "bad-op"
end DrvC16
