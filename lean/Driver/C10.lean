import AITB.Model.Proto
import AITB.Model.Cursor
import AITB.Model.Factored
import Driver.C10Util
open AITB AITB.Cursor

namespace DrvC10

/-- `match lk lv rk rv | result` : Factored::match on two partial assignments -/
def matchOp : P String := do
  let lk ← P.nats; let lv ← P.nats; let rk ← P.nats; let rv ← P.nats; P.bar
  let impl ← P.bool; P.eof
  let v : Verdict := { tag := if lk.isEmpty || rk.isEmpty then "trivial" else "match" }
  let m := matchPartial lk lv rk rv
  let v := v.diffIf (m != some impl) s!"Core::match model={m} impl={impl}"
  -- the property-level meaning: true iff no common key carries two different values
  let l := lk.zip lv; let r := rk.zip rv
  let spec := l.all (fun (k, x) => match AITB.Factored.lookup k r with | some y => x == y | none => true)
  let v := v.failIf (impl != spec) s!"Core::match wrong_answer impl={impl} spec={spec}"
  return v.render

/-- `inst <unit> | rc` : one instantiation unit compiled against the current headers -/
def inst : P String := do
  let unit ← P.tok; P.bar; let rc ← P.nat; P.eof
  if rc == 0 then return "ok inst" else return s!"fail {unit} does_not_instantiate rc={rc}"

/-- `range <component> | ok` : a documented call sequence returned only in-range results -/
def range : P String := do
  let comp ← P.tok; P.bar; let ok ← P.bool; P.eof
  if ok then return "ok range" else return s!"fail {comp} result_out_of_range"

/-- `api <function> | 0` : a public function that no harness references and nobody accounted for (tools/api_coverage.py) -/
def api : P String := do
  let f ← P.tok; P.bar; let ok ← P.bool; P.eof
  if ok then return "ok api" else return s!"fail {f} public_function_never_exercised"

/-- `odr <header> <function> | 1` : a non-inline function defined in a header -/
def odr : P String := do
  let h ← P.tok; let f ← P.tok; P.bar; let _ ← P.bool; P.eof
  return s!"fail odr:{h} multiple_definition {f}"

/-- `guard <component> <clause> | ok` : a call run in a forked child returned normally with the expected answer -/
def guard : P String := do
  let comp ← P.tok; let clause ← P.tok; P.bar; let ok ← P.bool; P.eof
  if ok then return "ok guard" else return s!"fail {comp} undefined_behaviour_{clause}"

/-- `crash <harness> <case> | <kind>` : sanitizer/abort/hang outcome of another property's harness (C10 runtime clause) -/
def crash : P String := do
  let h ← P.tok; let c ← P.tok; P.bar; let kind ← P.tok
  return s!"fail {h} {kind} case={c}"

/-- `fgcopy | <dump of source> | <dump of copy>` : a copy-constructed FactorGraph must be an exact replica
    (the static node pool is unobservable: AITB.Hidden.pool_unobservable / copy_is_replica) -/
def fgcopy (toks : List String) : String :=
  match toks with
  | "|" :: rest =>
      let a := rest.takeWhile (· != "|")
      let b := (rest.dropWhile (· != "|")).drop 1
      if a == b then (if a.length ≤ 2 then "ok trivial" else "ok fgcopy") else s!"fail FactorGraph copy_differs src={a.length}tok copy={b.length}tok"
  | _ => "bad-op"

def handle (toks : List String) : String :=
  (match toks with
   | "match" :: rest => P.run matchOp rest
   | "inst" :: rest => P.run inst rest
   | "range" :: rest => P.run range rest
   | "fgcopy" :: rest => some (fgcopy rest)
   | "crash" :: rest => P.run crash rest
   | "api" :: rest => P.run api rest
   | "guard" :: rest => P.run guard rest
   | "odr" :: rest => P.run odr rest
   | _ => DrvC10Util.handle toks).getD "bad-op"
end DrvC10
