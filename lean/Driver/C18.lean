import AITB.Model.Proto
import AITB.Model.Cassandra
import AITB.Model.CassandraPrint
import AITB.Gen.Constants
import AITB.Gen.Dispatch
open AITB AITB.Cassandra

namespace DrvC18

def hexVal (c : Char) : Option Nat :=
  if '0' ≤ c && c ≤ '9' then some (c.toNat - '0'.toNat)
  else if 'a' ≤ c && c ≤ 'f' then some (c.toNat - 'a'.toNat + 10)
  else none

def unhex : List Char → Option Str
  | [] => some []
  | a :: b :: r => do
      let x ← hexVal a; let y ← hexVal b; let t ← unhex r
      pure (Char.ofNat (16 * x + y) :: t)
  | _ => none

def decodeText (t : String) : Option Str := if t == "-" then some [] else unhex t.toList

inductive Expect where
  | any
  | rej (cls : String)
  | wf (S A O : Nat) (disc : XRat) (stmts : List (Char × Stmt)) (vals : List (String × String × XRat))

def pSel : P Sel := do
  let t ← P.tok
  if t == "*" then pure .all else match t.toNat? with | some n => pure (.idx n) | none => P.fail

def pStmt : P (Char × Stmt) := do
  let tb ← P.tok
  let a ← pSel
  let d1 ← pSel
  let k ← P.tok
  let c := tb.toList.headD 'T'
  if k == "e" then do
    let d3 ← pSel; let v ← P.x
    pure (c, ⟨a, d1, .entry d3 v⟩)
  else if k == "r" then do
    let vs ← P.xs
    pure (c, ⟨a, d1, .row vs⟩)
  else if k == "m" then do
    let rows ← P.list P.xs
    pure (c, ⟨a, .all, .matrix rows⟩)
  else P.fail

def pExpect : P Expect := do
  let t ← P.tok
  if t == "any" then pure .any
  else if t == "rej" then do let c ← P.tok; pure (.rej c)
  else if t == "wf" then do
    let S ← P.nat; let A ← P.nat; let O ← P.nat; let d ← P.x
    let st ← P.list pStmt
    P.lit "vals"
    let vals ← P.list (do let t ← P.tok; let e ← P.tok; let x ← P.x; pure (t, e, x))
    pure (.wf S A O d st vals)
  else P.fail

structure ImplParse where
  S : Nat
  A : Nat
  O : Nat
  disc : XRat
  T : List XRat
  R : List XRat
  W : List XRat

def pImplParse : P (Except String ImplParse) := do
  let t ← P.tok
  if t == "err" then do let c ← P.tok; pure (.error c)
  else if t == "ok" then do
    let S ← P.nat; let A ← P.nat; let O ← P.nat; let d ← P.x
    let T ← P.xs; let R ← P.xs; let W ← P.xs
    pure (.ok ⟨S, A, O, d, T, R, W⟩)
  else P.fail

def pImplCtor : P (Except String ImplParse) := do
  let t ← P.tok
  if t == "cerr" then do let c ← P.tok; pure (.error c)
  else if t == "cok" then do
    let S ← P.nat; let A ← P.nat; let O ← P.nat; let d ← P.x
    let T ← P.xs; let W ← P.xs; let ER ← P.xs
    pure (.ok ⟨S, A, O, d, T, ER, W⟩)
  else P.fail

def tol : Rat := AITB.Gen.equalToleranceSmall
def flags : Flags := AITB.Gen.Dispatch.flags

/-- rows of a flat [D1][D2][D3] table -/
def chunks (n : Nat) : Nat → List XRat → List (List XRat)
  | 0, _ => []
  | k + 1, l => l.take n :: chunks n k (l.drop n)

/-- validity of the implementation's own table + the margin of the tolerance comparison -/
def rowsValid (flat : List XRat) (nrows D3 : Nat) : Bool × Bool :=
  let rs := chunks D3 nrows flat
  let ok := rs.all (isProbability tol)
  let tight := rs.any fun r =>
    match r.foldl Cassandra.XRat.add (.fin 0) with
    | .fin p => decide (absQ (absQ (p - 1) - tol) < 1 / 1000000000)
    | _ => false
  (ok, tight)

def specTable (stmts : List (Char × Stmt)) (c : Char) (D1 D2 D3 : Nat) : List XRat :=
  let ss := (stmts.filter (·.1 == c)).map (·.2)
  (List.range D1).flatMap fun d1 => (List.range D2).flatMap fun a => (List.range D3).map fun d3 => specAt ss D1 D2 D3 d1 a d3

/-- expected rewards Σ_s1 R[s][a][s1]·T[s][a][s1] per (s,a) row, from flat tables; `none` if a value is not finite -/
def expRewards (T R : List XRat) (nrows S : Nat) : Option (List Rat) :=
  let toQ : XRat → Option Rat := fun x => match x with | .fin q => some q | _ => none
  ((chunks S nrows T).zip (chunks S nrows R)).mapM fun (tr, rr) => do
    let ts ← tr.mapM toQ
    let rs ← rr.mapM toQ
    pure ((ts.zip rs).foldl (fun acc p => acc + p.1 * p.2) 0)

def closeList (a : List Rat) (b : List XRat) : Bool :=
  a.length == b.length && (a.zip b).all fun (x, y) => match y with | .fin q => closeQ (1 / 1000000000) x q | _ => false

/-- the table of a write trace, in linear time; `replayList_eq_tableList` (Props.C18k) proves it equal to `tableList` -/
def tableOf (ws : List Write) (D1 D2 D3 : Nat) : List XRat := replayList ws D1 D2 D3

def containsHex : Str → Bool
  | '0' :: x :: r => (x == 'x' || x == 'X') || containsHex (x :: r)
  | _ :: r => containsHex r
  | [] => false

/-- L2b: operational model vs implementation, on one parser outcome -/
def diffParse (isP : Bool) (mp : R Parsed) (ip : Except String ImplParse) (v : Verdict) : Verdict :=
  match mp, ip with
    | .error e, .error c => v.diffIf (e.name != c) s!"CassandraParser error class model={e.name} impl={c}"
    | .error e, .ok _ => v.diffIf true s!"CassandraParser model rejects ({e.name}), impl accepts"
    | .ok _, .error c => v.diffIf true s!"CassandraParser model accepts, impl rejects ({c})"
    | .ok r, .ok i =>
        let p := r.pre
        let v := v.diffIf (p.S != i.S || p.A != i.A || (isP && p.O != i.O)) s!"CassandraParser sizes model={p.S},{p.A},{p.O} impl={i.S},{i.A},{i.O}"
        let v := v.diffIf (roundX p.disc != i.disc) s!"CassandraParser discount model={p.disc} impl={i.disc}"
        let v := v.diffIf ((tableOf r.st.wT p.S p.A p.S).map roundX != i.T) s!"CassandraParser T model={(tableOf r.st.wT p.S p.A p.S)} impl={i.T}"
        let v := v.diffIf ((tableOf r.st.wR p.S p.A p.S).map roundX != i.R) s!"CassandraParser R model={(tableOf r.st.wR p.S p.A p.S)} impl={i.R}"
        v.diffIf (isP && (tableOf r.st.wW p.S p.A p.O).map roundX != i.W) s!"CassandraParser W model={(tableOf r.st.wW p.S p.A p.O)} impl={i.W}"

def sameImpl (a b : Except String ImplParse) : Bool :=
  match a, b with
  | .error c, .error c' => c == c'
  | .ok x, .ok y => x.S == y.S && x.A == y.A && x.O == y.O && x.disc == y.disc && x.T == y.T && x.R == y.R && x.W == y.W
  | _, _ => false

/-- `reuse kind hexA hexB | fresh-outcome reused-outcome` : text B on a parser object that parsed text A before -/
def reuseCmd : P String := do
  let kt ← P.tok
  let k : Kind := if kt == "pomdp" then .pomdp else .mdp
  let ha ← P.tok
  let hb ← P.tok
  P.bar
  let fresh ← pImplParse
  let reused ← pImplParse
  P.eof
  match decodeText ha, decodeText hb with
  | some ta, some tb =>
    match parseModelInfo flags (splitLines ta) {} [] with
    | .error _ => pure "skip reuse_first_preamble_error"
    | .ok (prev, _) =>
      let huge : Bool := match parseModelInfo flags (splitLines tb) {} [] with
        | .ok (p, _) => decide (p.S * p.A * (max p.S p.O) > 100000) || decide (p.S > 1000) || decide (p.A > 1000) || decide (p.O > 1000)
        | .error _ => false
      if huge then pure "skip huge_sizes" else
      let v : Verdict := { tag := "reuse" ++ (match reused with | .ok _ => " accepted" | .error _ => " rejected") }
      -- model of the reused object (name tables of A carried over) vs the reused implementation object
      let v := diffParse (k == .pomdp) (parseWith flags k prev tb) reused v
      -- and the fresh model vs the fresh object
      let v := diffParse (k == .pomdp) (parse flags k tb) fresh v
      -- property clause on the implementation's own outputs: nothing of text A survives
      let v := v.failIf (!(sameImpl fresh reused)) "CassandraParser reuse_differs"
      pure v.render
  | _, _ => pure "bad-op hex"

def parseCmd : P String := do
  let kt ← P.tok
  let k : Kind := if kt == "pomdp" then .pomdp else .mdp
  let hx ← P.tok
  let ex ← pExpect
  P.bar
  let ip ← pImplParse
  let ic ← pImplCtor
  P.eof
  match decodeText hx with
  | none => pure "bad-op hex"
  | some text =>
  -- guard the driver against astronomically large declared sizes BEFORE running the main pass
  -- (a `*` over 2^64-1 actions would be expanded eagerly by the model)
  let huge : Bool := match parseModelInfo flags (splitLines text) {} [] with
    | .ok (p, _) => decide (p.S * p.A * (max p.S p.O) > 100000) || decide (p.S > 1000) || decide (p.A > 1000) || decide (p.O > 1000)
    | .error _ => false
  let isP := k == .pomdp
  -- sizes the guards of the parser reject are decided WITHOUT running the main pass: the model's verdict is then compared as usual
  let guardRejects : Bool := match parseModelInfo flags (splitLines text) {} [] with
    | .ok (p, _) => (p.S == 0 || p.A == 0 || (isP && p.O == 0)) ||
                    (flags.sizeGuard && !(extentFits p.S p.A p.S && (!isP || extentFits p.S p.A p.O)))
    | .error _ => false
  if huge && !guardRejects then pure "skip huge_sizes" else
  let mp := parse flags k text
  let tagE := match ex with | .any => "any" | .rej c => "rej_" ++ c | .wf .. => "wf"
  let v : Verdict := { tag := tagE ++ (match ip with | .ok _ => " accepted" | .error _ => " rejected") }
  -- ---------- L2b: operational model vs implementation
  let v := match mp, ip with
    | .error e, .error c => v.diffIf (e.name != c) s!"CassandraParser error class model={e.name} impl={c}"
    | .error e, .ok _ => v.diffIf true s!"CassandraParser model rejects ({e.name}), impl accepts"
    | .ok _, .error c => v.diffIf true s!"CassandraParser model accepts, impl rejects ({c})"
    | .ok r, .ok i =>
        let p := r.pre
        let v := v.diffIf (p.S != i.S || p.A != i.A || (isP && p.O != i.O)) s!"CassandraParser sizes model={p.S},{p.A},{p.O} impl={i.S},{i.A},{i.O}"
        let v := v.diffIf (roundX p.disc != i.disc) s!"CassandraParser discount model={p.disc} impl={i.disc}"
        let v := v.diffIf ((tableOf r.st.wT p.S p.A p.S).map roundX != i.T) s!"CassandraParser T model={(tableOf r.st.wT p.S p.A p.S)} impl={i.T}"
        let v := v.diffIf ((tableOf r.st.wR p.S p.A p.S).map roundX != i.R) s!"CassandraParser R model={(tableOf r.st.wR p.S p.A p.S)} impl={i.R}"
        v.diffIf (isP && (tableOf r.st.wW p.S p.A p.O).map roundX != i.W) s!"CassandraParser W model={(tableOf r.st.wW p.S p.A p.O)} impl={i.W}"
  -- the constructor outcome predicted from the implementation's own parse (model of the Model checks)
  let (v, illc) := match ip with
    | .error c => (v.diffIf (match ic with | .error c' => c' != c | .ok _ => true) s!"parseCassandra outcome differs from the parser's ({c})", false)
    | .ok i =>
        let (tOK, tTight) := rowsValid i.T (i.S * i.A) i.S
        let (wOK, wTight) := if isP then rowsValid i.W (i.S * i.A) i.O else (true, false)
        -- the property's own notion of a valid discount: a number in (0, 1]
        let dOK : Bool := match i.disc with | .fin q => decide (0 < q) && decide (q ≤ 1) | _ => false
        let dNan := false
        let valid := tOK && wOK
        let tight := tTight || wTight
        if tight then (v, true) else
        -- L2b for the entry point: the model of the constructor checks predicts accept / reject
        let mcOK := match parseCassandra flags tol k text with | .ok _ => true | .error _ => false
        let v := v.diffIf (mp.toOption.isSome && mcOK != ic.toOption.isSome) s!"parseCassandra model accepts={mcOK} impl accepts={ic.toOption.isSome}"
        match ic with
        | .ok m =>
            -- property clauses on the implementation's own output
            let v := v.failIf (!valid) s!"parseCassandra invalid_probability_accepted T={i.T} W={i.W}"
            let v := v.failIf (!dOK || dNan) s!"parseCassandra invalid_discount_accepted {i.disc}"
            let v := v.failIf (m.S != i.S || m.A != i.A || (isP && m.O != i.O) || m.disc != i.disc || m.T != i.T || (isP && m.W != i.W))
                      s!"parseCassandra model_differs_from_parse T={m.T} vs {i.T}"
            -- the model stores expected rewards: Σ_s1 R[s][a][s1]·T[s][a][s1]
            let v := match expRewards i.T i.R (i.S * i.A) i.S with
              | some er => v.failIf (!(closeList er m.R)) s!"parseCassandra model_differs_from_parse R={m.R} expected={er.map ratStr}"
              | none => v
            (v, false)
        | .error c =>
            let v := v.failIf (valid && dOK) s!"parseCassandra valid_model_rejected {c}"
            (v.diffIf (c != "invalid_argument") s!"parseCassandra error class impl={c}", false)
  if illc then pure "skip ill_conditioned" else
  -- ---------- L3: the property's clauses against the expectation of the generator
  let v := match ex with
    | .any => v
    | .rej cls =>
        if cls == "invalid_probability" || cls == "invalid_discount" then
          v.failIf ic.toOption.isSome s!"parseCassandra {cls}_accepted"
        else
          v.failIf ip.toOption.isSome s!"CassandraParser {cls}_accepted"
    | .wf S A O d stmts vals =>
        -- per value token: the model's reading of the literal is EXACTLY the rational the generator meant (no rounding involved),
        -- and its correctly rounded double is the one libc produced
        let bad := vals.filter fun (t, e, x) =>
          match decodeText t with
          | none => true
          | some tok =>
            match stodS flags tok with
            | .error _ => true
            | .ok mv =>
              (roundX mv != x) ||
              (if e == "-" then false else match parseQ? e with | some q => mv != XRat.fin q | none => true)
        let v := v.diffIf (!bad.isEmpty) s!"stod value of literal {bad.map (fun (p : String × String × XRat) => p.1)}"
        match ip with
        | .error c => v.failIf true s!"CassandraParser wellformed_rejected {c}"
        | .ok i =>
            let v := v.failIf (i.S != S || i.A != A || (isP && i.O != O)) s!"CassandraParser sizes_mismatch {i.S},{i.A},{i.O}"
            let v := v.failIf (i.disc != d) s!"CassandraParser discount_mismatch {i.disc}"
            let v := v.failIf (i.T != specTable stmts 'T' S A S) s!"CassandraParser table_mismatch T impl={i.T} spec={specTable stmts 'T' S A S}"
            let v := v.failIf (i.R != specTable stmts 'R' S A S) s!"CassandraParser table_mismatch R impl={i.R} spec={specTable stmts 'R' S A S}"
            v.failIf (isP && i.W != specTable stmts 'O' S A O) s!"CassandraParser table_mismatch W impl={i.W} spec={specTable stmts 'O' S A O}"
  pure v.render

def pDec : P Dec := do
  let s ← P.nat; let n ← P.nat; let e ← P.nat
  pure ⟨s == 1, n, e⟩

def pPStmt : P PStmt := do
  let tb ← P.tok
  let a ← pSel
  let d1 ← pSel
  let k ← P.tok
  let c := tb.toList.headD 'T'
  if k == "e" then do
    let d3 ← pSel; let v ← pDec
    pure ⟨c, a, d1, .entry d3 v⟩
  else if k == "ri" then do
    let vs ← P.list pDec
    pure ⟨c, a, d1, .rowInline vs⟩
  else if k == "rn" then do
    let vs ← P.list pDec
    pure ⟨c, a, d1, .rowNext vs⟩
  else if k == "m" then do
    let rows ← P.list (P.list pDec)
    pure ⟨c, a, .all, .matrix rows⟩
  else P.fail

/-- `canon kind hex S A O stmts | outcome`: a file AST rendered by the harness's canonical printer.
    (1) the Lean printer (`printFile`, proved correct for every AST: `Props.C18n.printFile_parses`) must produce the same text;
    (2) model vs implementation; (3) the implementation's own tables must be the meaning of the AST (`specAt`). -/
def canonCmd : P String := do
  let kt ← P.tok
  let k : Kind := if kt == "pomdp" then .pomdp else .mdp
  let hx ← P.tok
  let S ← P.nat; let A ← P.nat; let O ← P.nat
  let stmts ← P.list pPStmt
  P.bar
  let ip ← pImplParse
  P.eof
  match decodeText hx with
  | none => pure "bad-op hex"
  | some text =>
    let isP := k == .pomdp
    let f : PFile := ⟨k, S, A, O, stmts⟩
    let v : Verdict := { tag := "canon" ++ (match ip with | .ok _ => " accepted" | .error _ => " rejected") }
    let v := v.diffIf (printFile f != text) s!"renderer harness text differs from the Lean printer: {String.ofList (printFile f)}"
    let v := diffParse isP (parse flags k text) ip v
    let spec (c : Char) (D3 : Nat) : List XRat :=
      let ss := f.stmtsOf c
      (List.range S).flatMap fun d1 => (List.range A).flatMap fun a => (List.range D3).map fun d3 => roundX (specAt ss S A D3 d1 a d3)
    match ip with
    | .error c => pure (v.failIf true s!"CassandraParser canon_rejected {c}").render
    | .ok i =>
        let v := v.failIf (i.S != S || i.A != A || (isP && i.O != O) || i.disc != .fin 1) s!"CassandraParser canon_roundtrip_mismatch sizes {i.S},{i.A},{i.O} discount {i.disc}"
        let v := v.failIf (i.T != spec 'T' S) s!"CassandraParser canon_roundtrip_mismatch T impl={i.T} spec={spec 'T' S}"
        let v := v.failIf (i.R != spec 'R' S) s!"CassandraParser canon_roundtrip_mismatch R impl={i.R} spec={spec 'R' S}"
        let v := v.failIf (isP && i.W != spec 'O' O) s!"CassandraParser canon_roundtrip_mismatch W impl={i.W} spec={spec 'O' O}"
        pure v.render

def handle : List String → String
  | "canon" :: rest => (P.run canonCmd rest).getD "bad-op"
  | "parse" :: rest => (P.run parseCmd rest).getD "bad-op"
  | "reuse" :: rest => (P.run reuseCmd rest).getD "bad-op"
  | _ => "bad-op"

end DrvC18
