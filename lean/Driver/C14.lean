import AITB.Model.Proto
import AITB.Model.Factored
open AITB AITB.Factored

namespace DrvC14

def allB {α} (l : List α) (p : α → Bool) : Bool := l.all p

/-- `rt sp id | implFactors implIndex` : toFactors / toIndex round trip -/
def rt : P String := do
  let sp ← P.nats; let id ← P.nat; P.bar
  let implF ← P.nats; let implI ← P.nat; P.eof
  let mf := toFactors sp id
  let mi := toIndexLoop sp mf 0 1
  if mf != implF then return s!"diff toFactors model={mf} impl={implF}"
  if mi != implI then return s!"diff toIndex model={mi} impl={implI}"
  -- property clause evaluated on the implementation's own outputs: inverse + valid
  if !(validB sp implF) then return s!"fail toFactors invalid_tuple {implF}"
  if implI != id then return s!"fail toIndex not_inverse {implI}"
  return (if sp.length ≤ 1 then "ok trivial" else "ok rt")

/-- `part sp keys id | implVals implIdxPF implIdxFull` :
    toFactorsPartial, toIndexPartial(space, pf), toIndexPartial(keys, space, full f) -/
def part : P String := do
  let sp ← P.nats; let keys ← P.nats; let id ← P.nat; let full ← P.nats; P.bar
  let implV ← P.nats; let implI ← P.nat; let implI2 ← P.nat; let implSpace ← P.nat; P.eof
  let mv := toFactorsPartial keys sp id
  if mv != implV then return s!"diff toFactorsPartial model={mv} impl={implV}"
  if toIndexPartialPF sp keys mv != implI then return s!"diff toIndexPartialPF model={toIndexPartialPF sp keys mv} impl={implI}"
  if toIndexPartial keys sp full != implI2 then return s!"diff toIndexPartial model={toIndexPartial keys sp full} impl={implI2}"
  if spacePartial keys sp != implSpace then return s!"diff factorSpacePartial model={spacePartial keys sp} impl={implSpace}"
  if implI != id then return s!"fail toIndexPartial not_inverse {implI}"
  if !(validB (sel keys sp) implV) then return s!"fail toFactorsPartial invalid_tuple {implV}"
  return "ok part"

/-- `enum dims skip | size seq…` : PartialFactorsEnumerator run to exhaustion -/
def enum : P String := do
  let dims ← P.nats; let skip ← P.nat; P.bar
  let implSize ← P.nat; let implSeq ← P.natss; P.eof
  let msize := enumSize skip dims
  let mseq := enumAll skip dims (msize + 2)
  if msize != implSize then return s!"diff enum.size model={msize} impl={implSize}"
  if mseq != implSeq then return s!"diff enum.seq model={mseq} impl={implSeq}"
  -- property: each joint value exactly once in index order (on the impl's sequence)
  let idxs := implSeq.map (fun v => toIndex (er 0 skip dims) (er 0 skip v))
  if idxs != List.range (space (er 0 skip dims)) then return s!"fail enumerator not_in_index_order {idxs}"
  if !(implSeq.all (fun v => validB dims v)) then return s!"fail enumerator invalid_tuple"
  return "ok enum"

/-- `pie sp fixed val | seq` : PartialIndexEnumerator -/
def pie : P String := do
  let sp ← P.nats; let fixed ← P.nat; let val ← P.nat; P.bar
  let implSeq ← P.nats; P.eof
  let mseq := pieAll (pieInit sp fixed val) (space sp + 2)
  if mseq != implSeq then return s!"diff pie.seq model={mseq} impl={implSeq}"
  let expect := (List.range (space sp)).filter (fun id => (toFactors sp id).getD fixed 0 == val)
  if implSeq != expect then return s!"fail pie wrong_index_set {implSeq}"
  return "ok pie"

def pairs : P (List (Nat × Nat)) := do
  let k ← P.nats; let v ← P.nats
  if k.length != v.length then P.fail else pure (k.zip v)

/-- `merge l r | keys vals match` -/
def merge : P String := do
  let l ← pairs; let r ← pairs; P.bar
  let ik ← P.nats; let iv ← P.nats; let im ← P.bool; P.eof
  let m := mergePF l r
  if m != ik.zip iv || ik.length != iv.length then return s!"diff merge model={m} impl={ik.zip iv}"
  if matchPF l r != im then return s!"diff match model={matchPF l r} impl={im}"
  return "ok merge"

def handle (toks : List String) : String :=
  let r := match toks with
    | "rt" :: rest => P.run rt rest
    | "part" :: rest => P.run part rest
    | "enum" :: rest => P.run enum rest
    | "pie" :: rest => P.run pie rest
    | "merge" :: rest => P.run merge rest
    | _ => none
  r.getD "bad-op"

end DrvC14
