import AITB.Model.Proto
import AITB.Model.Factored
import Driver.C14b
import Driver.C14c
import AITB.Model.FactoredAlg
open AITB AITB.Factored

namespace DrvC14

def allB {α} (l : List α) (p : α → Bool) : Bool := l.all p

/-- `rt sp id | implFactors implIndex` : toFactors / toIndex round trip -/
def rt : P String := do
  let sp ← P.nats; let id ← P.nat; P.bar
  let implF ← P.nats; let implI ← P.nat; P.eof
  let mf := toFactors sp id
  let mi := toIndexLoop sp mf 0 1
  let v : Verdict := { tag := if sp.length ≤ 1 then "trivial" else "rt" }
  let v := v.diffIf (mf != implF) s!"toFactors model={mf} impl={implF}"
  let v := v.diffIf (mi != implI) s!"toIndex model={mi} impl={implI}"
  -- property clauses evaluated on the implementation's own outputs: inverse + valid
  let v := v.failIf (!(validB sp implF)) s!"toFactors invalid_tuple {implF}"
  let v := v.failIf (implI != id) s!"toIndex not_inverse {implI}"
  return v.render

/-- `part sp keys id full | implVals implIdxPF implIdxFull implSpace` -/
def part : P String := do
  let sp ← P.nats; let keys ← P.nats; let id ← P.nat; let full ← P.nats; P.bar
  let implV ← P.nats; let implI ← P.nat; let implI2 ← P.nat; let implSpace ← P.nat; P.eof
  let mv := toFactorsPartial keys sp id
  let v : Verdict := { tag := "part" }
  let v := v.diffIf (mv != implV) s!"toFactorsPartial model={mv} impl={implV}"
  let v := v.diffIf (toIndexPartialPF sp keys mv != implI) s!"toIndexPartialPF model={toIndexPartialPF sp keys mv} impl={implI}"
  let v := v.diffIf (toIndexPartial keys sp full != implI2) s!"toIndexPartial model={toIndexPartial keys sp full} impl={implI2}"
  let v := v.diffIf (spacePartial keys sp != implSpace) s!"factorSpacePartial model={spacePartial keys sp} impl={implSpace}"
  let v := v.failIf (implI != id) s!"toIndexPartial not_inverse {implI}"
  let v := v.failIf (implI2 != id) s!"toIndexPartial not_inverse_full {implI2}"
  let v := v.failIf (!(validB (sel keys sp) implV)) s!"toFactorsPartial invalid_tuple {implV}"
  return v.render

/-- `enum dims skip | size seq…` : PartialFactorsEnumerator run to exhaustion -/
def enum : P String := do
  let dims ← P.nats; let skip ← P.nat; P.bar
  let implSize ← P.nat; let implSeq ← P.natss; P.eof
  let msize := enumSize skip dims
  let mseq := enumAll skip dims (msize + 2)
  let v : Verdict := { tag := "enum" }
  let v := v.diffIf (msize != implSize) s!"enum.size model={msize} impl={implSize}"
  let v := v.diffIf (mseq != implSeq) s!"enum.seq model={mseq} impl={implSeq}"
  -- property: each joint value exactly once in index order (on the impl's sequence)
  let idxs := implSeq.map (fun w => toIndex (er 0 skip dims) (er 0 skip w))
  let v := v.failIf (idxs != List.range (space (er 0 skip dims))) s!"enumerator not_in_index_order {idxs}"
  let v := v.failIf (!(implSeq.all (fun w => validB dims w))) s!"enumerator invalid_tuple"
  let v := v.failIf (implSize != implSeq.length) s!"enumerator size_mismatch {implSize}"
  return v.render

/-- `pie sp fixed val | seq` : PartialIndexEnumerator -/
def pie : P String := do
  let sp ← P.nats; let fixed ← P.nat; let val ← P.nat; P.bar
  let implSeq ← P.nats; P.eof
  let mseq := pieAll (pieInit sp fixed val) (space sp + 2)
  let expect := (List.range (space sp)).filter (fun id => (toFactors sp id).getD fixed 0 == val)
  let v : Verdict := { tag := "pie" }
  let v := v.diffIf (mseq != implSeq) s!"pie.seq model={mseq} impl={implSeq}"
  let v := v.failIf (implSeq != expect) s!"pie wrong_index_set {implSeq}"
  return v.render

/-- insert `k` into an ascending key list (no duplicate) -/
def insKey (k : Nat) : List Nat → List Nat
  | [] => [k]
  | a :: r => if k < a then k :: a :: r else if k = a then a :: r else a :: insKey k r

/-- `piek sp keys fixed val missing | seq` : PartialIndexEnumerator(F, factors, fixedFactor, val, missing) -/
def piek : P String := do
  let sp ← P.nats; let keys ← P.nats; let fixed ← P.nat; let val ← P.nat; let missing ← P.bool; P.bar
  let implSeq ← P.nats; P.eof
  let keys' := insKey fixed keys
  let dims := sel keys' sp
  let pos := (keys'.takeWhile (· < fixed)).length
  let mseq := pieAll (pieInitPK sp keys fixed val missing) (space dims + 2)
  let expect := (List.range (space dims)).filter (fun id => (toFactors dims id).getD pos 0 == val)
  let v : Verdict := { tag := "piek" }
  let v := v.diffIf (mseq != implSeq) s!"PartialIndexEnumerator(keys) seq model={mseq} impl={implSeq}"
  let v := v.failIf (implSeq != expect) s!"PartialIndexEnumerator(keys) wrong_index_set {implSeq}"
  return v.render

/-- `tipf sp keys vals | implIndex implExpanded` : toIndex(space, PartialFactors) and toFactors(F, pf) -/
def tipf : P String := do
  let sp ← P.nats; let keys ← P.nats; let vals ← P.nats; P.bar
  let implI ← P.nat; let implE ← P.nats; P.eof
  let v : Verdict := { tag := "tipf" }
  let v := v.diffIf (toIndexPF sp keys vals != implI) s!"toIndex(space,PartialFactors) model={toIndexPF sp keys vals} impl={implI}"
  let v := v.diffIf (expandFrom 0 sp keys vals != implE) s!"toFactors(F,PartialFactors) model={expandFrom 0 sp keys vals} impl={implE}"
  -- property: the zero-filled expansion carries exactly the named values, and the partial index is its flat index
  let specE := (List.range sp.length).map (fun p => (lookup p (keys.zip vals)).getD 0)
  let v := v.failIf (implE != specE) s!"toFactors(F,PartialFactors) wrong_expansion {implE}"
  let v := v.failIf (implI != toIndex sp implE) s!"toIndex(space,PartialFactors) not_flat_index_of_expansion {implI}"
  return v.render

def pairs : P (List (Nat × Nat)) := do
  let k ← P.nats; let v ← P.nats
  if k.length != v.length then P.fail else pure (k.zip v)

/-- `merge l r | keys vals match` -/
def merge : P String := do
  let l ← pairs; let r ← pairs; P.bar
  let ik ← P.nats; let iv ← P.nats; let im ← P.bool; P.eof
  let m := mergePF l r
  let v : Verdict := { tag := "merge" }
  let v := v.diffIf (m != ik.zip iv || ik.length != iv.length) s!"merge model={m} impl={ik.zip iv}"
  let v := v.diffIf (matchPF l r != im) s!"match model={matchPF l r} impl={im}"
  -- property: merged assignment agrees with rhs on rhs keys, with lhs on lhs-only keys; match = no conflicting common key
  let keysU := (l.map (·.1) ++ r.map (·.1)).eraseDups
  let specOK := keysU.all (fun k => lookup k (ik.zip iv) == (match lookup k r with | some x => some x | none => lookup k l))
  let v := v.failIf (!specOK) s!"merge wrong_union"
  let specMatch := keysU.all (fun k => match lookup k l, lookup k r with | some a, some b => a == b | _, _ => true)
  let v := v.failIf (im != specMatch) s!"match wrong_answer {im}"
  return v.render

/-- `misc sp pf full other f | removed matchFP matchKeys joinLen` : removeFactor, match(Factors, pf), match(keys, lhs, rhs), join -/
def misc : P String := do
  let sp ← P.nats; let l ← pairs; let full ← P.nats; let other ← P.nats; let f ← P.nat; P.bar
  let rk ← P.nats; let rv ← P.nats; let m1 ← P.bool; let m2 ← P.bool; let jn ← P.nats; P.eof
  let v : Verdict := { tag := if sp.length ≤ 1 then "trivial" else "misc" }
  let v := v.diffIf (removeFactor f l != rk.zip rv || rk.length != rv.length) s!"removeFactor model={removeFactor f l} impl={rk.zip rv}"
  let v := v.failIf ((rk.zip rv) != l.filter (fun kv => kv.1 != f)) s!"removeFactor wrong_result {rk}"
  let spec1 := l.all (fun kv => full.getD kv.1 0 == kv.2)
  let v := v.failIf (m1 != spec1) s!"match(Factors,PartialFactors) wrong_answer {m1}"
  let spec2 := l.all (fun kv => full.getD kv.1 0 == other.getD kv.1 0)
  let v := v.failIf (m2 != spec2) s!"match(keys,Factors,Factors) wrong_answer {m2}"
  let v := v.failIf (jn != full ++ other) s!"join wrong_concatenation"
  return v.render

/-- `skipidx sp keys full toModify | first skipMult implIndex` : toIndexPartialAndSkip -/
def skipidx : P String := do
  let sp ← P.nats; let keys ← P.nats; let full ← P.nats; let tm ← P.nat; P.bar
  let first ← P.nat; let sm ← P.nat; let idx ← P.nat; P.eof
  let m := toIndexPartialAndSkip keys sp full tm
  let v : Verdict := { tag := "skipidx" }
  let v := v.diffIf (m != (first, sm)) s!"toIndexPartialAndSkip model={m.1},{m.2} impl={first},{sm}"
  -- property: index = first + skipMultiplier * f[toModify]; first is the index of f with f[toModify] := 0
  let v := v.failIf (idx != toIndexPartial keys sp full) s!"toIndexPartial wrong_index {idx}"
  let v := v.failIf (first + sm * (if keys.contains tm then full.getD tm 0 else 0) != idx) s!"toIndexPartialAndSkip not_decomposition_of_index {first} {sm}"
  let v := v.failIf (first != toIndexPartial keys sp (full.set tm 0)) s!"toIndexPartialAndSkip first_not_index_with_zeroed_factor {first}"
  return v.render

def natPairs : P (List (Nat × Nat)) := do
  let a ← P.nats; let b ← P.nats
  if a.length != b.length then P.fail else pure (a.zip b)

/-- `misc2 l r S | mergedKeys matches mergedVals joinKeys joinVals tpfKeys` : merge(PartialKeys, matches), merge(PartialValues),
    join(S, pf, pf), toPartialFactors -/
def misc2 : P String := do
  let l ← pairs; let r ← pairs; let bigS ← P.nat; let full ← P.nats; P.bar
  let mk ← P.nats; let mm ← natPairs; let mv ← P.nats; let jk ← P.nats; let jv ← P.nats; let tk ← P.nats; let tv ← P.nats
  let mtm ← P.bool; let mt4 ← P.bool; P.eof
  let lk := l.map (·.1); let rk := r.map (·.1)
  let v : Verdict := { tag := "misc2" }
  let mp := mergePF l r
  let v := v.diffIf (AITB.Factored.mergeKeys lk rk != mk) s!"merge(PartialKeys) model={AITB.Factored.mergeKeys lk rk} impl={mk}"
  let v := v.diffIf (mergeMatches 0 0 lk rk != mm) s!"merge(PartialKeys,matches) model={mergeMatches 0 0 lk rk} impl={mm}"
  let v := v.diffIf (mp.map (·.2) != mv) s!"merge(PartialValues) model={mp.map (·.2)} impl={mv}"
  -- property: keys = ascending union; matches = positions of the common keys; values as merge(PartialFactors)
  let union := (List.range (lk.foldl max 0 + rk.foldl max 0 + 1)).filter (fun k => lk.contains k || rk.contains k)
  let v := v.failIf (mk != union) s!"merge(PartialKeys) not_sorted_union {mk}"
  let v := v.failIf (!(mm.all (fun ij => lk.getD ij.1 0 == rk.getD ij.2 0 && decide (ij.1 < lk.length) && decide (ij.2 < rk.length))) || mm.length != (lk.filter rk.contains).length) s!"merge(PartialKeys,matches) wrong_matches {mm}"
  let v := v.failIf (!(mk.zip mv).all (fun kv => some kv.2 == (match lookup kv.1 r with | some x => some x | none => lookup kv.1 l))) s!"merge(PartialValues) wrong_values {mv}"
  let v := v.failIf (jk != lk ++ rk.map (· + bigS) || jv != l.map (·.2) ++ r.map (·.2)) s!"join(S,PartialFactors) wrong_join {jk}"
  let v := v.failIf (tk != List.range full.length || tv != full) s!"toPartialFactors wrong {tk}"
  let agree := (lk ++ rk).all (fun k => match lookup k l, lookup k r with | some a, some b => a == b | _, _ => true)
  let v := v.diffIf (matchPF l r != mt4) s!"match(keys,values,keys,values) model={matchPF l r} impl={mt4}"
  let v := v.failIf (mtm != agree) s!"match(matches,Factors,Factors) wrong_answer {mtm}"
  let v := v.failIf (mt4 != agree) s!"match(keys,values,keys,values) wrong_answer {mt4}"
  return v.render

def handle (toks : List String) : String :=
  let r := match toks with
    | "rt" :: rest => P.run rt rest
    | "part" :: rest => P.run part rest
    | "enum" :: rest => P.run enum rest
    | "pie" :: rest => P.run pie rest
    | "merge" :: rest => P.run merge rest
    | "piek" :: rest => P.run piek rest
    | "tipf" :: rest => P.run tipf rest
    | "misc" :: rest => P.run misc rest
    | "skipidx" :: rest => P.run skipidx rest
    | "misc2" :: rest => P.run misc2 rest
    | _ => (DrvC14b.handle toks).orElse (fun _ => DrvC14c.handle toks)
  r.getD "bad-op"

end DrvC14
