import AITB.Model.Proto
import AITB.Model.Belief
import AITB.Gen.Constants
import AITB.Gen.BeliefSrc
import AITB.Gen.BeliefDeepSrc
open AITB AITB.Belief

/-!
  Driver handlers for C05 (belief updates are exact Bayes filtering).

  `diff`  = the executable model of the code path (Eigen / sparse / loop reading) disagrees with the library;
  `fail`  = a clause of the property is false of the library's OWN outputs, evaluated against the
            specification side (`weight`, `probO`, `forward`) computed in exact rationals from the inputs.
  component = `<library function>/<representation>`.
-/
namespace DrvC05

/-- lazy-message variants of `Verdict.diffIf/failIf` (the message lists exact rationals; build it only when needed) -/
def dIf (v : Verdict) (c : Bool) (msg : Unit → String) : Verdict := if c then { v with diffs := v.diffs ++ [msg ()] } else v
def fIf (v : Verdict) (c : Bool) (msg : Unit → String) : Verdict := if c then { v with fails := v.fails ++ [msg ()] } else v

def tol9 : Rat := 1 / 1000000000

/-- relative closeness (all compared quantities are sums of non-negative products: no cancellation) -/
def relClose (a b : Rat) : Bool :=
  let d := absQ (a - b)
  let m := if absQ a < absQ b then absQ b else absQ a
  decide (d ≤ tol9 * m)

def eqv (exact : Bool) (a b : Rat) : Bool := if exact then a == b else relClose a b

def arrVec (a : Array Rat) : Vec := fun i => a.getD i 0
def arrMat (cols : Nat) (a : Array Rat) : Mat := fun i j => a.getD (i * cols + j) 0

def firstBad (n : Nat) (p : Nat → Bool) : Option Nat := (List.range n).find? (fun i => !p i)

def finQ : XRat → Option Rat
  | .fin q => some q
  | _ => none

def xsFin (a : Array XRat) : Option (Array Rat) := a.mapM finQ

def qsN (n : Nat) : P (Array Rat) := do let l ← P.rep P.q n; pure l.toArray
def xsN (n : Nat) : P (Array XRat) := do let l ← P.rep P.x n; pure l.toArray

structure OBlock where
  un : Array Rat
  no : Array XRat
  pun : Array Rat
  pno : Array XRat
  sosa : Array Rat

structure Block where
  rep : String
  part : Array Rat
  reward : Rat
  obs : Array OBlock

def oblock (sosaOn : Bool) (S : Nat) : P OBlock := do
  let un ← qsN S; let no ← xsN S; let pun ← qsN S; let pno ← xsN S; let sosa ← qsN (if sosaOn then S * S else 0)
  pure { un, no, pun, pno, sosa }

def block (sosaOn : Bool) (rep : String) (S O : Nat) : P Block := do
  P.bar; P.lit rep
  let part ← qsN S; let reward ← P.q
  let obs ← P.rep (oblock sosaOn S) O
  pure { rep, part, reward, obs := obs.toArray }

def tolSmall : Rat := AITB.Gen.equalToleranceSmall

/-- the tables a representation actually stores -/
def storedModel (rep : String) (m : POMDP) : POMDP := if rep == "sparse" then sparsify tolSmall m else m

/-- `raw` routes (NO_CHECK constructors, Eigen-matrix setters, default constructor) store the supplied matrices as they are -/
def storedModelR (raw : Bool) (rep : String) (m : POMDP) : POMDP := if raw then m else storedModel rep m

def tablesChanged (m mm : POMDP) : Bool :=
  !(allLt m.S (fun s => allLt m.S (fun s1 => m.T s 0 s1 == mm.T s 0 s1) && allLt m.O (fun o => m.Ob s 0 o == mm.Ob s 0 o)))

/-- model of the code path of one representation -/
def mPredict (rep : String) (mm : POMDP) (b : Vec) (a : Nat) : Vec :=
  if rep == "generic" then predictG mm b a else if rep == "sparse" then predictSp mm b a else predictE mm b a
def mUnnorm (rep : String) (mm : POMDP) (b : Vec) (a o : Nat) : Vec :=
  if rep == "generic" then unnormG mm b a o else if rep == "sparse" then unnormSp mm b a o else unnormE mm b a o
def mPartialUnnorm (rep : String) (mm : POMDP) (b : Vec) (a o : Nat) : Vec :=
  if rep == "generic" then partialUnnormG mm b a o else partialUnnormE mm b a o
def mSosa (rep : String) (mm : POMDP) (a o : Nat) : Mat :=
  if rep == "generic" then sosaG mm a o else sosaE mm a o
def mReward (raw conv : Bool) (rep : String) (m mm : POMDP) (b : Vec) (a : Nat) : Rat :=
  if rep == "generic" then rewardG mm b a
  else if rep == "sparse" && !raw then (if conv then rewardSpConv tolSmall m b a else rewardSp tolSmall m b a)
  else rewardE mm b a

/-- checks of one representation's block -/
def checkBlock (raw sosaOn conv exact : Bool) (m : POMDP) (b : Vec) (B : Block) (v : Verdict) : Verdict := Id.run do
  let S := m.S; let O := m.O
  let rep := B.rep
  let mm := storedModelR raw rep m
  let c (fn : String) := fn ++ "/" ++ rep
  let mut v := v
  let part := arrVec B.part
  -- ---- predict step
  let mp := mPredict rep mm b 0
  v := dIf v (!(allLt S fun s1 => eqv exact (mp s1) (part s1))) (fun _ => s!"{c "updateBeliefPartial"} model={toList S mp} impl={B.part}")
  v := fIf v (!(if exact then checkPredict mm b 0 part else allLt S fun s1 => relClose (predictG mm b 0 s1) (part s1))) (fun _ => s!"{c "updateBeliefPartial"} predict_mismatch impl={B.part} spec={toList S (predictG mm b 0)}")
  v := fIf v (!(allLt S fun s1 => decide (0 ≤ part s1))) (fun _ => s!"{c "updateBeliefPartial"} negative_entry {B.part}")
  v := fIf v (!(decide (absQ (sumTo S part - 1) ≤ 1 / 100000))) (fun _ => s!"{c "updateBeliefPartial"} not_distribution sum={ratStr (sumTo S part)}")
  -- ---- reward (not a clause of the property: correspondence only)
  let mr := mReward raw conv rep m mm b 0
  v := dIf v (!(if exact then mr == B.reward else closeQ tol9 mr B.reward)) (fun _ => s!"{c "beliefExpectedReward"} model={ratStr mr} impl={ratStr B.reward}")
  -- ---- per observation
  for o in List.range O do
    let ob := B.obs.getD o { un := #[], no := #[], pun := #[], pno := #[], sosa := #[] }
    let un := arrVec ob.un; let pun := arrVec ob.pun; let sosa := arrMat S ob.sosa
    let w := weight mm b 0 o
    let po := probO mm b 0 o
    let mu := mUnnorm rep mm b 0 o
    v := dIf v (!(allLt S fun s1 => eqv exact (mu s1) (un s1))) (fun _ => s!"{c "updateBeliefUnnormalized"} o={o} model={toList S mu} impl={ob.un}")
    v := fIf v (!(allLt S fun s1 => decide (0 ≤ un s1))) (fun _ => s!"{c "updateBeliefUnnormalized"} negative_entry o={o} {ob.un}")
    v := fIf v (!(if exact then checkUnnorm mm b 0 o un else allLt S fun s1 => relClose (w s1) (un s1))) (fun _ => s!"{c "updateBeliefUnnormalized"} not_bayes_weight o={o} impl={ob.un} spec={toList S w}")
    v := fIf v (!(eqv exact po (sumTo S un))) (fun _ => s!"{c "updateBeliefUnnormalized"} sum_not_prob_o o={o} sum={ratStr (sumTo S un)} P(o|b,a)={ratStr po}")
    -- two-stage helper: its own step, and agreement with the one-stage form
    let mpu := mPartialUnnorm rep mm part 0 o
    v := dIf v (!(allLt S fun s => eqv exact (mpu s) (pun s))) (fun _ => s!"{c "updateBeliefPartialUnnormalized"} o={o} model={toList S mpu} impl={ob.pun}")
    v := fIf v (!(allLt S fun s => eqv exact (mm.Ob s 0 o * part s) (pun s))) (fun _ => s!"{c "updateBeliefPartialUnnormalized"} not_correct_step o={o} impl={ob.pun}")
    v := fIf v (!(allLt S fun s => eqv exact (un s) (pun s))) (fun _ => s!"{c "updateBeliefPartialUnnormalized"} two_stage_mismatch o={o} one={ob.un} two={ob.pun}")
    -- loop branch: same operations in the same order, hence bit-identical whatever the rounding (theorem `two_stage_fl_eq`)
    v := dIf v (rep == "generic" && ob.un != ob.pun) (fun _ => s!"{c "updateBeliefPartialUnnormalized"} two-stage result not bit-identical to one-stage o={o} one={ob.un} two={ob.pun}")
    v := dIf v (rep == "generic" && po > 0 && !(ob.no == ob.pno)) (fun _ => s!"{c "updateBeliefPartialNormalized"} two-stage result not bit-identical to one-stage o={o} one={ob.no.toList} two={ob.pno.toList}")
    -- SOSA
    let ms := mSosa rep mm 0 o
    if sosaOn then
     v := dIf v (!(allLt S fun s => allLt S fun s1 => eqv exact (ms s s1) (sosa s s1))) (fun _ => s!"{c "makeSOSA"} o={o} model={toList2 S S ms} impl={ob.sosa}")
     v := fIf v (!(if exact then checkSosa mm 0 o sosa else allLt S fun s => allLt S fun s1 => relClose (mm.T s 0 s1 * mm.Ob s1 0 o) (sosa s s1))) (fun _ => s!"{c "makeSOSA"} entry_not_T_times_O o={o} impl={ob.sosa}")
     v := fIf v (!(allLt S fun s1 => eqv exact (sumTo S (fun s => b s * sosa s s1)) (un s1))) (fun _ => s!"{c "makeSOSA"} sosa_row_mismatch o={o}")
    -- normalised forms: only for observations of positive probability
    if po > 0 then
      match xsFin ob.no, xsFin ob.pno with
      | some no, some pno =>
        let nov := arrVec no; let pnov := arrVec pno
        v := dIf v (!(allLt S fun s1 => relClose (mu s1 / sumTo S mu) (nov s1))) (fun _ => s!"{c "updateBelief"} o={o} model={toList S (normalize S mu)} impl={no}")
        v := fIf v (!(allLt S fun s1 => decide (0 ≤ nov s1))) (fun _ => s!"{c "updateBelief"} negative_entry o={o} {no}")
        v := fIf v (!(decide (absQ (sumTo S nov - 1) ≤ tol9))) (fun _ => s!"{c "updateBelief"} not_normalised o={o} sum={ratStr (sumTo S nov)}")
        v := fIf v (!(allLt S fun s1 => relClose (w s1 / po) (nov s1))) (fun _ => s!"{c "updateBelief"} not_bayes_posterior o={o} impl={no} spec={toList S (fun s1 => w s1 / po)}")
        v := fIf v (!(allLt S fun s1 => decide (0 ≤ pnov s1))) (fun _ => s!"{c "updateBeliefPartialNormalized"} negative_entry o={o} {pno}")
        v := fIf v (!(decide (absQ (sumTo S pnov - 1) ≤ tol9))) (fun _ => s!"{c "updateBeliefPartialNormalized"} not_normalised o={o} sum={ratStr (sumTo S pnov)}")
        v := fIf v (!(allLt S fun s1 => relClose (nov s1) (pnov s1))) (fun _ => s!"{c "updateBeliefPartialNormalized"} two_stage_mismatch o={o} one={no} two={pno}")
        v := fIf v (!(allLt S fun s1 => relClose (w s1 / po) (pnov s1))) (fun _ => s!"{c "updateBeliefPartialNormalized"} not_bayes_posterior o={o} impl={pno}")
      | _, _ =>
        v := fIf v true (fun _ => s!"{c "updateBelief"} not_finite o={o} P(o|b,a)={ratStr po} norm={ob.no.toList} pnorm={ob.pno.toList}")
  -- ---- over all observations the unnormalised updates add up to the prediction (both are the library's outputs).
  -- |Σ_o un(s1) − partial(s1)| = |Σ_o Ob(s1,o) − 1|·partial(s1): exact when the stored observation rows sum to one.
  v := fIf v (!(allLt S fun s1 =>
        let tot := sumTo O (fun o => (B.obs.getD o { un := #[], no := #[], pun := #[], pno := #[], sosa := #[] }).un.getD s1 0)
        let dev := absQ (sumTo O (fun o => mm.Ob s1 0 o) - 1)
        let slack := if exact then 0 else tol9
        decide (absQ (tot - part s1) ≤ dev * absQ (part s1) + slack)))
      (fun _ => s!"{c "updateBeliefUnnormalized"} sum_over_o_not_predict partial={B.part}")
  -- ---- law of total probability on the library's outputs: Σ_o (Σ un_o) · updateBelief_o = prediction (observations of positive probability)
  v := fIf v (!(allLt S fun s1 =>
        let e : OBlock := { un := #[], no := #[], pun := #[], pno := #[], sosa := #[] }
        let tot := sumTo O (fun o =>
          let ob := B.obs.getD o e
          let p := sumTo S (arrVec ob.un)
          if p > 0 then (match ob.no.getD s1 .nan with | .fin q => p * q | _ => 0) else 0)
        let dev := absQ (sumTo O (fun o => mm.Ob s1 0 o) - 1)
        decide (absQ (tot - part s1) ≤ (dev + tol9) * absQ (part s1) + (if exact then 0 else tol9))))
      (fun _ => s!"{c "updateBelief"} total_probability_mismatch partial={B.part}")
  return v

/-- cross-representation agreement: `other` against the dense block -/
def crossCheck (exact : Bool) (S O : Nat) (D X : Block) (v : Verdict) : Verdict := Id.run do
  let c (fn : String) := fn ++ "/" ++ X.rep
  let mut v := v
  let same (a b : Array Rat) : Bool := a.size == b.size && allLt a.size (fun i => eqv exact (a.getD i 0) (b.getD i 0))
  let sameX (a b : Array XRat) : Bool := a.size == b.size && allLt a.size (fun i =>
    match a.getD i .nan, b.getD i .nan with
    | .fin p, .fin q => relClose p q
    | .nan, .nan => true
    | x, y => x == y)
  v := fIf v (!(same D.part X.part)) (fun _ => s!"{c "updateBeliefPartial"} differs_from_dense dense={D.part} other={X.part}")
  for o in List.range O do
    let e : OBlock := { un := #[], no := #[], pun := #[], pno := #[], sosa := #[] }
    let d := D.obs.getD o e; let x := X.obs.getD o e
    v := fIf v (!(same d.un x.un)) (fun _ => s!"{c "updateBeliefUnnormalized"} differs_from_dense o={o} dense={d.un} other={x.un}")
    v := fIf v (!(same d.pun x.pun)) (fun _ => s!"{c "updateBeliefPartialUnnormalized"} differs_from_dense o={o}")
    v := fIf v (!(same d.sosa x.sosa)) (fun _ => s!"{c "makeSOSA"} differs_from_dense o={o}")
    v := fIf v (!(sameX d.no x.no)) (fun _ => s!"{c "updateBelief"} differs_from_dense o={o} dense={d.no.toList} other={x.no.toList}")
    v := fIf v (!(sameX d.pno x.pno)) (fun _ => s!"{c "updateBeliefPartialNormalized"} differs_from_dense o={o}")
  let _ := S
  return v

/-- sparse against dense when the sparse containers dropped sub-threshold entries:
    `0 ≤ dense − sparse ≤ 2·equalToleranceSmall` entry-wise (theorem `sparse_within_two_tol`) -/
def crossSparseDropped (exact : Bool) (S O : Nat) (D X : Block) (v : Verdict) : Verdict := Id.run do
  let mut v := v
  let slack : Rat := if exact then 0 else tol9
  let e : OBlock := { un := #[], no := #[], pun := #[], pno := #[], sosa := #[] }
  for o in List.range O do
    let d := (D.obs.getD o e).un; let x := (X.obs.getD o e).un
    v := fIf v (!(allLt S fun s1 =>
          let df := d.getD s1 0 - x.getD s1 0
          decide (-slack ≤ df) && decide (df ≤ 2 * tolSmall + slack)))
        (fun _ => s!"updateBeliefUnnormalized/sparse differs_from_dense_beyond_threshold o={o} dense={d} sparse={x}")
    -- normalised forms (theorem `posterior_sparse_close`): within S·2·tol·(1+tol) / P_dense(o | b, a), when both are finite
    let pd := sumTo S (arrVec d)
    match xsFin (D.obs.getD o e).no, xsFin (X.obs.getD o e).no with
    | some nd, some nx =>
      if pd > 0 then
        v := fIf v (!(allLt S fun s1 =>
              decide (absQ (nd.getD s1 0 - nx.getD s1 0) ≤ (S : Rat) * (2 * tolSmall * (1 + tolSmall)) / pd + tol9)))
            (fun _ => s!"updateBelief/sparse differs_from_dense_beyond_threshold o={o} dense={nd} sparse={nx}")
    | _, _ => pure ()
  return v

/-- `upd exact S O | T | Ob | R | b | dense … | sparse … | generic … | usereigen …` -/
def upd : P String := do
  let route ← P.tok
  let conv := route == "conv"; let raw := route == "raw"
  let exact ← P.bool; let sosaOn ← P.bool; let S ← P.nat; let O ← P.nat; P.bar
  let T ← qsN (S * S); P.bar
  let Ob ← qsN (S * O); P.bar
  let R ← qsN (S * S); P.bar
  let bA ← qsN S
  let D ← block sosaOn "dense" S O
  let Sp ← block sosaOn "sparse" S O
  let G ← block sosaOn "generic" S O
  let UE ← block sosaOn "usereigen" S O
  let US ← block sosaOn "usersparse" S O
  P.bar; P.lit "pob"
  let pob ← qsN O
  P.eof
  let m : POMDP := { S := S, A := 1, O := O,
                     T := fun s _ s1 => T.getD (s * S + s1) 0,
                     Ob := fun s1 _ o => Ob.getD (s1 * O + o) 0,
                     R := fun s _ s1 => R.getD (s * S + s1) 0 }
  let b := arrVec bA
  let dropped := !raw && tablesChanged m (sparsify tolSmall m)
  let zero := (List.range O).any (fun o => probO m b 0 o == 0)
  let tag := (if S ≤ 1 then "trivial " else "") ++ "upd_" ++ route ++ (if zero then " zero_prob" else "") ++ (if dropped then " sparse_dropped" else "")
      ++ (if exact then " exact" else " approx")
  let v : Verdict := { tag := tag }
  let v := checkBlock raw sosaOn conv exact m b D v
  let v := checkBlock raw sosaOn conv exact m b Sp v
  let v := checkBlock raw sosaOn conv exact m b G v
  let v := checkBlock raw sosaOn conv exact m b UE v
  let v := checkBlock raw sosaOn conv exact m b US v
  -- the library's own P(o | b, a): `SparseModel::getObservationProbability(b, o, a)` on the sparse model of the line
  let ms := storedModelR raw "sparse" m
  let cP := "SparseModel::getObservationProbability(b,o,a)/sparse"
  let e : OBlock := { un := #[], no := #[], pun := #[], pno := #[], sosa := #[] }
  let v := dIf v (!(allLt O fun o => eqv exact (obsProbB ms b 0 o) (pob.getD o 0))) (fun _ => s!"{cP} model={toList O (obsProbB ms b 0)} impl={pob}")
  let v := fIf v (!(allLt O fun o => eqv exact (probO ms b 0 o) (pob.getD o 0))) (fun _ => s!"{cP} prob_o_mismatch impl={pob} spec={toList O (probO ms b 0)}")
  let v := fIf v (!(allLt O fun o => eqv exact (sumTo S (arrVec (Sp.obs.getD o e).un)) (pob.getD o 0))) (fun _ => s!"{cP} prob_o_not_sum_of_update impl={pob}")
  let v := fIf v (!(allLt O fun o => decide (0 ≤ pob.getD o 0))) (fun _ => s!"{cP} negative_probability impl={pob}")
  let v := crossCheck exact S O D G v
  let v := crossCheck exact S O D UE v
  let v := crossCheck exact S O D US v
  let v := if dropped then crossSparseDropped exact S O D Sp v else crossCheck exact S O D Sp v
  return v.render

/-- `hist rep exact S A O | T | Ob | b0 | n (a o)* | (alpha bel)*` -/
def hist : P String := do
  let rep ← P.tok; let exact ← P.bool; let S ← P.nat; let A ← P.nat; let O ← P.nat; P.bar
  let T ← qsN (A * S * S); P.bar
  let Ob ← qsN (A * S * O); P.bar
  let b0 ← qsN S; P.bar
  let n ← P.nat
  let steps ← P.rep (do let a ← P.nat; let o ← P.nat; pure (a, o)) n
  P.bar
  let outs ← P.rep (do let al ← qsN S; let be ← xsN S; pure (al, be)) n
  P.bar
  let np ← P.nat
  let pobs ← qsN np
  P.eof
  let m : POMDP := { S := S, A := A, O := O,
                     T := fun s a s1 => T.getD (a * S * S + s * S + s1) 0,
                     Ob := fun s1 a o => Ob.getD (a * S * O + s1 * O + o) 0,
                     R := fun _ _ _ => 0 }
  let mm := storedModel rep m
  let c (fn : String) := fn ++ "/" ++ (if rep == "sparseraw" then "sparse" else rep)
  let v : Verdict := { tag := (if S ≤ 1 || n == 0 then "trivial " else "") ++ s!"hist len_{n}" }
  -- walk the history: model forward vector (materialised at each step) against the library's
  let rec go (k : Nat) (alpha : Array Rat) : List ((Nat × Nat) × (Array Rat × Array XRat)) → Verdict → Verdict
    | [], v => v
    | ((a, o), (implAl, implBe)) :: rest, v =>
      let mu := mUnnorm rep mm (arrVec alpha) a o
      let spec := unnormG mm (arrVec alpha) a o
      let alpha' := ((List.range S).map spec).toArray
      let tot := sumTo S spec
      let v := dIf v (!(allLt S fun s => eqv exact (mu s) (implAl.getD s 0))) (fun _ => s!"{c "updateBeliefUnnormalized"} step={k} model={toList S mu} impl={implAl}")
      let v := fIf v (!(allLt S fun s => eqv exact (spec s) (implAl.getD s 0))) (fun _ => s!"{c "updateBeliefUnnormalized"} forward_not_joint step={k} impl={implAl} spec={alpha'}")
      let v := if tot > 0 then
          match xsFin implBe with
          | some be =>
            let v := fIf v (!(allLt S fun s => relClose (spec s / tot) (be.getD s 0))) (fun _ => s!"{c "updateBelief"} filter_not_posterior step={k} impl={be} spec={toList S (normalize S spec)}")
            let v := fIf v (!(allLt S fun s => decide (0 ≤ be.getD s 0))) (fun _ => s!"{c "updateBelief"} negative_entry step={k}")
            fIf v (!(decide (absQ (sumTo S (arrVec be) - 1) ≤ tol9))) (fun _ => s!"{c "updateBelief"} not_normalised step={k}")
          | none => fIf v true (fun _ => s!"{c "updateBelief"} not_finite step={k} {implBe.toList}")
        else v
      go (k + 1) alpha' rest v
  let v := go 1 b0 (steps.zip outs) v
  -- the model's own P(o_t | b_{t-1}, a_t) along the history (theorems `obsProbB_eq_probO`, `seqProb_eq_likelihood`, `forward_sum_eq_seqProb`):
  -- each is Σα_t / Σα_{t-1}, and their product is the likelihood of the observation sequence Σα_n
  let v := if np == 0 then v else Id.run do
    let mut v := v
    let mut alpha : Array Rat := b0
    let mut prod : Rat := 1
    let cP := "SparseModel::getObservationProbability(b,o,a)/sparse"
    for ((a, o), p) in steps.zip pobs.toList do
      let prev := sumTo S (arrVec alpha)
      let spec := unnormG mm (arrVec alpha) a o
      alpha := ((List.range S).map spec).toArray
      let cur := sumTo S spec
      prod := prod * p
      v := fIf v (prev > 0 && !(relClose (cur / prev) p)) (fun _ => s!"{cP} prob_o_mismatch on history impl={ratStr p} spec={ratStr (cur / prev)}")
    let lik := sumTo S (arrVec alpha)
    v := fIf v (pobs.size == n && !(relClose lik prod)) (fun _ => s!"{cP} likelihood_mismatch product={ratStr prod} likelihood={ratStr lik}")
    return v
  return v.render

/-- `inplace fn rep exact S O o | T_a | Ob_a | in | out | inplace` : a pointer overload called with `bRet == &in`.
    The property clause: the in-place call returns what the out-of-place call returns (`in_place_differs`).
    The model of the in-place call depends on whether the source carries the alias guard (`Gen.BeliefSrc.aliasGuard_*`). -/
def inplace : P String := do
  let fn ← P.tok; let rep ← P.tok; let exact ← P.bool; let S ← P.nat; let O ← P.nat; let o ← P.nat; P.bar
  let T ← qsN (S * S); P.bar
  let Ob ← qsN (S * O); P.bar
  let inA ← qsN S; P.bar
  let outX ← xsN S; P.bar
  let inplX ← xsN S
  P.eof
  let m : POMDP := { S := S, A := 1, O := O,
                     T := fun s _ s1 => T.getD (s * S + s1) 0,
                     Ob := fun s1 _ o => Ob.getD (s1 * O + o) 0,
                     R := fun _ _ _ => 0 }
  let mm := storedModel rep m
  let b := arrVec inA
  let libfn := if fn == "unnorm" then "updateBeliefUnnormalized" else if fn == "update" then "updateBelief"
    else if fn == "partial" then "updateBeliefPartial" else if fn == "punnorm" then "updateBeliefPartialUnnormalized"
    else "updateBeliefPartialNormalized"
  let comp := libfn ++ "/" ++ rep
  let guardU := AITB.Gen.BeliefSrc.aliasGuard_updateBeliefUnnormalizedPtr
  let guardP := AITB.Gen.BeliefSrc.aliasGuard_updateBeliefPartialPtr
  let guardPU := AITB.Gen.BeliefSrc.aliasGuard_updateBeliefPartialUnnormalizedPtr
  let toX (v : Vec) : Array XRat := ((List.range S).map (fun s => XRat.fin (v s))).toArray
  let normX (v : Vec) : Array XRat :=
    if sumTo S v == 0 then ((List.range S).map (fun _ => XRat.nan)).toArray else toX (normalize S v)
  -- out-of-place model (what the guarded code, and the dense Eigen branch, compute)
  let outModel : Array XRat :=
    if fn == "unnorm" then toX (unnormG mm b 0 o) else if fn == "update" then normX (unnormG mm b 0 o)
    else if fn == "partial" then toX (predictG mm b 0) else if fn == "punnorm" then toX (partialUnnormG mm b 0 o)
    else normX (partialUnnormG mm b 0 o)
  let zero : Vec := fun _ => 0
  let inModel : Array XRat :=
    if rep == "generic" then
      if fn == "unnorm" && !guardU then toX (ofList (unnormInPlaceL mm 0 o S inA.toList))
      else if fn == "update" && !guardU then normX (ofList (unnormInPlaceL mm 0 o S inA.toList))
      else if fn == "partial" && !guardP then toX (ofList (predictInPlaceL mm 0 S inA.toList))
      else outModel
    else if rep == "sparse" then
      if fn == "unnorm" && !guardU then toX (unnormInPlaceSp mm b 0 o)
      else if fn == "update" && !guardU then normX zero
      else if fn == "punnorm" && !guardPU then toX zero
      else if fn == "pnorm" && !guardPU then normX zero
      else outModel
    else outModel
  let sameX (exactCmp : Bool) (a b : Array XRat) : Bool := a.size == b.size && allLt a.size (fun i =>
    match a.getD i .nan, b.getD i .nan with
    | .fin p, .fin q => if exactCmp then p == q else relClose p q
    | .nan, .nan => true
    | x, y => x == y)
  let normalised := fn == "update" || fn == "pnorm"
  let ex := exact && !normalised
  let v : Verdict := { tag := (if S ≤ 1 then "trivial " else "") ++ "inplace " ++ fn }
  -- (relative compare: the unguarded in-place loop feeds rounded cells back into later sums, so even dyadic inputs outgrow 53 bits)
  let v := dIf v (!(sameX false inModel inplX)) (fun _ => s!"{comp} in-place model={inModel.toList} impl={inplX.toList}")
  let v := fIf v (!(sameX ex outX inplX)) (fun _ => s!"{comp} in_place_differs out_of_place={outX.toList} in_place={inplX.toList}")
  return v.render

def slack9 : Rat := tol9

/-- rows of a table: deviation of the row sum from one, smallest entry -/
def rowDev (n : Nat) (row : Nat → Rat) : Rat := absQ (sumTo n row - 1)

/-- some row sum (or sub-threshold mass) is so close to the tolerance that double rounding of the library's own sum decides -/
def nearTol (x : Rat) : Bool := decide (absQ (x - tolSmall) ≤ slack9)

def mk3 (S A O : Nat) (T Ob : Array Rat) : POMDP :=
  { S := S, A := A, O := O,
    T := fun s a s1 => T.getD (a * S * S + s * S + s1) 0,
    Ob := fun s1 a o => Ob.getD (a * S * O + s1 * O + o) 0,
    R := fun _ _ _ => 0 }

/-- every row of both tables: `p (row length) (row)` -/
def allRows (m : POMDP) (p : Nat → (Nat → Rat) → Bool) : Bool :=
  allLt m.A (fun a => allLt m.S (fun s => p m.S (fun s1 => m.T s a s1) && p m.O (fun o => m.Ob s a o)))

/-- `tab class route S A O | T | Ob | getTransitionProbability | getTransitionFunction(a) | getObservationProbability | getObservationFunction(a)`:
    what a constructed model hands to the belief helpers is the supplied table (sparse table routes: without the
    sub-threshold entries, nothing rescaled), and it is an accepted model -/
def tab : P String := do
  let cls ← P.tok; let route ← P.tok; let S ← P.nat; let A ← P.nat; let O ← P.nat; P.bar
  let T ← qsN (A * S * S); P.bar
  let Ob ← qsN (A * S * O); P.bar
  let gT ← qsN (A * S * S); P.bar
  let gTF ← qsN (A * S * S); P.bar
  let gO ← qsN (A * S * O); P.bar
  let gOF ← qsN (A * S * O)
  P.eof
  let m := mk3 S A O T Ob
  let raw := route == "raw"
  let mm := if cls == "sparse" && !raw then sparsify tolSmall m else m
  let comp := (if cls == "sparse" then "SparseModel" else "Model") ++ "/" ++ route
  let v : Verdict := { tag := (if S ≤ 1 then "trivial " else "") ++ "tab_" ++ cls ++ "_" ++ route }
  let expT : Array Rat := ((List.range (A * S * S)).map (fun i => mm.T ((i / S) % S) (i / (S * S)) (i % S))).toArray
  let expO : Array Rat := ((List.range (A * S * O)).map (fun i => mm.Ob ((i / O) % S) (i / (S * O)) (i % O))).toArray
  let v := fIf v (gT != expT) (fun _ => s!"{comp} stored_table_differs getTransitionProbability impl={gT} expected={expT}")
  let v := fIf v (gTF != expT) (fun _ => s!"{comp} stored_table_differs getTransitionFunction impl={gTF} expected={expT}")
  let v := fIf v (gO != expO) (fun _ => s!"{comp} stored_table_differs getObservationProbability impl={gO} expected={expO}")
  let v := fIf v (gOF != expO) (fun _ => s!"{comp} stored_table_differs getObservationFunction impl={gOF} expected={expO}")
  -- the stored model (as the getters report it) is an accepted one: non-negative, rows within the tolerance (+1e-9 for the library's rounded sums)
  let g := mk3 S A O gT gO
  let okRows := allRows g (fun n row => allLt n (fun i => decide (0 ≤ row i)) && decide (rowDev n row ≤ tolSmall + slack9))
  let v := fIf v (!raw && !okRows) (fun _ => s!"{comp} accepted_invalid_model stored T={gT} Ob={gO}")
  return v.render

/-- `accept class S A O | T | Ob | accepted` : the table constructors against `acceptDense` / `acceptSparse` -/
def accept : P String := do
  let cls ← P.tok; let S ← P.nat; let A ← P.nat; let O ← P.nat; P.bar
  let T ← qsN (A * S * S); P.bar
  let Ob ← qsN (A * S * O); P.bar
  let acc ← P.bool
  P.eof
  let m := mk3 S A O T Ob
  if cls == "denseM" || cls == "sparseM" || cls == "sparseM0" then
    -- Eigen-matrix setters: `isProbability(const Matrix3D &)` / `(const SparseMatrix3D &)`; nothing is dropped
    let spM := cls != "denseM"
    let comp := (if spM then "SparseModel" else "Model") ++ "/matrix_setters"
    let absDev (n : Nat) (row : Nat → Rat) : Rat := absQ (sumTo n (fun i => absQ (row i)) - 1)
    let ill := !(allRows m (fun n row => !nearTol (rowDev n row) && !(spM && nearTol (absDev n row))))
    if ill then return "skip ill_conditioned"
    let model := if spM then allRows m (fun n row => isProbRowSpAs AITB.Gen.BeliefDeepSrc.sparseSignTest tolSmall n row)
                 else allRows m (fun n row => isProbRowE tolSmall n row)
    let v : Verdict := { tag := "accept_" ++ cls ++ (if acc then "_yes" else "_no") }
    let v := dIf v (model != acc) (fun _ => s!"{comp} model={model} impl={acc}")
    -- the sparse form as it stands has no sign test (Props.C05Load.isProbRowSp_accepts_negative, sparse_setters_unsigned_counterexample):
    -- entries in [-tol, 0) pass, and `updateBelief` on the accepted object then returns negative "probabilities" (finding C05-2;
    -- class `sparseM0` = the same probe with that judgement left out)
    let v := fIf v (acc && cls == "sparseM" && !(allRows m (fun n row => allLt n (fun i => decide (0 ≤ row i)))))
        (fun _ => s!"{comp} accepted_negative_entry")
    let v := fIf v (acc && !spM && !acceptDense tolSmall m) (fun _ => s!"{comp} accepted_invalid_model (negative entry or row sum beyond the tolerance)")
    let v := fIf v (acc && spM && !(allRows m (fun n row => decide (rowDev n row ≤ tolSmall) && allLt n (fun i => decide (-tolSmall ≤ row i)))))
        (fun _ => s!"{comp} accepted_invalid_model (row sum beyond the tolerance or entry below -tolerance)")
    return v.render
  if cls == "sparseC" then
    -- SparseModel(const M&) from a dense Model that was itself accepted
    let comp := "SparseModel/converting_ctor"
    let ill := !(allRows (sparsify tolSmall m) (fun n row => !nearTol (rowDev n row)))
    if ill then return "skip ill_conditioned"
    let model := acceptSparseConv tolSmall m
    let v : Verdict := { tag := "accept_" ++ cls ++ (if acc then "_yes" else "_no") }
    let v := dIf v (model != acc) (fun _ => s!"{comp} model={model} impl={acc}")
    let v := fIf v (acc && !(allRows (sparsify tolSmall m) (fun n row => allLt n (fun i => decide (0 ≤ row i)) && decide (rowDev n row ≤ tolSmall))))
        (fun _ => s!"{comp} accepted_invalid_model (stored rows beyond the tolerance once sub-threshold entries are dropped)")
    return v.render
  let sp := cls == "sparse"
  let comp := (if sp then "SparseModel" else "Model") ++ (if cls == "denseC" then "/converting_ctor" else "/ctor")
  -- decided by rounding? (a row sum, or for the sparse class a stored row sum, within 1e-9 of the tolerance)
  let ill := !(allRows m (fun n row => !nearTol (rowDev n row))) ||
             (sp && !(allRows (sparsify tolSmall m) (fun n row => !nearTol (rowDev n row))))
  if ill then return "skip ill_conditioned"
  let model := if sp then acceptSparse tolSmall m else acceptDense tolSmall m
  let v : Verdict := { tag := "accept_" ++ cls ++ (if acc then "_yes" else "_no") }
  let v := dIf v (model != acc) (fun _ => s!"{comp} model={model} impl={acc}")
  -- property side: whatever the constructor accepts must be an accepted model (Props.C05Load.acceptDense_iff), else the Bayes clauses are void
  let v := fIf v (acc && !acceptDense tolSmall m) (fun _ => s!"{comp} accepted_invalid_model (negative entry or row sum beyond the tolerance)")
  let v := fIf v (acc && sp && !(allRows (sparsify tolSmall m) (fun n row => decide (rowDev n row ≤ tolSmall))))
      (fun _ => s!"{comp} accepted_invalid_model (stored rows beyond the tolerance once sub-threshold entries are dropped)")
  return v.render

/-- `traj rep S A O | T | Ob | b0 | s0 n (a s1 o)* | bel_t*` : a trajectory the model simulated itself (`sampleSOR`) while the belief was
    maintained by `updateBelief`.  Clauses (theorem `filter_tracks_truth`): every sampled step is possible under the stored tables,
    every observation then has positive probability under the filtered belief, the library's belief is finite, is the Bayes posterior, and
    never gives the true state probability zero. -/
def traj : P String := do
  let rep ← P.tok; let S ← P.nat; let A ← P.nat; let O ← P.nat; P.bar
  let T ← qsN (A * S * S); P.bar
  let Ob ← qsN (A * S * O); P.bar
  let b0 ← qsN S; P.bar
  let s0 ← P.nat; let n ← P.nat
  let steps ← P.rep (do let a ← P.nat; let s1 ← P.nat; let o ← P.nat; pure (a, s1, o)) n
  P.bar
  let bels ← P.rep (xsN S) n
  P.eof
  let m := mk3 S A O T Ob
  let mm := storedModel rep m
  let repc := if rep == "sparseraw" then "sparse" else rep
  let v : Verdict := { tag := (if S ≤ 1 || n == 0 then "trivial " else "") ++ s!"traj" }
  let v := fIf v (!(consistentB mm s0 steps)) (fun _ => s!"sampleSOR/{repc} sampled_impossible_step s0={s0} steps={steps}")
  let rec go (k : Nat) (s : Nat) (bel : Array Rat) : List ((Nat × Nat × Nat) × Array XRat) → Verdict → Verdict
    | [], v => v
    | ((a, s1, o), implX) :: rest, v =>
      let b := arrVec bel
      let w := unnormG mm b a o
      let po := sumTo S w
      let possible := decide (0 < mm.T s a s1) && decide (0 < mm.Ob s1 a o)
      if po ≤ 0 then
        -- cannot happen for a possible step (unnorm_pos_of_step); if the simulator left the tables, it was reported above
        fIf v possible (fun _ => s!"updateBelief/{repc} observation_of_zero_probability_on_trajectory step={k}")
      else
        match xsFin implX with
        | none => fIf v true (fun _ => s!"updateBelief/{repc} not_finite step={k} P(o|b,a)={ratStr po} impl={implX.toList}")
        | some impl =>
          let post : Array Rat := ((List.range S).map (fun i => w i / po)).toArray
          let v := fIf v (!(allLt S fun i => relClose (post.getD i 0) (impl.getD i 0)))
            (fun _ => s!"updateBelief/{repc} filter_not_posterior step={k} impl={impl} spec={post}")
          let v := fIf v (possible && !(decide (0 < impl.getD s1 0)))
            (fun _ => s!"updateBelief/{repc} true_state_excluded step={k} true_state={s1} impl={impl}")
          -- continue from the exact posterior (the library's own belief is within 1e-9 of it)
          go (k + 1) s1 post rest v
  let v := go 1 s0 b0 (steps.zip bels) v
  return v.render

/-- `overload <component> <what>` : two overloads of one helper returned different bits -/
def overload : P String := do
  let comp ← P.tok; let what ← P.tok; P.eof
  return s!"fail {comp} overloads_differ {what}"

def handle (toks : List String) : String :=
  let r := match toks with
    | "upd" :: rest => P.run upd rest
    | "tab" :: rest => P.run tab rest
    | "accept" :: rest => P.run accept rest
    | "traj" :: rest => P.run traj rest
    | "hist" :: rest => P.run hist rest
    | "inplace" :: rest => P.run inplace rest
    | "overload" :: rest => P.run overload rest
    | _ => none
  r.getD "bad-op"

end DrvC05
