import AITB.Model.Proto
import AITB.Model.Factored
import AITB.Model.FactoredAlg
import AITB.Model.FactoredMdp
import Driver.C14b
import AITB.Gen.C14Sites
open AITB AITB.Factored

/-! Driver handlers of C14 round 3: checkTag, factorSpace clamp, enumerator constructors + reset, DDNGraph::push,
    CooperativeModel (constructor, getters, sampling), bellmanBackup.  Same discipline as C14b: model vs implementation
    is a `diff`, the property clause evaluated on the implementation's own numbers is a `fail`. -/
namespace DrvC14c
open DrvC14b

/-- number of source definitions pinned by tools/extract_c14.py (the tie of the model's transcription; regenerated every run) -/
def pinnedSites : Nat := AITB.Gen.C14Sites.pinned

/-- independent reading of "well-formed tag": non-empty, strictly ascending, ids in range (NOT via the checkTag model) -/
def tagSpec (n : Nat) (tag : List Nat) : Bool :=
  !tag.isEmpty && tag.all (fun k => decide (k < n)) && (tag.zip (tag.drop 1)).all (fun p => decide (p.1 < p.2))

/-- `checktag sp tag | code pos` -/
def checktag : P String := do
  let sp ← P.nats; let tag ← P.nats; P.bar
  let code ← P.nat; let pos ← P.nat; P.eof
  let m := checkTag sp tag
  let v : Verdict := { tag := "checktag" }
  let v := v.diffIf (m.1.code != code || m.2 != pos) s!"checkTag model={m.1.code},{m.2} impl={code},{pos}"
  let v := v.failIf (code == 0 && !tagSpec sp.length tag) s!"checkTag accepts_malformed_tag {tag}"
  let v := v.failIf (code != 0 && tagSpec sp.length tag) s!"checkTag rejects_wellformed_tag {tag} code={code}"
  return v.render

/-- insert `k` into an ascending key list (no duplicate) -/
def insKey (k : Nat) : List Nat → List Nat
  | [] => [k]
  | a :: r => if k < a then k :: a :: r else if k = a then a :: r else a :: insKey k r

def sizeMax : Nat := 18446744073709551615

/-- `fsclamp sp keys | factorSpace factorSpacePartial` -/
def fsclamp : P String := do
  let sp ← P.nats; let keys ← P.nats; P.bar
  let fs ← P.nat; let fsp ← P.nat; P.eof
  let v : Verdict := { tag := "fsclamp" }
  let v := v.diffIf (factorSpaceC sizeMax sp != fs) s!"factorSpace model={factorSpaceC sizeMax sp} impl={fs}"
  let v := v.diffIf (factorSpacePartialC sizeMax keys sp != fsp) s!"factorSpacePartial model={factorSpacePartialC sizeMax keys sp} impl={fsp}"
  -- property: the number of joint values, saturated at SIZE_MAX (never a wrapped-around small number)
  let v := v.failIf (fs != min (space sp) sizeMax) s!"factorSpace not_saturated_product {fs} want={min (space sp) sizeMax}"
  let v := v.failIf (fsp != min (spacePartial keys sp) sizeMax) s!"factorSpacePartial not_saturated_product {fsp} want={min (spacePartial keys sp) sizeMax}"
  return v.render

/-- `enumctor sp keys skipF missing k | implKeys skipId size seqAfterReset` -/
def enumctor : P String := do
  let sp ← P.nats; let keys ← P.nats; let skipF ← P.nat; let missing ← P.bool; let _k ← P.nat; P.bar
  let ikeys ← P.nats; let iskip ← P.nat; let isize ← P.nat; let iseq ← P.natss; P.eof
  let (mkeys, mskip) := if missing then pfeMissingKeys skipF keys 0 else (keys, (pfePresentSkip skipF keys 0).getD keys.length)
  let v : Verdict := { tag := "enumctor" }
  let comp := "PartialFactorsEnumerator(F,factors,factorToSkip,missing)"
  let v := v.diffIf (mkeys != ikeys || mskip != iskip) s!"{comp} keys/skipId model={mkeys}/{mskip} impl={ikeys}/{iskip}"
  let dims := sel ikeys sp
  let msize := enumSize iskip dims
  let mseq := enumFrom iskip dims (pfeReset dims none) (msize + 2)
  let v := v.diffIf (msize != isize) s!"PartialFactorsEnumerator::size model={msize} impl={isize}"
  let v := v.diffIf (mseq != iseq) s!"PartialFactorsEnumerator::reset sequence model≠impl"
  -- property: the enumerated keys are the ascending union of the given factors and the skipped one, the skip id addresses it,
  -- and after reset() (from any point, or from the cleared state) every joint value of the others is visited once in index order
  let want := insKey skipF keys
  let v := v.failIf (ikeys != want) s!"{comp} keys_not_sorted_union {ikeys}"
  let v := v.failIf (ikeys.getD iskip (skipF + 1) != skipF) s!"{comp} skip_id_not_at_skipped_factor {iskip}"
  let idxs := iseq.map (fun w => toIndex (er 0 iskip dims) (er 0 iskip w))
  let v := v.failIf (idxs != List.range (space (er 0 iskip dims))) s!"PartialFactorsEnumerator::reset not_in_index_order {idxs}"
  let v := v.failIf (!(iseq.all (fun w => validB dims w && w.getD iskip 0 == 0))) s!"PartialFactorsEnumerator::reset invalid_tuple"
  return v.render

/-- independent reading of "well-formed parent set" -/
def psSpec (S A : List Nat) (ps : ParentSet) : Bool :=
  tagSpec A.length ps.agents && ps.features.length == spacePartial ps.agents A && ps.features.all (tagSpec S.length)

def psEq (a b : ParentSet) : Bool := a.agents == b.agents && a.features == b.features

/-- `push S A candidates | accepted… finalParents startIds` -/
def push : P String := do
  let S ← P.nats; let A ← P.nats; let cands ← P.list parentSet; P.bar
  let acc ← P.list P.bool; let final ← P.list parentSet; let starts ← P.natss; P.eof
  let v : Verdict := { tag := "push" }
  let m := pushAll S A [] cands
  let same := m.length == final.length && (m.zip final).all (fun p => psEq p.1 p.2)
  let v := v.diffIf (!same) s!"DDNGraph::push accepted sets model≠impl"
  let g : DDNGraph := { S := S, A := A, parents := final }
  let v := v.diffIf ((List.range final.length).map g.startIds != starts) s!"DDNGraph::push startIds model≠impl"
  -- property: only well-formed parent sets get in, never more than |S|; a well-formed one is refused only when the graph is full
  let v := v.failIf (!(final.all (psSpec S A))) "DDNGraph::push accepts_malformed_parent_set"
  let v := v.failIf (decide (S.length < final.length)) "DDNGraph::push accepts_too_many_nodes"
  let replay := (cands.zip acc).foldl (fun (st : Nat × Bool) ca =>
      let should := psSpec S A ca.1 && decide (st.1 < S.length)
      (if ca.2 then st.1 + 1 else st.1, st.2 && (should == ca.2))) (0, true)
  let v := v.failIf (!replay.2 || acc.length != cands.length) "DDNGraph::push wrong_accept_reject_decision"
  return v.render

structure ModelIn where
  m : CoopModel

def modelIn : P CoopModel := do
  let S ← P.nats; let A ← P.nats; let ps ← P.list parentSet; let T ← P.list P.qss; let R ← fm; let d ← P.q
  pure { g := { S := S, A := A, parents := ps }, T := T, R := R, discount := d }

def rowSpec (n : Nat) (row : List Rat) : Bool :=
  row.length == n && row.all (fun x => decide (0 ≤ x)) && decide (absQ (row.foldl (· + ·) 0 - 1) ≤ AITB.Gen.equalToleranceSmall)

/-- independent reading of "a valid cooperative model" -/
def cmSpec (m : CoopModel) : Bool :=
  let S := m.g.S; let A := m.g.A
  decide (0 < m.discount) && decide (m.discount ≤ 1) && !S.isEmpty && !A.isEmpty &&
  m.g.parents.length == S.length && m.T.length == S.length &&
  ((List.range S.length).zip m.T).all (fun (i, Ti) => Ti.length == (m.g.startIds i).getLastD 0 && Ti.all (rowSpec (S.getD i 0))) &&
  m.R.all (fun r => tagSpec S.length r.tag && tagSpec A.length r.atag && r.vals.length == spacePartial r.tag S &&
    r.vals.all (fun row => row.length == spacePartial r.atag A))

/-- `cmctor model | accepted errClass` -/
def cmctor : P String := do
  let m ← modelIn; P.bar
  let acc ← P.bool; let cls ← P.tok; P.eof
  let v : Verdict := { tag := "cmctor" }
  let v := v.diffIf (cmAccepts m != acc) s!"CooperativeModel constructor model={cmAccepts m} impl={acc}"
  let v := v.failIf (acc && !cmSpec m) "CooperativeModel accepts_invalid_model"
  let v := v.failIf (!acc && cmSpec m) s!"CooperativeModel rejects_valid_model {cls}"
  let v := v.failIf (!acc && cls != "invalid_argument") s!"CooperativeModel wrong_exception_class {cls}"
  return v.render

/-- `bellman model vals w det | Q gets probs rgets vgets samples discount` -/
def bellman : P String := do
  let m ← modelIn; let vals ← fv; let w ← P.qs; let det ← P.bool; P.bar
  let iq ← fm; let gets ← P.qs; let probs ← P.qs; let rgets ← P.qs; let vgets ← P.qs; let samples ← P.qss; let idisc ← P.q; P.eof
  let S := m.g.S; let A := m.g.A
  let v : Verdict := { tag := "bellman" }
  let sa := allXA S A
  let xsS := allX S
  let n1 := xsS.length
  -- correspondence
  let mq := bellmanBackup m vals w
  let v := v.diffIf (mq != iq) "bellmanBackup bases model≠impl"
  let v := v.diffIf (sa.map (fun p => fmGet S A iq p.1 p.2) != gets) "bellmanBackup getValue model-on-impl-structure≠impl"
  let v := v.diffIf (sa.flatMap (fun p => xsS.map (fun s1 => m.prob p.1 p.2 s1)) != probs) "CooperativeModel::getTransitionProbability model≠impl"
  let v := v.diffIf (sa.map (fun p => m.reward p.1 p.2) != rgets) "CooperativeModel::getExpectedReward model≠impl"
  let v := v.diffIf (xsS.map (fun s1 => fvGetW S vals s1 w) != vgets) "FactoredVector::getValue(weights) model≠impl"
  let v := v.diffIf (idisc != m.discount) "CooperativeModel::getDiscount model≠impl"
  let v := v.diffIf (!cmAccepts m) "CooperativeModel constructor accepted a model the Lean model rejects"
  let v := v.failIf (gets.length != sa.length || probs.length != sa.length * n1 || rgets.length != sa.length || vgets.length != n1 || samples.length != sa.length) "bellmanBackup missing_values"
  -- property clauses on the implementation's own numbers
  -- (1) the model's transition probability of every joint next state is the product of the local rows, and they sum to one
  let feats := List.range S.length
  let prodOK := (sa.zipIdx).all (fun (p, k) => (xsS.zipIdx).all (fun (s1, j) =>
      probs.getD (k * n1 + j) 0 == feats.foldl (fun acc i => acc * Mat.at (m.T.getD i []) (m.g.getId i p.1 p.2) (s1.getD i 0)) 1))
  let v := v.failIf (!prodOK) "CooperativeModel::getTransitionProbability not_product_of_locals"
  let sumOK := (List.range sa.length).all (fun k => sumQ ((List.range n1).map (fun j => probs.getD (k * n1 + j) 0)) == 1)
  let v := v.failIf (!sumOK) "CooperativeModel::getTransitionProbability not_normalised"
  -- (2) the expected reward is the sum of the reward bases at (s, a)
  let rOK := (sa.zip rgets).all (fun (p, r) => r == m.R.foldl (fun acc b => acc + b.get S A p.1 p.2) 0)
  let v := v.failIf (!rOK) "CooperativeModel::getExpectedReward not_sum_of_reward_bases"
  -- (3) Bellman backup: Q(s,a) = R(s,a) + γ Σ_{s'} P(s'|s,a) V(s'), all three taken from the implementation
  let bad := (List.range sa.length).find? (fun k =>
      gets.getD k 0 != rgets.getD k 0 + idisc * sumQ ((List.range n1).map (fun j => probs.getD (k * n1 + j) 0 * vgets.getD j 0)))
  let v := match bad with
    | some k => v.failIf true s!"bellmanBackup not_reward_plus_discounted_expectation at={(sa.getD k ([], [])).1}/{(sa.getD k ([], [])).2} got={ratStr (gets.getD k 0)}"
    | none => v
  -- (4) V(s') is the weighted combination of the bases
  let wantV := fun x => (vals.zip w).foldl (fun acc bw => acc + bw.2 * bw.1.get S x) (if w.length = vals.length + 1 then w.getD vals.length 0 else 0)
  let v := v.failIf (!(xsS.zip vgets).all (fun (x, g) => g == wantV x)) "FactoredVector::getValue(weights) not_weighted_combination"
  -- (5) sampling: summed reward = expected reward, per-basis rewards = the bases' entries, the sampled next state has positive
  --     probability (and is THE next state when every row is a point mass)
  let sampOK := (sa.zipIdx).all (fun (p, k) =>
      let smp := samples.getD k []
      let s1a := (smp.getD 0 0).num.toNat; let s1b := (smp.getD 1 0).num.toNat
      smp.getD 2 0 == rgets.getD k 0 && smp.drop 3 == m.rewards p.1 p.2 &&
      decide (0 < probs.getD (k * n1 + s1a) 0) && decide (0 < probs.getD (k * n1 + s1b) 0) && decide (s1a < n1) && decide (s1b < n1) &&
      (!det || (toFactors S s1a == m.detNext p.1 p.2 && s1b == s1a)))
  let v := v.failIf (!sampOK) "CooperativeModel::sampleSR sample_inconsistent_with_model"
  return v.render

def handle (toks : List String) : Option String :=
  match toks with
  | "checktag" :: rest => P.run checktag rest
  | "fsclamp" :: rest => P.run fsclamp rest
  | "enumctor" :: rest => P.run enumctor rest
  | "push" :: rest => P.run push rest
  | "cmctor" :: rest => P.run cmctor rest
  | "bellman" :: rest => P.run bellman rest
  | _ => none

end DrvC14c
