import AITB.Model.Proto
import AITB.Model.Factored
import AITB.Model.VE
import AITB.Model.FLP
import AITB.Model.FLPGen
import AITB.Gen.C15Facts
open AITB AITB.Factored AITB.VE AITB.FLP

/-! Driver for C15.  The exact simplex below is an UNTRUSTED finder: whatever it returns is accepted only after
`optimalPairB` (proved sound in `AITB.Props.C15`: `optimalPair_sound`) has checked the primal/dual pair exactly. -/
namespace DrvC15

/-! ## exact two-phase simplex on the dual  (max rhs·y, Σ_j y_j coef_j = c, y ≥ 0), Bland's rule -/

structure Tab where
  t : Array (Array Rat)     -- n rows, width m + n + 1
  d : Array Rat             -- reduced costs, last entry = −objective
  basis : Array Nat
  deriving Inhabited

def rowScale (r : Array Rat) (q : Rat) : Array Rat := r.map (· * q)
def rowSubMul (r p : Array Rat) (q : Rat) : Array Rat := (r.zip p).map (fun (a, b) => a - q * b)

def pivot (tb : Tab) (i j : Nat) : Tab :=
  let pr := rowScale tb.t[i]! (1 / tb.t[i]![j]!)
  let t := (tb.t.zipIdx).map (fun (r, k) => if k == i then pr else if r[j]! == 0 then r else rowSubMul r pr r[j]!)
  let d := if tb.d[j]! == 0 then tb.d else rowSubMul tb.d pr tb.d[j]!
  { t := t, d := d, basis := tb.basis.set! i j }

/-- Bland: smallest allowed column with negative reduced cost -/
def entering (tb : Tab) (allowed : Nat) : Option Nat :=
  (List.range allowed).find? (fun j => tb.d[j]! < 0)

def leaving (tb : Tab) (j w : Nat) : Option Nat :=
  let cands := (List.range tb.t.size).filter (fun i => tb.t[i]![j]! > 0)
  cands.foldl (fun (best : Option Nat) i =>
    match best with
    | none => some i
    | some b =>
      let ri := tb.t[i]![w]! / tb.t[i]![j]!
      let rb := tb.t[b]![w]! / tb.t[b]![j]!
      if ri < rb || (ri == rb && tb.basis[i]! < tb.basis[b]!) then some i else some b) none

inductive Stop where | optimal | unbounded | fuel
  deriving BEq

def iterate (allowed w : Nat) : Nat → Tab → Tab × Stop
  | 0, tb => (tb, .fuel)
  | f+1, tb =>
    match entering tb allowed with
    | none => (tb, .optimal)
    | some j =>
      match leaving tb j w with
      | none => (tb, .unbounded)
      | some i => iterate allowed w f (pivot tb i j)

def costRow (tb : Tab) (cost : Nat → Rat) (width : Nat) : Array Rat :=
  Array.ofFn (n := width) (fun j =>
    (if j.val + 1 == width then 0 else cost j.val)
      - (List.range tb.t.size).foldl (fun acc i => acc + cost tb.basis[i]! * tb.t[i]![j.val]!) 0)

inductive Sol where
  | optimal (x y : List Rat)
  | infeasible        -- the flat LP has no optimum (infeasible or unbounded); not certified
  | fuel

def simplex (n : Nat) (rows : List GeRow) (c : List Rat) : Sol :=
  let m := rows.length
  let width := m + n + 1
  let rowsA := rows.toArray
  let sign : Array Rat := Array.ofFn (n := n) (fun i => if c.getD i.val 0 < 0 then -1 else 1)
  let t : Array (Array Rat) := Array.ofFn (n := n) (fun i =>
    Array.ofFn (n := width) (fun j =>
      if j.val < m then sign[i.val]! * (rowsA[j.val]!).coef.getD i.val 0
      else if j.val < m + n then (if j.val == m + i.val then 1 else 0)
      else sign[i.val]! * c.getD i.val 0))
  let tb0 : Tab := { t := t, d := #[], basis := Array.ofFn (n := n) (fun i => m + i.val) }
  let tb0 := { tb0 with d := costRow tb0 (fun j => if j < m then 0 else 1) width }
  let (tb1, s1) := iterate (m + n) (m + n) 5000 tb0
  if s1 != .optimal then .fuel else
  if tb1.d[m + n]! != 0 then .infeasible else
  -- drive the remaining (zero-level) artificials out of the basis
  let tb2 := (List.range n).foldl (fun (tb : Tab) i =>
    if tb.basis[i]! < m then tb else
    match (List.range m).find? (fun j => tb.t[i]![j]! != 0) with
    | some j => pivot tb i j
    | none => tb) tb1
  let tb2 := { tb2 with d := costRow tb2 (fun j => if j < m then -(rowsA[j]!).rhs else 0) width }
  let (tb3, s3) := iterate m (m + n) 5000 tb2
  match s3 with
  | .fuel => .fuel
  | .unbounded => .infeasible
  | .optimal =>
    let y := (List.range m).map (fun j =>
      match (List.range n).find? (fun i => tb3.basis[i]! == j) with
      | some i => tb3.t[i]![m + n]!
      | none => 0)
    let x := (List.range n).map (fun i => sign[i]! * tb3.d[m + i]!)
    .optimal x y

/-- untrusted finder of a Farkas certificate: the dual with c = 0 (max rhs·y, Σ_j y_j coef_j = 0, y ≥ 0) is unbounded iff
    the flat LP is infeasible; the unbounded ray is the certificate (checked by `farkasOk`, sound by `farkas_sound`) -/
def farkas (n : Nat) (rows : List GeRow) : Option (List Rat) :=
  let m := rows.length
  let width := m + n + 1
  let rowsA := rows.toArray
  let t : Array (Array Rat) := Array.ofFn (n := n) (fun i =>
    Array.ofFn (n := width) (fun j =>
      if j.val < m then (rowsA[j.val]!).coef.getD i.val 0
      else if j.val < m + n then (if j.val == m + i.val then 1 else 0)
      else 0))
  let tb0 : Tab := { t := t, d := #[], basis := Array.ofFn (n := n) (fun i => m + i.val) }
  let tb1 := (List.range n).foldl (fun (tb : Tab) i =>
    if tb.basis[i]! < m then tb else
    match (List.range m).find? (fun j => tb.t[i]![j]! != 0) with
    | some j => pivot { tb with d := Array.replicate width 0 } i j
    | none => tb) tb0
  let tb2 := { tb1 with d := costRow tb1 (fun j => if j < m then -(rowsA[j]!).rhs else 0) width }
  let (tb3, s3) := iterate m (m + n) 5000 tb2
  if s3 != .unbounded then none else
  match entering tb3 m with
  | none => none
  | some j =>
    some ((List.range m).map (fun c =>
      if c == j then 1 else
      match (List.range n).find? (fun i => tb3.basis[i]! == c) with
      | some i => - tb3.t[i]![j]!
      | none => 0))

/-! ## parsing -/

def pBasis : P Basis := do let tag ← P.nats; let vals ← P.qs; pure ⟨tag, vals⟩
def pBM : P BasisM := do let tag ← P.nats; let atag ← P.nats; let vals ← P.qs; pure ⟨tag, atag, vals⟩
def pDNode : P DNode := do
  let agents ← P.nats; let parents ← P.list P.nats; let T ← P.list P.qs; pure ⟨agents, parents, T⟩

structure RecLP where
  ncols : Int
  nunb : Nat
  minim : Int
  solves : Nat
  solveRes : Int
  obj : List (Nat × Rat)
  rows : List (List (Nat × Rat) × Nat × Rat)
  results : List Int        -- result of every ::solve call, in order
  point : List Rat          -- all columns of the point LP::solve read (empty unless the last result was 0/1)

def pEnt : P (Nat × Rat) := do let c ← P.nat; let q ← P.q; pure (c, q)
def pRec : P RecLP := do
  let ncols ← P.int; let nunb ← P.nat; let minim ← P.int; let solves ← P.nat; let solveRes ← P.int
  let obj ← P.list pEnt
  let rows ← P.list (do let e ← P.list pEnt; let rel ← P.nat; let rhs ← P.q; pure (e, rel, rhs))
  let results ← P.list P.int
  let point ← P.qs
  pure ⟨ncols, nunb, minim, solves, solveRes, obj, rows, results, point⟩

/-! ## comparison of the generated LP with the recorded one -/

def maxAbs (l : List Rat) : Rat := l.foldl (fun m q => if m < absQ q then absQ q else m) 0

def insEnt (e : Nat × Rat) : List (Nat × Rat) → List (Nat × Rat)
  | [] => [e]
  | f :: fs => if e.1 < f.1 then e :: f :: fs else if e.1 == f.1 then e :: fs else f :: insEnt e fs

/-- dense view as a sorted sparse list: later writes overwrite, zero coefficients dropped -/
def normRow (r : CRow) : List (Nat × Rat) := (r.ent.foldl (fun acc e => insEnt e acc) []).filter (fun e => e.2 != 0)

def entsClose : List (Nat × Rat) → List (Nat × Rat) → Bool
  | [], [] => true
  | a :: as, b :: bs => a.1 == b.1 && closeQ (1 / 10^12) a.2 b.2 && entsClose as bs
  | _, _ => false

def relCode : Rel → Nat | .le => 1 | .eq => 3

def rowsDiff : Nat → List CRow → List (List (Nat × Rat) × Nat × Rat) → Option String
  | _, [], [] => none
  | i, m :: ms, r :: rs =>
    if relCode m.rel != r.2.1 then some s!"row{i}.relation model={relCode m.rel} impl={r.2.1}"
    else if !closeQ (1 / 10^12) m.rhs r.2.2 then some s!"row{i}.rhs model={ratStr m.rhs} impl={ratStr r.2.2}"
    else if !entsClose (normRow m) r.1 then some s!"row{i}.coefficients model={(normRow m).map (fun e => (e.1, ratStr e.2))} impl={r.1.map (fun e => (e.1, ratStr e.2))}"
    else rowsDiff (i+1) ms rs
  | i, ms, rs => some s!"row_count model={i + ms.length} impl={i + rs.length}"

def lpDiff (comp : String) (v : Verdict) (gen : List CRow × Nat) (obj : List (Nat × Rat)) (rec : RecLP) (gotPoint : Bool) (w : List Rat) : Verdict :=
  -- LP::solve's control flow (model `lpSolveTraceOk`, result codes from the translator) against the recorded ::solve calls
  let v := v.diffIf (!lpSolveTraceOk AITB.Gen.lpRetryCodes AITB.Gen.lpAcceptCodes rec.results gotPoint || rec.solves != rec.results.length)
    s!"LpSolveWrapper.solve call_trace results={rec.results} returned_point={gotPoint} retry_codes={AITB.Gen.lpRetryCodes} accept_codes={AITB.Gen.lpAcceptCodes}"
  let v := { v with tag := v.tag ++ (if rec.results.length > 1 then " lp_retry" else "") }
  -- the point lp_solve handed back (all columns): right length, its first columns ARE the returned weights, and it satisfies
  -- every row lp_solve was given (so a wrong answer is attributed: lp_solve's point vs the rows the library built)
  let v := v.diffIf (gotPoint && rec.point.length != gen.2) s!"LpSolveWrapper.solve point_length={rec.point.length} columns={gen.2}"
  let v := v.diffIf (gotPoint && rec.point.take w.length != w) s!"LpSolveWrapper.solve returned_vector_is_not_the_leading_columns_of_the_point"
  let ptol := (1 / 10^6) * (1 + maxAbs rec.point)
  -- against the rows lp_solve actually RECEIVED (so the verdict is about lp_solve / the wrapper); recorded = generated is the row diff below,
  -- and with no diff `accepted_point_certifies_bellman` applies to this point
  let lhsOf := fun (ent : List (Nat × Rat)) => ent.foldl (fun acc e => acc + e.2 * rec.point.getD e.1 0) 0
  let rowBad := fun (r : List (Nat × Rat) × Nat × Rat) =>
    let l := lhsOf r.1
    if r.2.1 == 1 then decide (l > r.2.2 + ptol) else if r.2.1 == 2 then decide (l < r.2.2 - ptol) else decide (absQ (l - r.2.2) > ptol)
  let v := match (if gotPoint && (rec.point.length : Int) == rec.ncols then rec.rows.zipIdx.find? (fun (r, _) => rowBad r) else none) with
    | some (r, i) => v.failIf true s!"LpSolveWrapper accepted_point_violates_row row={i} lhs={ratStr (lhsOf r.1)} rel={r.2.1} rhs={ratStr r.2.2} results={rec.results}"
    | none => v
  let v := v.diffIf (rec.ncols != (gen.2 : Int)) s!"{comp}.lp columns model={gen.2} impl={rec.ncols}"
  let v := v.diffIf (rec.nunb != gen.2) s!"{comp}.lp unbounded_columns model={gen.2} impl={rec.nunb}"
  let v := v.diffIf (rec.minim != 1) s!"{comp}.lp not_minimising {rec.minim}"
  let v := v.diffIf (!entsClose (obj.filter (fun e => e.2 != 0)) rec.obj) s!"{comp}.lp objective model={obj.map (fun e => (e.1, ratStr e.2))} impl={rec.obj.map (fun e => (e.1, ratStr e.2))}"
  let v := v.diffIf (!(gen.1.all (·.cleanB))) s!"{comp}.lp model_row_writes_a_column_twice"
  match rowsDiff 0 gen.1 rec.rows with
  | some msg => v.diffIf true s!"{comp}.lp {msg}"
  | none => v

def tol7 : Rat := 1 / 10^7

/-! ## `flp S addConst C b | (some w | none - | err cls) | rec` -/
def flp : P String := do
  let S ← P.nats; let addConst ← P.bool; let C ← P.list pBasis; let b ← P.list pBasis; P.bar
  let st ← P.tok
  let w ← (if st == "some" then P.qs else do let _ ← P.tok; pure [])
  P.bar
  let rec ← pRec; P.eof
  let n := flpNVars C addConst
  let rows := flpFlatRows S C b addConst
  let c := flpObj C addConst
  let v : Verdict := { tag := (if (allActs S).length ≤ 1 then "trivial " else "") ++ "flp" ++ (if addConst then " const" else "") ++ (if C.isEmpty then " nobasis" else "") }
  -- model of the constraint generation vs the LP the library built
  let phi := flpPhi C addConst
  let v := lpDiff "FactoredLP" v (flpGenD AITB.Gen.flpEmptyConstDelegates S C b addConst) [(phi, 1)] rec (st == "some") w
  match simplex n rows c with
  | .fuel => return "skip simplex_fuel"
  | .infeasible => return "skip flat_lp_without_optimum"       -- cannot happen: φ large is feasible, φ ≥ 0
  | .optimal x y =>
    if !optimalPairB n rows c x y then return "skip certificate_rejected" else
    let opt := dualVal rows y
    let tiny := (C ++ b).any (fun f => f.vals.any (fun q => q != 0 && decide (absQ q < 1 / 10^5)))
    if st != "some" then
      let numfail := rec.solveRes == 5 || rec.solveRes == 25
      -- lp_solve's own NUMFAILURE / ACCURACYERROR on an instance with coefficients below 1e-5 (the "ugly" stream) is the
      -- ill-conditioning that stream is meant to probe, not a verdict; on any other instance it is a failing input
      if numfail && tiny then return "skip ill_conditioned" else
      -- the lp_solve kind is used only when the recorded LP is, row by row, the generated one (a known lp_solve finding must not mask a wrong LP)
      let kind := if numfail && v.diffs.isEmpty then "lp_solve_numerical_failure" else "no_solution"
      return (v.failIf true s!"FactoredLP {kind} status={st} lp_solve_result={rec.solveRes} flat_optimum={ratStr opt}").render
    let v := v.failIf (w.length != n - 1) s!"FactoredLP wrong_weight_count {w.length}"
    let phiW := flpMaxErr S C b addConst w
    let kind := if C.isEmpty && addConst then "error_not_minimal_no_basis" else "error_not_minimal"
    -- coefficients of magnitude < 1e-5 (the "ugly" stream) put the instance below lp_solve's own accuracy (LP::getPrecision = 5e-7):
    -- a gap between 1e-7 and 1e-5 is then reported as ill-conditioned, not as a verdict
    let gap := phiW - opt
    -- φ is in the units of the target: with data above 2^6 (round-3 streams scale bases and targets by up to 2^16) the tolerance is
    -- relative to the magnitude of the terms of Σ w C − b, as lp_solve's own accuracy is; small data keeps 1e-7·(1+|opt|)
    let mag := (maxAbs (b.flatMap (·.vals))) + maxAbs w * maxAbs (C.flatMap (·.vals))
    let sc := 1 + absQ opt + (if decide (mag > 64) then mag else 0)
    -- … or the (certified or returned) weights are of order > 1e6, where a 1e-7 absolute tolerance on φ is below double precision
    let blown := decide (maxAbs w > 10^6) || decide (maxAbs x > 10^6)
    if tiny && decide (gap > tol7 * sc) && (decide (gap ≤ (1 / 10^5) * sc) || blown) then return "skip ill_conditioned" else
    -- the φ column of the point lp_solve returned bounds the TRUE max-norm error of the returned weights (`factoredLP_equiv`: the
    -- rows force φ ≥ |Σ w C(s) − b(s)| at every joint s); a φ below it means some joint assignment is covered by no constraint
    let phiLP := rec.point.getD phi 0
    let v := v.failIf (rec.point.length > phi && decide (phiW > phiLP + (1 / 10^6) * sc))
      s!"FactoredLP lp_phi_below_true_error phi_column={ratStr phiLP} maxerr={ratStr phiW}"
    let v := v.failIf (decide (gap > tol7 * sc)) s!"FactoredLP {kind} maxerr={ratStr phiW} flat_optimum={ratStr opt}"
    return v.render

def basisMClose (a b : BasisM) : Bool :=
  a.tag == b.tag && a.atag == b.atag && a.vals.length == b.vals.length &&
    (a.vals.zip b.vals).all (fun (p, q) => closeQ (1 / 10^12) p q)

/-! ## `mdp S A γ ddn R h | (some w Q | err cls) | g | rec` -/
def mdp : P String := do
  let S ← P.nats; let A ← P.nats; let γ ← P.q
  let ddn ← P.list pDNode; let R ← P.list pBM; let h ← P.list pBasis; P.bar
  let st ← P.tok
  let (w, Q) ← (if st == "some" then (do let w ← P.qs; let Q ← P.list pBM; pure (w, Q)) else do let _ ← P.tok; pure ([], []))
  P.bar
  let gImpl ← P.list pBM; P.bar
  let rec ← pRec; P.eof
  let n := h.length
  let rows := mdpFlatRows S A ddn R γ h
  -- the objective AS THE CODE STATES IT (Σ_k mean(h_k.values) · w_k); that it is the uniform average of V_w over the joint
  -- states (`mdpFlatObj`) is decided exactly below and reported as a correspondence clause
  let c := mdpStatedObj h
  -- model: backProject, then the generated LP
  let gModel := h.map (bpModel S A ddn)
  let joined := AITB.Gen.mdpJoinsFinals
  let F := S ++ A
  let stGen := genRun F F.length 1 (mdpSetup S A γ h gModel R)
  let gen := (stGen.rows ++ mdpFinalRows joined stGen.finals, stGen.ncols)
  let multi := stGen.finals.length > 1
  let v : Verdict := { tag := "mdp" ++ (if multi then " multicomponent" else " onecomponent") ++ (if st == "some" then "" else " threw") }
  let v := v.diffIf (gModel.length != gImpl.length || !((gModel.zip gImpl).all (fun (a, b) => basisMClose a b))) "backProject model_differs"
  -- hypothesis `hbp` of `mdpLP_equiv_bellman`, decided exactly on this instance: every g_k is the expectation of h_k
  let bpOk := (allActs S).all (fun s => (allActs A).all (fun a => (h.zip gModel).all (fun (hk, gk) =>
    gk.at S A s a == expect S A ddn (hk.at S) s a)))
  -- transition rows that do not sum to 1 EXACTLY as rationals (non-dyadic stream) make the two differ in the last bits: then only closeness is asked
  let bpClose := bpOk || (allActs S).all (fun s => (allActs A).all (fun a => (h.zip gModel).all (fun (hk, gk) =>
    closeQ (1 / 10^12) (gk.at S A s a) (expect S A ddn (hk.at S) s a))))
  let v := v.diffIf (!bpClose) "backProject model_is_not_the_expectation"
  let v := { v with tag := v.tag ++ (if bpOk then "" else " bp_approx") }
  -- hypothesis `NoTiny` (no entry in (0, 1e-6]) — only reported
  let tiny := (h.any (fun f => f.vals.any (fun q => isZeroSmall q && q != 0))) || ((gModel ++ R).any (fun f => f.vals.any (fun q => isZeroSmall q && q != 0)))
  let v := { v with tag := v.tag ++ (if tiny then " tiny_entries" else "") }
  let v := lpDiff "LinearProgramming" v gen ((mdpStatedObj h).zipIdx.map (fun (q, i) => (i, q))) rec (st == "some") w
  -- the objective the code states (Σ_k mean(h_k.values) w_k) is the flat objective Σ_s V_w(s)/|S|: decided exactly here
  let v := v.diffIf (mdpFlatObj S h != c) "LinearProgramming.lp stated_objective_is_not_the_uniform_flat_objective"
  let sfx := if multi then "_multi_component" else ""
  match simplex n rows c with
  | .fuel => return "skip simplex_fuel"
  | .infeasible =>
    if st != "some" then
      -- the library reports "no solution": accept only with an exactly checked Farkas certificate of flat infeasibility
      match farkas n rows with
      | some yF => if farkasOk n rows yF then return ({ v with tag := v.tag ++ " flat_infeasible_certified" }).render
                   else return "skip flat_lp_infeasible_uncertified"
      | none => return "skip flat_lp_infeasible_uncertified"
    else
    -- the library returned weights: they must violate some flat constraint
    let scale := 1 + maxAbs w
    match rows.find? (fun r => !r.satB n (tol7 * scale) w) with
    | some r => return (v.failIf true s!"LinearProgramming bellman_constraint_violated{sfx} rhs={ratStr r.rhs} lhs={ratStr (r.val n w)}").render
    | none => return "skip simplex_inconsistent"
  | .optimal x y =>
    if !optimalPairB n rows c x y then return "skip certificate_rejected" else
    let opt := dualVal rows y
    if st != "some" then
      -- lp_solve's own numerical failure codes (NUMFAILURE 5, ACCURACYERROR 25) are a different clause than a wrong LP
      -- … and so is UNBOUNDED (3) / INFEASIBLE (2) reported for an LP that is, row by row, the generated one (no diff so far): by
      -- `mdpLP_same_optimum` that LP has the certified flat optimum, so lp_solve's answer is wrong, not the construction.  With a
      -- diff the kind stays `spurious_infeasible` (a known lp_solve finding must not mask a wrong LP).
      let lpSame := v.diffs.isEmpty
      let kind := if rec.solveRes == 5 || rec.solveRes == 25 then "lp_solve_numerical_failure"
                  else if lpSame && (rec.solveRes == 3 || rec.solveRes == 2) then "lp_solve_wrong_unbounded_or_infeasible"
                  else s!"spurious_infeasible{sfx}"
      return (v.failIf true s!"LinearProgramming {kind} status={st} lp_solve_result={rec.solveRes} flat_optimum={ratStr opt}").render
    let v := v.failIf (w.length != n) s!"LinearProgramming wrong_weight_count {w.length}"
    let scale := 1 + maxAbs w
    let v := match rows.find? (fun r => !r.satB n (tol7 * scale) w) with
      | some r => v.failIf true s!"LinearProgramming bellman_constraint_violated{sfx} rhs={ratStr r.rhs} lhs={ratStr (r.val n w)}"
      | none => v
    -- the final columns of the point lp_solve returned dominate the TRUE maximum of R + γ P V_w − V_w over the joint space (`genLoop_spec`
    -- soundness: the rows force Σ finals ≥ that expression at every joint (s, a)); a smaller sum means some joint assignment is covered by
    -- no chain of constraints — the failure mode the property's `why_tests_cant` names — even when the weights happen to be feasible
    let finalsSum := stGen.finals.foldl (fun acc col => acc + rec.point.getD col 0) 0
    let worst := rows.foldl (fun m r => let d := r.rhs - r.val n w; if m < d then d else m) (-(10^30 : Rat))
    let v := v.failIf (rec.point.length == gen.2 && !rows.isEmpty && decide (worst > finalsSum + (1 / 10^6) * (1 + maxAbs rec.point)))
      s!"LinearProgramming lp_finals_below_true_max finals_sum={ratStr finalsSum} true_max={ratStr worst}"
    let objW := dotN n c w
    let v := v.failIf (decide (objW > opt + tol7 * (1 + absQ opt))) s!"LinearProgramming objective_not_minimal{sfx} objective={ratStr objW} flat_optimum={ratStr opt}"
    -- model of the tail of operator() (g *= γ·v; plusEqual(g, R)) on the library's own weights vs the returned Q, basis by basis
    let qM := (qModel S A ddn γ h R w).map ofBM
    let relClose := fun (a b : BasisM) => a.tag == b.tag && a.atag == b.atag && a.vals.length == b.vals.length &&
      (a.vals.zip b.vals).all (fun (p, q) => closeQ (1 / 10^11) p q || decide (absQ (p - q) ≤ (1 / 10^11) * (1 + maxAbs w)))
    let v := v.diffIf (qM.length != Q.length || !((qM.zip Q).all (fun (a, b) => relClose a b))) "LinearProgramming.Q model_differs"
    -- Q = R + γ P V at every joint state and action
    let bad := (allActs S).findSome? (fun s => (allActs A).findSome? (fun a =>
      let qv := fmAt S A Q s a
      let bk := mdpBackup S A ddn R γ h w s a
      if closeQ (1 / 10^9) qv bk then none else some s!"s={s} a={a} q={ratStr qv} backup={ratStr bk}"))
    let v := match bad with
      | some msg => v.failIf true s!"LinearProgramming q_not_backup {msg}"
      | none => v
    return v.render

def handle (toks : List String) : String :=
  match toks with
  | "flp" :: rest => (P.run flp rest).getD "bad-op"
  | "mdp" :: rest => (P.run mdp rest).getD "bad-op"
  | _ => "bad-op"

end DrvC15
