import AITB.Model.Proto
import AITB.Model.CursorUtil
import AITB.Model.FGCursor
import AITB.Gen.Constants
import AITB.Gen.C10Sites
open AITB AITB.CursorUtil

/-! protocol handlers of the C10 round-4 helper operations (SubsetEnumerator, nChooseK, set_union_inplace,
    sequential_sorted_*, veccmp*, max_element_unary): model vs implementation (`diff`) and the property-level clause on the
    implementation's own output (`fail`). -/
namespace DrvC10Util

def absQ (a : Rat) : Rat := if a < 0 then -a else a
def eqSmall (a b : Rat) : Bool := absQ (a - b) ≤ AITB.Gen.equalToleranceSmall
def eqGeneral (a b : Rat) : Bool := eqSmall a b || absQ (a - b) ≤ (min (absQ a) (absQ b)) * AITB.Gen.equalToleranceGeneral

/-- `subset <kind> k lo hi | visited (list of id vectors) | lowest per advance | subsetsSize` -/
def subsetOp : P String := do
  let kind ← P.tok; let k ← P.nat; let lo ← P.nat; let hi ← P.nat; P.bar
  let vis ← P.natss; P.bar; let lows ← P.nats; P.bar; let sz ← P.nat; P.eof
  let comp := s!"SubsetEnumerator<{kind}>"
  let v : Verdict := { tag := if k ≤ 1 || hi - lo ≤ k then "trivial" else "subset" }
  -- model: the documented loop on the cursor model
  let fuel := nChooseK (hi - lo) k + 2
  let m := enumerate k lo hi fuel (reset k lo) 0
  let implPairs := vis.zip (0 :: lows)
  let v := v.diffIf (m != some implPairs) s!"{comp} model_differs visited={vis.length} model={(m.map (·.length))}"
  -- clauses on the implementation's own output
  let spec := combos k (List.range' lo (hi - lo))
  let v := v.failIf (vis != spec) s!"{comp} not_all_subsets_in_order visited={vis.length} expected={spec.length}"
  let v := v.failIf (!(vis.all (fun s => validB hi s && s.length == k && s.all (· ≥ lo)))) s!"{comp} subset_out_of_range"
  let v := v.failIf (lows.length + 1 != vis.length + 1 && lows.length != vis.length) s!"{comp} lowest_count lows={lows.length} visited={vis.length}"
  let steps := (vis.zip (vis.drop 1)).zip lows
  let v := v.failIf (!(steps.all (fun ((p, c), l) => lowestOk p c l))) s!"{comp} lowest_not_leftmost_change"
  let v := if nChooseKPeak (hi - lo) k < 4294967296 then v.failIf (sz != vis.length) s!"{comp} subsetsSize_wrong size={sz} visited={vis.length}" else v
  return v.render

/-- `choose n k | nChooseK` -/
def chooseOp : P String := do
  let n ← P.nat; let k ← P.nat; P.bar; let r ← P.nat; P.eof
  if nChooseKPeak n k ≥ 4294967296 then return "skip unsigned_wraparound"
  let v : Verdict := { tag := if k == 0 || k ≥ n then "trivial" else "choose" }
  let v := v.diffIf (nChooseK n k != r) s!"nChooseK model={nChooseK n k} impl={r}"
  let v := if n ≤ 16 then (let spec := (combos k (List.range n)).length; v.failIf (r != spec) s!"nChooseK wrong_count impl={r} subsets={spec}") else v
  return v.render

/-- `union lhs rhs | out` -/
def unionOp : P String := do
  let l ← P.nats; let r ← P.nats; P.bar; let out ← P.nats; P.eof
  let v : Verdict := { tag := if l.isEmpty || r.isEmpty then "trivial" else "union" }
  let m := setUnionInplace l r (AITB.Gen.C10Sites.unionReserve l.length r.length)
  let v := v.diffIf (m != some out) s!"set_union_inplace model={m} impl={out}"
  let v := v.failIf (!(isSortedUnion out l r)) s!"set_union_inplace not_sorted_union out={out}"
  return v.render

/-- `contains v elems | r` : two-vector overload -/
def containsOp : P String := do
  let vv ← P.nats; let e ← P.nats; P.bar; let r ← P.bool; P.eof
  let v : Verdict := { tag := if e.isEmpty then "trivial" else "contains" }
  let m := sortedContains vv e
  let v := v.diffIf (m != some r) s!"sequential_sorted_contains model={m} impl={r}"
  let v := v.failIf (r != e.all vv.contains) s!"sequential_sorted_contains wrong_answer impl={r}"
  return v.render

/-- `find v e | idx found` : sequential_sorted_find / sequential_sorted_contains(begin, end, elem) -/
def findOp : P String := do
  let vv ← P.nats; let e ← P.nat; P.bar; let idx ← P.nat; let found ← P.bool; P.eof
  let v : Verdict := { tag := if vv.isEmpty then "trivial" else "find" }
  let m := skipLess vv e (vv.length + 1) 0
  let v := v.diffIf (m != some idx) s!"sequential_sorted_find model={m} impl={idx}"
  let v := v.failIf (idx != (vv.filter (· < e)).length) s!"sequential_sorted_find wrong_position impl={idx}"
  let v := v.failIf (found != vv.contains e) s!"sequential_sorted_contains wrong_answer impl={found}"
  return v.render

/-- `veccmp l r | c crev` -/
def veccmpOp : P String := do
  let l ← P.nats; let r ← P.nats; P.bar; let c ← P.int; let c' ← P.int; P.eof
  let v : Verdict := { tag := if l.isEmpty then "trivial" else "veccmp" }
  let v := v.diffIf (veccmp l r != some c) s!"veccmp model={veccmp l r} impl={c}"
  let spec : Int := if lexLt l r then -1 else if lexLt r l then 1 else 0
  let v := v.failIf (c != spec) s!"veccmp wrong_order impl={c} spec={spec}"
  let v := v.failIf (c' != -c) s!"veccmp not_antisymmetric c={c} rev={c'}"
  return v.render

/-- `veccmpq <small|general|exact> l r | c crev` over doubles (exact tokens) -/
def veccmpqOp : P String := do
  let kind ← P.tok; let l ← P.qs; let r ← P.qs; P.bar; let c ← P.int; let c' ← P.int; P.eof
  let eq : Rat → Rat → Bool := if kind == "small" then eqSmall else if kind == "general" then eqGeneral else (· == ·)
  let v : Verdict := { tag := if l.isEmpty then "trivial" else s!"veccmp_{kind}" }
  let m := veccmpTol eq l r
  -- the documented order IS the tolerance comparison ("considers two elements equal using the checkEqualSmall / checkEqualGeneral function"):
  -- a different answer is a failing input, not only a broken correspondence
  let v := v.failIf (m != c) s!"veccmp<{kind}> not_the_documented_order impl={c} documented={m}"
  let v := v.failIf (c' != -c) s!"veccmp<{kind}> not_antisymmetric c={c} rev={c'}"
  return v.render

/-- `maxunary vals | idx val` ; idx = vals.size() stands for `end` -/
def maxunaryOp : P String := do
  let vals ← P.qs; P.bar; let idx ← P.nat; let val ← P.q; P.eof
  let v : Verdict := { tag := if vals.length ≤ 1 then "trivial" else "maxunary" }
  let m := maxElementUnary vals
  let v := v.diffIf (m != (idx, val)) s!"max_element_unary model={m.1} impl={idx}"
  let v := v.failIf (!vals.isEmpty && !(vals.all (· ≤ val) && vals[idx]? == some val && (vals.take idx).all (· < val))) s!"max_element_unary not_first_maximum impl={idx}"
  return v.render

/-- `fgstep n | pre (n neighbour lists) | add <vars> <isNew> / erase <a> | post (n lists) | live factors` :
    one step of a FactorGraph history on the real graph vs `FGCursor.step` -/
def fgstepOp : P String := do
  let n ← P.nat; P.bar; let pre ← P.natss; P.bar
  let kind ← P.tok
  let (op, isNew, vars) ← (if kind == "add" then do
      let vars ← P.nats; let isNew ← P.bool; pure (AITB.FGCursor.Op.add vars, isNew, vars)
    else do let a ← P.nat; pure (AITB.FGCursor.Op.erase a, true, []))
  P.bar; let post ← P.natss; P.bar; let live ← P.natss; P.eof
  let nb : AITB.FGCursor.Nbrs := fun v => (pre[v]?).getD []
  let v : Verdict := { tag := if kind == "add" && !isNew then "trivial" else s!"fg_{kind}" }
  let m := if isNew then (AITB.FGCursor.step nb op).map (fun nb' => (List.range n).map nb') else some pre
  let v := v.diffIf (m != some post) s!"FactorGraph.{kind} neighbours_differ_from_model impl={post} model={m}"
  -- clauses on the implementation's own lists: sorted, irreflexive, symmetric; every pair of variables sharing a live factor is listed
  let get := fun (u : Nat) => (post[u]?).getD []
  let v := v.failIf (!(post.all AITB.FGCursor.strictSorted)) s!"FactorGraph.{kind} neighbours_not_sorted {post}"
  let v := v.failIf ((List.range n).any (fun u => (get u).any (fun w => w == u || w ≥ n || !(get w).contains u))) s!"FactorGraph.{kind} neighbours_not_symmetric {post}"
  let v := v.failIf (live.any (fun f => f.any (fun u => f.any (fun w => w != u && !(get u).contains w)))) s!"FactorGraph.{kind} neighbour_missing {post} live={live}"
  let v := v.failIf (kind == "add" && !(live.contains vars)) s!"FactorGraph.add factor_not_registered {vars}"
  return v.render

def handle (toks : List String) : Option String :=
  match toks with
  | "subset" :: rest => P.run subsetOp rest
  | "choose" :: rest => P.run chooseOp rest
  | "union" :: rest => P.run unionOp rest
  | "contains" :: rest => P.run containsOp rest
  | "find" :: rest => P.run findOp rest
  | "veccmp" :: rest => P.run veccmpOp rest
  | "veccmpq" :: rest => P.run veccmpqOp rest
  | "maxunary" :: rest => P.run maxunaryOp rest
  | "fgstep" :: rest => P.run fgstepOp rest
  | _ => none
end DrvC10Util
