import AITB.Model.Proto
import AITB.Model.POMDP
import AITB.Model.POMDPSolve
import AITB.Gen.C02Sites
import Driver.C02LP
open AITB AITB.POMDP
open AITB.MDP (sumTo maxTo argmaxTo Vec mkVec absR)

/-!
  Driver for C02.
    `fail <solver> <kind>`  = the property's clause is false on the implementation's own output
    `diff <solver> …`       = executable model and implementation differ (bit-exactness on dyadic instances, findBestAtPoint value, RTBSS action)

  C02 vf <solver> <rep> <dyadic> <pomdp> <h> | <nLists> { <nVec> { <action> <S values> } } | <nB> { <S weights> } | <nB> { value }
  C02 rtbss <rep> <dyadic> <pomdp> <h> <maxR> <S belief> | <action> <value>
  C02 vftol <solver> <rep> <dyadic> <pomdp> <h> <tol> | <variation> | <nLists> { <nVec> { <action> <S values> } }
-/
namespace DrvC02

def tol9 : Rat := 1 / 1000000000

def pomdpP : P Model := do
  let S ← P.nat; let A ← P.nat; let γ ← P.q
  let t ← P.rep P.q (A * S * S); let r ← P.rep P.q (S * A)
  let O ← P.nat
  let ob ← P.rep P.q (A * S * O)
  let ta := t.toArray; let ra := r.toArray; let oa := ob.toArray
  pure { S := S, A := A, O := O, γ := γ,
         T := fun s a s1 => ta.getD ((a * S + s) * S + s1) 0,
         R := fun s a => ra.getD (s * A + a) 0,
         Ob := fun s1 a o => oa.getD ((a * S + s1) * O + o) 0 }

def vecP (n : Nat) : P Vec := do let l ← P.rep P.q n; pure l.toArray

def entryP (S : Nat) : P (Nat × Vec) := do let a ← P.nat; let v ← vecP S; pure (a, v)

def showVec (v : Vec) : String := " ".intercalate (v.toList.map ratStr)

def isPow2 (n : Nat) : Bool := n == 1 || n == 2 || n == 4 || n == 8

/-- some entry has magnitude ≥ 2^17 (`ilogb > 16`: the regime where WitnessLP rescales its rows, and where `findVerticesNaive`'s QR meets
    rows of very different scale).  Part of the clause name, so that a finding known for that regime does not mask a failure elsewhere. -/
def bigMag (vs : List Vec) : Bool := vs.any (fun v => v.any (fun x => decide (absQ x ≥ 131072)))
def magSfx (vs : List Vec) : String := if bigMag vs then "_large_magnitude" else ""

/-- does some member of `l` equal `v` on the first n entries (exactly, or to 1e-9)? -/
def memVec (exact : Bool) (n : Nat) (l : List Vec) (v : Vec) : Bool :=
  l.any (fun w => allLt n (fun s => if exact then w.get s == v.get s else closeQ tol9 (w.get s) (v.get s)))

/-- number of vectors the full backup of Γ would enumerate -/
def backupSize (m : Model) (τ : Rat) (Γ : List Vec) : Nat :=
  (List.range m.A).foldl (fun acc a => acc + (List.range m.O).foldl (fun p o => p * (projList m τ Γ a o).length) 1) 0

/-- Gaussian elimination over ℚ on an n×n system (rows = coefficient list ++ [rhs]); `none` when singular. Executable helper, not a model. -/
def solveLin (n : Nat) (rows : Array (Array Rat)) : Option (Array Rat) := Id.run do
  let mut a := rows
  for c in [0:n] do
    -- find pivot
    let mut piv : Option Nat := none
    for r in [c:n] do
      if piv.isNone && (a.getD r #[]).getD c 0 != 0 then piv := some r
    match piv with
    | none => return none
    | some p =>
      let rp := a.getD p #[]
      let rc := a.getD c #[]
      a := (a.setIfInBounds p rc).setIfInBounds c rp
      let pv := rp.getD c 0
      let rowc := rp.map (· / pv)
      a := a.setIfInBounds c rowc
      for r in [0:n] do
        if r != c then
          let rr := a.getD r #[]
          let f := rr.getD c 0
          if f != 0 then
            a := a.setIfInBounds r ((List.range (n+1)).map (fun j => rr.getD j 0 - f * rowc.getD j 0)).toArray
  return some ((List.range n).map (fun i => (a.getD i #[]).getD n 0)).toArray

/-- all sublists of length k -/
def sublistsLen {α} : Nat → List α → List (List α)
  | 0, _ => [[]]
  | _+1, [] => []
  | k+1, x :: xs => (sublistsLen k xs).map (x :: ·) ++ sublistsLen (k+1) xs

/-- vertices of the partition of the simplex induced by the upper envelope of Γ (points where S independent constraints among
    "plane i = plane j" and "x_d = 0" are active and the chosen planes are maximal), corners excluded -/
def partitionVertices (S : Nat) (Γ : List Vec) : List Vec := Id.run do
  let n := Γ.length
  let G := Γ.toArray
  let mut out : List Vec := []
  for nd in [0:S-1] do                       -- number of boundaries fixed (S-1 would give corners)
    for D in sublistsLen nd (List.range S) do
      for Pl in sublistsLen (S - nd) (List.range n) do
        match Pl with
        | [] => pure ()
        | p0 :: rest =>
          let a0 := G.getD p0 #[]
          let rowsEq := rest.map (fun pj => ((List.range S).map (fun s => a0.get s - (G.getD pj #[]).get s) ++ [0]).toArray)
          let rowsD := D.map (fun d => ((List.range S).map (fun s => if s == d then (1 : Rat) else 0) ++ [0]).toArray)
          let rowSum := ((List.range S).map (fun _ => (1 : Rat)) ++ [1]).toArray
          match solveLin S (rowsEq ++ rowsD ++ [rowSum]).toArray with
          | none => pure ()
          | some x =>
            if (List.range S).all (fun s => decide (0 ≤ x.getD s 0)) then
              let e := env S Γ x
              if dot S x a0 == e && !(out.any (fun y => y == x)) then out := x :: out
  return out

def extraBeliefs (S : Nat) : List Vec :=
  -- centroid and the beliefs proportional to (1,2,…,S) and (S,…,2,1): not dyadic for S = 3
  let c : Vec := mkVec S (fun _ => 1 / (S : Rat))
  let tot : Rat := ((S * (S + 1) / 2 : Nat) : Rat)
  let up : Vec := mkVec S (fun s => ((s + 1 : Nat) : Rat) / tot)
  let dn : Vec := mkVec S (fun s => ((S - s : Nat) : Rat) / tot)
  [c, up, dn]

/-- exact stand-in for `WitnessLP::findWitness`: the candidate minus the envelope of U is concave piecewise linear, so its maximum over the
    simplex is attained at a corner or at a vertex of U's partition; a positive maximum is a witness point -/
def exactWitness (S : Nat) (U : List Vec) (cand : Vec) : Option Vec :=
  if U.isEmpty then some (mkVec S (fun _ => 1 / (S : Rat))) else
  let pts := (List.range S).map (cornerB S) ++ partitionVertices S U
  let best := pts.foldl (fun (acc : Option (Vec × Rat)) x =>
      let d := dot S x cand - env S U x
      match acc with
      | none => some (x, d)
      | some (_, d0) => if d0 < d then some (x, d) else acc) none
  match best with
  | some (x, d) => if 0 < d then some x else none
  | none => none

/-- choice form of `crossSumBestAtBelief(w, projections[a], a)` -/
def bestChoice (S O : Nat) (P : Nat → List Vec) (w : Vec) : Choice :=
  (List.range O).map (fun o => (P o).findIdx (fun α => α == bestAtV S w (P o)))

def witnessModelUnion (m : Model) (τ : Rat) (prev : List Vec) (fuel : Nat) : List Vec × Bool :=
  (List.range m.A).foldl (fun (acc : List Vec × Bool) a =>
    let P := projList m τ prev a
    let st := wLoop m.S m.O P (exactWitness m.S) (bestChoice m.S m.O P) fuel (wInit m.O)
    (acc.1 ++ st.U.map (choiceSum m.S m.O P), acc.2 && st.agenda.isEmpty)) ([], true)

/-- UNTRUSTED finder of multipliers λ ≥ 0, Σλ = 1 with Σ λ_i α_i ≥ β (a single dominating vector, else the exact simplex on
    max t s.t. Σ λ_i α_i(s) − t ≥ β(s)); accepted only through `domBy`.  When the optimum is negative the dual multipliers of the
    domination rows, normalised, are a belief at which β beats the list. -/
def findLam (S : Nat) (cur : List Vec) (β : Vec) : Except (Option Vec) (List Rat) :=
  let k := cur.length
  match cur.findIdx? (fun α => allLt S (fun s => decide (β.get s ≤ α.get s))) with
  | some i => .ok ((List.range k).map (fun j => if j == i then 1 else 0))
  | none =>
    let rowsDom := (List.range S).map (fun s => (⟨cur.map (fun α => α.get s) ++ [-1], β.get s⟩ : DrvC02LP.GeRow))
    let rowsNN := (List.range k).map (fun i => (⟨(List.range (k+1)).map (fun j => if j == i then 1 else 0), 0⟩ : DrvC02LP.GeRow))
    let rowSum1 : DrvC02LP.GeRow := ⟨List.replicate k 1 ++ [0], 1⟩
    let rowSum2 : DrvC02LP.GeRow := ⟨List.replicate k (-1) ++ [0], -1⟩
    let c : List Rat := List.replicate k 0 ++ [-1]
    match DrvC02LP.simplex (k+1) (rowsDom ++ rowsNN ++ [rowSum1, rowSum2]) c with
    | .optimal x y =>
      let lam := x.take k
      if domBy S cur lam β then .ok lam
      else
        let w := y.take S
        let tot := w.foldl (· + ·) 0
        .error (if tot > 0 then some (w.map (· / tot)).toArray else none)
    | _ => .error none

/-- certificates for one timestep: one λ per vector of the full backup of `prev` (by position), or the first uncovered vector with a
    belief where it beats `cur` -/
def coverCerts (m : Model) (τ : Rat) (prev cur : List Vec) : Except (Vec × Option Vec) (Array (List Rat)) := Id.run do
  let full := backupAll m τ prev
  let mut out : Array (List Rat) := #[]
  for β in full do
    match findLam m.S cur β with
    | .ok lam => out := out.push lam
    | .error w => return .error (β, w)
  return .ok out

def listsP (S : Nat) : P (List (List (Nat × Vec))) := do
  let nl ← P.nat
  P.rep (P.list (entryP S)) nl

def vf : P String := do
  let solver ← P.tok; let _rep ← P.tok; let dyadic ← P.bool
  let m ← pomdpP; let h ← P.nat; P.bar
  let nl ← P.nat
  let lists ← P.rep (P.list (entryP m.S)) nl
  P.bar
  let nb ← P.nat
  let bs ← P.rep (vecP m.S) nb
  P.bar
  let nv ← P.nat
  let vals ← P.rep P.q nv
  P.eof
  let τ := AITB.Gen.equalToleranceSmall
  if !(validB m) then return "skip invalid_model"
  if !(sepB m τ) then return "skip ill_conditioned"
  let exact := dyadic && isPow2 m.O && h ≤ 3
  let v : Verdict := { tag := s!"vf h{h} S{m.S}" ++ (if exact then " exact" else " approx") }
  -- shape: one list per timestep 0..h, first list is the single zero vector
  -- the as-written merge schedule gathers every observation exactly once for this O (hypothesis of `incremental_pruning_as_written_exact`)
  let v := v.diffIf (solver == "IncrementalPruning" && !(scheduleOK m.O)) s!"{solver} merge_schedule_incomplete O={m.O}"
  let v := v.failIf (lists.length != h + 1) s!"{solver} wrong_number_of_timesteps {lists.length}"
  let last : List Vec := (lists.getLastD []).map (·.2)
  let v := v.failIf last.isEmpty s!"{solver} empty_value_function"
  if last.isEmpty then return v.render
  -- (i) every returned vector is a genuine one-step backup of the previous returned list (hence achievable: by
  --     `backup_members_le_expectimax` the returned surface is ≤ expectimax at EVERY belief)
  -- In exact mode the Lean checker `checkChain` (soundness: `checkChain_sound_from_zero`) is evaluated first; when it accepts, the
  -- upper side is certified for all beliefs and the per-vector search below is skipped.
  let vecLists : List (List Vec) := lists.map (·.map (·.2))
  let sizesOK := Id.run do
    let mut ok := true
    let mut prev : List Vec := [vzero m.S]
    for cur in vecLists.drop 1 do
      if backupSize m τ prev > 30000 then ok := false
      prev := cur
    return ok
  let zeroOK := match vecLists.head? with | some [z] => vecEqN m.S z (vzero m.S) | _ => false
  let certified := sizesOK && zeroOK && checkChain m τ [vzero m.S] (vecLists.drop 1)
  -- (ii-all) exact mode: the COMPLETE clause.  For every timestep, every vector of the full backup of the previous returned list must be
  -- convexly dominated by the returned list (multipliers from the untrusted exact simplex, verified by `checkExactChain`; soundness
  -- `checkExactChain_sound_from_zero`: accepted ⇒ returned surface = expectimax at EVERY belief).  An uncovered vector comes with a belief
  -- (dual solution) at which the returned surface is below the backup: a failing input.
  let v := if !(certified && exact) then v else Id.run do
    let mut v := v
    let mut prev : List Vec := [vzero m.S]
    let mut certs : List (Nat → List Rat) := []
    let mut complete := true
    let mut t := 0
    for cur in vecLists.drop 1 do
      t := t + 1
      if complete then
        if backupSize m τ prev > 1500 || cur.length > 16 then complete := false
        else match coverCerts m τ prev cur with
          | .ok arr => certs := certs ++ [fun i => arr.getD i []]
          | .error (β, w) =>
            complete := false
            match w with
            | some b =>
              let e := expectimax m t b
              let i := env m.S cur b
              if simplexB m.S b && decide (i < e) then
                let sfx := (if m.S ≤ 2 then "_S2" else "") ++ magSfx (vecLists.flatten)
                v := v.failIf true s!"{solver} value_below_expectimax{sfx} t={t} b=[{showVec b}] impl={ratStr i} expectimax={ratStr e} uncovered=[{showVec β}]"
              else v := { v with tag := v.tag ++ " cover_uncertified" }
            | none => v := { v with tag := v.tag ++ " cover_uncertified" }
      prev := cur
    if complete then
      if checkExactChain m τ [vzero m.S] (vecLists.drop 1) certs then v := { v with tag := v.tag ++ " all_beliefs_certified" }
      else v := v.diffIf true s!"{solver} checkExactChain_rejects_found_certificates"
    return v
  let v := if certified then { v with tag := v.tag ++ " upper_certified" } else Id.run do
    let mut v := v
    let mut prev : List Vec := [vzero m.S]
    let mut t := 0
    for l in lists do
      let cur := l.map (·.2)
      if t == 0 then
        v := v.failIf (!(cur.length == 1 && memVec true m.S [vzero m.S] (cur.headD #[]))) s!"{solver} horizon0_not_zero"
      else if backupSize m τ prev ≤ 30000 then
        let full := backupAll m τ prev
        for α in cur do
          if !(memVec false m.S full α) then
            v := v.failIf true s!"{solver} vector_not_a_backup t={t} [{showVec α}]"
          else if exact && !(memVec true m.S full α) then
            v := v.diffIf true s!"{solver} vector_not_bit_exact t={t} [{showVec α}]"
      prev := cur
      t := t + 1
    return v
  -- (ii) the returned surface against the property's definition at corners, edge points, interior points, random dyadic beliefs
  -- … and at every vertex of the partition of the simplex induced by the returned surface (exact rational vertex enumeration).
  -- Together with clause (i) this is a complete test of the returned surface: expectimax is convex and ≥ the surface everywhere,
  -- so if it equals the (linear) surface at all vertices of a region it equals it on the whole region.  (Argued, not proved in Lean.)
  let verts := if last.length ≤ 24 then partitionVertices m.S last else []
  let allB := bs ++ extraBeliefs m.S ++ verts
  let v := Id.run do
    let mut v := v
    for b in allB do
      if !(simplexB m.S b) then
        v := v.diffIf true s!"{solver} harness_belief_not_in_simplex [{showVec b}]"
      else
        let e := expectimax m h b
        let i := env m.S last b
        if !(closeQ tol9 i e) then
          -- the state-count class is part of the kind so that a finding known for S ≥ 3 does not mask a failure on S = 2
          let sfx := (if m.S ≤ 2 then "_S2" else "") ++ magSfx (vecLists.flatten)
          let kind := (if i < e then "value_below_expectimax" else "value_above_expectimax") ++ sfx
          v := v.failIf true s!"{solver} {kind} b=[{showVec b}] impl={ratStr i} expectimax={ratStr e}"
        else if exact && i != e then
          v := v.diffIf true s!"{solver} value_not_bit_exact b=[{showVec b}] impl={ratStr i} expectimax={ratStr e}"
    return v
  -- LinearSupport: the stopping test (hypothesis `hX` of `linear_support_exact_of_cover`, conclusion of `ls_break_tested`) at the corners and
  -- at every exact vertex of the partition of EVERY returned timestep, against the one-step backup of the previous returned list
  let v := if solver != "LinearSupport" then v else Id.run do
    let mut v := v
    let mut prev : List Vec := [vzero m.S]
    let mut t := 0
    for cur in vecLists do
      if t > 0 && !cur.isEmpty && cur.length ≤ 24 then
        let pts := (List.range m.S).map (cornerB m.S) ++ partitionVertices m.S cur
        for x in pts do
          let tv := maxTo (m.A - 1) (qOf m (env m.S prev) x)
          let cv := env m.S cur x
          if !(closeQ tol9 tv cv) && decide (cv < tv) then
            v := v.failIf true s!"{solver} stopping_test_violated{magSfx (vecLists.flatten)} t={t} x=[{showVec x}] backup={ratStr tv} current={ratStr cv}"
      prev := cur
      t := t + 1
    return v
  -- LinearSupport: the agenda-loop MODEL (`lsLoop`, Model/POMDP.lean) run with an exact vertex oracle (all vertices of the partition of
  -- good ∪ {new support}; corners excluded like the code) and the code's acceptance test, from the previous RETURNED list; its final
  -- set must be the returned list of that timestep as a set of vectors (1e-9).
  -- (only on bit-exact instances: elsewhere rounding noise of 1e-17 decides ties between vectors that are equal in exact arithmetic)
  let v := if solver != "LinearSupport" || !exact then v else Id.run do
    let mut v := v
    let mut prev : List Vec := [vzero m.S]
    let mut t := 0
    for cur in vecLists do
      if t > 0 && !cur.isEmpty && cur.length ≤ 12 && backupSize m τ prev ≤ 30000 then
        let acc : Rat → Bool := fun d => decide (0 < d) && !(AITB.MDP.checkEqualGeneral d 0)
        let interior : List Vec → List Vec := fun l => l.filter (fun x => !((List.range m.S).any (fun s => decide (x.get s > 1 - 1 / 100000))))
        let oracle : Vec → List Vec → List Vec := fun sup good => interior (partitionVertices m.S (good ++ [sup]))
        let sup := bestBackupAtV m τ prev
        let g0 := lsCorners m sup m.S
        let st := lsLoop m sup acc oracle 64 ⟨g0, [], [], interior (partitionVertices m.S g0)⟩
        let modelInImpl := st.good.all (fun α => memVec false m.S cur α)
        let implInModel := cur.all (fun α => memVec false m.S st.good α)
        v := { v with tag := v.tag ++ " ls_loop_model" }
        if !(modelInImpl && implInModel) then
          -- The vertices LinearSupport examines are solutions of linear systems, not dyadic: where two backups tie EXACTLY at such a vertex
          -- (symmetric instances) rounding decides which one the implementation takes, and whether it sees an error of 1e-15 as positive.
          -- Both sets are then legitimate: accepted when the two surfaces coincide (corners + every partition vertex of either set) and every
          -- vector only one side has is a genuine backup that touches the common surface at one of those points (a tying support).
          let pts := (List.range m.S).map (cornerB m.S) ++ partitionVertices m.S cur ++ partitionVertices m.S st.good
          let sameSurface := pts.all (fun x => closeQ tol9 (env m.S cur x) (env m.S st.good x))
          let touches (α : Vec) : Bool := pts.any (fun x => closeQ tol9 (dot m.S x α) (env m.S cur x))
          let extras := (cur.filter (fun α => !(memVec false m.S st.good α))) ++ (st.good.filter (fun α => !(memVec false m.S cur α)))
          let full := backupAll m τ prev
          if sameSurface && extras.all (fun α => touches α && memVec false m.S full α) then
            v := { v with tag := v.tag ++ " ls_loop_model_ties" }
          else
            v := v.diffIf true s!"{solver} loop_model_set t={t} model={st.good.length} impl={cur.length} modelInImpl={modelInImpl} implInModel={implInModel} agendaLeft={st.agenda.length}"
      prev := cur
      t := t + 1
    return v
  -- Witness: the agenda-loop MODEL (`wLoop`) run with an exact stand-in for the LP (`exactWitness`) from the previous RETURNED list, on
  -- small bit-exact instances: it must empty its agenda within the fuel (hypothesis `hdone` of `witness_loop_complete`), every returned
  -- vector must be among the vectors it collects, and its union must have the returned envelope at the harness beliefs
  let v := if solver != "Witness" || !exact || m.S > 3 then v else Id.run do
    let mut v := v
    let mut prev : List Vec := [vzero m.S]
    let mut t := 0
    for cur in vecLists do
      if t > 0 && !cur.isEmpty && prev.length ≤ 4 then
        let r := witnessModelUnion m τ prev 600
        v := { v with tag := v.tag ++ " w_loop_model" }
        v := v.diffIf (!r.2) s!"{solver} loop_model_agenda_not_empty t={t}"
        -- a returned vector the exact loop does not collect is accepted when it only differs by an exact tie (as for LinearSupport: witness
        -- points are not dyadic, rounding decides which of two backups tying there `crossSumBestAtBelief` returns): both surfaces must
        -- coincide at corners + partition vertices and the vector must touch the surface at one of them
        let missing := cur.filter (fun α => !(memVec false m.S r.1 α))
        let pts := (List.range m.S).map (cornerB m.S) ++ partitionVertices m.S cur
        let tiesOnly := pts.all (fun x => closeQ tol9 (env m.S r.1 x) (env m.S cur x)) &&
                        missing.all (fun α => pts.any (fun x => closeQ tol9 (dot m.S x α) (env m.S cur x)))
        if r.2 && !missing.isEmpty && tiesOnly then v := { v with tag := v.tag ++ " w_loop_model_ties" }
        v := v.diffIf (r.2 && !missing.isEmpty && !tiesOnly) s!"{solver} loop_model_missing_vector t={t} model={r.1.length} impl={cur.length}"
        v := v.diffIf (r.2 && !(bs.all (fun b => closeQ tol9 (env m.S r.1 b) (env m.S cur b)))) s!"{solver} loop_model_envelope t={t}"
      prev := cur
      t := t + 1
    return v
  -- findBestAtPoint's value as computed by the library at the harness beliefs
  let v := v.diffIf (vals.length != bs.length) s!"{solver} findBestAtPoint count"
  let v := (bs.zip vals).foldl (fun v (bv : Vec × Rat) =>
      v.diffIf (!(closeQ tol9 (env m.S last bv.1) bv.2)) s!"{solver} findBestAtPoint value model={ratStr (env m.S last bv.1)} impl={ratStr bv.2}") v
  return v.render

/-- geometric sum 1 + γ + … + γ^(t-1) -/
def geoSum (γ : Rat) : Nat → Rat
  | 0 => 0
  | t+1 => 1 + γ * geoSum γ t

/-- `C02 vftol <solver> <rep> <dyadic> <pomdp> <h> <tol> | <variation> | lists`: the outer loop with a tolerance.
    The model of the loop (`solveOuter`, theorems `solver_loop_exact`, `solver_loop_tol0_horizon`, `outerGo_early_stop`,
    `outerGo_variation`, `wbd_sound`) is replayed on the implementation's OWN lists (step = "the list the implementation produced for
    that timestep"): it must stop where the implementation stopped and return the same variation. -/
def vftol : P String := do
  let solver ← P.tok; let _rep ← P.tok; let dyadic ← P.bool
  let m ← pomdpP; let h ← P.nat; let tol ← P.q; P.bar
  let ivar ← P.q; P.bar
  let lists ← listsP m.S
  P.eof
  let τ := AITB.Gen.equalToleranceSmall
  if !(validB m) then return "skip invalid_model"
  if !(sepB m τ) then return "skip ill_conditioned"
  if decide (tol < 0) then return "skip negative_tolerance"
  let vecLists : List (List Vec) := lists.map (·.map (·.2))
  let nl := vecLists.length
  let useTol := useTolerance τ tol
  let exact := dyadic && isPow2 m.O && nl ≤ 4
  let v : Verdict := { tag := s!"vftol h{h} S{m.S} lists{nl}" ++ (if useTol then " tolerance" else " tolerance_read_as_zero") ++ (if nl < h + 1 then " stopped_early" else "") }
  let v := v.failIf (nl == 0) s!"{solver} empty_value_function"
  if nl == 0 then return v.render
  let zeroOK := match vecLists.head? with | some [z] => vecEqN m.S z (vzero m.S) | _ => false
  let v := v.failIf (!zeroOK) s!"{solver} horizon0_not_zero"
  let v := v.failIf (vecLists.any (·.isEmpty)) s!"{solver} empty_value_function"
  if vecLists.any (·.isEmpty) then return v.render
  -- the loop model on the implementation's own lists
  let (mvar, mlists) := solveOuter m.S (fun t _ => vecLists.getD t []) τ tol h
  let v := v.failIf (nl > h + 1) s!"{solver} wrong_number_of_timesteps {nl}"
  let v := v.failIf (nl < mlists.length) (s!"{solver} stopped_before_horizon lists={nl} horizon={h} " ++
            s!"variation_of_last_two={ratStr (lastTwo vecLists)} tolerance={ratStr tol}")
  let v := v.diffIf (nl > mlists.length && nl ≤ h + 1) s!"{solver} continued_after_tolerance lists={nl} model={mlists.length}"
  let v := if nl != mlists.length then v else
    v.diffIf (!(if exact then mvar == ivar else closeQ tol9 mvar ivar)) s!"{solver} variation model={ratStr mvar} impl={ratStr ivar}"
  -- `wbd_sound` on the implementation's lists: a returned variation ≤ tol bounds the last step's gain at every belief (checked at corners + extras)
  -- upper side for all beliefs: every vector is a backup of the previous returned list
  let sizesOK := Id.run do
    let mut ok := true
    let mut prev : List Vec := [vzero m.S]
    for cur in vecLists.drop 1 do
      if backupSize m τ prev > 30000 then ok := false
      prev := cur
    return ok
  let t := nl - 1
  let last := vecLists.getLastD []
  let v := if !sizesOK then { v with tag := v.tag ++ " too_large" } else Id.run do
    let mut v := v
    let mut prev : List Vec := [vzero m.S]
    let mut k := 0
    for cur in vecLists.drop 1 do
      k := k + 1
      let full := backupAll m τ prev
      for α in cur do
        if !(memVec false m.S full α) then v := v.failIf true s!"{solver} vector_not_a_backup t={k} [{showVec α}]"
      prev := cur
    return v
  -- lower side: exact for IncrementalPruning / Witness (the tolerance only stops the loop) and for LinearSupport when the tolerance reads
  -- as zero; LinearSupport with tolerance ε may lose (ε + checkEqualGeneral slack) per timestep, discounted (`lsAccept_false_bound`,
  -- `linear_support_exact_of_cover` with that ε)
  let lsEps : Rat := if solver == "LinearSupport" then tol + AITB.MDP.tieSlack tol else 0
  let slack : Rat := lsEps * geoSum m.γ t
  let verts := if last.length ≤ 24 then partitionVertices m.S last else []
  let allB := (List.range m.S).map (cornerB m.S) ++ extraBeliefs m.S ++ verts
  let v := Id.run do
    let mut v := v
    for b in allB do
      if simplexB m.S b then
        let e := expectimax m t b
        let i := env m.S last b
        let sfx := (if m.S ≤ 2 then "_S2" else "") ++ magSfx (vecLists.flatten)
        if !(closeQ tol9 i e) && decide (e < i) then
          v := v.failIf true s!"{solver} value_above_expectimax{sfx} t={t} b=[{showVec b}] impl={ratStr i} expectimax={ratStr e}"
        else if !(closeQ tol9 (i + slack) e) && decide (i + slack < e) then
          v := v.failIf true s!"{solver} value_below_expectimax{sfx} t={t} tol={ratStr tol} b=[{showVec b}] impl={ratStr i} expectimax={ratStr e} allowed_loss={ratStr slack}"
        else if exact && slack == 0 && i != e then
          v := v.diffIf true s!"{solver} value_not_bit_exact b=[{showVec b}] impl={ratStr i} expectimax={ratStr e}"
    return v
  -- LinearSupport's ε stopping test at the corners and every partition vertex of every returned timestep (conclusion of `ls_break_tested`
  -- for the acceptance test as written, `lsAccept`)
  let v := if solver != "LinearSupport" then v else Id.run do
    let mut v := v
    let mut prev : List Vec := [vzero m.S]
    let mut k := 0
    for cur in vecLists.drop 1 do
      k := k + 1
      if cur.length ≤ 24 then
        let pts := (List.range m.S).map (cornerB m.S) ++ partitionVertices m.S cur
        for x in pts do
          let tv := maxTo (m.A - 1) (qOf m (env m.S prev) x)
          let cv := env m.S cur x
          if lsAccept tol (tv - cv) && !(closeQ tol9 (tv - cv) tol) && !(closeQ tol9 tv (cv + tol)) then
            v := v.failIf true s!"{solver} stopping_test_violated{magSfx (vecLists.flatten)} t={k} tol={ratStr tol} x=[{showVec x}] backup={ratStr tv} current={ratStr cv}"
      prev := cur
    return v
  return v.render
where
  lastTwo (l : List (List Vec)) : Rat :=
    match l.reverse with
    | cur :: prev :: _ => wbd (cur.headD #[]).size prev cur
    | _ => 0

/-- `C02 hang <solver> <rep> <dyadic> <pomdp> <h> <tol> <seconds>`: the harness killed a solver run that did not return within the
    limit (the other solvers need milliseconds on the same instance).  A solver that does not return computes no value: the property fails
    on this instance. -/
def hang : P String := do
  let solver ← P.tok; let _rep ← P.tok; let _dyadic ← P.bool
  let m ← pomdpP; let h ← P.nat; let _tol ← P.q; let secs ← P.nat; P.eof
  if !(validB m) then return "skip invalid_model"
  let v : Verdict := { tag := s!"hang h{h} S{m.S}" }
  return (v.failIf true s!"{solver} does_not_terminate killed_after={secs}s S={m.S} A={m.A} O={m.O} h={h}").render

def rtbss : P String := do
  let _rep ← P.tok; let dyadic ← P.bool
  let m ← pomdpP; let h ← P.nat; let maxR ← P.q
  let b ← vecP m.S; P.bar
  let ia ← P.nat; let iv ← P.q; P.eof
  let τ := AITB.Gen.equalToleranceSmall
  if !(validB m) then return "skip invalid_model"
  if !(simplexB m.S b) then return "skip invalid_belief"
  let _ := dyadic
  -- the model follows the two RTBSS source sites found by tools/extract_c02.py on this run
  let cfg : RtCfg := ⟨AITB.Gen.C02.rtbssGeometricBound, AITB.Gen.C02.rtbssCompareInsidePrune⟩
  let (ma, mv) := rtSampleC cfg m τ maxR h b
  let e := expectimax m h b
  let validBound := allLt m.S (fun s => allLt m.A (fun a => decide (m.R s a ≤ maxR)))
  if !validBound then return "skip maxR_not_an_upper_bound"
  -- hypothesis of `rtbss_full`: no observation probability in the lookahead tree lies in (0, 1e-6]
  if !(skipFreeB m τ h b) then return "skip ill_conditioned"
  let neg := decide (maxR < 0)
  let v : Verdict := { tag := s!"rtbss h{h}" ++ (if neg then " negative_maxR" else "") }
  let sfx := if neg then "_negative_maxR" else ""
  -- property: value = expectimax, and the returned action attains it
  let v := v.failIf (!(closeQ tol9 iv e)) s!"RTBSS value_ne_expectimax{sfx} impl={ratStr iv} expectimax={ratStr e}"
  let qa := if h == 0 then 0 else qOf m (expectimax m (h - 1)) b ia
  let v := v.failIf (decide (ia ≥ m.A)) s!"RTBSS action_out_of_range{sfx} {ia}"
  let v := v.failIf (h != 0 && !(closeQ tol9 qa e)) s!"RTBSS action_not_optimal{sfx} a={ia} q={ratStr qa} expectimax={ratStr e}"
  -- correspondence with the model of the code as written
  let v := v.diffIf (!(closeQ tol9 mv iv)) s!"RTBSS value model={ratStr mv} impl={ratStr iv}"
  -- the action is compared only when the model's choice is well separated (strict comparisons on near-ties are rounding-sensitive)
  let wellSep := h == 0 || allLt m.A (fun a => a == ma || !(closeQ (tol9 * 1000) (qOf m (expectimax m (h - 1)) b a) (qOf m (expectimax m (h - 1)) b ma)))
  let v := v.diffIf (wellSep && ma != ia) s!"RTBSS action model={ma} impl={ia}"
  return v.render

/-- number of planes of Γ that are maximal at x -/
def activeCount (S : Nat) (Γ : List Vec) (x : Vec) : Nat :=
  let e := env S Γ x
  (Γ.filter (fun α => dot S x α == e)).length

/-- |det| of an n×n rational matrix relative to the product of its row scales (max |entry|): a crude exact conditioning measure -/
def relDet (n : Nat) (rows : Array (Array Rat)) : Rat := Id.run do
  let mut a := rows
  let mut det : Rat := 1
  let mut scale : Rat := 1
  for r in [0:n] do
    let row := a.getD r #[]
    let mx := (List.range n).foldl (fun acc j => if acc < absQ (row.getD j 0) then absQ (row.getD j 0) else acc) 0
    scale := scale * (if mx == 0 then 1 else mx)
  for c in [0:n] do
    let mut piv : Option Nat := none
    for r in [c:n] do
      if piv.isNone && (a.getD r #[]).getD c 0 != 0 then piv := some r
    match piv with
    | none => return 0
    | some p =>
      let rp := a.getD p #[]
      let rc := a.getD c #[]
      a := (a.setIfInBounds p rc).setIfInBounds c rp
      let pv := rp.getD c 0
      det := det * pv
      for r in [c+1:n] do
        let rr := a.getD r #[]
        let f := rr.getD c 0 / pv
        if f != 0 then
          a := a.setIfInBounds r ((List.range n).map (fun j => rr.getD j 0 - f * rp.getD j 0)).toArray
  return absQ det / scale

/-- `verts S n planes | k vertices`: the contract of `findVerticesNaive` that LinearSupport relies on — every vertex of the partition
    induced by the planes (interior, or on an edge/face of the simplex; corners excluded) is among the returned points.  Only *simple*
    vertices are demanded (exactly S − #zero-coordinates planes active, no coincidence), so degenerate systems cannot raise an alarm. -/
def verts : P String := do
  let dyadic ← P.bool
  let S ← P.nat; let n ← P.nat
  let planes ← P.rep (vecP S) n; P.bar
  let k ← P.nat
  let vs ← P.rep (do let x ← vecP S; let v ← P.q; pure (x, v)) k
  P.eof
  -- non-dyadic planes can be dependent up to rounding (1e-16): the exact solve then returns a "vertex" of a numerically singular
  -- system which no floating-point enumeration can be asked to reproduce — such instances are not judged
  if !dyadic then return "skip ill_conditioned"
  let exactVs := partitionVertices S planes
  let simple := exactVs.filter (fun x =>
    let zeros := ((List.range S).filter (fun s => x.get s == 0)).length
    -- "We do NOT return simplex corners": the code drops points whose largest coordinate is within 1e-6 of 1; stay clear of that band
    let nearCorner := (List.range S).any (fun s => decide (x.get s > 1 - 1 / 100000))
    -- conditioning: the S equations that define x (active planes pairwise equal, zero coordinates, sum = 1) must be independent with a
    -- margin; planes that are dependent up to rounding (1e-16) define no vertex a floating-point enumeration can be asked to find
    let e := env S planes x
    let act := planes.filter (fun α => dot S x α == e)
    let a0 := act.headD #[]
    let rowsEq := (act.drop 1).map (fun aj => ((List.range S).map (fun s => a0.get s - aj.get s)).toArray)
    let rowsD := ((List.range S).filter (fun s => x.get s == 0)).map (fun d => ((List.range S).map (fun s => if s == d then (1 : Rat) else 0)).toArray)
    let rowSum := ((List.range S).map (fun _ => (1 : Rat))).toArray
    let wellCond := decide (relDet S (rowsEq ++ rowsD ++ [rowSum]).toArray ≥ 1 / 1000000)
    zeros < S - 1 && activeCount S planes x + zeros == S && !nearCorner && wellCond)
  let tol : Rat := 1 / 1000000
  let found (x : Vec) : Bool := vs.any (fun (p : Vec × Rat) => allLt S (fun s => decide (absQ (p.1.get s - x.get s) ≤ tol)))
  let v : Verdict := { tag := s!"verts S{S}" ++ (if simple.isEmpty then " trivial" else "") }
  let onFace (x : Vec) : Bool := (List.range S).any (fun s => x.get s == 0)
  let v := simple.foldl (fun v x =>
    v.failIf (!(found x)) (s!"findVerticesNaive " ++ (if onFace x then "boundary_vertex_not_found" else "interior_vertex_not_found") ++ magSfx planes ++ s!" x=[{showVec x}]")) v
  return v.render

def handle (toks : List String) : String :=
  let r := match toks with
    | "vf" :: rest => P.run vf rest
    | "vftol" :: rest => P.run vftol rest
    | "hang" :: rest => P.run hang rest
    | "rtbss" :: rest => P.run rtbss rest
    | "verts" :: rest => P.run verts rest
    | _ => none
  r.getD "bad-op"

end DrvC02
