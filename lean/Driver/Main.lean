import AITB.Model.Num
import Driver.C14
import Driver.C11
open AITB

def handleLine (line : String) : String :=
  match tokens line with
  | "num" :: "parse" :: [t] => match parseX? t with
      | some x => s!"ok {x}"
      | none => "bad-op"
  | "C14" :: rest => DrvC14.handle rest
  | "C11" :: rest => DrvC11.handle rest
  | _ => "bad-op"

partial def loop (h : IO.FS.Stream) (out : IO.FS.Stream) : IO Unit := do
  let line ← h.getLine
  if line.isEmpty then return ()
  if line.startsWith "#" then loop h out else
  out.putStrLn (handleLine line)
  loop h out

def main : IO Unit := do
  loop (← IO.getStdin) (← IO.getStdout)
