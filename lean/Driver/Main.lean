import AITB.Model.Num
import Driver.C10
import Driver.C14
import Driver.C16
import Driver.C07
import Driver.C20
import Driver.C01
import Driver.C13
import Driver.C08
import Driver.C12
import Driver.C05
import Driver.C09
import Driver.C11
import Driver.C18
import Driver.C19
import Driver.C06
import Driver.C17
import Driver.C02
import Driver.C15
import Driver.C04
import Driver.C03
open AITB

def handleLine (line : String) : String :=
  match tokens line with
  | "num" :: "parse" :: [t] => match parseX? t with
      | some x => s!"ok {x}"
      | none => "bad-op"
  | "C10" :: rest => DrvC10.handle rest
  | "C14" :: rest => DrvC14.handle rest
  | "C16" :: rest => DrvC16.handle rest
  | "C07" :: rest => DrvC07.handle rest
  | "C20" :: rest => DrvC20.handle rest
  | "C01" :: rest => DrvC01.handle rest
  | "C13" :: rest => DrvC13.handle rest
  | "C08" :: rest => DrvC08.handle rest
  | "C12" :: rest => DrvC12.handle rest
  | "C05" :: rest => DrvC05.handle rest
  | "C09" :: rest => DrvC09.handle rest
  | "C11" :: rest => DrvC11.handle rest
  | "C18" :: rest => DrvC18.handle rest
  | "C19" :: rest => DrvC19.handle rest
  | "C06" :: rest => DrvC06.handle rest
  | "C17" :: rest => DrvC17.handle rest
  | "C02" :: rest => DrvC02.handle rest
  | "C15" :: rest => DrvC15.handle rest
  | "C04" :: rest => DrvC04.handle rest
  | "C03" :: rest => DrvC03.handle rest
  | _ => "bad-op"

partial def loop (h : IO.FS.Stream) (out : IO.FS.Stream) : IO Unit := do
  let line ← h.getLine
  if line.isEmpty then return ()
  if line.startsWith "#" then loop h out else
  out.putStrLn (handleLine line)
  loop h out

def main : IO Unit := do
  loop (← IO.getStdin) (← IO.getStdout)
