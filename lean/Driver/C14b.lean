import AITB.Model.Proto
import AITB.Model.Factored
import AITB.Model.FactoredAlg
import AITB.Gen.C14
open AITB AITB.Factored

/-! Driver handlers for the factored algebra / DDN / flat-equivalence part of C14.
    Every handler (a) runs the model on the inputs and diffs it against the implementation's output,
    (b) evaluates the property clause on the implementation's OWN output at every joint assignment. -/
namespace DrvC14b

def bf : P BF := do let t ← P.nats; let v ← P.qs; pure { tag := t, vals := v }
def fv : P FV := P.list bf
def bm : P BM := do let t ← P.nats; let a ← P.nats; let v ← P.qss; pure { tag := t, atag := a, vals := v }
def fm : P FM := P.list bm

def allX (sp : List Nat) : List (List Nat) := (List.range (space sp)).map (toFactors sp)

def firstBad {α} (l : List α) (p : α → Bool) : Option α := l.find? (fun a => !p a)

def opOf (name : String) : Option (Rat → Rat → Rat) :=
  match name with
  | "dot" => some (· * ·) | "plus" => some (· + ·) | "minus" => some (· - ·) | _ => none

/-- `bfop <dot|plus|minus> sp l r | implTag implSize implVals(first Π) gets` -/
def bfop : P String := do
  let name ← P.tok; let sp ← P.nats; let l ← bf; let r ← bf; P.bar
  let itag ← P.nats; let isize ← P.nat; let ivals ← P.qs; let gets ← P.qs; P.eof
  match opOf name with
  | none => P.fail
  | some op =>
    let m := binop op sp l r
    let comp := s!"{name}(BasisFunction)"
    let v : Verdict := { tag := if sp.length ≤ 1 then "trivial" else s!"bf{name}" }
    let v := v.diffIf (m.tag != itag) s!"{comp} tag model={m.tag} impl={itag}"
    let v := v.diffIf (m.vals != ivals) s!"{comp} values model≠impl"
    let msize := if AITB.Gen.C14.binopAllocExact then spacePartial m.tag sp else allocSize sp m.tag
    let v := v.diffIf (msize != isize) s!"{comp} values.size model={msize} impl={isize}"
    -- tie of getValue: the implementation's getValue equals the model's lookup on the implementation's own structure
    let impl : BF := { tag := itag, vals := ivals }
    let xs := allX sp
    let v := v.diffIf (xs.map (impl.get sp) != gets) s!"{comp} getValue model-on-impl-structure≠impl"
    -- property: value at every joint assignment = op of the values
    let v := match firstBad (xs.zip gets) (fun xg => xg.2 == op (l.get sp xg.1) (r.get sp xg.1)) with
      | some xg => v.failIf true s!"{comp} not_pointwise at={xg.1}"
      | none => v
    let v := v.failIf (xs.length != gets.length) s!"{comp} not_pointwise missing_values"
    -- the result must be a well-formed basis: exactly one stored value per joint value of its tag
    let v := v.failIf (isize != spacePartial itag sp) s!"{comp} values_oversized size={isize} expected={spacePartial itag sp}"
    return v.render

/-- `subset <plus|minus> sp ret rhs | implVals gets` : plusSubset / minusSubset (rhs.tag ⊆ ret.tag) -/
def subset : P String := do
  let name ← P.tok; let sp ← P.nats; let ret ← bf; let rhs ← bf; P.bar
  let ivals ← P.qs; let gets ← P.qs; P.eof
  let s : Rat := if name == "minus" then -1 else 1
  let m := subsetOp s sp ret rhs
  let comp := s!"{name}Subset"
  let v : Verdict := { tag := comp }
  let v := v.diffIf (m.vals != ivals) s!"{comp} values model≠impl"
  let impl : BF := { tag := ret.tag, vals := ivals }
  let xs := allX sp
  let v := v.diffIf (xs.map (impl.get sp) != gets) s!"{comp} getValue model-on-impl-structure≠impl"
  let v := match firstBad (xs.zip gets) (fun xg => xg.2 == ret.get sp xg.1 + s * rhs.get sp xg.1) with
    | some xg => v.failIf true s!"{comp} not_pointwise at={xg.1}"
    | none => v
  let v := v.failIf (xs.length != gets.length) s!"{comp} not_pointwise missing_values"
  return v.render

def fvCompName (name : String) (kind : String) : String :=
  s!"{name}Equal(FactoredVector,{kind})"

/-- `fvop <plus|minus> sp fv basis | implFV gets` : plusEqual / minusEqual with a single basis -/
def fvop : P String := do
  let name ← P.tok; let sp ← P.nats; let f ← fv; let b ← bf; P.bar
  let ifv ← fv; let gets ← P.qs; P.eof
  let minus := name == "minus"
  let m := if minus then fvMinusEqual AITB.Gen.C14.minusEqualSubtracts sp f b else fvPlusEqual sp f b
  let comp := fvCompName name "BasisFunction"
  let v : Verdict := { tag := s!"fv{name}" }
  let v := v.diffIf (m != ifv) s!"{comp} bases model≠impl"
  let xs := allX sp
  let v := v.diffIf (xs.map (fvGet sp ifv) != gets) s!"{comp} getValue model-on-impl-structure≠impl"
  let s : Rat := if minus then -1 else 1
  -- the one known way of being wrong (minusEqual is a copy of plusEqual) gets its own clause name, so that any OTHER
  -- wrong answer of minusEqual is still reported while that finding is open
  let addsAll := minus && (xs.zip gets).all (fun xg => xg.2 == fvGet sp f xg.1 + b.get sp xg.1)
  let kind := if addsAll then "adds_instead_of_subtracting" else "not_pointwise"
  let v := match firstBad (xs.zip gets) (fun xg => xg.2 == fvGet sp f xg.1 + s * b.get sp xg.1) with
    | some xg => v.failIf true s!"{comp} {kind} at={xg.1} got={ratStr xg.2} want={ratStr (fvGet sp f xg.1 + s * b.get sp xg.1)}"
    | none => v
  let v := v.failIf (xs.length != gets.length) s!"{comp} not_pointwise missing_values"
  return v.render

/-- `fvcz sp fv rhsFV | implFV gets` : minusEqual(space, fv, rhs, clearZero = true) (rhs a FactoredVector; one basis = the basis overload).
    With clearZero the result may drop a basis whose entries are all within 1e-6 of zero, so the difference is required
    up to `|rhs| · equalToleranceSmall`; on the dyadic inputs generated a dropped basis is exactly zero. -/
def fvcz : P String := do
  let sp ← P.nats; let f ← fv; let r ← fv; P.bar
  let ifv ← fv; let gets ← P.qs; P.eof
  let m := fvMinusEqualFVCZ AITB.Gen.C14.minusEqualSubtracts true sp f r
  let comp := if r.length == 1 then "minusEqual(FactoredVector,BasisFunction)" else "minusEqual(FactoredVector,FactoredVector)"
  let v : Verdict := { tag := "fvcz" }
  let v := v.diffIf (m != ifv) s!"{comp} clearZero bases model≠impl"
  let xs := allX sp
  let v := v.diffIf (xs.map (fvGet sp ifv) != gets) s!"{comp} getValue model-on-impl-structure≠impl"
  let tol := (r.length : Rat) * AITB.Gen.equalToleranceSmall
  let addsAll := (xs.zip gets).all (fun xg => decide (absQ (xg.2 - (fvGet sp f xg.1 + fvGet sp r xg.1)) ≤ tol))
  let kind := if addsAll then "adds_instead_of_subtracting" else "not_pointwise"
  let v := match firstBad (xs.zip gets) (fun xg => decide (absQ (xg.2 - (fvGet sp f xg.1 - fvGet sp r xg.1)) ≤ tol)) with
    | some xg => v.failIf true s!"{comp} {kind} at={xg.1} got={ratStr xg.2} want={ratStr (fvGet sp f xg.1 - fvGet sp r xg.1)} clearZero"
    | none => v
  let v := v.failIf (xs.length != gets.length) s!"{comp} not_pointwise missing_values"
  return v.render

/-- `fvfv <plus|minus> sp fv rhs | implFV gets` -/
def fvfv : P String := do
  let name ← P.tok; let sp ← P.nats; let f ← fv; let r ← fv; P.bar
  let ifv ← fv; let gets ← P.qs; P.eof
  let minus := name == "minus"
  let m := if minus then fvMinusEqualFV AITB.Gen.C14.minusEqualSubtracts sp f r else fvPlusEqualFV sp f r
  let comp := fvCompName name "FactoredVector"
  let v : Verdict := { tag := s!"fvfv{name}" }
  let v := v.diffIf (m != ifv) s!"{comp} bases model≠impl"
  let xs := allX sp
  let v := v.diffIf (xs.map (fvGet sp ifv) != gets) s!"{comp} getValue model-on-impl-structure≠impl"
  let s : Rat := if minus then -1 else 1
  let addsAll := minus && (xs.zip gets).all (fun xg => xg.2 == fvGet sp f xg.1 + fvGet sp r xg.1)
  let kind := if addsAll then "adds_instead_of_subtracting" else "not_pointwise"
  let v := match firstBad (xs.zip gets) (fun xg => xg.2 == fvGet sp f xg.1 + s * fvGet sp r xg.1) with
    | some xg => v.failIf true s!"{comp} {kind} at={xg.1} got={ratStr xg.2} want={ratStr (fvGet sp f xg.1 + s * fvGet sp r xg.1)}"
    | none => v
  let v := v.failIf (xs.length != gets.length) s!"{comp} not_pointwise missing_values"
  return v.render

/-- `fvscale sp fv c | implFV gets` : operator*=(double) -/
def fvscale : P String := do
  let sp ← P.nats; let f ← fv; let c ← P.q; P.bar
  let ifv ← fv; let gets ← P.qs; P.eof
  let m := fvScale c f
  let comp := "FactoredVector::operator*=(double)"
  let v : Verdict := { tag := "fvscale" }
  let v := v.diffIf (m != ifv) s!"{comp} bases model≠impl"
  let xs := allX sp
  let v := v.diffIf (xs.map (fvGet sp ifv) != gets) s!"{comp} getValue model-on-impl-structure≠impl"
  let v := match firstBad (xs.zip gets) (fun xg => xg.2 == fvGet sp f xg.1 * c) with
    | some xg => v.failIf true s!"{comp} not_pointwise at={xg.1}"
    | none => v
  let v := v.failIf (xs.length != gets.length) s!"{comp} not_pointwise missing_values"
  return v.render

/-- `fvscalew sp fv w | implFV gets getsW` : operator*=(Vector) vs getValue(…, weights).
    `w` is dyadic and, when it carries the constant, |bases| is a power of two, so the division is exact. -/
def fvscalew : P String := do
  let sp ← P.nats; let f ← fv; let w ← P.qs; P.bar
  let ifv ← fv; let gets ← P.qs; let getsW ← P.qs; P.eof
  let m := fvScaleW w f
  let comp := "FactoredVector::operator*=(Vector)"
  let v : Verdict := { tag := "fvscalew" }
  let v := v.diffIf (m != ifv) s!"{comp} bases model≠impl"
  let xs := allX sp
  let v := v.diffIf (xs.map (fvGet sp ifv) != gets) s!"{comp} getValue model-on-impl-structure≠impl"
  let v := v.diffIf (xs.map (fun x => fvGetW sp f x w) != getsW) s!"FactoredVector::getValue(weights) model≠impl"
  -- property: the weighted combination, at every joint assignment, is Σ w_i·f_i(x) (+ constant)
  let want := fun x => (f.zip w).foldl (fun acc bw => acc + bw.2 * bw.1.get sp x) (if w.length = f.length + 1 then w.getD f.length 0 else 0)
  let v := match firstBad (xs.zip gets) (fun xg => xg.2 == want xg.1) with
    | some xg => v.failIf true s!"{comp} not_weighted_combination at={xg.1}"
    | none => v
  let v := match firstBad (xs.zip getsW) (fun xg => xg.2 == want xg.1) with
    | some xg => v.failIf true s!"FactoredVector::getValue(weights) not_weighted_combination at={xg.1}"
    | none => v
  let v := v.failIf (xs.length != gets.length || xs.length != getsW.length) s!"{comp} not_weighted_combination missing_values"
  return v.render

def allXA (sp ac : List Nat) : List (List Nat × List Nat) :=
  (allX sp).flatMap (fun x => (allX ac).map (fun a => (x, a)))

/-- `fmop sp ac fm basis | implFM gets` : plusEqual(FactoredMatrix2D, BasisMatrix) -/
def fmop : P String := do
  let sp ← P.nats; let ac ← P.nats; let f ← fm; let b ← bm; P.bar
  let ifm ← fm; let gets ← P.qs; P.eof
  let m := fmPlusEqual sp ac f b
  let comp := "plusEqual(FactoredMatrix2D,BasisMatrix)"
  let v : Verdict := { tag := "fmplus" }
  let v := v.diffIf (m != ifm) s!"{comp} bases model≠impl"
  let xs := allXA sp ac
  let v := v.diffIf (xs.map (fun xa => fmGet sp ac ifm xa.1 xa.2) != gets) s!"{comp} getValue model-on-impl-structure≠impl"
  let v := match firstBad (xs.zip gets) (fun xg => xg.2 == fmGet sp ac f xg.1.1 xg.1.2 + b.get sp ac xg.1.1 xg.1.2) with
    | some xg => v.failIf true s!"{comp} not_pointwise at={xg.1.1}/{xg.1.2}"
    | none => v
  let v := v.failIf (xs.length != gets.length) s!"{comp} not_pointwise missing_values"
  return v.render

/-- `fmfm sp ac fm rhs | implFM gets` -/
def fmfm : P String := do
  let sp ← P.nats; let ac ← P.nats; let f ← fm; let r ← fm; P.bar
  let ifm ← fm; let gets ← P.qs; P.eof
  let m := fmPlusEqualFM sp ac f r
  let comp := "plusEqual(FactoredMatrix2D,FactoredMatrix2D)"
  let v : Verdict := { tag := "fmfm" }
  let v := v.diffIf (m != ifm) s!"{comp} bases model≠impl"
  let xs := allXA sp ac
  let v := v.diffIf (xs.map (fun xa => fmGet sp ac ifm xa.1 xa.2) != gets) s!"{comp} getValue model-on-impl-structure≠impl"
  let v := match firstBad (xs.zip gets) (fun xg => xg.2 == fmGet sp ac f xg.1.1 xg.1.2 + fmGet sp ac r xg.1.1 xg.1.2) with
    | some xg => v.failIf true s!"{comp} not_pointwise at={xg.1.1}/{xg.1.2}"
    | none => v
  let v := v.failIf (xs.length != gets.length) s!"{comp} not_pointwise missing_values"
  return v.render

/-- `fmscale sp ac fm c w | implFMc getsC implFMw getsW getsWdirect` : FactoredMatrix2D scalar ops -/
def fmscale : P String := do
  let sp ← P.nats; let ac ← P.nats; let f ← fm; let c ← P.q; let w ← P.qs; P.bar
  let ifc ← fm; let getsC ← P.qs; let ifw ← fm; let getsW ← P.qs; let getsD ← P.qs; P.eof
  let comp := "FactoredMatrix2D::operator*="
  let v : Verdict := { tag := "fmscale" }
  let v := v.diffIf (fmScale c f != ifc) s!"{comp}(double) bases model≠impl"
  let v := v.diffIf (fmScaleW w f != ifw) s!"{comp}(Vector) bases model≠impl"
  let xs := allXA sp ac
  let v := v.diffIf (xs.map (fun xa => fmGet sp ac ifc xa.1 xa.2) != getsC) s!"{comp}(double) getValue model-on-impl-structure≠impl"
  let v := v.diffIf (xs.map (fun xa => fmGet sp ac ifw xa.1 xa.2) != getsW) s!"{comp}(Vector) getValue model-on-impl-structure≠impl"
  let v := v.diffIf (xs.map (fun xa => fmGetW sp ac f xa.1 xa.2 w) != getsD) s!"FactoredMatrix2D::getValue(weights) model≠impl"
  let want := fun (xa : List Nat × List Nat) => (f.zip w).foldl (fun acc bw => acc + bw.2 * bw.1.get sp ac xa.1 xa.2) (if w.length = f.length + 1 then w.getD f.length 0 else 0)
  let v := match firstBad (xs.zip getsC) (fun xg => xg.2 == fmGet sp ac f xg.1.1 xg.1.2 * c) with
    | some xg => v.failIf true s!"{comp}(double) not_pointwise at={xg.1.1}/{xg.1.2}"
    | none => v
  let v := match firstBad (xs.zip getsW) (fun xg => xg.2 == want xg.1) with
    | some xg => v.failIf true s!"{comp}(Vector) not_weighted_combination at={xg.1.1}/{xg.1.2}"
    | none => v
  let v := match firstBad (xs.zip getsD) (fun xg => xg.2 == want xg.1) with
    | some xg => v.failIf true s!"FactoredMatrix2D::getValue(weights) not_weighted_combination at={xg.1.1}/{xg.1.2}"
    | none => v
  let v := v.failIf (xs.length != getsC.length || xs.length != getsW.length || xs.length != getsD.length) s!"{comp} not_pointwise missing_values"
  return v.render

/-! ### DDN -/

def parentSet : P ParentSet := do let a ← P.nats; let f ← P.natss; pure { agents := a, features := f }

def sumQ (l : List Rat) : Rat := l.foldl (· + ·) 0

/-- `ddn S A parents T rhs | startIds ids probs bpTag bpATag bpVals bpGets`
    ids   : getId(i, s, a) for i, then s, then a (index order)
    probs : getTransitionProbability(s, a, s1) for s, a, s1 (index order)
    bp…   : backProject(ddn, rhs) and its getValue at every (s, a) -/
def ddn : P String := do
  let S ← P.nats; let A ← P.nats; let ps ← P.list parentSet; let T ← P.list P.qss; let rhs ← bf; P.bar
  let iStart ← P.natss; let ids ← P.nats; let probs ← P.qs
  let bpTag ← P.nats; let bpATag ← P.nats; let bpVals ← P.qss; let bpGets ← P.qs; P.eof
  let g : DDNGraph := { S := S, A := A, parents := ps }
  let v : Verdict := { tag := "ddn" }
  let feats := List.range S.length
  let sa := allXA S A
  let xsS := allX S
  -- correspondence
  let v := v.diffIf (feats.map g.startIds != iStart) s!"DDNGraph::push startIds model={feats.map g.startIds} impl={iStart}"
  let mIds := feats.flatMap (fun i => sa.map (fun p => g.getId i p.1 p.2))
  let v := v.diffIf (mIds != ids) s!"DDNGraph::getId model≠impl"
  let mProbs := sa.flatMap (fun p => xsS.map (fun s1 => ddnProb g T p.1 p.2 s1))
  let v := v.diffIf (mProbs != probs) s!"DDN::getTransitionProbability model≠impl"
  let mbp := backProject g T rhs
  let v := v.diffIf (mbp.tag != bpTag || mbp.atag != bpATag) s!"backProject tags model={mbp.tag}/{mbp.atag} impl={bpTag}/{bpATag}"
  let v := v.diffIf (mbp.vals != bpVals) s!"backProject values model≠impl"
  let ibp : BM := { tag := bpTag, atag := bpATag, vals := bpVals }
  let v := v.diffIf (sa.map (fun p => ibp.get S A p.1 p.2) != bpGets) s!"backProject getValue model-on-impl-structure≠impl"
  -- property clauses on the implementation's outputs
  -- (1) row lookup: getId = start of the action's block + parent index, inside [0, getSize)
  let v := v.failIf (ids.length != mIds.length || probs.length != mProbs.length || bpGets.length != sa.length) "DDN missing_values"
  let injOK := feats.all (fun i =>
      let size := (iStart.getD i []).getLastD 0
      let rows := sa.zipIdx.map (fun (p, k) =>
        let aid := toIndexPartial (g.ps i).agents A p.2
        ((aid, toIndexPartial ((g.ps i).features.getD aid []) S p.1), ids.getD (i * sa.length + k) 0))
      rows.all (fun r => decide (r.2 < size)) &&
      rows.all (fun r => rows.all (fun r' => (r.1 == r'.1) == (r.2 == r'.2))))
  let v := v.failIf (!injOK) "DDNGraph::getId rows_not_in_bijection_with_parent_assignments"
  -- (2) each joint next state gets the product of its local probabilities
  let n1 := xsS.length
  let prodOK := (sa.zipIdx).all (fun (_, k) => (xsS.zipIdx).all (fun (s1, j) =>
      probs.getD (k * n1 + j) 0 == feats.foldl (fun acc i => acc * Mat.at (T.getD i []) (ids.getD (i * sa.length + k) 0) (s1.getD i 0)) 1))
  let v := v.failIf (!prodOK) "DDN::getTransitionProbability not_product_of_locals"
  -- (3) which sum to one
  let sumOK := (List.range sa.length).all (fun k => sumQ ((List.range n1).map (fun j => probs.getD (k * n1 + j) 0)) == 1)
  let v := v.failIf (!sumOK) "DDN::getTransitionProbability not_normalised"
  -- (4) back-projection = exact expected next-step value of the basis
  let bpOK := (List.range sa.length).all (fun k =>
      bpGets.getD k 0 == sumQ ((xsS.zipIdx).map (fun (s1, j) => probs.getD (k * n1 + j) 0 * rhs.get S s1)))
  let v := v.failIf (!bpOK) "backProject not_expected_value"
  return v.render

/-- `ddnrows S A parents | per feature: [pid aid]* for every row j, then getPartialSize per action`
    DDNGraph::getIds(feature, j) is the inverse of getId(feature, parentId, actionId) -/
def ddnrows : P String := do
  let S ← P.nats; let A ← P.nats; let ps ← P.list parentSet; P.bar
  let rows ← P.list P.nats; let psizes ← P.natss; let back ← P.natss; P.eof
  let g : DDNGraph := { S := S, A := A, parents := ps }
  let feats := List.range S.length
  let v : Verdict := { tag := "ddnrows" }
  let mrows := feats.map (fun i => (List.range (g.getSize i)).flatMap (fun j => let p := g.getIdsInv i j; [p.1, p.2]))
  let v := v.diffIf (mrows != rows) s!"DDNGraph::getIds(feature,j) model={mrows} impl={rows}"
  let mps := feats.map (fun i => (List.range (g.ps i).features.length).map (g.getPartialSize i))
  let v := v.diffIf (mps != psizes) s!"DDNGraph::getPartialSize model={mps} impl={psizes}"
  -- property: round trip on the implementation's own outputs (back[i][j] = getId(i, pid_j, aid_j) must be j), pid inside its block
  let okRT := (feats.zip back).all (fun (_, b) => b == List.range b.length)
  let v := v.failIf (!okRT) "DDNGraph::getIds(feature,j) not_inverse_of_getId"
  let okIn := (rows.zip psizes).all (fun (r, pz) => (List.range (r.length / 2)).all (fun j => decide (r.getD (2*j) 0 < pz.getD (r.getD (2*j+1) 0) 0)))
  let v := v.failIf (!okIn) "DDNGraph::getIds(feature,j) parent_index_outside_block"
  return v.render

def jalEvent (nA : Nat) : P (Nat × List Nat × Nat × Rat) := do
  let s ← P.nat; let aa ← P.rep P.nat nA; let s1 ← P.nat; let r ← P.q
  pure (s, aa, s1, r)

/-- `jal S A id alpha gamma hist | jointQ singleQ` : a whole JointActionLearner history replayed by the model in exact
    rationals; compared to 1e-9 (40 updates exceed 53 bits; singleQ also divides by visit counts).  The bit-exact
    comparison JointActionLearner vs MDP::QLearning (double vs double) is the `eq` line of the same case. -/
def jal : P String := do
  let nS ← P.nat; let A ← P.nats; let id ← P.nat; let alpha ← P.q; let gamma ← P.q
  let hist ← P.list (jalEvent A.length); P.bar
  let iq ← P.qss; let isq ← P.qss; P.eof
  let j := jalRun alpha gamma (jalInit nS A id) hist
  let comp := "JointActionLearner"
  let v : Verdict := { tag := "jal" }
  let closeTab := fun (m i : List (List Rat)) => m.length == i.length && (m.zip i).all (fun (a, b) => a.length == b.length && (a.zip b).all (fun (x, y) => closeQ (1 / 1000000000) x y))
  let v := v.diffIf (!closeTab j.q iq) s!"{comp} jointQ model≠impl"
  let v := v.diffIf (!closeTab j.single isq) s!"{comp} singleQ model≠impl"
  -- property: the joint Q-function is the flat QLearning table of the same history re-indexed by toIndex(A, a)
  let flat := qlRun alpha gamma (List.replicate nS (List.replicate (space A) 0)) (hist.map (fun e => (e.1, toIndex A e.2.1, e.2.2.1, e.2.2.2)))
  let v := v.failIf (!closeTab flat iq) s!"{comp} joint_q_differs_from_flat"
  -- with a single agent the agent's own Q-function is the joint one on every visited state
  let visited := hist.map (·.1)
  let v := v.failIf (A.length == 1 && !(visited.all (fun s => isq.getD s [] == iq.getD s []))) s!"{comp} single_agent_q_differs_from_joint"
  return v.render

def coopEvent : P (List Nat × List Nat × List Nat × List Nat × List Rat) := do
  let s ← P.nats; let a ← P.nats; let s1 ← P.nats; let a1 ← P.nats; let rew ← P.qs
  pure (s, a, s1, a1, rew)

def closeFM (m i : FM) : Bool :=
  m.length == i.length && (m.zip i).all (fun (a, b) => a.tag == b.tag && a.atag == b.atag && a.vals.length == b.vals.length &&
    (a.vals.zip b.vals).all (fun (x, y) => x.length == y.length && (x.zip y).all (fun (p, q) => closeQ (1 / 1000000000) p q)))

/-- `coopq S A parents domains alpha gamma hist | initialFM finalFM` : CooperativeQLearning with any bases, replayed by the
    model (the greedy a1 of every step is the implementation's).  While the constructor leaves the normaliser
    uninitialised (AITB.Gen.C14.coopNormZeroed = false, finding C14-3) the final values are not comparable. -/
def coopq : P String := do
  let S ← P.nats; let A ← P.nats; let ps ← P.list parentSet; let doms ← P.natss; let alpha ← P.q; let gamma ← P.q
  let hist ← P.list coopEvent; P.bar
  let i0 ← fm; let i1 ← fm; P.eof
  let g : DDNGraph := { S := S, A := A, parents := ps }
  let q0 := coopInit g doms
  let v : Verdict := { tag := "coopq" }
  let v := v.diffIf (q0 != i0) s!"makeQFunction model≠impl"
  if !AITB.Gen.C14.coopNormZeroed then
    return (if v.diffs.isEmpty then "skip uninitialised_normaliser_open" else v.render)
  else
    let qf := coopRun S A alpha gamma (coopNorm A.length q0) q0 hist
    let v := v.diffIf (!closeFM qf i1) s!"CooperativeQLearning::stepUpdateQ model≠impl"
    return v.render

def qrule : P QRule := do
  let sk ← P.nats; let sv ← P.nats; let ak ← P.nats; let av ← P.nats; let v ← P.q
  pure { sk := sk, sv := sv, ak := ak, av := av, value := v }

/-- `sparseq S A rules alpha gamma hist | finalValues` : SparseCooperativeQLearning replayed by the model (greedy a1 from the
    implementation); rule values compared in insertion order to 1e-9 -/
def sparseq : P String := do
  let _S ← P.nats; let A ← P.nats; let rules ← P.list qrule; let alpha ← P.q; let gamma ← P.q
  let hist ← P.list coopEvent; P.bar
  let iv ← P.qs; P.eof
  let m := (sparseRun A.length alpha gamma rules hist).map (·.value)
  let v : Verdict := { tag := "sparseq" }
  let same := m.length == iv.length && (m.zip iv).all (fun (x, y) => closeQ (1 / 1000000000) x y)
  let v := v.diffIf (!same) s!"SparseCooperativeQLearning::stepUpdateQ model≠impl"
  return v.render

/-- `eq <component> <kind> exact|close | a | b` : two implementations that must coincide (flat vs single-factor) -/
def eqv : P String := do
  let comp ← P.tok; let kind ← P.tok; let mode ← P.tok; P.bar
  let a ← P.xs; P.bar; let b ← P.xs; P.eof
  let same := a.length == b.length && (a.zip b).all (fun (x, y) => match x, y with
    | .fin p, .fin q => if mode == "exact" then p == q else if mode == "loose" then closeQ (1 / 1000) p q else closeQ (1 / 1000000000) p q
    | _, _ => false)
  let v : Verdict := { tag := s!"eq:{comp}" }
  let v := v.failIf (!same) s!"{comp} {kind} a={a.take 12} b={b.take 12}"
  return v.render

/-- `probe <component> <kind> crash|ok …` : a fixed call sequence run in a forked child -/
def probe : P String := do
  let comp ← P.tok; let kind ← P.tok; let out ← P.tok
  let v : Verdict := { tag := "probe" }
  let v := v.failIf (out != "ok") s!"{comp} {kind} child_{out}"
  return v.render

def handle (toks : List String) : Option String :=
  match toks with
  | "bfop" :: rest => P.run bfop rest
  | "subset" :: rest => P.run subset rest
  | "fvop" :: rest => P.run fvop rest
  | "fvfv" :: rest => P.run fvfv rest
  | "fvcz" :: rest => P.run fvcz rest
  | "fvscale" :: rest => P.run fvscale rest
  | "fvscalew" :: rest => P.run fvscalew rest
  | "fmop" :: rest => P.run fmop rest
  | "fmfm" :: rest => P.run fmfm rest
  | "fmscale" :: rest => P.run fmscale rest
  | "ddn" :: rest => P.run ddn rest
  | "ddnrows" :: rest => P.run ddnrows rest
  | "jal" :: rest => P.run jal rest
  | "coopq" :: rest => P.run coopq rest
  | "sparseq" :: rest => P.run sparseq rest
  | "eq" :: rest => P.run eqv rest
  | "probe" :: rest => P.run probe rest
  | _ => none

end DrvC14b
