import AITB.Model.Proto
import AITB.Model.Plan
import AITB.Model.PlanOps
open AITB AITB.Plan

namespace DrvC04

def tol : Rat := 1 / 1000000000

def pomdpP : P Pomdp := do
  let S ← P.nat; let A ← P.nat; let d ← P.q
  let t ← P.rep P.q (A * S * S); let r ← P.rep P.q (S * A)
  let O ← P.nat; let ob ← P.rep P.q (A * S * O)
  pure (Pomdp.ofLists S A O d t r ob)

def ventryP : P VEntry := do
  let v ← P.qs; let a ← P.nat; let o ← P.nats
  pure ⟨v, a, o⟩
def vlistP : P VList := P.list ventryP
def vfP : P VF := P.list vlistP

structure BQ where
  b : List Rat
  a0 : Nat
  a : Nat
  id : Nat

def bqP : P BQ := do
  let b ← P.qs; let a0 ← P.nat; let a ← P.nat; let id ← P.nat
  pure ⟨b, a0, a, id⟩

def pairsP : P (List (Nat × Nat)) := do
  let n ← P.nat
  P.rep (do let a ← P.nat; let i ← P.nat; pure (a, i)) n

def bfun (b : List Rat) : Nat → Rat := let a := b.toArray; fun s => a.getD s 0

/-- first level (from horizon 1 upward) whose shape / values check fails: (h, what, dev) -/
def firstBad (m : Pomdp) : Nat → VList → List VList → Option (Nat × String × Rat)
  | _, _, [] => none
  | h, prev, cur :: rest =>
    if !(cur.all (fun e => decide (e.action < m.A))) then some (h, "action_out_of_range", 0)
    else if !(cur.all (fun e => decide (e.obs.length = m.O) && decide (e.values.length = m.S))) then some (h, "bad_sizes", 0)
    else if !(cur.all (fun e => (List.range m.O).all (fun o => decide (link e o < prev.length)))) then some (h, "links_out_of_range", 0)
    else if !(cur.all (fun e => entryValsB (closeQ tol) m prev e)) then some (h, "not_one_step_plan", levelDev m prev cur)
    else firstBad m (h + 1) cur rest

def qstr (q : Rat) : String :=
  -- short decimal rendering for messages only
  let s := if q < 0 then "-" else ""
  let a := absQ q
  let n := (a * 1000000).floor.toNat
  s!"{s}{n / 1000000}.{n % 1000000}e0"

/-- `vf comp hReq pomdp | vf | beliefs | replay` -/
def vf : P String := do
  let comp ← P.tok; let _hReq ← P.nat
  let m ← pomdpP; P.bar
  let v ← vfP; P.bar
  let bqs ← P.list bqP; P.bar
  let status ← P.bool; let seq ← pairsP; P.eof
  let H := v.length - 1
  let top := vlist v H
  let vd : Verdict := { tag := s!"{comp} H{H}" }
  -- (1) the value function itself: shape, links, one-step derivation  (component = the solver)
  let vd := vd.failIf (v.isEmpty || (vlist v 0).isEmpty) s!"{comp} empty_value_function"
  let bad := match v with | [] => none | v0 :: rest => firstBad m 1 v0 rest
  let vd := match bad with
    | some (h, what, dev) => vd.failIf true s!"{comp} {what} horizon={h} dev={qstr dev}"
    | none => vd
  let shapeOK := bad.isNone || (match bad with | some (_, w, _) => w == "not_one_step_plan" | none => true)
  -- (2) Policy replay over all observation histories (component = Policy)
  let mseq := (List.range top.length).flatMap (fun id => replayAll m.O v H id)
  let vd := if shapeOK then
      (vd.failIf (!status) "Policy replay_incomplete").failIf (status && seq != mseq) s!"Policy replay_not_following_links n={seq.length}/{mseq.length}"
    else vd
  -- (3) sampleAction(b), sampleAction(b, H): in range, consistent, attains the envelope; execution earns b·values
  let vd := bqs.foldl (fun (vd : Verdict) q =>
      let b := bfun q.b
      if q.id ≥ top.length then vd.failIf true s!"Policy id_out_of_range {q.id}" else
      let e := entryAt top q.id
      let vd := vd.failIf (q.a != e.action || q.a0 != e.action) s!"Policy action_mismatch a0={q.a0} a={q.a} entry={e.action}"
      let mine := dot m.S b (val e)
      let best := envV m.S top b
      let vd := vd.failIf (!(closeQ tol mine best) && mine < best) s!"Policy first_action_not_argmax got={qstr mine} max={qstr best}"
      if shapeOK then
        let ex := execReturn (cutModel m) v H q.id b
        vd.failIf (!(closeQ tol ex mine)) s!"{comp} exec_return_mismatch exec={qstr ex} promised={qstr mine}"
      else vd) vd
  -- statistics only: exact agreement, model's own argmax, greedy w.r.t. the look-ahead on the previous envelope
  let exact := match v with | [] => false | v0 :: rest => consistentFrom eqQ m v0 rest
  let zb := (List.range m.A).all (fun a => (List.range m.O).all (fun o => possible m a o ||
              (List.range m.S).all (fun s => decide (m.Ob a s o = 0))))
  let sameArg := bqs.all (fun q => (sampleActionB m v (bfun q.b) H) == (q.a, q.id))
  let vd := { vd with tag := vd.tag ++ (if exact then " exact" else " rounded") ++ (if sameArg then "" else " tie") ++ (if zb then "" else " subthreshold")
                        ++ (if H == 0 then " trivial" else "") }
  return vd.render

/-- multiset inclusion of whole entries: `out` can be obtained from `inp` by deleting entries -/
def subMultiset : List VEntry → List VEntry → Bool
  | [], _ => true
  | e :: out, inp => if inp.contains e then subMultiset out (inp.erase e) else false

def xd : P String := do
  let S ← P.nat; let inp ← vlistP; P.bar; let out ← vlistP; P.eof
  let mo := extractDominated S inp
  let vd : Verdict := { tag := if inp.length < 2 then "xd trivial" else "xd" }
  let vd := vd.diffIf (mo != out) s!"extractDominated model={mo.map (·.action)} impl={out.map (·.action)}"
  let vd := vd.failIf (!(subMultiset out inp)) "extractDominated entries_not_moved_whole"
  return vd.render

def pr : P String := do
  let _S ← P.nat; let inp ← vlistP; P.bar; let out ← vlistP; P.eof
  let vd : Verdict := { tag := if inp.length < 2 then "pr trivial" else "pr" }
  let vd := vd.failIf (!(subMultiset out inp)) "Pruner entries_not_moved_whole"
  return vd.render

def cs : P String := do
  let l1 ← vlistP; let l2 ← vlistP; let a ← P.nat; let order ← P.bool; P.bar; let out ← vlistP; P.eof
  let mo := crossSum l1 l2 a order
  let vd : Verdict := { tag := if l1.isEmpty || l2.isEmpty then "cs trivial" else "cs" }
  -- values are sums of doubles (rounded once): compare at 1e-9; tags and links exactly
  let sameE (x y : VEntry) : Bool := x.action == y.action && x.obs == y.obs && x.values.length == y.values.length &&
    (x.values.zip y.values).all (fun p => closeQ tol p.1 p.2)
  let same := mo.length == out.length && (mo.zip out).all (fun p => sameE p.1 p.2)
  let vd := vd.diffIf (!same) "IncrementalPruning::crossSum model_differs"
  -- property clause on the implementation's own output: entry (i,j) carries the links of i and j in the stated order
  let want := l1.flatMap (fun v1 => l2.map (fun v2 => if order then v1.obs ++ v2.obs else v2.obs ++ v1.obs))
  let vd := vd.failIf (out.map (fun e => e.obs) != want || !(out.all (fun e => e.action == a))) "IncrementalPruning crossSum_links_wrong"
  return vd.render

def sameEntry (x y : VEntry) : Bool :=
  x.action == y.action && x.obs == y.obs && x.values.length == y.values.length &&
  (x.values.zip y.values).all (fun p => closeQ tol p.1 p.2)

def sameVList (x y : VList) : Bool := x.length == y.length && (x.zip y).all (fun p => sameEntry p.1 p.2)

/-- `pj pomdp w a | O rows` : Projecter::operator()(w, a) -/
def pj : P String := do
  let m ← pomdpP; let w ← vlistP; let a ← P.nat; P.bar
  let O ← P.nat; let rows ← P.rep vlistP O; P.eof
  let mrows := (List.range m.O).map (fun o => project m w a o)
  let vd : Verdict := { tag := "pj" }
  let vd := vd.diffIf (O != m.O || !((mrows.zip rows).all (fun p => sameVList p.1 p.2))) "Projecter model_differs"
  -- property clause: each projected vector is tagged with its parent id (or the single filler entry links to 0)
  let tagsOK := ((List.range m.O).zip rows).all (fun (o, r) =>
    if possible m a o then r.map (·.obs) == (List.range w.length).map (fun i => [i]) else r.map (·.obs) == [[0]])
  let vd := vd.failIf (!tagsOK || !(rows.all (fun r => r.all (fun e => e.action == a)))) "Projecter parent_id_wrong"
  return vd.render

/-- `cb S b a O rows | entry value` : crossSumBestAtBelief(b, row, a, &value) -/
def cb : P String := do
  let S ← P.nat; let b ← P.qs; let a ← P.nat; let O ← P.nat; let rows ← P.rep vlistP O; P.bar
  let e ← ventryP; let value ← P.q; P.eof
  let bf := bfun b
  let me := crossSumBestAtBeliefRow S bf rows a
  let vd : Verdict := { tag := "cb" }
  -- property clause on the implementation's own entry: for every observation the link names a member of that
  -- observation's list, and the values are the sum of exactly those members' values (links and values travel together)
  let picks := (rows.zip e.obs).map (fun (r, l) => r.find? (fun p => link p 0 == l))
  let okPick := e.obs.length == O && picks.all (·.isSome)
  let sumV := picks.foldl (fun acc p => match p with | some q => addV acc q.values | none => acc) (List.replicate S 0)
  let okSum := e.values.length == S && (sumV.zip e.values).all (fun p => closeQ tol p.1 p.2)
  let vd := vd.failIf (!okPick) "crossSumBestAtBelief link_not_from_its_list"
  let vd := vd.failIf (okPick && !okSum) "crossSumBestAtBelief links_values_mismatch"
  let vd := vd.failIf (e.action != a) "crossSumBestAtBelief action_wrong"
  -- model agreement (a differing pick is a rounding tie iff the two totals agree)
  let mval := dot S bf (val me)
  let vd := if sameEntry me e then vd
    else if closeQ tol mval value && closeQ tol (dot S bf (val e)) value then { vd with tag := "cb tie" }
    else vd.diffIf true "crossSumBestAtBelief model_differs"
  let vd := vd.diffIf (!(closeQ tol (dot S bf (val e)) value)) "crossSumBestAtBelief value_differs"
  return vd.render

/-- `perseus pomdp nB beliefs v0 h | vf` : the whole PERSEUS run against `perseusRun` -/
def perseus : P String := do
  let m ← pomdpP; let bs ← P.list P.qs; let v0 ← P.q; let h ← P.nat; P.bar
  let v ← vfP; P.eof
  let mv := perseusRun m (bs.map bfun) v0 h
  let vd : Verdict := { tag := "perseus" }
  let bad := match v with | [] => none | v0 :: rest => firstBad m 1 v0 rest
  let vd := match bad with
    | some (hh, what, dev) => vd.failIf true s!"PERSEUS {what} horizon={hh} dev={qstr dev}"
    | none => vd
  let same := mv.length == v.length && (mv.zip v).all (fun p => sameVList p.1 p.2)
  -- beliefs are normalised doubles: a comparison inside the sweep can flip by rounding; then the run is only checked, not compared
  let vd := if same then vd else { vd with tag := "perseus rounded" }
  return vd.render

/-- `wv pomdp w a entry | agenda tried` : Witness::addDefaultEntry followed by addVariations(row, entry) -/
def wv : P String := do
  let m ← pomdpP; let w ← vlistP; let a ← P.nat; let e ← ventryP; P.bar
  let agenda ← P.list P.qs; let tried ← P.list P.nats; P.eof
  let row := (List.range m.O).map (fun o => project m w a o)
  let v0 := row.foldl (fun acc r => addV acc (entryAt r 0).values) (List.replicate m.S 0)
  let st := addVariations row e ⟨[], [v0], [List.replicate m.O 0]⟩
  let vd : Verdict := { tag := "wv" }
  let sameAgenda := st.agenda.length == agenda.length &&
    (st.agenda.zip agenda).all (fun p => p.1.length == p.2.length && (p.1.zip p.2).all (fun q => closeQ tol q.1 q.2))
  let sameTried := st.tried.length == tried.length && st.tried.all (fun t => tried.contains t) && tried.all (fun t => st.tried.contains t)
  let vd := vd.diffIf (!sameAgenda) s!"Witness::addVariations agenda model={st.agenda.length} impl={agenda.length}"
  let vd := vd.diffIf (!sameTried) s!"Witness::addVariations tried model={st.tried.length} impl={tried.length}"
  return vd.render

/-- `pbvi pomdp nB beliefs h | vf` : the whole PBVI run against `pbviRun` -/
def pbvi : P String := do
  let m ← pomdpP; let bs ← P.list P.qs; let h ← P.nat; P.bar
  let v ← vfP; P.eof
  let mv := pbviRun m (bs.map bfun) h
  let vd : Verdict := { tag := "pbvi" }
  let bad := match v with | [] => none | v0 :: rest => firstBad m 1 v0 rest
  let vd := match bad with
    | some (hh, what, dev) => vd.failIf true s!"PBVI {what} horizon={hh} dev={qstr dev}"
    | none => vd
  -- the model is exact; the implementation is compared only where no rounding can have flipped a tie
  let exact := match v with | [] => false | v0 :: rest => consistentFrom eqQ m v0 rest
  let same := mv.length == v.length && (mv.zip v).all (fun p => sameVList p.1 p.2)
  let vd := if same then vd else if exact then vd.diffIf true s!"PBVI model_differs sizes model={mv.map (·.length)} impl={v.map (·.length)}"
            else { vd with tag := "pbvi rounded" }
  return vd.render

def handle (toks : List String) : String :=
  let r := match toks with
    | "vf" :: rest => P.run vf rest
    | "xd" :: rest => P.run xd rest
    | "pr" :: rest => P.run pr rest
    | "cs" :: rest => P.run cs rest
    | "pj" :: rest => P.run pj rest
    | "cb" :: rest => P.run cb rest
    | "pbvi" :: rest => P.run pbvi rest
    | "wv" :: rest => P.run wv rest
    | "perseus" :: rest => P.run perseus rest
    | _ => none
  r.getD "bad-op"

end DrvC04
