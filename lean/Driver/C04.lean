import AITB.Model.Proto
import AITB.Model.Plan
import AITB.Model.PlanOps
open AITB AITB.Plan

namespace DrvC04

def tol : Rat := 1 / 1000000000

def pomdpP : P Pomdp := do
  let S ← P.nat; let A ← P.nat; let d ← P.q
  let t ← P.rep P.q (A * S * S); let r ← P.rep P.q (S * A)
  let O ← P.nat; let ob ← P.rep P.q (A * S * O)
  pure (Pomdp.ofLists S A O d t r ob)

def ventryP : P VEntry := do
  let v ← P.qs; let a ← P.nat; let o ← P.nats
  pure ⟨v, a, o⟩
def vlistP : P VList := P.list ventryP
def vfP : P VF := P.list vlistP

structure BQ where
  b : List Rat
  a0 : Nat
  a : Nat
  id : Nat

def bqP : P BQ := do
  let b ← P.qs; let a0 ← P.nat; let a ← P.nat; let id ← P.nat
  pure ⟨b, a0, a, id⟩

def pairsP : P (List (Nat × Nat)) := do
  let n ← P.nat
  P.rep (do let a ← P.nat; let i ← P.nat; pure (a, i)) n

def bfun (b : List Rat) : Nat → Rat := let a := b.toArray; fun s => a.getD s 0

/-- first level (from horizon 1 upward) whose shape / values check fails: (h, what, dev) -/
def firstBad (m : Pomdp) : Nat → VList → List VList → Option (Nat × String × Rat)
  | _, _, [] => none
  | h, prev, cur :: rest =>
    if !(cur.all (fun e => decide (e.action < m.A))) then some (h, "action_out_of_range", 0)
    else if !(cur.all (fun e => decide (e.obs.length = m.O) && decide (e.values.length = m.S))) then some (h, "bad_sizes", 0)
    else if !(cur.all (fun e => (List.range m.O).all (fun o => decide (link e o < prev.length)))) then some (h, "links_out_of_range", 0)
    else if !(cur.all (fun e => entryValsB (closeQ tol) m prev e)) then some (h, "not_one_step_plan", levelDev m prev cur)
    else firstBad m (h + 1) cur rest

/-- the verdict is DECIDED by the proved checker `consistentFrom (closeQ tol)` (`approxCheck_sound`, `checked_exec_bound`);
    `firstBad` only names the first failing clause for the message -/
def checkLevels (m : Pomdp) (v0 : VList) (rest : List VList) : Option (Nat × String × Rat) :=
  if consistentFrom (closeQ tol) m v0 rest then none
  else match firstBad m 1 v0 rest with
    | some r => some r
    | none => some (0, "checker_rejects", 0)

def qstr (q : Rat) : String :=
  -- short decimal rendering for messages only
  let s := if q < 0 then "-" else ""
  let a := absQ q
  let n := (a * 1000000).floor.toNat
  s!"{s}{n / 1000000}.{n % 1000000}e0"

/-- `vf comp hReq pomdp | vf | beliefs | replay` -/
def vf : P String := do
  let comp ← P.tok; let _hReq ← P.nat
  let m ← pomdpP; P.bar
  let v ← vfP; P.bar
  let bqs ← P.list bqP; P.bar
  let status ← P.bool; let seq ← pairsP; P.bar
  let ioStatus ← P.nat
  let nQ ← P.nat
  let hqs ← P.rep (do let bi ← P.nat; let h ← P.nat; let a ← P.nat; let id ← P.nat; let pok ← P.bool; pure (bi, h, a, id, pok)) nQ
  P.eof
  let H := v.length - 1
  let top := vlist v H
  let vd : Verdict := { tag := s!"{comp} H{H}" }
  -- (1) the value function itself: shape, links, one-step derivation  (component = the solver)
  let vd := vd.failIf (v.isEmpty || (vlist v 0).isEmpty) s!"{comp} empty_value_function"
  let bad := match v with | [] => none | v0 :: rest => checkLevels m v0 rest
  let vd := match bad with
    | some (h, what, dev) =>
      -- `qmdp_consistent_partial`: with VI horizon 1 QMDP's value function IS a plan; a break there is not the open finding
      let what := if comp == "QMDP" && _hReq ≤ 1 && what == "not_one_step_plan" then "not_one_step_plan_h1" else what
      vd.failIf true s!"{comp} {what} horizon={h} dev={qstr dev}"
    | none => vd
  -- QMDP::fromQFunction: one entry per action, tagged with it, O links to the single horizon-0 entry (holds at every VI horizon)
  let vd := if comp == "QMDP" && H == 1 then
      vd.failIf (top.length != m.A || !((top.zipIdx).all (fun (e, a) => e.action == a && e.obs == List.replicate m.O 0)))
        "QMDP entries_not_one_per_action"
    else vd
  let shapeOK := bad.isNone || (match bad with | some (_, w, _) => w == "not_one_step_plan" | none => true)
  -- (2) Policy replay over all observation histories (component = Policy)
  let mseq := (List.range top.length).flatMap (fun id => replayAll m.O v H id)
  let vd := if shapeOK then
      (vd.failIf (!status) "Policy replay_incomplete").failIf (status && seq != mseq) s!"Policy replay_not_following_links n={seq.length}/{mseq.length}"
    else vd
  -- (3) sampleAction(b), sampleAction(b, H): in range, consistent, attains the envelope; execution earns b·values
  let vd := bqs.foldl (fun (vd : Verdict) q =>
      let b := bfun q.b
      if q.id ≥ top.length then vd.failIf true s!"Policy id_out_of_range {q.id}" else
      let e := entryAt top q.id
      let vd := vd.failIf (q.a != e.action || q.a0 != e.action) s!"Policy action_mismatch a0={q.a0} a={q.a} entry={e.action}"
      let mine := dot m.S b (val e)
      let best := envV m.S top b
      let vd := vd.failIf (!(closeQ tol mine best) && mine < best) s!"Policy first_action_not_argmax got={qstr mine} max={qstr best}"
      if shapeOK then
        let ex := execFast (cutModel m) v H q.id q.b
        vd.failIf (!(closeQ tol ex mine)) s!"{comp} exec_return_mismatch exec={qstr ex} promised={qstr mine}"
      else vd) vd
  -- (4) the Policy at EVERY stored horizon h ≤ H: sampleAction(b, h) names an entry of horizon h, reports its action, that entry
  --     attains max_id b·values of horizon h, getActionProbability is the indicator of that action, and executing the h-step plan
  --     from it earns b·values (policy_episode); a Policy loaded back from a stream must behave identically
  let vd := vd.failIf (ioStatus == 2) "Policy load_failed"
  let vd := hqs.foldl (fun (vd : Verdict) (q : Nat × Nat × Nat × Nat × Bool) =>
      let (bi, h, a, id, pok) := q
      let bl := (bqs.getD bi ⟨[], 0, 0, 0⟩).b
      let b := bfun bl
      let lvl := vlist v h
      if h > H || bi ≥ bqs.length then vd.failIf true s!"Policy bad_query h={h}" else
      if id ≥ lvl.length then vd.failIf true s!"Policy id_out_of_range h={h} id={id}" else
      let e := entryAt lvl id
      let vd := vd.failIf (a != e.action) s!"Policy action_mismatch h={h} a={a} entry={e.action}"
      let vd := vd.failIf (a ≥ m.A) s!"Policy action_out_of_range h={h} a={a}"
      let vd := vd.failIf (!pok) s!"Policy action_probability_wrong h={h}"
      let mine := dot m.S b (val e)
      let best := envV m.S lvl b
      let vd := vd.failIf (!(closeQ tol mine best) && mine < best) s!"Policy first_action_not_argmax h={h} got={qstr mine} max={qstr best}"
      if shapeOK && h < H then
        let ex := execFast (cutModel m) v h id bl
        vd.failIf (!(closeQ tol ex mine)) s!"{comp} exec_return_mismatch h={h} exec={qstr ex} promised={qstr mine}"
      else vd) vd
  -- statistics only: exact agreement, model's own argmax, greedy w.r.t. the look-ahead on the previous envelope
  let exact := match v with | [] => false | v0 :: rest => consistentFrom eqQ m v0 rest
  let zb := (List.range m.A).all (fun a => (List.range m.O).all (fun o => possible m a o ||
              (List.range m.S).all (fun s => decide (m.Ob a s o = 0))))
  let sameArg := bqs.all (fun q => (sampleActionB m v (bfun q.b) H) == (q.a, q.id))
  let vd := { vd with tag := vd.tag ++ (if exact then " exact" else " rounded") ++ (if sameArg then "" else " tie") ++ (if zb then "" else " subthreshold")
                        ++ (if ioStatus == 1 then " loaded" else "") ++ (if H == 0 then " trivial" else "") }
  return vd.render

def xd : P String := do
  let S ← P.nat; let inp ← vlistP; P.bar; let out ← vlistP; P.eof
  let mo := extractDominated S inp
  let vd : Verdict := { tag := if inp.length < 2 then "xd trivial" else "xd" }
  let vd := vd.diffIf (mo != out) s!"extractDominated model={mo.map (·.action)} impl={out.map (·.action)}"
  let vd := vd.failIf (!(subMultiset out inp)) "extractDominated entries_not_moved_whole"
  return vd.render

def pr : P String := do
  let _S ← P.nat; let inp ← vlistP; P.bar; let out ← vlistP; P.eof
  let vd : Verdict := { tag := if inp.length < 2 then "pr trivial" else "pr" }
  let vd := vd.failIf (!(subMultiset out inp)) "Pruner entries_not_moved_whole"
  return vd.render

def cs : P String := do
  let l1 ← vlistP; let l2 ← vlistP; let a ← P.nat; let order ← P.bool; P.bar; let out ← vlistP; P.eof
  let mo := crossSum l1 l2 a order
  let vd : Verdict := { tag := if l1.isEmpty || l2.isEmpty then "cs trivial" else "cs" }
  -- values are sums of doubles (rounded once): compare at 1e-9; tags and links exactly
  let sameE (x y : VEntry) : Bool := x.action == y.action && x.obs == y.obs && x.values.length == y.values.length &&
    (x.values.zip y.values).all (fun p => closeQ tol p.1 p.2)
  let same := mo.length == out.length && (mo.zip out).all (fun p => sameE p.1 p.2)
  let vd := vd.diffIf (!same) "IncrementalPruning::crossSum model_differs"
  -- property clause on the implementation's own output: entry (i,j) carries the links of i and j in the stated order
  let want := l1.flatMap (fun v1 => l2.map (fun v2 => if order then v1.obs ++ v2.obs else v2.obs ++ v1.obs))
  let vd := vd.failIf (out.map (fun e => e.obs) != want || !(out.all (fun e => e.action == a))) "IncrementalPruning crossSum_links_wrong"
  return vd.render

def sameEntry (x y : VEntry) : Bool :=
  x.action == y.action && x.obs == y.obs && x.values.length == y.values.length &&
  (x.values.zip y.values).all (fun p => closeQ tol p.1 p.2)

def sameVList (x y : VList) : Bool := x.length == y.length && (x.zip y).all (fun p => sameEntry p.1 p.2)

/-- `pj pomdp w a | O rows` : Projecter::operator()(w, a) -/
def pj : P String := do
  let m ← pomdpP; let w ← vlistP; let a ← P.nat; P.bar
  let O ← P.nat; let rows ← P.rep vlistP O; P.eof
  let mrows := (List.range m.O).map (fun o => project m w a o)
  let vd : Verdict := { tag := "pj" }
  let vd := vd.diffIf (O != m.O || !((mrows.zip rows).all (fun p => sameVList p.1 p.2))) "Projecter model_differs"
  -- property clause: each projected vector is tagged with its parent id (or the single filler entry links to 0)
  let tagsOK := ((List.range m.O).zip rows).all (fun (o, r) =>
    if possible m a o then r.map (·.obs) == (List.range w.length).map (fun i => [i]) else r.map (·.obs) == [[0]])
  let vd := vd.failIf (!tagsOK || !(rows.all (fun r => r.all (fun e => e.action == a)))) "Projecter parent_id_wrong"
  return vd.render

/-- `cb S b a O rows | entry value` : crossSumBestAtBelief(b, row, a, &value) -/
def cb : P String := do
  let S ← P.nat; let b ← P.qs; let a ← P.nat; let O ← P.nat; let rows ← P.rep vlistP O; P.bar
  let e ← ventryP; let value ← P.q; P.eof
  let bf := bfun b
  let me := crossSumBestAtBeliefRow S bf rows a
  let vd : Verdict := { tag := "cb" }
  -- property clause on the implementation's own entry: for every observation the link names a member of that
  -- observation's list, and the values are the sum of exactly those members' values (links and values travel together)
  let picks := (rows.zip e.obs).map (fun (r, l) => r.find? (fun p => link p 0 == l))
  let okPick := e.obs.length == O && picks.all (·.isSome)
  let sumV := picks.foldl (fun acc p => match p with | some q => addV acc q.values | none => acc) (List.replicate S 0)
  let okSum := e.values.length == S && (sumV.zip e.values).all (fun p => closeQ tol p.1 p.2)
  let vd := vd.failIf (!okPick) "crossSumBestAtBelief link_not_from_its_list"
  let vd := vd.failIf (okPick && !okSum) "crossSumBestAtBelief links_values_mismatch"
  let vd := vd.failIf (e.action != a) "crossSumBestAtBelief action_wrong"
  -- model agreement (a differing pick is a rounding tie iff the two totals agree)
  let mval := dot S bf (val me)
  let vd := if sameEntry me e then vd
    else if closeQ tol mval value && closeQ tol (dot S bf (val e)) value then { vd with tag := "cb tie" }
    else vd.diffIf true "crossSumBestAtBelief model_differs"
  let vd := vd.diffIf (!(closeQ tol (dot S bf (val e)) value)) "crossSumBestAtBelief value_differs"
  return vd.render

/-! ### conditioning of a whole-run comparison

  The model runs in exact arithmetic on the implementation's own inputs.  Every DECISION the modelled loop takes
  (which projection is best at a belief, which action, skip-or-back-up, dominated-or-not, which entry a belief selects)
  is a comparison of two rationals.  `Cond` records the smallest relative margin of all such comparisons and whether an
  exact tie occurred where double arithmetic need not reproduce it.  If every margin is above 1e-9 (and ties are
  reproducible: dyadic belief, bit-exact vectors) the implementation MUST take the same decisions, so a different
  value function is a genuine divergence (`diff`); otherwise the case is `skip ill_conditioned`. -/

structure Cond where
  minM : Rat := 1
  fragile : Bool := false
  ties : Nat := 0

def Cond.note (c : Cond) (robustTie : Bool) (a b : Rat) : Cond :=
  if a == b then { c with ties := c.ties + 1, fragile := c.fragile || !robustTie }
  else
    let d := absQ (a - b)
    let sc := maxQ 1 (maxQ (absQ a) (absQ b))
    if d / sc < c.minM then { c with minM := d / sc } else c

def isPow2 (n : Nat) : Bool := n != 0 && (n &&& (n - 1)) == 0
def dyadicList (b : List Rat) : Bool := b.all (fun q => isPow2 q.den && q.den ≤ 4096)

/-- index decision of `findBestAtPoint(b, l)`: the winner against every entry with a different vector -/
def condBest (S : Nat) (c : Cond) (rt : Bool) (b : Nat → Rat) (l : VList) : Cond :=
  match l with
  | [] => c
  | _ =>
    let r := bestAtPoint S b l
    let be := entryAt l r.1
    -- an entry with the SAME vector but another action / other links is a tie as well: doubles reproduce it only when the
    -- vectors are bit-exact (two actions' cross-sums may round differently), otherwise which duplicate wins is fragile
    l.foldl (fun c e =>
      if e.values == be.values then (if e == be || rt then c else { c with ties := c.ties + 1, fragile := true })
      else c.note rt r.2 (dot S b (val e))) c

/-- decisions of `crossSumBestAtBelief(b, projs[a], a)` for one action -/
def condRow (m : Pomdp) (prev : VList) (c : Cond) (rt : Bool) (b : Nat → Rat) (a : Nat) : Cond :=
  (List.range m.O).foldl (fun c o => condBest m.S c rt b (project m prev a o)) c

/-- decisions of the all-actions `crossSumBestAtBelief(b, projs)` -/
def condAll (m : Pomdp) (prev : VList) (c : Cond) (rt : Bool) (b : Nat → Rat) : Cond :=
  let c := (List.range m.A).foldl (fun c a => condRow m prev c rt b a) c
  let vals := (List.range m.A).map (fun a =>
    dot m.S b (val (crossSumBestAtBeliefRow m.S b ((List.range m.O).map (fun o => project m prev a o)) a)))
  let best := vals.foldl maxQ (vals.getD 0 0)
  let firstBest := vals.findIdx (· == best)
  (vals.zipIdx).foldl (fun c (v, a) => if a == firstBest then c else c.note rt best v) c

/-- every `dominates(l, r)` test `extractDominated` could make on `l`: `D1 ∨ D2` with `D1 = ∀s, l−r ≥ −1e-6` and
    `D2 = ∀s, l−r ≥ −min(l,r)·1e-11`.  The deciding quantity of `D1` is `min_s(l−r) + 1e-6`; `D2` only matters when `D1`
    is false, and then it is decided by the same most negative component. -/
def condDominates (S : Nat) (c : Cond) (rt : Bool) (l : VList) : Cond :=
  (l.zipIdx).foldl (fun c (x, i) => (l.zipIdx).foldl (fun c (y, j) =>
    if i == j then c else
    let d1 := (List.range S).foldl (fun acc s => minQ acc (val x s - val y s)) (val x 0 - val y 0)
    let c := c.note rt (d1 + Gen.equalToleranceSmall) 0
    if decide (0 ≤ d1 + Gen.equalToleranceSmall) then c else
    let d2 := (List.range S).foldl (fun acc s => minQ acc (val x s - val y s + minQ (val x s) (val y s) * Gen.equalToleranceGeneral))
                (val x 0 - val y 0 + minQ (val x 0) (val y 0) * Gen.equalToleranceGeneral)
    c.note rt d2 0) c) c

/-- decisions of one PERSEUS sweep (mirrors `perseusLoop`), then of the final `extractDominated` -/
def condPerseusStep (m : Pomdp) (rtOf : List Rat → Bool) (prev : VList) (beliefs : List (List Rat)) (c : Cond) : Cond :=
  let r := beliefs.foldl (fun (acc : Cond × VList) bl =>
      let b := bfun bl
      let rt := rtOf bl
      let (c, res) := acc
      let c := if res.isEmpty then c else c.note rt (bestAtPoint m.S b res).2 (bestAtPoint m.S b prev).2
      if !res.isEmpty && decide ((bestAtPoint m.S b prev).2 ≤ (bestAtPoint m.S b res).2) then (c, res)
      else (condAll m prev c rt b,
            res ++ [crossSumBestAtBeliefAll m.S b (fun a => (List.range m.O).map (fun o => project m prev a o)) m.A])) (c, [])
  condDominates m.S r.1 (rtOf []) r.2

/-- decisions of one PBVI timestep (mirrors `pbviStep`) -/
def condPbviStep (m : Pomdp) (rtOf : List Rat → Bool) (prev : VList) (beliefs : List (List Rat)) (c : Cond) : Cond :=
  let c := (List.range m.A).foldl (fun c a =>
      let c := beliefs.foldl (fun c bl => condRow m prev c (rtOf bl) (bfun bl) a) c
      condDominates m.S c (rtOf []) (beliefs.map (fun bl =>
        crossSumBestAtBeliefRow m.S (bfun bl) ((List.range m.O).map (fun o => project m prev a o)) a))) c
  let w := (List.range m.A).flatMap (pbviAction m (beliefs.map bfun) prev)
  beliefs.foldl (fun c bl => condBest m.S c (rtOf bl) (bfun bl) w) c

def condRun (step : VList → Cond → Cond) (mv : VF) : Cond :=
  (mv.dropLast).foldl (fun c prev => step prev c) {}

def illConditioned (c : Cond) : Bool := c.fragile || decide (c.minM ≤ tol)

/-- exec clause on the implementation's own value function at the given beliefs (best entry of the last horizon) -/
def execBad (m : Pomdp) (v : VF) (bs : List (List Rat)) : Option String :=
  let H := v.length - 1
  let top := vlist v H
  if top.isEmpty then none else
  (bs.take 6).findSome? (fun bl =>
    let b := bfun bl
    let id := (bestAtPoint m.S b top).1
    let ex := execFast (cutModel m) v H id bl
    let pr := dot m.S b (val (entryAt top id))
    if closeQ tol ex pr then none else some s!"exec_return_mismatch exec={qstr ex} promised={qstr pr}")

/-- verdict of a whole-run comparison -/
def wholeRun (comp : String) (m : Pomdp) (bs : List (List Rat)) (v mv : VF) (cond : Cond) (tag : String := comp.toLower) : String :=
  let vd : Verdict := { tag := tag }
  let bad := match v with | [] => none | v0 :: rest => checkLevels m v0 rest
  let vd := match bad with
    | some (hh, what, dev) => vd.failIf true s!"{comp} {what} horizon={hh} dev={qstr dev}"
    | none => vd
  let vd := if bad.isSome then vd else match execBad m v bs with
    | some msg => vd.failIf true s!"{comp} {msg}"
    | none => vd
  let same := mv.length == v.length && (mv.zip v).all (fun p => sameVList p.1 p.2)
  if !vd.fails.isEmpty then vd.render
  else if same then ({ vd with tag := vd.tag ++ (if cond.ties > 0 then " ties" else "") }).render
  else if illConditioned cond then s!"skip ill_conditioned {comp.toLower} minMargin={qstr cond.minM} ties={cond.ties}"
  else (vd.diffIf true s!"{comp} model_differs sizes model={mv.map (·.length)} impl={v.map (·.length)} minMargin={qstr cond.minM} ties={cond.ties}").render

/-- `perseus pomdp nB beliefs v0 h | vf` : the whole PERSEUS run against `perseusRun` -/
def perseus : P String := do
  let m ← pomdpP; let bs ← P.list P.qs; let v0 ← P.q; let h ← P.nat; P.bar
  let v ← vfP; P.eof
  let mv := perseusRun m (bs.map bfun) v0 h
  let exact := match v with | [] => false | v0 :: rest => consistentFrom eqQ m v0 rest
  let exact := exact && isPow2 m.O   -- R/|O| must be exact too: the stored vectors can be exact while the per-observation values were rounded
  let rtOf := fun (bl : List Rat) => exact && dyadicList bl
  let cond := condRun (fun prev c => condPerseusStep m rtOf prev bs c) mv
  return wholeRun "PERSEUS" m bs v mv cond

/-- `wv pomdp w a entry | agenda tried` : Witness::addDefaultEntry followed by addVariations(row, entry) -/
def wv : P String := do
  let m ← pomdpP; let w ← vlistP; let a ← P.nat; let e ← ventryP; P.bar
  let agenda ← P.list P.qs; let tried ← P.list P.nats; P.eof
  let row := (List.range m.O).map (fun o => project m w a o)
  let v0 := row.foldl (fun acc r => addV acc (entryAt r 0).values) (List.replicate m.S 0)
  let st := addVariations row e ⟨[], [v0], [List.replicate m.O 0]⟩
  let vd : Verdict := { tag := "wv" }
  let sameAgenda := st.agenda.length == agenda.length &&
    (st.agenda.zip agenda).all (fun p => p.1.length == p.2.length && (p.1.zip p.2).all (fun q => closeQ tol q.1 q.2))
  let sameTried := st.tried.length == tried.length && st.tried.all (fun t => tried.contains t) && tried.all (fun t => st.tried.contains t)
  let vd := vd.diffIf (!sameAgenda) s!"Witness::addVariations agenda model={st.agenda.length} impl={agenda.length}"
  let vd := vd.diffIf (!sameTried) s!"Witness::addVariations tried model={st.tried.length} impl={tried.length}"
  return vd.render

/-- decisions of one LinearSupport timestep along the model's own trajectory (mirrors `lsScan` / `lsLoop`) -/
def condLsScan (m : Pomdp) (prev : VList) (rtOf : List Rat → Bool) : List (List Rat) → LSState → Cond → Cond
  | [], _, c => c
  | v :: rest, st, c =>
    if st.tried.contains v then condLsScan m prev rtOf rest st c else
    let b := bfunL v
    let rt := rtOf v
    let c := condAll m prev c rt b
    let diff := dot m.S b (val (backupAt m prev b)) - (bestAtPoint m.S b st.good).2
    -- `diff > 0 && checkDifferentGeneral(diff, 0)`: the effective threshold is the small tolerance
    let c := (c.note rt diff 0).note rt (absQ diff) Gen.equalToleranceSmall
    condLsScan m prev rtOf rest (lsScan m prev 0 [v] st) c

def condLsLoop (m : Pomdp) (prev : VList) (rtOf : List Rat → Bool) (verts2 : VEntry → VList → List (List Rat)) :
    Nat → List (List Rat) → LSState → Cond → Cond
  | 0, _, _, c => c
  | f+1, vs, st, c =>
    let c := condLsScan m prev rtOf vs st c
    let st1 := lsScan m prev 0 vs st
    match lsPopMax st1.agenda with
    | none => c
    | some (best, rest) =>
      let c := rest.foldl (fun c it => (c.note false best.err it.err).note (rtOf it.belief) it.cur
                  (dot m.S (bfunL it.belief) (val best.support))) c
      let rest' := rest.filter (fun it => !(decide (it.cur < dot m.S (bfunL it.belief) (val best.support))))
      condLsLoop m prev rtOf verts2 f (verts2 best.support st1.good) { st1 with agenda := rest', good := st1.good ++ [best.support] } c

/-- `ls pomdp prev | level | walked tie lists` : one LinearSupport timestep against `lsStep`, the vertex lists being the
    oracle answers logged by the harness -/
def ls : P String := do
  let m ← pomdpP; let prev ← vlistP; P.bar
  let level ← vlistP; P.bar
  let walked ← P.bool; let tie ← P.bool
  let lists ← P.list (P.list P.qs); P.eof
  let vd : Verdict := { tag := "ls" }
  -- property clauses on the implementation's own level
  let vd := match checkLevels m prev [level] with
    | some (_, what, dev) => vd.failIf true s!"LinearSupport {what} dev={qstr dev}"
    | none => vd
  let st0 := lsCorners m prev (List.range m.S) ⟨[], [], [], []⟩
  let n0 := st0.good.length
  let verts1 := fun (_ : VList) => lists.getD 0 []
  let verts2 := fun (_ : VEntry) (good : VList) => lists.getD (good.length - n0 + 1) []
  let fuel := lists.length + 2
  let mlevel := lsStep m 0 verts1 verts2 lsPopMax fuel prev
  let exact := levelB eqQ m prev level
  let exact := exact && isPow2 m.O   -- R/|O| must be exact too: the stored vectors can be exact while the per-observation values were rounded
  let rtOf := fun (bl : List Rat) => exact && dyadicList bl
  let c0 : Cond := (List.range m.S).foldl (fun c s => condAll m prev c exact (fun i => if i = s then 1 else 0)) {}
  let cond := condLsLoop m prev rtOf verts2 fuel (verts1 []) st0 c0
  if !vd.fails.isEmpty then return vd.render
  if sameVList mlevel level then return ({ vd with tag := if walked then "ls" else "ls unwalked" }).render
  if tie then return "skip agenda_tie ls"
  if !walked then return (vd.diffIf true s!"LinearSupport replay_diverged the library's level is not what its own loop, walked with its own kernels, produces (sizes walked-model={mlevel.length} impl={level.length})").render
  if illConditioned cond then return s!"skip ill_conditioned ls minMargin={qstr cond.minM} ties={cond.ties}"
  return (vd.diffIf true s!"LinearSupport model_differs sizes model={mlevel.length} impl={level.length} minMargin={qstr cond.minM}").render

/-- `pbvi pomdp nB beliefs h | vf` : the whole PBVI run against `pbviRun` -/
def pbvi : P String := do
  let m ← pomdpP; let bs ← P.list P.qs; let _h ← P.nat; P.bar
  let v ← vfP; P.eof
  let mv := pbviRun m (bs.map bfun) _h
  let exact := match v with | [] => false | v0 :: rest => consistentFrom eqQ m v0 rest
  let exact := exact && isPow2 m.O   -- R/|O| must be exact too: the stored vectors can be exact while the per-observation values were rounded
  let rtOf := fun (bl : List Rat) => exact && dyadicList bl
  let cond := condRun (fun prev c => condPbviStep m rtOf prev bs c) mv
  return wholeRun "PBVI" m bs v mv cond

/-- `pbviw pomdp explicit nB beliefs h | v0 | vf` : PBVI warm start against `pbviRunFrom`.  Clauses on the implementation's own
    output (`pbvi_warm_levels`): the warm start is kept verbatim as a prefix, `h` lists are appended, and from the warm
    start's last list upward the result is a plan over its links (shape, one-step derivation, execution). -/
def pbviw : P String := do
  let m ← pomdpP; let expl ← P.bool; let bs ← P.list P.qs; let h ← P.nat; P.bar
  let v0 ← vfP; P.bar
  let v ← vfP; P.eof
  let vd : Verdict := { tag := "pbviw" }
  if v0.isEmpty || (vlist v0 (v0.length - 1)).isEmpty then return "skip empty_warm_start" else
  let k := v0.length - 1
  let vd := vd.failIf (v.take v0.length != v0) "PBVI warm_start_not_kept"
  let vd := vd.failIf (v.length != v0.length + h) s!"PBVI warm_start_levels got={v.length} want={v0.length + h}"
  if !vd.fails.isEmpty then return vd.render else
  let vs := v.drop k
  let mvs := if expl then (pbviRunFrom m (bs.map bfun) v0 h).drop k else vs
  let exact := match vs with | [] => false | w0 :: rest => consistentFrom eqQ m w0 rest
  let exact := exact && isPow2 m.O   -- R/|O| must be exact too: the stored vectors can be exact while the per-observation values were rounded
  let rtOf := fun (bl : List Rat) => exact && dyadicList bl
  let cond := if expl then condRun (fun prev c => condPbviStep m rtOf prev bs c) mvs else {}
  -- beliefs for the execution clause: the explicit list, or the corners
  let ebs := if expl then bs else (List.range m.S).map (fun s => (List.range m.S).map (fun i => if i = s then (1 : Rat) else 0))
  return wholeRun "PBVI" m ebs vs mvs cond (if expl then "pbviw" else "pbviw generated_beliefs")

/-- `ip pomdp prev | level | walked nCalls {in out}*` : one IncrementalPruning timestep against `ipStep`, the Pruner being the
    oracle whose answers the harness logged along the library's own loop (looked up by input list) -/
def ip : P String := do
  let m ← pomdpP; let prev ← vlistP; P.bar
  let level ← vlistP; P.bar
  let walked ← P.bool; let n ← P.nat
  let calls ← P.rep (do let i ← vlistP; let o ← vlistP; pure (i, o)) n; P.eof
  let vd : Verdict := { tag := "ip" }
  -- property clauses on the implementation's own level
  let vd := match checkLevels m prev [level] with
    | some (_, what, dev) => vd.failIf true s!"IncrementalPruning {what} dev={qstr dev}"
    | none => vd
  -- every logged Pruner answer keeps whole entries of its input (pruner_moves_whole_entries)
  let vd := vd.failIf (!(calls.all (fun c => subMultiset c.2 c.1))) "Pruner entries_not_moved_whole"
  -- ... and never empties a non-empty list: with these two facts `ip_consistent` applies to the run with THIS pruner
  let vd := vd.failIf (!(calls.all (fun c => c.1.isEmpty || !c.2.isEmpty))) "Pruner emptied_a_list"
  if !vd.fails.isEmpty then return vd.render
  -- misses are counted through a sentinel: an input list the library never handed to its Pruner comes back untouched
  let pr := fun (l : VList) => match calls.find? (fun c => sameVList c.1 l) with | some c => c.2 | none => l
  let mlevel := ipStep m pr prev
  if sameVList mlevel level then return ({ vd with tag := if walked then "ip" else "ip unwalked" }).render
  if !walked then return (vd.diffIf true s!"IncrementalPruning replay_diverged the library's level is not what its own loop, walked with its own kernels, produces").render
  return (vd.diffIf true s!"IncrementalPruning model_differs sizes model={mlevel.length} impl={level.length}").render

structure LPCall where
  uLen : Nat
  v : List Rat
  ans : Option (List Rat)

def lpCallP : P LPCall := do
  let u ← P.nat; let v ← P.qs; let has ← P.bool
  if has then do let b ← P.qs; pure ⟨u, v, some b⟩ else pure ⟨u, v, none⟩

def closeVec (x y : List Rat) : Bool := x.length == y.length && (x.zip y).all (fun p => closeQ tol p.1 p.2)

/-- `wt pomdp prev | level | walked {nCalls {uLen v has [b]}*}*A in out` : one Witness timestep against `witnessAction` (per action)
    and the final prune, the witness LP being the oracle whose answers the harness logged along the library's own loop
    (looked up by |U[a]| and the agenda vector) -/
def wt : P String := do
  let m ← pomdpP; let prev ← vlistP; P.bar
  let level ← vlistP; P.bar
  let walked ← P.bool
  let calls ← P.rep (P.list lpCallP) m.A
  let pin ← vlistP; let pout ← vlistP; P.eof
  let vd : Verdict := { tag := "wt" }
  let vd := match checkLevels m prev [level] with
    | some (_, what, dev) => vd.failIf true s!"Witness {what} dev={qstr dev}"
    | none => vd
  let vd := vd.failIf (!(subMultiset pout pin)) "Pruner entries_not_moved_whole"
  let vd := vd.failIf (!pin.isEmpty && pout.isEmpty) "Pruner emptied_a_list"
  -- the hypothesis of `witness_consistent` on the LP, checked on its own answers: with no optimal row added yet (U[a] empty)
  -- every query has a witness
  let vd := vd.failIf (!(calls.all (fun cs => cs.all (fun c => c.uLen != 0 || c.ans.isSome)))) "WitnessLP no_witness_with_empty_set"
  if !vd.fails.isEmpty then return vd.render
  let exact := levelB eqQ m prev level
  let exact := exact && isPow2 m.O   -- R/|O| must be exact too: the stored vectors can be exact while the per-observation values were rounded
  let witOf := fun (a : Nat) (U : VList) (v : List Rat) =>
    match (calls.getD a []).find? (fun c => c.uLen == U.length && closeVec c.v v) with
    | some c => c.ans.map bfun
    | none => none
  let fuel := (calls.foldl (fun n cs => max n cs.length) 0) + 2
  let us := (List.range m.A).map (fun a => witnessAction m (witOf a) fuel prev a)
  let mw := us.flatMap id
  let mlevel := if sameVList mw pin then pout else mw      -- the final prune's logged answer
  -- conditioning: the model re-derives the best vector at every witness point the LP returned
  let cond := (List.range m.A).foldl (fun (c : Cond) a =>
      (calls.getD a []).foldl (fun c call => match call.ans with
        | some b => condRow m prev c (exact && dyadicList b) (bfun b) a
        | none => c) c) {}
  if sameVList mlevel level then return ({ vd with tag := (if walked then "wt" else "wt unwalked") ++ (if cond.ties > 0 then " ties" else "") }).render
  if !walked then return (vd.diffIf true s!"Witness replay_diverged the library's level is not what its own loop, walked with its own kernels, produces").render
  if illConditioned cond then return s!"skip ill_conditioned wt minMargin={qstr cond.minM} ties={cond.ties}"
  return (vd.diffIf true s!"Witness model_differs sizes model={us.map (·.length)} unpruned-impl={pin.length} impl={level.length} minMargin={qstr cond.minM}").render

/-- `mk S A O | vf | vf` : `makeValueFunction(S)` and the value function of `Policy(S, A, O)` are the model's `zeroVF S` -/
def mk : P String := do
  let S ← P.nat; let _A ← P.nat; let _O ← P.nat; P.bar
  let v1 ← vfP; P.bar; let v2 ← vfP; P.bar
  let thrown ← P.tok; let hh ← P.nat; let oo ← P.nat; P.eof
  let vd : Verdict := { tag := "mk" }
  let vd := vd.failIf (thrown != "invalid_argument") s!"Policy empty_value_function_accepted thrown={thrown}"
  let vd := vd.failIf (hh != 0 || oo != _O) s!"Policy default_H_or_O_wrong H={hh} O={oo}"
  let vd := vd.failIf (v1 != zeroVF S) "makeValueFunction not_the_zero_entry"
  let vd := vd.failIf (v2 != zeroVF S) "Policy default_value_function_wrong"
  return vd.render

def handle (toks : List String) : String :=
  let r := match toks with
    | "vf" :: rest => P.run vf rest
    | "xd" :: rest => P.run xd rest
    | "pr" :: rest => P.run pr rest
    | "cs" :: rest => P.run cs rest
    | "pj" :: rest => P.run pj rest
    | "cb" :: rest => P.run cb rest
    | "pbvi" :: rest => P.run pbvi rest
    | "pbviw" :: rest => P.run pbviw rest
    | "mk" :: rest => P.run mk rest
    | "ip" :: rest => P.run ip rest
    | "wt" :: rest => P.run wt rest
    | "wv" :: rest => P.run wv rest
    | "perseus" :: rest => P.run perseus rest
    | "ls" :: rest => P.run ls rest
    | _ => none
  r.getD "bad-op"

end DrvC04
