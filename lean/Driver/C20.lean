import AITB.Model.Proto
import AITB.Model.Trie
import AITB.Gen.C20
import AITB.Model.IndexMap
open AITB AITB.Trie

/-! Driver for C20.  One protocol line = one whole history on one factor space:
    `C20 trie|ftrie|fmt|fmf <F> <op> … end`, every op carrying the implementation's own result.
    The model (`AITB.Model.Trie`, flags from `AITB.Gen.C20`) and the specification (list of
    (id, key)) are run along; `diff` = model ≠ implementation, `fail` = the implementation's answer
    is not the specification's (the property's own clause). -/
namespace DrvC20

def sizeFB := AITB.Gen.C20.sizeFirstBound
def allFB := AITB.Gen.C20.allIdsFirstBound
def tailG := AITB.Gen.C20.eraseTailGuard


def pf : P PF := do
  let k ← P.nats; let v ← P.nats
  if k.length != v.length then P.fail else pure (k.zip v)

def nodupB : List Nat → Bool
  | [] => true
  | x :: xs => !(xs.contains x) && nodupB xs


structure St where
  t : T
  es : Spec
  issued : List Nat := []
  v : Verdict := {}
  nops : Nat := 0

def validPF (F : List Nat) (q : PF) : Bool :=
  q.all (fun kv => decide (kv.1 < F.length) && decide (kv.2 < F.getD kv.1 0))

/-- ops of a `trie` line -/
def trieOps : Nat → St → P St
  | 0, _ => P.fail
  | fuel + 1, s => do
    let op ← P.tok
    let s := { s with nops := s.nops + 1 }
    match op with
    | "end" => P.eof; pure s
    | "ins" =>
      let q ← pf; let id ← P.nat
      let r := s.t.insert q
      let v := s.v.diffIf (r.2 != id) s!"Trie::insert id model={r.2} impl={id}"
      let v := v.failIf (s.issued.contains id) s!"Trie::insert id_not_fresh {id}"
      trieOps fuel { s with t := r.1, es := specInsert s.es id q, issued := id :: s.issued, v := v }
    | "era" =>
      let id ← P.nat
      trieOps fuel { s with t := s.t.erase id, es := specErase s.es id }
    | "erp" =>
      let id ← P.nat; let q ← pf
      match s.t.erasePF tailG id q with
      | some t' => trieOps fuel { s with t := t', es := specErase s.es id }
      | none =>
        -- the model predicts an out-of-bounds read here but the implementation went on: follow the
        -- guarded reading so that later answers are still checked against the specification
        let t' := (s.t.erasePF true id q).getD s.t
        trieOps fuel { s with t := t', es := specErase s.es id, v := { s.v with tag := "model_ub" } }
    | "flt" =>
      let q ← pf; let r ← P.nats
      let v := match s.t.filterCursor allFB q with
        | some m => s.v.diffIf (m != r) s!"Trie::filter op={s.nops} model={m} impl={r}"
        | none => s.v
      let v := v.diffIf (s.t.filter true q != s.t.filterCursor true q) s!"Trie::applyFilters op={s.nops} cursor-level and content-level models differ"
      let v := v.failIf (!(sameIds r (specFilter s.es q))) s!"Trie::filter wrong_ids op={s.nops} q={q} impl={r} spec={specFilter s.es q}"
      trieOps fuel { s with v := v }
    | "flf" =>
      let f ← P.nats; let off ← P.nat; let r ← P.nats
      let q := prefixPF off f
      let v := match s.t.filterCursor allFB q with
        | some m => s.v.diffIf (m != r) s!"Trie::filterF op={s.nops} model={m} impl={r}"
        | none => s.v
      let v := v.failIf (!(sameIds r (specFilter s.es q))) s!"Trie::filterF wrong_ids op={s.nops} f={f} off={off} impl={r} spec={specFilter s.es q}"
      trieOps fuel { s with v := v }
    | "ref" =>
      let ids ← P.nats; let q ← pf; let r ← P.nats
      let m := s.t.refineCursor ids q
      let v := s.v.diffIf (m != r) s!"Trie::refine op={s.nops} model={m} impl={r}"
      let v := v.diffIf (s.t.refine ids q != m) s!"Trie::applyFilters op={s.nops} cursor-level and content-level models differ (refine)"
      -- clause: the ids of the input whose stored entry is compatible with q; with an empty q the
      -- input is returned as is (stale ids in the caller's list are the caller's)
      let v := v.failIf (!(sameIds r (specRefine s.es ids q))) s!"Trie::refine wrong_ids op={s.nops} ids={ids} q={q} impl={r} spec={specRefine s.es ids q}"
      trieOps fuel { s with v := v }
    | "siz" =>
      let n ← P.nat
      let v := match s.t.size sizeFB with
        | some m => s.v.diffIf (m != n) s!"Trie::size op={s.nops} model={m} impl={n}"
        | none => s.v
      let v := v.failIf (n != s.es.length) s!"Trie::size wrong_count op={s.nops} impl={n} stored={s.es.length}"
      trieOps fuel { s with v := v }
    | "rfc" =>
      -- refine(filter(q1), q2): by `refine_chain` the answer is filter(q1 ++ q2)
      let q1 ← pf; let q2 ← pf; let ids1 ← P.nats; let r ← P.nats
      let v := s.v.failIf (!(sameIds ids1 (specFilter s.es q1))) s!"Trie::filter wrong_ids op={s.nops} q={q1} impl={ids1} spec={specFilter s.es q1}"
      let m := s.t.refineCursor ids1 q2
      let v := v.diffIf (m != r) s!"Trie::refine op={s.nops} (chain) model={m} impl={r}"
      let spec := specFilter s.es (q1 ++ q2)
      let v := v.failIf (!(sameIds r spec)) s!"Trie::refine chain_wrong_ids op={s.nops} q1={q1} q2={q2} ids1={ids1} impl={r} spec={spec}"
      trieOps fuel { s with v := v }
    | "rr" =>
      -- refine(refine(ids, q1), q2) and refine(ids, q1 ++ q2): both the members of ids compatible with the joined key (`refine_refine`)
      let ids ← P.nats; let q1 ← pf; let q2 ← pf; let r1 ← P.nats; let r2 ← P.nats; let r12 ← P.nats
      let v := s.v.diffIf (s.t.refineCursor ids q1 != r1) s!"Trie::refine op={s.nops} (first of two) model={s.t.refineCursor ids q1} impl={r1}"
      let v := v.diffIf (s.t.refineCursor r1 q2 != r2) s!"Trie::refine op={s.nops} (second of two) model={s.t.refineCursor r1 q2} impl={r2}"
      let v := v.diffIf (s.t.refineCursor ids (q1 ++ q2) != r12) s!"Trie::refine op={s.nops} (joined key) model={s.t.refineCursor ids (q1 ++ q2)} impl={r12}"
      let spec := specRefine s.es ids (q1 ++ q2)
      let v := v.failIf (!(sameIds r1 (specRefine s.es ids q1))) s!"Trie::refine wrong_ids op={s.nops} ids={ids} q={q1} impl={r1} spec={specRefine s.es ids q1}"
      let v := v.failIf (!(sameIds r2 spec)) s!"Trie::refine refine_twice_wrong_ids op={s.nops} ids={ids} q1={q1} q2={q2} impl={r2} spec={spec}"
      let v := v.failIf (!(sameIds r12 spec)) s!"Trie::refine wrong_ids op={s.nops} ids={ids} q={q1 ++ q2} impl={r12} spec={spec}"
      trieOps fuel { s with v := v }
    | "rsv" => trieOps fuel s          -- Trie::reserve: capacity only
    | "cpy" => trieOps fuel s          -- the history goes on on a copy: same abstract state
    | "gf" =>
      let a ← P.nats; let b ← P.nats
      let v := s.v.failIf (a != s.t.F || b != s.t.F) s!"Trie::getF wrong_factor_space op={s.nops} getF={a} getFactors={b} F={s.t.F}"
      trieOps fuel { s with v := v }
    | _ => P.fail

def trieLine : P String := do
  let F ← P.nats
  match T.mk? F with
  | none => P.fail
  | some t =>
    let toks ← get
    let s ← trieOps (toks.length + 1) { t := t, es := [] }
    let v := if s.v.tag == "" then { s.v with tag := if s.nops ≤ 1 then "trivial" else "trie" } else s.v
    pure v.render

/-! probes: a short history run in a forked child by the harness; `crash` = the child died -/
structure PSt where
  t : T
  ub : Bool := false

def probeOps : Nat → PSt → P PSt
  | 0, _ => P.fail
  | fuel + 1, s => do
    let op ← P.tok
    match op with
    | "end" => P.eof; pure s
    | "ins" => let q ← pf; probeOps fuel { s with t := (s.t.insert q).1 }
    | "era" => let id ← P.nat; probeOps fuel { s with t := s.t.erase id }
    | "erp" =>
      let id ← P.nat; let q ← pf
      match s.t.erasePF tailG id q with
      | some t' => probeOps fuel { s with t := t' }
      | none => probeOps fuel { s with ub := true }
    | "siz" => probeOps fuel { s with ub := s.ub || (s.t.size sizeFB).isNone }
    | "all" => probeOps fuel { s with ub := s.ub || (s.t.getAllIds allFB).isNone }
    | _ => P.fail

def probeLine : P String := do
  let comp ← P.tok; let kind ← P.tok; let outcome ← P.tok
  let F ← P.nats
  match T.mk? F with
  | none => P.fail
  | some t =>
    let toks ← get
    let s ← probeOps (toks.length + 1) { t := t }
    let v : Verdict := { tag := "probe" }
    let v := v.failIf (outcome == "crash") s!"{comp} {kind} shape={F} model_predicts_ub={s.ub}"
    let v := v.diffIf (outcome != "crash" && s.ub) s!"{comp} model predicts an out-of-bounds read ({kind}) that the sanitized run did not show"
    pure v.render

/-- `fprobe <component> <kind> <outcome> <F> <what>` : FasterTrie given an empty key in a forked child; `crash` = the child died -/
def fprobeLine : P String := do
  let comp ← P.tok; let kind ← P.tok; let outcome ← P.tok
  let F ← P.nats; let what ← P.tok; P.eof
  let g := AITB.Gen.C20.ftEmptyKeyGuard
  let t := FT.new F
  let mdl : String :=
    if what == "erase" then (match t.eraseG g 0 [] with | none => "ub" | some _ => "ok")
    else (match t.insertG g [] with | none => "ub" | some none => "invalid_argument" | some (some _) => "ok")
  let v : Verdict := { tag := "probe" }
  let v := v.failIf (outcome == "crash") s!"{comp} {kind} shape={F} call={what} with an empty key (Trie stores this key) model={mdl}"
  let v := v.diffIf (outcome != "crash" && mdl != outcome) s!"{comp} empty key: model={mdl} impl={outcome}"
  pure v.render

/-! FasterTrie -/
structure FSt where
  t : FT
  es : Spec
  issued : List Nat := []
  v : Verdict := {}
  nops : Nat := 0
  exact : Bool := true     -- bucket order still known (no reconstruct so far)

def entryP : P Entry := do let id ← P.nat; let q ← pf; pure (id, q)

/-- is key `e` contradicted by the assignment `f` (unset = F[i])? -/
def conflicts (F f : List Nat) (e : PF) : Bool := !(entryMatches F f e)

def ftrieOps : Nat → FSt → P FSt
  | 0, _ => P.fail
  | fuel + 1, s => do
    let op ← P.tok
    let s := { s with nops := s.nops + 1 }
    match op with
    | "end" => P.eof; pure s
    | "ins" =>
      let q ← pf; let id ← P.nat
      match s.t.insert q with
      | none => P.fail
      | some r =>
        let v := s.v.diffIf (r.2 != id) s!"FasterTrie::insert id model={r.2} impl={id}"
        let v := v.failIf (s.issued.contains id) s!"FasterTrie::insert id_not_fresh {id}"
        ftrieOps fuel { s with t := r.1, es := specInsert s.es id q, issued := id :: s.issued, v := v }
    | "erp" =>
      let id ← P.nat; let q ← pf
      match s.t.erase id q with
      | none => P.fail
      | some t' => ftrieOps fuel { s with t := t', es := specErase s.es id }
    | "flf" =>
      let f ← P.nats; let r ← P.nats
      let m := s.t.filter f
      let v := s.v.diffIf (if s.exact then m != r else sortN m != sortN r) s!"FasterTrie::filter op={s.nops} model={m} impl={r}"
      let spec := specFilter s.es (prefixPF 0 f)
      let v := v.failIf (!(sameIds r spec)) s!"FasterTrie::filter wrong_ids op={s.nops} f={f} impl={r} spec={spec}"
      ftrieOps fuel { s with v := v }
    | "cpy" => ftrieOps fuel s
    | "ine" =>
      -- insert of an empty key: as the source handles it now (`ftEmptyKeyGuard`)
      let out ← P.tok; let id ← P.nat
      let mdl : String := match s.t.insertG AITB.Gen.C20.ftEmptyKeyGuard [] with
        | none => "ub" | some none => "invalid_argument" | some (some _) => "ok"
      let v := s.v.diffIf (mdl != out) s!"FasterTrie::insert op={s.nops} empty key model={mdl} impl={out}"
      if out == "ok" then
        -- the implementation stored it: it is compatible with every query from now on
        ftrieOps fuel { s with es := specInsert s.es id [], issued := id :: s.issued, v := v, exact := false }
      else ftrieOps fuel { s with v := v }
    | "ere" =>
      let _id ← P.nat; let out ← P.tok
      let mdl : String := match s.t.eraseG AITB.Gen.C20.ftEmptyKeyGuard _id [] with | none => "ub" | some _ => "ok"
      let v := s.v.diffIf (mdl != out) s!"FasterTrie::erase op={s.nops} empty key model={mdl} impl={out}"
      ftrieOps fuel { s with v := v }
    | "siz" =>
      let n ← P.nat
      let v := s.v.diffIf (s.t.size != n) s!"FasterTrie::size op={s.nops} model={s.t.size} impl={n}"
      let v := v.failIf (n != s.es.length) s!"FasterTrie::size wrong_count op={s.nops} impl={n} stored={s.es.length}"
      ftrieOps fuel { s with v := v }
    | "rec" =>
      let q ← pf; let remove ← P.bool
      let ents ← P.list entryP; let f ← P.nats
      let F := s.t.F
      let ids := ents.map (·.1)
      -- property clauses on the implementation's own output
      let v := s.v.failIf (!(ents.all (fun e => s.es.contains e))) s!"FasterTrie::reconstruct not_stored op={s.nops} entries={ents}"
      let v := v.failIf (!(nodupB ids)) s!"FasterTrie::reconstruct duplicate op={s.nops} ids={ids}"
      let v := v.failIf (!(ents.all (fun e => compatB e.2 q))) s!"FasterTrie::reconstruct incompatible_with_query op={s.nops} q={q} entries={ents}"
      let v := v.failIf (!(ents.all (fun e => ents.all (fun e' => compatB e.2 e'.2)))) s!"FasterTrie::reconstruct not_mutually_compatible op={s.nops} entries={ents}"
      -- what the theorems about the model add (for every shuffle): f is the merge, the set is maximal
      let fexp := ents.foldl (fun f e => assign f e.2) (assign F q)
      let v := v.diffIf (f != fexp) s!"FasterTrie::reconstruct op={s.nops} factors impl={f} merge-of-entries={fexp}"
      let left := s.es.filter (fun e => !(ids.contains e.1))
      let v := v.diffIf (!(left.all (fun e => conflicts F f e.2))) s!"FasterTrie::reconstruct op={s.nops} not maximal: a stored entry compatible with {f} was left out"
      -- follow the implementation: same removals in the model
      let t' := if remove then ents.foldl (fun t e => (t.erase e.1 e.2).getD t) s.t else s.t
      let es' := if remove then left else s.es
      ftrieOps fuel { s with t := t', es := es', v := v, exact := false }
    | _ => P.fail

def ftrieLine : P String := do
  let F ← P.nats
  let toks ← get
  let s ← ftrieOps (toks.length + 1) { t := FT.new F, es := [] }
  let v := if s.v.tag == "" then { s.v with tag := if s.nops ≤ 1 then "trivial" else "ftrie" } else s.v
  pure v.render

/-! FilterMap over Trie / FasterTrie: ids reached through the IndexMap and the items they lead to -/
structure MSt where
  m : FM
  mf : FMF
  es : Spec
  v : Verdict := {}
  nops : Nat := 0

def fmapOps (faster : Bool) : Nat → MSt → P MSt
  | 0, _ => P.fail
  | fuel + 1, s => do
    let op ← P.tok
    let s := { s with nops := s.nops + 1 }
    let comp := if faster then "FilterMap<FasterTrie>" else "FilterMap<Trie>"
    match op with
    | "end" => P.eof; pure s
    | "emp" =>
      let q ← pf; let x ← P.nat
      let id := s.es.length
      if faster then
        match s.mf.emplace q x with
        | none => P.fail
        | some mf => fmapOps faster fuel { s with mf := mf, es := specInsert s.es id q }
      else fmapOps faster fuel { s with m := s.m.emplace q x, es := specInsert s.es id q }
    | "flt" =>
      let q ← pf; let ids ← P.nats; let items ← P.nats
      let itemsOf (l : List Nat) := l.map (fun id => s.m.items.getD id 0)
      let v := match s.m.filter allFB q with
        | some mi => s.v.diffIf (mi != items) s!"{comp}::filter op={s.nops} model={mi} impl={items}"
        | none => s.v
      let spec := specFilter s.es q
      let v := v.failIf (!(sameIds ids spec)) s!"{comp}::filter wrong_ids op={s.nops} impl={ids} spec={spec}"
      let v := v.failIf (items != itemsOf ids) s!"{comp}::filter wrong_items op={s.nops} ids={ids} items={items}"
      fmapOps faster fuel { s with v := v }
    | "flf" =>
      let f ← P.nats; let off ← P.nat; let ids ← P.nats; let items ← P.nats
      let q := prefixPF off f
      let its := if faster then s.mf.items else s.m.items
      let itemsOf (l : List Nat) := l.map (fun id => its.getD id 0)
      let v := if faster then
          s.v.diffIf (sortN (s.mf.filter f) != sortN items) s!"{comp}::filter op={s.nops} model={s.mf.filter f} impl={items}"
        else match s.m.filter allFB q with
          | some mi => s.v.diffIf (mi != items) s!"{comp}::filterF op={s.nops} model={mi} impl={items}"
          | none => s.v
      let spec := specFilter s.es q
      let v := v.failIf (!(sameIds ids spec)) s!"{comp}::filter wrong_ids op={s.nops} impl={ids} spec={spec}"
      let v := v.failIf (items != itemsOf ids) s!"{comp}::filter wrong_items op={s.nops} ids={ids} items={items}"
      fmapOps faster fuel { s with v := v }
    | "siz" =>
      let n ← P.nat
      let v := s.v.failIf (n != s.es.length) s!"{comp}::size wrong_count op={s.nops} impl={n} stored={s.es.length}"
      fmapOps faster fuel { s with v := v }
    | "get" =>
      let id ← P.nat; let x ← P.nat
      let its := if faster then s.mf.items else s.m.items
      let v := s.v.failIf (its[id]? != some x) s!"{comp}::operator[] wrong_item op={s.nops} id={id} impl={x} emplaced={its[id]?}"
      fmapOps faster fuel { s with v := v }
    | "all" =>
      let a ← P.nats; let b ← P.nats
      let its := if faster then s.mf.items else s.m.items
      let v := s.v.failIf (a != its) s!"{comp}::begin_end wrong_items op={s.nops} impl={a} emplaced={its}"
      let v := v.failIf (b != its) s!"{comp}::getContainer wrong_items op={s.nops} impl={b} emplaced={its}"
      fmapOps faster fuel { s with v := v }
    | "gf" =>
      let a ← P.nats; let b ← P.nats
      let v := s.v.failIf (a != b) s!"{comp}::getF wrong_factor_space op={s.nops} impl={a} F={b}"
      fmapOps faster fuel { s with v := v }
    | "rsv" => fmapOps faster fuel s
    | "rbd" =>
      -- FilterMap(getTrie(), items) with as many items as stored entries: must be accepted (`FMInv_copy`); the history goes on on it
      let items ← P.nats; let out ← P.tok
      let mdl : String := if faster then (match FMF.ofTrie s.mf.trie items with | some _ => "ok" | none => "invalid_argument")
        else (match FM.ofTrie sizeFB s.m.trie items with | some (some _) => "ok" | some none => "invalid_argument" | none => "ub")
      let v := s.v.diffIf (mdl != out) s!"{comp}::FilterMap(trie,items) op={s.nops} model={mdl} impl={out}"
      let v := v.failIf (out != "ok" && items.length == s.es.length) s!"{comp}::FilterMap(trie,items) rejects_matching_sizes op={s.nops} items={items.length} stored={s.es.length} outcome={out}"
      if out == "ok" then
        fmapOps faster fuel { s with m := { s.m with items := items }, mf := { s.mf with items := items }, v := v }
      else fmapOps faster fuel { s with v := v }
    | "rbx" =>
      let n ← P.nat; let out ← P.tok
      let v := s.v.failIf (out != "invalid_argument" && n != s.es.length) s!"{comp}::FilterMap(trie,items) accepts_different_sizes op={s.nops} items={n} stored={s.es.length} outcome={out}"
      fmapOps faster fuel { s with v := v }
    | _ => P.fail

def fmapLine (faster : Bool) : P String := do
  let F ← P.nats
  match T.mk? F with
  | none => P.fail
  | some t =>
    let toks ← get
    let s ← fmapOps faster (toks.length + 1) { m := ⟨t, []⟩, mf := ⟨FT.new F, []⟩, es := [] }
    let v := if s.v.tag == "" then { s.v with tag := if s.nops ≤ 1 then "trivial" else (if faster then "fmf" else "fmt") } else s.v
    pure v.render

/-- `ctor F | outcome` : `Trie(F)` must reject fewer than two factors -/
def ctorLine : P String := do
  let F ← P.nats; P.bar; let out ← P.tok; P.eof
  let m := if (T.mk? F).isSome then "ok" else "invalid_argument"
  let v : Verdict := { tag := "ctor trivial" }
  let v := v.diffIf (m != out) s!"Trie::Trie model={m} impl={out}"
  pure v.render

/-- `imi <kind> <ids> <container> | fwd post arrow plus sub pluseq rev revpost minus minuseq dist total cmpWrong`:
    every iterator access path of an `IndexMap` range against the model (`AITB.Model.IndexMap`; by `walk*_eq*` all paths
    denote the listed entries, forwards or backwards) -/
def imiLine : P String := do
  let kind ← P.tok
  let ids ← P.nats; let cont ← P.nats; P.bar
  let fwd ← P.nats; let post ← P.nats; let arrow ← P.nats; let plus ← P.nats; let sub ← P.nats; let pluseq ← P.nats
  let rev ← P.nats; let revpost ← P.nats; let minus ← P.nats; let minuseq ← P.nats; let dist ← P.nats
  let total ← P.nat; let cmpWrong ← P.nat; let oldpos ← P.nats; let newpos ← P.nats; P.eof
  let r : AITB.IndexMap.Rng := ⟨ids, cont⟩
  if !(ids.all (· < cont.length)) then pure "skip invalid_ids" else
  let some? (l : List Nat) : List (Option Nat) := l.map some
  let c := s!"IndexMapIterator<{kind}>"
  let v : Verdict := { tag := if ids.length ≤ 1 then "imi trivial" else "imi" }
  let v := v.failIf (some? fwd != AITB.IndexMap.walk r) s!"{c} preincrement_walk_wrong_entries ids={ids} impl={fwd}"
  let v := v.failIf (some? post != AITB.IndexMap.walk r) s!"{c} postincrement_walk_wrong_entries ids={ids} impl={post}"
  let v := v.failIf (some? arrow != AITB.IndexMap.walk r) s!"{c} arrow_wrong_entries ids={ids} impl={arrow}"
  let v := v.failIf (some? plus != AITB.IndexMap.walkPlus r) s!"{c} plus_wrong_entries ids={ids} impl={plus}"
  let v := v.failIf (some? sub != AITB.IndexMap.walkSub r) s!"{c} subscript_wrong_entries ids={ids} cont={cont} impl={sub}"
  let v := v.failIf (some? pluseq != AITB.IndexMap.walkPlus r) s!"{c} pluseq_wrong_entries ids={ids} impl={pluseq}"
  let v := v.failIf (some? rev != AITB.IndexMap.walkRev r) s!"{c} predecrement_walk_wrong_entries ids={ids} impl={rev}"
  let v := v.failIf (some? revpost != AITB.IndexMap.walkRev r) s!"{c} postdecrement_walk_wrong_entries ids={ids} impl={revpost}"
  let v := v.failIf (dist.map Int.ofNat != AITB.IndexMap.dists r) s!"{c} minus_does_not_move ids={ids} distances={dist}"
  let v := v.failIf (some? minus != AITB.IndexMap.walkMinus r) s!"{c} minus_wrong_entries ids={ids} impl={minus}"
  let v := v.failIf (some? minuseq != AITB.IndexMap.walkMinus r) s!"{c} minuseq_wrong_entries ids={ids} impl={minuseq}"
  let v := v.failIf (total != ids.length) s!"{c} end_minus_begin_wrong impl={total} n={ids.length}"
  -- `it--` returns the position before the step, `--it` the position after it
  let v := v.failIf (oldpos != (List.range ids.length).map (fun k => ids.length - k)) s!"{c} postdecrement_returns_wrong_position impl={oldpos} n={ids.length}"
  let v := v.failIf (newpos != (List.range ids.length).map (fun k => ids.length - 1 - k)) s!"{c} predecrement_returns_wrong_position impl={newpos} n={ids.length}"
  let v := v.failIf (cmpWrong != 0) s!"{c} comparisons_or_differences_wrong count={cmpWrong}"
  pure v.render

/-! `fmc trie|ftrie <F> <ins/era/erp …> | n outcome nq (f ids)*` : `FilterMap(trie, items)` over a trie that may have seen erasures,
    `n = trie.size()` items.  Clause: if the constructor accepts, every id a filter hands out must address the item container
    (`ofTrie_gap_counterexample`: the size test does not ensure that); if it rejects, some stored id must be outside the container. -/
structure CSt where
  es : Spec := []
  t : T
  ft : FT

def fmcOps : Nat → CSt → P CSt
  | 0, _ => P.fail
  | fuel + 1, s => do
    let op ← P.tok
    match op with
    | "|" => pure s
    | "ins" =>
      let q ← pf; let id ← P.nat
      let ft' := match s.ft.insert q with | some r => r.1 | none => s.ft
      fmcOps fuel { es := specInsert s.es id q, t := (s.t.insert q).1, ft := ft' }
    | "era" => let id ← P.nat; fmcOps fuel { s with es := specErase s.es id, t := s.t.erase id }
    | "erp" =>
      let id ← P.nat; let q ← pf
      fmcOps fuel { es := specErase s.es id, t := (s.t.erasePF true id q).getD s.t, ft := (s.ft.erase id q).getD s.ft }
    | _ => P.fail

def fmcQueries (comp : String) (es : Spec) (n : Nat) : Nat → Verdict → P Verdict
  | 0, v => do P.eof; pure v
  | k + 1, v => do
    let f ← P.nats; let ids ← P.nats
    let spec := specFilter es (prefixPF 0 f)
    let v := v.failIf (!(sameIds ids spec)) s!"{comp}::filter wrong_ids f={f} impl={ids} spec={spec}"
    let v := v.failIf (!(ids.all (· < n))) s!"{comp}::FilterMap(trie,items) id_outside_container f={f} ids={ids} items={n} (accepted: sizes agree, the trie has erased entries)"
    fmcQueries comp es n k v

def fmcLine : P String := do
  let kind ← P.tok
  let faster := kind == "ftrie"
  let comp := if faster then "FilterMap<FasterTrie>" else "FilterMap<Trie>"
  let F ← P.nats
  match T.mk? F with
  | none => P.fail
  | some t0 =>
  let toks ← get
  let s ← fmcOps (toks.length + 1) { t := t0, ft := FT.new F }
  let es := s.es
  let n ← P.nat; let out ← P.tok; let nq ← P.nat
  let dense := (specIds es).all (· < n)
  let v : Verdict := { tag := if dense then "fmc" else "fmc gap" }
  let v := v.failIf (n != es.length) s!"{comp}::size wrong_count impl={n} stored={es.length}"
  -- the constructor as the source has it now (size test only / size test + id range: AITB.Gen.C20.ctorChecksIdRange)
  let items := List.replicate n 0
  let chk := AITB.Gen.C20.ctorChecksIdRange
  let mdl : String :=
    if faster then (match (if chk then FMF.ofTrieChecked s.ft items else FMF.ofTrie s.ft items) with | some _ => "ok" | none => "invalid_argument")
    else (match (if chk then FM.ofTrieChecked sizeFB s.t items else FM.ofTrie sizeFB s.t items) with
      | some (some _) => "ok" | some none => "invalid_argument" | none => "ub")
  let v := v.diffIf (mdl != out) s!"{comp}::FilterMap(trie,items) model={mdl} impl={out} stored_ids={specIds es} items={n}"
  let v := v.failIf (out != "ok" && dense) s!"{comp}::FilterMap(trie,items) rejects_valid_pair stored_ids={specIds es} items={n} outcome={out}"
  let v ← fmcQueries comp es n nq v
  pure v.render

/-- `mat <a> <b> <f> | m_ab m_ba m_fa m_fb` : the library's `match` helpers (Core.cpp) on ascending keys against the specification's
    compatibility (`matchPF_spec`, `matchF_spec`): the vocabulary in which the callers of the indexes and this check speak -/
def matLine : P String := do
  let a ← pf; let b ← pf; let f ← P.nats; P.bar
  let mab ← P.bool; let mba ← P.bool; let mfa ← P.bool; let mfb ← P.bool; P.eof
  let v : Verdict := { tag := if a.isEmpty || b.isEmpty then "mat trivial" else "mat" }
  let v := v.diffIf (matchPF a b != mab || matchPF b a != mba) s!"Factored::match(pf,pf) model={matchPF a b},{matchPF b a} impl={mab},{mba}"
  let v := v.diffIf (matchF f a != mfa || matchF f b != mfb) s!"Factored::match(f,pf) model={matchF f a},{matchF f b} impl={mfa},{mfb}"
  let v := v.failIf (mab != compatB a b || mba != compatB a b) s!"Factored::match(pf,pf) not_compatibility a={a} b={b} impl={mab},{mba} compatible={compatB a b}"
  let v := v.failIf (mfa != compatB a (prefixPF 0 f) || mfb != compatB b (prefixPF 0 f)) s!"Factored::match(f,pf) not_compatibility f={f} a={a} b={b} impl={mfa},{mfb}"
  pure v.render

/-- `mrg <a> <b> | <merged>` : the library's `merge(pf, pf)` against the model (`mergePFs`) and against what it must denote
    (`mergePFs_lookup`: factor by factor the right operand's value if it names the factor, else the left one's) -/
def mrgLine : P String := do
  let a ← pf; let b ← pf; P.bar; let m ← pf; P.eof
  let v : Verdict := { tag := if a.isEmpty || b.isEmpty then "mrg trivial" else "mrg" }
  let v := v.diffIf (mergePFs a b != m) s!"Factored::merge model={mergePFs a b} impl={m}"
  let bound := ((a ++ b ++ m).map (·.1)).foldl max 0 + 1
  -- documented contract: every factor named by either operand once, with that operand's value; on a factor named by both the value is
  -- "from one of the two inputs" (unspecified which: the model takes the right one as the code does — a `diff` at most)
  let okAt (i : Nat) : Bool := match lookup a i, lookup b i with
    | none, none => lookup m i == none
    | some x, none => lookup m i == some x
    | none, some y => lookup m i == some y
    | some x, some y => lookup m i == some x || lookup m i == some y
  let v := v.failIf (!((List.range bound).all okAt)) s!"Factored::merge not_join a={a} b={b} impl={m}"
  let v := v.failIf (!((m.zip (m.drop 1)).all (fun p => decide (p.1.1 < p.2.1)))) s!"Factored::merge keys_not_ascending impl={m}"
  pure v.render

/-- `ism <kind> <ids> <cont> | visited values size` : IndexSkipMap walk against the as-written model (`skipWalkIds`); with an ascending
    skip list the clause is the documented one (`skipWalkIds_spec`): exactly the unlisted container positions, in order -/
def ismLine : P String := do
  let kind ← P.tok
  let ids ← P.nats; let cont ← P.nats; P.bar
  let visited ← P.nats; let vals ← P.nats; let size ← P.nat; P.eof
  let r : AITB.IndexMap.Rng := ⟨ids, cont⟩
  let c := s!"IndexSkipMap<{kind}>"
  let asc := (ids.zip (ids.drop 1)).all (fun p => decide (p.1 < p.2))
  let v : Verdict := { tag := if cont.length ≤ 1 then "ism trivial" else if asc then "ism" else "ism unsorted" }
  let m := AITB.IndexMap.skipWalkIds r
  let v := v.diffIf (m != visited) s!"{c} walk model={m} impl={visited} ids={ids} n={cont.length}"
  let v := v.diffIf (AITB.IndexMap.skipVisitIds r != m) s!"{c} as-written and merged models differ ids={ids} n={cont.length}"
  let v := v.failIf (asc && visited != AITB.IndexMap.skipSpec r) s!"{c} wrong_entries ids={ids} n={cont.length} impl={visited} unlisted={AITB.IndexMap.skipSpec r}"
  let v := v.failIf (vals.map some != visited.map (fun i => cont[i]?)) s!"{c} wrong_items visited={visited} items={vals}"
  -- `size()` as written is the number of listed ids (see `skipSize_counterexample`); recorded, not judged
  let v := v.diffIf (size != AITB.IndexMap.skipSizeAsWritten r) s!"{c} size model={AITB.IndexMap.skipSizeAsWritten r} impl={size}"
  pure v.render

/-- `srt <ids> <cont> | ids' values'` : `IndexMap::sort()`; clause `sortOK` (sound by `sortOK_sound`), item sequence unique by `sort_vals_unique` -/
def srtLine : P String := do
  let ids ← P.nats; let cont ← P.nats; P.bar
  let ids' ← P.nats; let vals ← P.nats; P.eof
  if !(ids.all (· < cont.length)) then pure "skip invalid_ids" else
  let v : Verdict := { tag := if ids.length ≤ 1 then "srt trivial" else "srt" }
  let v := v.failIf (!(AITB.IndexMap.sortOK cont ids ids')) s!"IndexMap::sort not_sorted_rearrangement ids={ids} cont={cont} impl={ids'}"
  let v := v.failIf (vals != ids'.map (AITB.IndexMap.item cont)) s!"IndexMap::sort wrong_items ids={ids'} items={vals}"
  let mv := (AITB.IndexMap.sortIds cont ids).map (AITB.IndexMap.item cont)
  let v := v.diffIf (vals != mv) s!"IndexMap::sort item sequence model={mv} impl={vals}"
  pure v.render

def handle (toks : List String) : String :=
  let r := match toks with
    | "trie" :: rest => P.run trieLine rest
    | "ftrie" :: rest => P.run ftrieLine rest
    | "fmt" :: rest => P.run (fmapLine false) rest
    | "fmf" :: rest => P.run (fmapLine true) rest
    | "probe" :: rest => P.run probeLine rest
    | "fprobe" :: rest => P.run fprobeLine rest
    | "ctor" :: rest => P.run ctorLine rest
    | "imi" :: rest => P.run imiLine rest
    | "fmc" :: rest => P.run fmcLine rest
    | "mat" :: rest => P.run matLine rest
    | "mrg" :: rest => P.run mrgLine rest
    | "ism" :: rest => P.run ismLine rest
    | "srt" :: rest => P.run srtLine rest
    | _ => none
  r.getD "bad-op"

end DrvC20
