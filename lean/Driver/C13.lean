import AITB.Model.Proto
import AITB.Model.Factored
import AITB.Model.VE
import AITB.Model.VETable
import AITB.Model.GVE
import AITB.Model.MaxPlus
import AITB.Model.VEWritten
import AITB.Gen.C13Facts
open AITB AITB.Factored AITB.VE

namespace DrvC13

def rule : P Rule := do
  let k ← P.nats; let v ← P.nats; let q ← P.q
  pure ⟨k, v, q⟩

def rules : P (List Rule) := P.list rule

def showQ (q : Rat) : String := ratStr q

/-- number of connected components of the rule graph that contain at least one rule -/
def components (n : Nat) (scopes : List (List Nat)) : Nat :=
  -- label propagation with fuel n: comp[v] = min label reachable
  let init := List.range n
  let step := fun (lab : List Nat) =>
    scopes.foldl (fun lab s =>
      let m := s.foldl (fun m u => Nat.min m (lab.getD u u)) n
      (List.range n).map (fun u => if s.contains u then m else lab.getD u u)) lab
  let lab := (List.range n).foldl (fun lab _ => step lab) init
  let used := (List.range n).filter (fun u => scopes.any (·.contains u))
  ((used.map (fun u => lab.getD u u)).eraseDups).length

/-- does every factor (distinct key set) have an entry for every joint value of its keys? -/
def fullTables (A : List Nat) (kv : List (List Nat × List Nat)) : Bool :=
  let scopes := (kv.map (·.1)).eraseDups
  scopes.all (fun s =>
    let present := ((kv.filter (fun r => r.1 == s)).map (fun r => toIndexPartialPF A r.1 r.2)).eraseDups
    present.length == spacePartial s A)

/-- `ve call A rules | action value` : VariableElimination (UpdateGraph + operator()) -/
def ve : P String := do
  let _call ← P.nat
  let A ← P.nats; let rs ← rules; P.bar
  let ia ← P.nats; let iv ← P.q; P.eof
  if !(A.all (· > 0)) || !(rs.all (·.wfB A)) then return "skip bad_input" else
  let n := A.length
  let bm := bruteMax A rs
  let order := veOrder A rs
  -- the semantic model evaluates nested closures (cost grows with the product of the sizes along the elimination order):
  -- it is diffed on joint spaces up to 300 actions; the table-level models below (proved equal to it in value) run always
  let semantic := space A ≤ 300
  let mv := if semantic then veValue A order rs else iv
  let ma := if semantic then listOf n (veAction A order rs) else ia
  -- table-level model (same data structure as the code)
  let (ta, tv) := tveRun A rs
  -- the same run with the loop of removeFactor as written (enumerator state, jvID, walking cursor); proved equal (`tveRunW_eq`)
  let (wa, wv) := tveRunW A rs
  let v : Verdict := { tag := if rs.isEmpty || n ≤ 1 then "trivial" else s!"ve comps{components n (rs.map (·.keys))}{if semantic then "" else " table_models_only"}" }
  let v := v.failIf (!(validAct A ia)) s!"VariableElimination action_out_of_range {ia}"
  let v := v.failIf (payoffL rs ia != iv) s!"VariableElimination value_not_payoff_of_action reported={showQ iv} true={showQ (payoffL rs ia)}"
  let v := v.failIf (iv != bm) s!"VariableElimination not_optimal reported={showQ iv} max={showQ bm}"
  let v := v.diffIf (mv != iv) s!"VariableElimination.value semantic-model={showQ mv} impl={showQ iv}"
  let v := v.diffIf (ma != ia) s!"VariableElimination.action semantic-model={ma} impl={ia} order={order}"
  let v := v.diffIf (tv != iv) s!"VariableElimination.value table-model={showQ tv} impl={showQ iv}"
  let v := v.diffIf (ta != ia) s!"VariableElimination.action table-model={ta} impl={ia}"
  let v := v.diffIf (wa != ia || wv != iv) s!"VariableElimination.as-written-loop model=({wa},{showQ wv}) impl=({ia},{showQ iv})"
  return v.render

def basis : P Basis := do
  let k ← P.nats; let q ← P.qs
  pure ⟨k, q⟩

/-- `veqf call A bases | action value` : VariableElimination on a graph built by `UpdateGraphImpl<VE, QFunction>`.
    The clauses use the DEFINITION `qfPayoff` (= `FactoredVector::getValue`); the optimum is the exhaustive maximum of the
    cell-by-cell expansion, which has that payoff (`payoff_qfRules`). -/
def veqf : P String := do
  let _call ← P.nat
  let A ← P.nats; let bs ← P.list basis; P.bar
  let ia ← P.nats; let iv ← P.q; P.eof
  if !(A.all (· > 0)) || !(bs.all (·.wfB A)) then return "skip bad_input" else
  let rs := qfRules A bs
  let bm := bruteMax A rs
  let (ta, tv) := tveRunQF A bs
  let (wa, wv) := tveRunWOn A (tInitQF bs [])
  let dup := (bs.map (·.keys)).eraseDups.length != bs.length
  let v : Verdict := { tag := if A.length ≤ 1 then "trivial" else s!"veqf comps{components A.length (bs.map (·.keys))}{if dup then " dup_tag" else ""}" }
  let v := v.failIf (!(validAct A ia)) s!"VariableElimination action_out_of_range_qfunction {ia}"
  let v := v.failIf (qfPayoff A bs ia != iv) s!"VariableElimination value_not_payoff_of_action_qfunction reported={showQ iv} true={showQ (qfPayoff A bs ia)}"
  let v := v.failIf (iv != bm) s!"VariableElimination not_optimal_qfunction reported={showQ iv} max={showQ bm}"
  let v := v.diffIf (ta != ia || tv != iv) s!"VariableElimination.qfunction-graph model=({ta},{showQ tv}) impl=({ia},{showQ iv})"
  let v := v.diffIf (wa != ia || wv != iv) s!"VariableElimination.qfunction-graph.as-written-loop model=({wa},{showQ wv}) impl=({ia},{showQ iv})"
  return v.render

/-- `lsqf|mpqf|rilsqf call A bases | action value` : approximate maximisers on a graph made and updated by the QFunction overloads -/
def approxqf (comp : String) : P String := do
  let _call ← P.nat
  let A ← P.nats; let bs ← P.list basis; P.bar
  let ia ← P.nats; let iv ← P.q; P.eof
  if !(A.all (· > 0)) || !(bs.all (·.wfB A)) then return "skip bad_input" else
  let bm := bruteMax A (qfRules A bs)
  let truth := qfPayoff A bs ia
  let v : Verdict := { tag := if A.length ≤ 1 then "trivial" else (if truth == bm then "approxqf opt" else "approxqf subopt") }
  let v := v.failIf (!(validAct A ia)) s!"{comp} action_out_of_range_qfunction {ia}"
  let v := v.failIf (truth != iv) s!"{comp} value_not_payoff_of_action_qfunction reported={showQ iv} true={showQ truth}"
  let v := v.failIf (decide (bm < iv)) s!"{comp} value_above_optimum_qfunction reported={showQ iv} max={showQ bm}"
  let mg := evalGraph A ia (lsGraphQF bs)
  let v := v.diffIf (mg != iv) s!"{comp}.evaluateGraph.qfunction-graph model={showQ mg} impl={showQ iv}"
  return v.render

/-- `ls|mp|rils call A rules | action value` : approximate maximisers -/
def approx (comp : String) : P String := do
  let _call ← P.nat
  let A ← P.nats; let rs ← rules; P.bar
  let ia ← P.nats; let iv ← P.q; P.eof
  if !(A.all (· > 0)) || !(rs.all (·.wfB A)) then return "skip bad_input" else
  let bm := bruteMax A rs
  let truth := payoffL rs ia
  let v : Verdict := { tag := if rs.isEmpty || A.length ≤ 1 then "trivial" else (if truth == bm then "approx opt" else "approx subopt") }
  let v := v.failIf (!(validAct A ia)) s!"{comp} action_out_of_range {ia}"
  let v := v.failIf (truth != iv) s!"{comp} value_not_payoff_of_action reported={showQ iv} true={showQ truth}"
  let v := v.failIf (decide (bm < iv)) s!"{comp} value_above_optimum reported={showQ iv} max={showQ bm}"
  -- model of the graph tables + evaluateGraph on the implementation's action
  let mg := evalGraph A ia (lsGraph A rs)
  let v := v.diffIf (mg != iv) s!"{comp}.evaluateGraph model={showQ mg} impl={showQ iv}"
  -- LocalSearch only: its loop ends after a sweep without update, so (model theorem `lsSweep_fixpoint`) the result
  -- is a 1-opt local optimum; a mismatch is a model/implementation difference, not a property failure
  let improvable := comp == "LocalSearch" && validAct A ia &&
    (List.range A.length).any (fun u => (List.range (A.getD u 0)).any (fun k => decide (truth < payoffL rs (setAt ia u k))))
  let v := v.diffIf improvable s!"{comp}.local_optimum action={ia} can be improved by a single agent"
  return v.render

/-- `mpfull call iters keysets A rules | action value` : the MaxPlus message-passing model against the library.
    Exact agreement is demanded when every division `norm / A[a]` is dyadic (all action counts in {1,2,4}); otherwise
    a difference can come from double rounding of thirds and is reported as ill-conditioned, not as a verdict. -/
def mpfull : P String := do
  let _call ← P.nat
  let iters ← P.nat
  let keysets ← P.natss
  let A ← P.nats; let rs ← rules; P.bar
  let ia ← P.nats; let iv ← P.q; P.eof
  if !(A.all (· > 0)) || !(rs.all (·.wfB A)) then return "skip bad_input" else
  let struct : List Rule := keysets.map (fun k => ⟨k, [], 0⟩)
  let g := lsUpdate A rs (lsMake A struct [])
  let (ma, mv) := mpFull A g iters
  let dyadic := A.all (fun d => d == 1 || d == 2 || d == 4)
  if ma == ia && mv == iv then
    return (if rs.isEmpty || A.length ≤ 1 then "ok trivial" else s!"ok mpfull iters{iters}")
  else if !dyadic then return "skip ill_conditioned_division"
  else if rs.any (fun r => decide (r.value < -1048576) || decide (1048576 < r.value)) then return "skip ill_conditioned_huge_messages"
  else return s!"diff MaxPlus.messagePassing model=({ma},{showQ mv}) impl=({ia},{showQ iv}) iters={iters}"

/-- `lsgraph call A nodes | per agent: neighbours, adjacent factors` : FactorGraph bookkeeping against the model's
    `nbrs` (recomputed from the key sets) and `adjNodes` (filter in node order) -/
def lsgraphH : P String := do
  let _call ← P.nat
  let A ← P.nats; let nodes ← P.natss; P.bar
  let per ← P.rep (do let nb ← P.nats; let fs ← P.natss; pure (nb, fs)) A.length
  P.eof
  let n := A.length
  let g : List Node := nodes.map (fun k => ⟨k, []⟩)
  -- `nbBuild`: the incremental sorted unions of `getFactor` as written, in node (= creation) order; `nbrs`: recomputed
  let inc := nbBuild n nodes
  let bad := (List.range n).find? (fun a =>
    let p := per.getD a ([], [])
    p.1 != nbrs n a nodes || p.1 != inc.getD a [] || p.2 != (adjNodes a g).map (·.keys))
  match bad with
  | some a => return s!"diff FactorGraph.bookkeeping agent={a} impl={per.getD a ([], [])} model=({nbrs n a nodes},{(adjNodes a g).map (·.keys)})"
  | none => return (if nodes.isEmpty || n ≤ 1 then "ok trivial" else "ok lsgraph")

/-! ### UCVE -/

structure URule where
  keys : List Nat
  vals : List Nat
  m : Rat
  n : Rat

def urule : P URule := do
  let k ← P.nats; let v ← P.nats; let m ← P.q; let n ← P.q
  pure ⟨k, v, m, n⟩

def uSum (rs : List URule) (a : List Nat) : Rat × Rat :=
  rs.foldl (fun acc r => if matchKV r.keys r.vals (asgOf a) then (acc.1 + r.m, acc.2 + r.n) else acc) (0, 0)

/-- `ucve call A logtA rules | action v0 v1` -/
def ucve : P String := do
  let _call ← P.nat
  let A ← P.nats; let logtA ← P.q; let rs ← P.list urule; P.bar
  let ia ← P.nats; let i0 ← P.q; let i1 ← P.q; P.eof
  let asR : List Rule := rs.map (fun r => ⟨r.keys, r.vals, r.m⟩)
  if !(A.all (· > 0)) || !(asR.all (·.wfB A)) || decide (logtA < 0) || rs.any (fun r => decide (r.n < 0)) then return "skip bad_input" else
  let n := A.length
  let half := logtA / 2
  let truth := uSum rs ia
  let comps := components n (rs.map (·.keys))
  let full := fullTables A (rs.map (fun r => (r.keys, r.vals)))
  let shape := (if comps ≥ 2 then "multi_component" else "single_component") ++ (if full then "" else "_sparse")
  -- is there a joint action strictly better (by more than 1e-9) than the returned one?
  let eps : Rat := 1 / 1000000000
  let better := (allActs A).find? (fun a =>
    let s := uSum rs a
    sqrtGt (truth.1 + eps - s.1) (s.2 * half) (truth.2 * half))
  let v : Verdict := { tag := if rs.isEmpty || n ≤ 1 then "trivial" else s!"ucve {shape}" }
  let v := v.failIf (!(validAct A ia)) s!"UCVE action_out_of_range {ia}"
  let v := v.failIf (truth != (i0, i1)) s!"UCVE value_not_payoff_of_action reported=({showQ i0},{showQ i1}) true=({showQ truth.1},{showQ truth.2})"
  let v := match better with
    | some a => v.failIf true s!"UCVE not_maximal_{shape} returned={ia} better={a}"
    | none => v
  return v.render

/-! ### MultiObjectiveVariableElimination -/

structure MRule where
  keys : List Nat
  vals : List Nat
  values : List Rat

def mrule : P MRule := do
  let k ← P.nats; let v ← P.nats; let q ← P.qs
  pure ⟨k, v, q⟩

def vadd : List Rat → List Rat → List Rat
  | a :: as, b :: bs => (a + b) :: vadd as bs
  | _, _ => []

def mSum (nobj : Nat) (rs : List MRule) (x : Asg) : List Rat :=
  rs.foldl (fun acc r => if matchKV r.keys r.vals x then vadd acc r.values else acc) (List.replicate nobj 0)

def mentry : P (List Nat × List Nat × List Rat) := do
  let k ← P.nats; let v ← P.nats; let q ← P.qs
  pure (k, v, q)

def asgOfTag (keys vals : List Nat) : Asg := fun i =>
  match (keys.zip vals).find? (fun p => p.1 == i) with
  | some p => p.2
  | none => 0

/-- `move call A nobj rules | entries` -/
def move : P String := do
  let _call ← P.nat
  let A ← P.nats; let nobj ← P.nat; let rs ← P.list mrule; P.bar
  let ents ← P.list mentry; P.eof
  let asR : List Rule := rs.map (fun r => ⟨r.keys, r.vals, 0⟩)
  if !(A.all (· > 0)) || !(asR.all (·.wfB A)) || rs.any (fun r => r.values.length != nobj) then return "skip bad_input" else
  if rs.isEmpty then return "skip no_rules" else
  let n := A.length
  let allV := ((allActs A).map (fun a => mSum nobj rs (asgOf a))).eraseDups
  let front := paretoFront allV
  let implV := (ents.map (fun e => e.2.2)).eraseDups
  let full := fullTables A (rs.map (fun r => (r.keys, r.vals)))
  let shape := if full then "" else "_sparse"
  let missing := front.filter (fun w => !implV.contains w)
  let extra := implV.filter (fun w => !front.contains w)
  let badTag := ents.find? (fun e => !(ascBelow n e.1 && validB (sel e.1 A) e.2.1))
  let badVal := ents.find? (fun e => mSum nobj rs (asgOfTag e.1 e.2.1) != e.2.2)
  -- table-level model of MOVE (generic GVE loop + MOVE callbacks), compared as a set of value vectors
  let mrs : List MRuleT := rs.map (fun r => ⟨r.keys, r.vals, r.values⟩)
  let mvals := moveValuesWith AITB.Gen.moveKeepsUnmatched nobj A mrs
  let sameSets := mvals.all implV.contains && implV.all mvals.contains
  -- the repaired variant of the same table-level model must give the specification on every input
  let fvals := moveValuesWith true nobj A mrs
  let fixedOK := fvals.all front.contains && front.all fvals.contains
  let v : Verdict := { tag := if n ≤ 1 then "trivial" else s!"move front{front.length}{shape}" }
  let v := v.failIf badTag.isSome s!"MultiObjectiveVariableElimination action_out_of_range"
  -- a failure of a RECORDED kind must be explained by the as-found model (which shares the recorded defect): when the model
  -- and the library disagree the clause name gets a suffix, so that an open finding cannot mask a different break
  let shape := if sameSets then shape else shape ++ "_and_model_mismatch"
  let v := v.failIf (!missing.isEmpty) s!"MultiObjectiveVariableElimination pareto_vector_missing{shape} model_agrees_with_impl={sameSets} repaired_model_meets_spec={fixedOK} missing={missing.map (·.map showQ)} returned={implV.map (·.map showQ)}"
  let v := v.failIf (!extra.isEmpty) s!"MultiObjectiveVariableElimination non_pareto_vector_returned{shape} extra={extra.map (·.map showQ)}"
  let v := match badVal with
    | some e => v.failIf true s!"MultiObjectiveVariableElimination action_not_achieving_value{shape} tag={e.1}:{e.2.1} vals={e.2.2.map showQ}"
    | none => v
  let v := v.diffIf (!sameSets) s!"MultiObjectiveVariableElimination.values model={mvals.map (·.map showQ)} impl={implV.map (·.map showQ)}"
  let v := v.diffIf (!fixedOK) s!"MultiObjectiveVariableElimination.repaired-model model={fvals.map (·.map showQ)} spec={front.map (·.map showQ)}"
  return v.render

def handle (toks : List String) : String :=
  let r := match toks with
    | "ve" :: rest => P.run ve rest
    | "ls" :: rest => P.run (approx "LocalSearch") rest
    | "mp" :: rest => P.run (approx "MaxPlus") rest
    | "mpfull" :: rest => P.run mpfull rest
    | "rils" :: rest => P.run (approx "ReusingIterativeLocalSearch") rest
    | "lsgraph" :: rest => P.run lsgraphH rest
    | "veqf" :: rest => P.run veqf rest
    | "lsqf" :: rest => P.run (approxqf "LocalSearch") rest
    | "mpqf" :: rest => P.run (approxqf "MaxPlus") rest
    | "rilsqf" :: rest => P.run (approxqf "ReusingIterativeLocalSearch") rest
    | "ucve" :: rest => P.run ucve rest
    | "move" :: rest => P.run move rest
    | _ => none
  r.getD "bad-op"

end DrvC13
