import AITB.Model.Proto
import AITB.Model.Prune
import AITB.Model.Interp
import AITB.Model.C12Check
import AITB.Model.UsefulPoints
import AITB.Model.WitnessLP
import AITB.Model.FLPGen
import AITB.Gen.C15Facts
import Driver.C12LP
open AITB AITB.Prune AITB.Interp AITB.C12Check

namespace DrvC12

def vecP (S : Nat) : P Vec := P.rep P.q S
def vecsP (n S : Nat) : P (List Vec) := P.rep (vecP S) n

def finQ? : XRat → Option Rat
  | .fin q => some q
  | _ => none

/-- length-prefixed optional vector (length 0 = absent; non-finite entries = absent) -/
def optVecP : P (Option Vec) := do
  let xs ← P.xs
  if xs.isEmpty then pure none else pure (xs.mapM finQ?)

def certsP : P (List Cert) := do
  let n ← P.nat
  P.rep (do let i ← P.nat; let l ← optVecP; let b ← optVecP; pure ⟨i, l, b⟩) n

/-- Like `Verdict.render`, but a line on which a property clause fails AND the implementation deviates from the model
    of the (as-found) code gets its own clause name: the model reproduces the known defects exactly, so such a line is
    new behaviour and must not be absorbed by a known finding of the plain clause. -/
def renderV (v : Verdict) : String :=
  match v.fails, v.diffs with
  | f :: _, d :: _ =>
    match f.splitOn " " with
    | comp :: kind :: rest => s!"fail {comp} {kind}_and_model_mismatch {" ".intercalate rest} || {d}"
    | _ => "fail " ++ f
  | _, _ => v.render

def isPermB (a b : List Vec) : Bool :=
  a.length == b.length && a.all (fun x => a.count x == b.count x)

def tiny (M : Rat) : Rat := (1 + M) / 1000000000
/-- documented precision of the library's LP wrapper (`LP::getPrecision()`), relative to the magnitude of the data -/
def lpTol (M : Rat) : Rat := (1 + M) * Gen.C12Src.lpPrecision

/-- smallest distance of any `dominates` comparison among `vs` from its threshold -/
def domMargin (vs : List Vec) : Rat :=
  let tS := Gen.equalToleranceSmall; let tG := Gen.equalToleranceGeneral
  vs.foldl (fun m a => vs.foldl (fun m b =>
    (List.zipWith (fun x y => minQ (absQ (x - y + tS)) (absQ (x - y + minQ x y * tG))) a b).foldl minQ m) m) 1

def showVec (v : Vec) : String := "[" ++ " ".intercalate (v.map ratStr) ++ "]"

structure Acc where
  v : Verdict := {}
  undecided : Nat := 0
  within : Nat := 0
  illcond : Bool := false

def Acc.render (a : Acc) : String :=
  match a.v.fails with
  | _ :: _ => if a.illcond then a.v.render else renderV a.v
  | [] =>
    match a.v.diffs with
      | d :: _ => if a.illcond then "skip ill_conditioned" else "diff " ++ d
      | [] => if a.within > 0 then "skip within_tolerance"
              else if a.undecided > 0 then "skip undecided_certificate" else a.v.render

/-! ### recorded lp_solve calls (link-time interception in the harness) -/

structure SnapRow where
  coef : List XRat
  rel : Nat
  rhs : XRat

structure Snap where
  ncols : Nat
  maxim : Int
  unb : List Nat
  obj : List XRat
  rows : List SnapRow
  result : Int
  objective : XRat
  vars : List XRat

def snapP : P Snap := do
  let nc ← P.nat; let nr ← P.nat; let mx ← P.int; let nu ← P.nat; let unb ← P.rep P.nat nu
  let obj ← P.rep P.x nc
  let rows ← P.rep (do let c ← P.rep P.x nc; let rel ← P.nat; let rhs ← P.x; pure (SnapRow.mk c rel rhs)) nr
  let res ← P.int; let o ← P.x; let nv ← P.nat; let vars ← P.rep P.x nv
  pure ⟨nc, mx, unb, obj, rows, res, o, vars⟩

def snapsP : P (List Snap) := do let n ← P.nat; P.rep snapP n

/-- the recorded rows as model rows (`none`: a non-finite coefficient or an unknown relation code) -/
def Snap.modelRows (s : Snap) : Option (List WitnessLP.Row) :=
  s.rows.mapM (fun r => do
    let c ← r.coef.mapM finQ?; let rel ← WitnessLP.Rel.ofCode r.rel; let rhs ← finQ? r.rhs
    pure (WitnessLP.Row.mk c rel rhs))

/-- does lp_solve's recorded LP coincide with the LP of the model: columns, sense, free column, objective, every row -/
def Snap.matches (s : Snap) (ncols : Nat) (maxim : Bool) (free : List Nat) (obj : Vec) (rows : List WitnessLP.Row) : Bool :=
  s.ncols == ncols && s.maxim == (if maxim then 1 else 0) && s.unb == free &&
  s.obj.mapM finQ? == some obj && s.modelRows == some rows

/-- lp_solve's answer as `LP::solve(S, &objective)` returns it: variables only for the accept codes (extracted: 0 / 1) -/
def Snap.answer (s : Snap) (nvars : Nat) : Option (Rat × Vec) :=
  if Gen.lpAcceptCodes.contains s.result then
    match finQ? s.objective, (s.vars.take nvars).mapM finQ? with
    | some o, some v => some (o, v)
    | _, _ => none
  else none

/-- one call of `LP::solve` as its model (`AITB.FLP.lpSolveCalls/lpSolveFinal`, retry and accept codes extracted from the
    source by tools/extract_c15.py) groups the recorded `::solve` calls: the first attempt, and the second one (first-index
    pricing on the unscaled model) iff the first result is a retry code.  `first` carries the LP as posed, `last` the answer
    LP::solve looks at, `attempts` the result codes. -/
structure SolveCall where
  first : Snap
  last : Snap
  attempts : List Int

/-- `none`: the recorded sequence is not one the model of LP::solve can make (a retry without its second call, or a second
    attempt on different rows) -/
def groupSolves : Nat → List Snap → Option (List SolveCall)
  | _, [] => some []
  | 0, _ => none
  | fuel + 1, s0 :: rest =>
    if FLP.lpSolveCalls Gen.lpRetryCodes s0.result == 2 then
      match rest with
      | s1 :: rest' =>
        if s1.modelRows != s0.modelRows then none else
        (groupSolves fuel rest').map (fun l => ⟨s0, s1, [s0.result, s1.result]⟩ :: l)
      | [] => none
    else (groupSolves fuel rest).map (fun l => ⟨s0, s0, [s0.result]⟩ :: l)

/-- suffix of a clause name: the result codes lp_solve itself gave for the LP (`_lp_solve_says_5_then_2` = NUMFAILURE, retried, INFEASIBLE) -/
def SolveCall.says (c : SolveCall) : String :=
  let name := fun (r : Int) => if r == 2 then "infeasible" else if r == 3 then "unbounded" else if r == 5 then "numfailure"
    else if r == 6 then "userabort" else if r == 25 then "accuracyerror" else if r == 0 then "optimal" else if r == 1 then "suboptimal" else "other"
  "_then_".intercalate (c.attempts.map name)

/-- largest / smallest non-zero magnitude among the coefficients lp_solve received is at least 2^16 -/
def Snap.wideRange (s : Snap) : Bool :=
  let cs := (s.rows.flatMap (fun r => r.coef.filterMap finQ?)).filter (fun x => x != 0) |>.map absQ
  match cs with
  | [] => false
  | c :: _ => decide ((cs.foldl minQ c) * 65536 ≤ cs.foldl maxQ c)

def wideVecs (vs : List Vec) : Bool :=
  let cs := (vs.flatMap id).filter (fun x => x != 0) |>.map absQ
  match cs with
  | [] => false
  | c :: _ => decide ((cs.foldl minQ c) * 65536 ≤ cs.foldl maxQ c)

/-- clause name of a missed witness: what lp_solve itself answered for that LP (0/1 = it claims an optimum with delta ≤ 0), and
    whether the LP mixes magnitudes (the regime of the open finding C12-witnesslp-mixed-magnitudes); without a recorded call
    the name of the earlier rounds -/
def missKind (M : Rat) (sc : Option SolveCall) : String :=
  match sc with
  | none => if decide (M < 1000000) then "missed_witness" else "missed_witness_at_magnitude_above_1e6"
  | some sc =>
    -- the kind names the shape of LP::solve's call (the individual codes are in `SolveCall.says`, printed with the verdict)
    let acc := Gen.lpAcceptCodes.contains sc.last.result
    let what := if sc.attempts.length == 1 then
        (if acc then "missed_witness" else if sc.last.result == 2 then "missed_witness_lp_solve_says_infeasible" else "missed_witness_lp_solve_fails")
      else (if acc then "missed_witness_after_retry" else "missed_witness_lp_solve_fails_twice")
    if sc.first.wideRange then what ++ "_at_dynamic_range_above_2p16" else
    if decide (M < 1000000) then what else what ++ "_at_magnitude_above_1e6"

/-- exact, lp_solve-independent answer to the witness question `(best, v)`: `(delta*, belief, multipliers over best)` -/
def exactWitness (S : Nat) (best : List Vec) (v : Vec) : Option (Rat × Vec × Vec) :=
  DrvC12LP.gameSolve S (best.map (fun g => List.zipWith (fun x y => x - y) v g))

/-- certificate for `r` against `G` from the exact simplex -/
def exactCert (S : Nat) (idx : Nat) (G : List Vec) (r : Vec) : Option Cert :=
  match exactWitness S G r with
  | some (_, b, lam) => some ⟨idx, some lam, some b⟩
  | none => none

def checkRemoved (comp : String) (S : Nat) (eps : Rat) (arr : List Vec) (e : Nat) (certs : List Cert) (a : Acc) : Acc :=
  let kept := arr.take e
  (List.range (arr.length - e)).foldl (fun a k =>
    let i := e + k
    let r := arr.getD i []
    -- certificates: the harness's (found with the library's own LP classes); if they do not decide, an exact rational simplex
    -- that does not touch lp_solve (both are untrusted inputs of `envelopeClause`)
    let e1 := envelopeClause S eps kept r (certs.find? (fun c => c.idx == i))
    let e2 := if e1 == .undecided then envelopeClause S eps kept r (exactCert S i kept r) else e1
    match e2 with
    | .ok => a
    | .bad =>
      let wb := match exactCert S i kept r with
        | some ⟨_, _, some b⟩ => if violationOK S eps kept b r then s!" belief={showVec b}" else ""
        | _ => ""
      { a with v := a.v.failIf true s!"{comp} removed_vector_needed idx={i} {showVec r}{wb}" }
    | .undecided => { a with undecided := a.undecided + 1 }) a

/-- `dom S l r | b` -/
def dom : P String := do
  let S ← P.nat; let l ← vecP S; let r ← vecP S; P.bar; let b ← P.bool; P.eof
  if domMargin [l, r] < 1 / 1000000000000 then return "skip ill_conditioned"
  let v : Verdict := { tag := "dom" }
  let v := v.diffIf (dominates l r != b) s!"dominates model={dominates l r} impl={b}"
  -- property clause: a reported domination is within the documented slack on every coordinate
  let sl := linkSlack (maxAbsL [l, r])
  let v := v.failIf (b && !(domAbs sl l r)) s!"dominates beyond_tolerance {showVec l} {showVec r}"
  let v := v.failIf (!b && domAbs 0 l r) s!"dominates exact_domination_missed {showVec l} {showVec r}"
  return v.render

/-- `best S n vecs point corner bound | i1 v1 i2 v2 newBound arr` -/
def best : P String := do
  let S ← P.nat; let n ← P.nat; let xs ← vecsP n S; let point ← vecP S; let corner ← P.nat; let bound ← P.nat; P.bar
  let i1 ← P.nat; let v1 ← P.q; let i2 ← P.nat; let v2 ← P.q; let nb ← P.nat; let arr ← vecsP n S; P.eof
  let m1 := findBest (dot point) xs
  let m2 := findBest (fun v => v.getD corner 0) xs
  let v : Verdict := { tag := if n < 2 then "best trivial" else "best" }
  let v := v.diffIf (m1 != i1) s!"findBestAtPoint model={m1} impl={i1}"
  let v := v.diffIf (m2 != i2) s!"findBestAtSimplexCorner model={m2} impl={i2}"
  -- extractBestAtPoint: array = useful ++ rest, best moved to slot `bound` if it was in the rest
  let mArr := if bound ≤ m1 then xs.take bound ++ [xs.getD m1 []] ++ takeOut (xs.drop bound) (m1 - bound) else xs
  let mNb := if bound ≤ m1 then bound + 1 else bound
  let v := v.diffIf (mArr != arr || mNb != nb) s!"extractBestAtPoint model_bound={mNb} impl_bound={nb}"
  -- property clauses on the implementation's answers: argmax, reported value, permutation
  let g1 := xs.getD i1 []; let g2 := xs.getD i2 []
  -- the products are rounded in the implementation: "argmax" up to 1e-9 relative to the magnitude of the data
  let M := maxAbsL xs
  let v := v.failIf (i1 ≥ n || xs.any (fun x => decide (dot point g1 + tiny M < dot point x))) s!"findBestAtPoint not_argmax idx={i1}"
  let v := v.failIf (i2 ≥ n || xs.any (fun x => decide (g2.getD corner 0 < x.getD corner 0))) s!"findBestAtSimplexCorner not_argmax idx={i2}"
  let v := v.failIf (!(closeQ (1/1000000000) v1 (dot point g1)) || v2 != g2.getD corner 0) s!"findBestAtPoint wrong_value"
  let v := v.failIf (!(isPermB xs arr)) "extractBestAtPoint not_a_permutation"
  let v := v.failIf (nb > n || nb < bound || !((arr.take nb).any (fun x => xs.all (fun y => decide (dot point y ≤ dot point x + tiny M))))) "extractBestAtPoint best_not_in_useful_range"
  -- two different VALUES within 1e-9 of the maximum: which vector wins is decided by rounding, the model is not compared
  -- (exactly equal values are compared: there the lexicographic tie-break decides, in the model as in the code)
  let mx := xs.foldl (fun m x => maxQ m (dot point x)) (dot point (xs.getD 0 []))
  let nearTie := decide (1 < (((xs.filter (fun x => decide (mx - tiny M < dot point x))).map (dot point)).eraseDups).length)
  if v.fails.isEmpty && !v.diffs.isEmpty && nearTie then return "skip ill_conditioned" else
  return v.render

/-- `bup S nP nV points vecs | k arr` : extractBestUsefulPoints (not modelled; clauses of its documentation checked on the output) -/
def bup : P String := do
  let S ← P.nat; let nP ← P.nat; let nV ← P.nat; let pts ← vecsP nP S; let vs ← vecsP nV S; P.bar
  let k ← P.nat; let arr ← vecsP nP S; P.eof
  let M := maxAbsL vs
  -- which hyperplane a point supports is decided by rounding when two different values are within 1e-9 of the maximum
  let near := pts.any (fun p =>
    let mx := vs.foldl (fun m x => maxQ m (dot p x)) (dot p (vs.getD 0 []))
    decide (1 < (((vs.filter (fun x => decide (mx - tiny M < dot p x))).map (dot p)).eraseDups).length))
  if near then return "skip ill_conditioned"
  let idOf := fun (p : Vec) => findBest (dot p) vs
  let valOf := fun (p : Vec) => dot p (vs.getD (idOf p) [])
  let kept := arr.take k
  let v : Verdict := { tag := if nP < 2 then "bup trivial" else "bup" }
  let v := v.failIf (!(isPermB pts arr) || k > nP) "extractBestUsefulPoints not_a_permutation"
  let ids := kept.map idOf
  let v := v.failIf (ids.eraseDups.length != ids.length) "extractBestUsefulPoints two_points_for_one_hyperplane"
  let v := v.failIf (pts.any (fun p => !(ids.contains (idOf p)))) "extractBestUsefulPoints supported_hyperplane_lost"
  let v := v.failIf (kept.any (fun q => pts.any (fun p => idOf p == idOf q && decide (valOf q + tiny M < valOf p)))) "extractBestUsefulPoints not_the_best_point_of_its_hyperplane"
  -- L2b: the model (AITB.Model.UsefulPoints; contract proved in Props/C12UsefulPoints) must reproduce the array slot for slot,
  -- unless two supporters of one hyperplane have different values within 1e-9 (`bestValues[vId].second < value` decided by rounding)
  let m := AITB.UsefulPoints.extractBestUsefulPoints idOf valOf nV pts
  let nearVal := pts.any (fun p => pts.any (fun q => idOf p == idOf q && valOf p != valOf q && decide (absQ (valOf p - valOf q) < tiny M)))
  let v := v.diffIf (!nearVal && (m.1 ++ m.2 != arr || m.1.length != k)) s!"extractBestUsefulPoints model_kept={m.1.length} impl_kept={k}"
  return v.render

/-- `ed S n vecs | e arr certs` -/
def ed : P String := do
  let S ← P.nat; let n ← P.nat; let xs ← vecsP n S; P.bar
  let e ← P.nat; let arr ← vecsP n S; let certs ← certsP; P.eof
  let m := extractDominated dominates xs
  let M := maxAbsL xs
  let eps := (n : Rat) * linkSlack M + tiny M
  let ill := domMargin xs < 1 / 1000000000000
  let a : Acc := { v := { tag := if n < 2 then "ed trivial" else "ed" }, illcond := ill }
  let a := { a with v := a.v.diffIf (m.1 ++ m.2 != arr || m.1.length != e) s!"extractDominated model_kept={m.1.length} impl_kept={e}" }
  let a := { a with v := a.v.failIf (!(isPermB xs arr) || e > n) "extractDominated not_a_permutation" }
  let a := checkRemoved "extractDominated" S eps arr e certs a
  -- no kept vector is pairwise dominated by another kept one by more than the chain slack
  let kept := arr.take e
  let strict := (List.range e).any (fun i => (List.range e).any (fun j => i != j && domAbs (-eps) (kept.getD i []) (kept.getD j [])))
  let a := { a with v := a.v.failIf strict "extractDominated kept_vector_dominated" }
  return a.render

/-- `edi S nOld nNew old new | i1 i2 i3 arr certs` -/
def edi : P String := do
  let S ← P.nat; let nO ← P.nat; let nN ← P.nat; let old ← vecsP nO S; let new ← vecsP nN S; P.bar
  let i1 ← P.nat; let i2 ← P.nat; let i3 ← P.nat; let arr ← vecsP (nO + nN) S; let certs ← certsP; P.eof
  let o := extractDominatedIncremental dominates old new
  let all := old ++ new
  let M := maxAbsL all
  let eps := (all.length : Rat) * linkSlack M + tiny M
  let ill := domMargin all < 1 / 1000000000000
  let a : Acc := { v := { tag := if all.length < 2 then "edi trivial" else "edi" }, illcond := ill }
  let mi1 := o.oldGood.length; let mi2 := mi1 + o.newGood.length; let mi3 := mi2 + o.oldBad.length
  let a := { a with v := a.v.diffIf (o.array != arr || (mi1, mi2, mi3) != (i1, i2, i3)) s!"extractDominatedIncremental model=({mi1},{mi2},{mi3}) impl=({i1},{i2},{i3})" }
  let a := { a with v := a.v.failIf (!(isPermB all arr)) "extractDominatedIncremental not_a_permutation" }
  let okIdx := i1 ≤ i2 && i2 ≤ i3 && i3 ≤ arr.length
  let a := { a with v := a.v.failIf (!okIdx) "extractDominatedIncremental ranges_out_of_order" }
  -- documented ranges: [0,i1) good old, [i1,i2) good new, [i2,i3) dominated old, rest dominated new
  let oldPart := arr.take i1 ++ (arr.drop i2).take (i3 - i2)
  let a := { a with v := a.v.failIf (okIdx && !(isPermB oldPart old)) "extractDominatedIncremental ranges_not_partition" }
  let a := if okIdx then checkRemoved "extractDominatedIncremental" S eps arr i2 certs a else a
  return a.render

structure Call where
  best : List Vec
  v : Vec
  w : Option Vec
  lam : Option Vec

def callsP (S : Nat) : P (List Call) := do
  let n ← P.nat
  P.rep (do let k ← P.nat; let best ← vecsP k S; let v ← vecP S; let w ← optVecP; let l ← optVecP; pure ⟨best, v, w, l⟩) n

/-- `prune S n vecs | e arr same [calls] certs need` -/
def prune : P String := do
  let S ← P.nat; let n ← P.nat; let xs ← vecsP n S; P.bar
  let e ← P.nat; let arr ← vecsP n S
  let same ← P.bool
  let calls ← if same then callsP S else pure []
  let certs ← certsP; let need ← certsP; let snaps ← snapsP; P.eof
  let M := maxAbsL xs
  let eps := (n : Rat) * linkSlack M + tiny M
  -- a comparison of the model is ill-conditioned when a `dominates` test sits on its threshold, or when two different
  -- vectors are within 1e-9 of the maximum at a witness point (findBestAtPoint decides by floating-point rounding)
  let nearTie := fun (w : Vec) =>
    let mx := xs.foldl (fun m x => maxQ m (dot w x)) (dot w (xs.getD 0 []))
    decide (1 < ((xs.filter (fun x => decide (mx - tiny M * (1 + sumL w) < dot w x))).eraseDups).length)
  let ill := domMargin xs < 1 / 1000000000000 || calls.any (fun c => match c.w with | some w => nearTie w | none => false)
  let a : Acc := { v := { tag := if n < 2 then "prune trivial" else "prune" }, illcond := ill }
  -- L2b: run the model with the recorded oracle answers
  let oracle : List Vec → Vec → Option Vec := fun best v =>
    match calls.find? (fun c => c.best == best && c.v == v) with
    | some c => c.w
    | none => none
  let m := pruner dominates oracle S xs
  -- `same = false`: Pruner::operator() did not produce the array that its documented composition (extractDominated,
  -- extractBestAtSimplexCorners, WitnessLP, extractBestAtPoint, in the order of the source) produces on the same input
  let a := if !same then { a with v := a.v.diffIf true "Pruner result differs from the loop rebuilt from its library pieces" }
           else { a with v := a.v.diffIf (m.1 ++ m.2 != arr || m.1.length != e) s!"Pruner model_kept={m.1.length} impl_kept={e}" }
  -- L2b, one level down: every LP the real Pruner handed to lp_solve is the LP the WitnessLP model poses for that call
  -- (rows scaled by the common power of two chosen from the first optimal row), and the answer `findWitness` made of
  -- lp_solve's reply is the model's (`deltaValue <= 0` discards it)
  -- the recorded `::solve` calls grouped by the model of LP::solve (a retry code is followed by exactly one second attempt)
  let solves := groupSolves (snaps.length + 1) snaps
  let scalls : List SolveCall := solves.getD []
  let a := if solves.isNone then { a with v := a.v.diffIf true (s!"LP::solve recorded lp_solve results {snaps.map (·.result)} are not a sequence its model makes") } else a
  let a := if !same || solves.isNone then a else
    if scalls.length != calls.length then { a with v := a.v.diffIf true (s!"WitnessLP LP::solve was called {scalls.length} times, the rebuilt loop asks {calls.length} questions") } else
    (List.range calls.length).foldl (fun (a : Acc) i =>
      match calls[i]?, scalls[i]? with
      | some c, some sc =>
        let st := c.best.foldl WitnessLP.addOptimalRow WitnessLP.reset
        let p := WitnessLP.posed st c.v
        let rowsOk := sc.first.matches (S + 2) true (WitnessLP.lpFree S) (WitnessLP.lpObjective S) (WitnessLP.lpRows S p)
        let a := { a with v := a.v.diffIf (!rowsOk) (s!"WitnessLP lp_rows call={i} rows={c.best.length} scale={ratStr (WitnessLP.usedScale st c.v)}") }
        let mAns := WitnessLP.findWitness (fun _ => sc.last.answer S) st c.v
        -- (the recorded reply is the real Pruner's, `c.w` the rebuilt loop's own lp_solve run: two optimal vertices may differ)
        { a with v := a.v.diffIf (mAns.isSome != c.w.isSome) (s!"WitnessLP answer call={i} model={mAns.isSome} impl={c.w.isSome}") }
      | _, _ => a) a
  -- oracle contract on the recorded answers (the library's own WitnessLP)
  let badW := calls.any (fun c => match c.w with
    | some w => match normalize w with
        | some w' => c.best.any (fun g => decide (dot w' c.v + lpTol M < dot w' g))
        | none => true
    | none => false)
  let a := { a with v := a.v.failIf badW "WitnessLP witness_below_a_best_vector" }
  -- a `none` answer must not hide a witness: try every belief at hand (simplex probes and the certificates' beliefs)
  -- and the exact optimum of the witness question itself (rational simplex, independent of lp_solve)
  let cands := probeBeliefs S ++ (certs ++ need).filterMap (fun c => c.b.bind normalize)
  let candsOf := fun (c : Call) => match exactWitness S c.best c.v with | some (_, b, _) => b :: cands | none => cands
  let missed := (List.range calls.length).find? (fun i => match calls[i]? with
    | some c => c.w.isNone && (candsOf c).any (fun b => violationOK S eps c.best b c.v)
    | none => false)
  let a := match missed.bind (fun i => calls[i]?.map (fun c => (i, c))) with
    | some (i, c) =>
      let kind := missKind M (if same && scalls.length == calls.length then scalls[i]? else none)
      let wb := match (candsOf c).find? (fun b => violationOK S eps c.best b c.v) with | some b => showVec b | none => ""
      let says := match (if same && scalls.length == calls.length then scalls[i]? else none) with | some sc => sc.says | none => "?"
      let msg := s!"WitnessLP {kind} v={showVec c.v} rows={c.best.length} belief={wb} lp_solve={says}"
      { a with v := a.v.failIf true msg }
    | none => a
  let a := { a with v := a.v.failIf (!(isPermB xs arr) || e > n) "Pruner not_a_permutation" }
  let a := checkRemoved "Pruner" S eps arr e certs a
  -- "contains no vector that is nowhere needed (up to the documented tolerance)", per kept vector `k`:
  --   ok    : some belief where `k` is above all other kept vectors by more than 1e-9·(1+M), verified exactly;
  --   fail  : a verified Farkas cover by the others AND (an exact tie with the envelope at a probed belief / recorded witness
  --           point, or uniform slack > equalToleranceSmall·(1+M) on every coordinate);
  --   skip within_tolerance : covered, but a near-tie inside the documented tolerance (e.g. a witness accepted on lp_solve noise);
  --   otherwise undecided.
  let kept := arr.take e
  let extra := (calls.filterMap (fun c => c.w.bind normalize)) ++ (certs ++ need).filterMap (fun c => c.b.bind normalize)
  let a := (List.range e).foldl (fun (a : Acc) i =>
    let k := kept.getD i []
    let others := kept.eraseIdx i
    if others.isEmpty then a else
    let n1 := neededClause S (tiny M) (tiny M / 1000) (Gen.equalToleranceSmall * (1 + M)) extra others k (need.find? (fun c => c.idx == i))
    -- fallback on the exact simplex: its belief may only show that `k` IS needed, its multipliers that `k` is covered; the
    -- exact-tie test stays on the structural beliefs (probes, recorded witness points): at the simplex optimum a covered
    -- vector that touches the envelope ties it by construction, which is not the exact corner/face tie the clause is about
    let n2 := if n1 != .undecided then n1 else
      match exactWitness S others k with
      | some (_, b, lam) =>
        if strictNeededOK S (tiny M) others b k then .ok
        else neededClause S (tiny M) (tiny M / 1000) (Gen.equalToleranceSmall * (1 + M)) extra others k (some ⟨i, some lam, none⟩)
      | none => n1
    match n2 with
    | .ok => a
    | .bad =>
      -- a set that mixes magnitudes (largest / smallest non-zero entry ≥ 2^16) is the regime of the open finding
      -- C12-witnesslp-mixed-magnitudes (lp_solve answers the witness LP wrongly, here with a spurious witness): own clause name
      let kind := if wideVecs xs then "unneeded_vector_kept_at_dynamic_range_above_2p16" else "unneeded_vector_kept"
      { a with v := a.v.failIf true s!"Pruner {kind} idx={i} {showVec k}" }
    | .within => { a with within := a.within + 1 }
    | .undecided => { a with undecided := a.undecided + 1 }) a
  return a.render

/-- `reuse S n nWarm vecs warm | eUsed arrUsed eFresh arrFresh` : `Pruner(S)` applied to `vecs` by an object that has just pruned
    `warm`, and by a fresh object.  `Pruner::operator()` is a function of its arguments (the model starts from `reset()`, and
    every theorem about `pruner` is about that function): the two results must coincide. -/
def reuse : P String := do
  let S ← P.nat; let n ← P.nat; let nW ← P.nat; let xs ← vecsP n S; let _warm ← vecsP nW S; P.bar
  let eU ← P.nat; let arrU ← vecsP n S; let eF ← P.nat; let arrF ← vecsP n S; P.eof
  let v : Verdict := { tag := "reuse" }
  if eU == eF && arrU == arrF then return v.render
  -- the results differ: is the difference above the documented tolerance?  A vector kept by one object and not by the other,
  -- whose exact margin against the kept set of the object that dropped it exceeds the envelope slack, is a needed vector lost by that object
  let M := maxAbsL xs
  let eps := (n : Rat) * linkSlack M + tiny M
  let keptU := arrU.take eU; let keptF := arrF.take eF
  let lost := fun (kept other : List Vec) => (other.filter (fun x => !kept.contains x)).find? (fun x =>
    match exactWitness S kept x with
    | some (_, b, _) => violationOK S eps kept b x
    | none => false)
  match lost keptU keptF, lost keptF keptU with
  | none, none => return "skip within_tolerance"
  | l1, l2 =>
    let who := if l1.isSome then "used" else "fresh"
    let x := (l1.orElse (fun _ => l2)).getD []
    let kind := if wideVecs xs then "result_depends_on_previous_use_at_dynamic_range_above_2p16"
      else if decide (M < 1000000) then "result_depends_on_previous_use" else "result_depends_on_previous_use_at_magnitude_above_1e6"
    return s!"fail Pruner {kind} kept_used={eU} kept_fresh={eF} the_{who}_object_lost={showVec x}"

/-- `wlp S k best v v2 | a1 a2 snaps` : `WitnessLP` used directly — reset, allocate, addOptimalRow for every row, two questions -/
def wlp : P String := do
  let S ← P.nat; let k ← P.nat; let best ← vecsP k S; let v ← vecP S; let v2 ← vecP S; P.bar
  let a1 ← optVecP; let a2 ← optVecP; let snaps ← snapsP; P.eof
  let M := maxAbsL (v :: v2 :: best)
  let eps := ((k + 1 : Nat) : Rat) * linkSlack M + tiny M
  let st := best.foldl WitnessLP.addOptimalRow WitnessLP.reset
  let vd : Verdict := { tag := if k == 0 then "wlp trivial" else if WitnessLP.usedScale st v != 1 then "wlp scaled" else "wlp" }
  let solves := groupSolves (snaps.length + 1) snaps
  let scalls : List SolveCall := solves.getD []
  let vd := vd.diffIf solves.isNone s!"LP::solve recorded lp_solve results {snaps.map (·.result)} are not a sequence its model makes"
  let vd := vd.diffIf (solves.isSome && scalls.length != 2) s!"WitnessLP LP::solve was called {scalls.length} times for 2 questions"
  let vd := ([(0, v, a1), (1, v2, a2)] : List (Nat × Vec × Option Vec)).foldl (fun (vd : Verdict) q =>
    let (i, qv, ans) := q
    let vd := match scalls[i]? with
      | some sc =>
        let p := WitnessLP.posed st qv
        let vd := vd.diffIf (!(sc.first.matches (S + 2) true (WitnessLP.lpFree S) (WitnessLP.lpObjective S) (WitnessLP.lpRows S p)))
                    s!"WitnessLP lp_rows question={i} rows={k} scale={ratStr (WitnessLP.usedScale st qv)}"
        let mAns := WitnessLP.findWitness (fun _ => sc.last.answer S) st qv
        vd.diffIf (mAns != ans) s!"WitnessLP answer question={i} model={mAns.isSome} impl={ans.isSome}"
      | none => vd
    if k == 0 then vd else
    -- the oracle contract `pruner_spec` assumes, decided by the exact optimum of the witness question
    match ans with
    | some w =>
      match normalize w with
      | some w' => vd.failIf (best.any (fun g => decide (dot w' qv + lpTol M < dot w' g))) s!"WitnessLP witness_below_a_best_vector question={i}"
      | none => vd.failIf true s!"WitnessLP witness_not_a_belief question={i}"
    | none =>
      match exactWitness S best qv with
      | some (_, b, _) =>
        let kind := missKind M (scalls[i]?)
        let says := match scalls[i]? with | some sc => sc.says | none => "?"
        vd.failIf (violationOK S eps best b qv) s!"WitnessLP {kind} v={showVec qv} rows={k} belief={showVec b} lp_solve={says}"
      | none => vd) vd
  return renderV vd

/-! ### interpolation -/

structure ImplOut where
  status : String
  value : XRat
  w : List XRat

def implOutP : P ImplOut := do
  let st ← P.tok
  if st == "ok" then do let v ← P.x; let w ← P.xs; pure ⟨st, v, w⟩ else pure ⟨st, .nan, []⟩

structure InterpIn where
  S : Nat
  A : Nat
  N : Nat
  point : Vec
  ubQ : List Vec
  pts : List Vec
  vals : Vec

def interpInP : P InterpIn := do
  let S ← P.nat; let A ← P.nat; let N ← P.nat
  let point ← vecP S; let ubQ ← vecsP S A; let pts ← vecsP N S; let vals ← vecP N
  pure ⟨S, A, N, point, ubQ, pts, vals⟩

/-- exact bounds on the LP optimum from the untrusted primal / dual solutions -/
def lpBounds (i : InterpIn) (cv : Vec) (dual primal : Option Vec) : Option Rat × Option Rat :=
  let lo := match dual with
    | some h => let h' := mkDual cv i.pts i.vals h
                if dualOK cv i.pts i.vals h' then some (dot h' i.point) else none
    | none => none
  let hi := match primal with
    | some c => let pr := mkPrimal i.point i.pts c
                if primalOK i.point pr.1 pr.2 i.pts then some (weightedValue cv pr.1 pr.2 i.vals) else none
    | none => if i.N == 0 then some (dot i.point cv) else none
  (lo, hi)

def clausesCommon (comp : String) (i : InterpIn) (cv : Vec) (value : Rat) (w : Vec) (v : Verdict) : Verdict :=
  let M := maxQ (maxAbsL [cv, i.vals]) 1
  let wc := w.take i.S; let wp := w.drop i.S
  let tolR := ((i.N + 1 : Nat) : Rat) * Gen.equalToleranceSmall + tiny 1
  let tolV := ((i.S + i.N + 1 : Nat) : Rat) * Gen.equalToleranceSmall * M + tiny M
  let v := v.failIf (w.length != i.S + i.N) s!"{comp} weights_wrong_size {w.length}"
  let bad := (List.range i.S).any (fun s => decide (tolR < absQ (reconAt i.point wc wp i.pts s)))
  let v := v.failIf bad s!"{comp} weights_do_not_reconstruct {showVec w}"
  -- sharper than the tolerance of the reconstruction test: a stored point that is not on the query's face (the query is
  -- "zero" where the point is not) can never take part in a reconstruction, whatever its distance from the face
  let zero := idxWhere isZeroS i.point
  let offFace := (List.range i.N).any (fun j => decide (Gen.equalToleranceSmall < wp.getD j 0) &&
      zero.any (fun s => !isZeroS ((i.pts.getD j []).getD s 0)))
  let v := v.failIf offFace s!"{comp} weight_on_point_off_the_query_face {showVec w}"
  -- "non-negative up to the documented tolerance": the zero test of both functions lets a coordinate in (0, 1e-6]
  -- count as zero, which can leave a corner weight of that size below zero (`sawtooth_repaired_weights_needs_hz`)
  let v := v.failIf (w.any (fun x => decide (x < -Gen.equalToleranceSmall))) s!"{comp} weights_negative {showVec w}"
  v.failIf (decide (weightedValue cv wc wp i.vals + tolV < value)) s!"{comp} value_exceeds_weighted_sum value={ratStr value} sum={ratStr (weightedValue cv wc wp i.vals)}"

/-- some coordinate of the query or of a stored point is non-zero but within the library's zero tolerance -/
def tolZero (i : InterpIn) : Bool := (i.point :: i.pts).any (fun v => v.any (fun x => x != 0 && isZeroS x))

def closeVec (a b : Vec) : Bool := a.length == b.length && (List.zipWith (fun x y => closeQ (1/1000000000) x y) a b).all id

/-- `lpi S A N point ubQ pts vals | status value w dual primal` -/
def lpi : P String := do
  let i ← interpInP; P.bar
  let out ← implOutP; let dual ← optVecP; let primal ← optVecP; let snaps ← snapsP; P.eof
  let comp := "LPInterpolation"
  if out.status != "ok" then return s!"fail {comp} throws_{out.status}"
  let cv := cornerVals i.ubQ
  let M := maxQ (maxAbsL [cv, i.vals]) 1
  match finQ? out.value, out.w.mapM finQ? with
  | some value, some w =>
    -- LP oracle answer as observed in the implementation's output (slots depend on the source variant)
    let zero := idxWhere isZeroS i.point
    let compat : List Nat := if zero.isEmpty then List.range i.N
      else (List.range i.N).filter (fun j => zero.all (fun s => isZeroS ((i.pts.getD j []).getD s 0)))
    let k := compat.length
    let slots := if srcVariant.lpTail then (List.range k).map (fun t => i.S + i.N - k + t) else compat.map (fun j => i.S + j)
    let result := slots.map (fun t => w.getD t 0)
    let oracle : LpIn → Option (Rat × Vec) := fun _ => some (value - dot i.point cv, result)
    let v : Verdict := { tag := if i.N == 0 then "lpi trivial" else if k ≥ 2 then "lpi lp" else if k == 1 then "lpi single" else "lpi nocompat" }
    let v := match lpInterp srcVariant oracle i.point i.ubQ i.A i.pts i.vals with
      | some ⟨mv, some mw⟩ =>
        let v := v.diffIf (!(closeQ (1/1000000000) mv value)) s!"{comp} value model={ratStr mv} impl={ratStr value}"
        -- the LP solution is read back from the *cleaned* weights (entries ≤ 1e-6 zeroed), so the recomputed corner
        -- weights can differ from the implementation's by that resolution (seen with coordinates of size 2^-19)
        let okW := closeVec mw w || (mw.length == w.length &&
          (List.zipWith (fun x y => decide (absQ (x - y) ≤ ((i.N + 1 : Nat) : Rat) * Gen.equalToleranceSmall)) mw w).all id)
        v.diffIf (!okW) s!"{comp} weights model={showVec mw} impl={showVec w}"
      | _ => v
    let v := clausesCommon comp i cv value w v
    -- LP branch: is the observed LP answer certified eps-optimal for the LP the model poses (`lpCertOK`, sound by
    -- `lpCertOK_eps_optimal`; with it `lpinterp_optimal_certified_eps` applies to this instance with no assumption on lp_solve)?
    -- The float answer is first made exactly feasible (scaled down, objective recomputed), the dual multipliers are
    -- y_s = cornerVals_s - h_s for the shifted dual hyperplane h of the harness's certificate.
    let nonZero := idxWhere (fun x => !isZeroS x) i.point
    let cpts := compat.map (fun j => i.pts.getD j [])
    let inp : LpIn := ⟨nonZero.map (fun s => (cpts.map (fun p => p.getD s 0), i.point.getD s 0)),
                       compat.map (fun j => i.vals.getD j 0 - dot (sel nonZero (i.pts.getD j [])) (sel nonZero cv))⟩
    -- L2b, one level down: the LP handed to lp_solve is the model's LP (only the LP branch solves one)
    let v := if k ≥ 2 then
        match groupSolves (snaps.length + 1) snaps with
        | some [sc] => v.diffIf (!(sc.first.matches (k + 1) false [k] (List.replicate k 0 ++ [1]) (WitnessLP.interpRows inp))) s!"{comp} lp_rows points={k} states={nonZero.length}"
        | _ => v.diffIf true s!"{comp} LP::solve: recorded lp_solve results {snaps.map (·.result)} are not one call of its model in the LP branch"
      else v.diffIf (!snaps.isEmpty) s!"{comp} lp_solve was called {snaps.length} times on a shortcut branch"
    let tolV0 := ((i.S + i.N + 1 : Nat) : Rat) * Gen.equalToleranceSmall * M + tiny M
    let certified := k ≥ 2 && (match dual with
      | some h =>
        let h' := mkDual cv i.pts i.vals h
        let y := nonZero.map (fun s => cv.getD s 0 - h'.getD s 0)
        let c0 := result.map (fun x => if x < 0 then 0 else x)
        let theta := inp.rows.foldl (fun t r => let mm := dot r.1 c0; if r.2 < mm then minQ t (r.2 / mm) else t) 1
        let c := c0.map (fun x => x * theta)
        let obj := dot c inp.gains
        lpCertOK tolV0 inp y (obj, c) && decide (absQ (obj - (value - dot i.point cv)) ≤ tolV0)
      | none => false)
    let v := if certified then { v with tag := v.tag ++ " certified" } else v
    -- optimum clause, whenever a stored point shares the query's support
    let (lo, hi) := lpBounds i cv dual primal
    let tolV := ((i.S + i.N + 1 : Nat) : Rat) * Gen.equalToleranceSmall * M + tiny M
    if k == 0 then return renderV v else
    -- a coordinate in (0, 1e-6] is "zero" for the library but not for the exact LP: the optimum clause is then a
    -- statement about a tolerance-sized discontinuity of the input, not decided here
    if tolZero i then return (if v.fails.isEmpty then "skip tolerance_sized_coordinate" else renderV v) else
    match lo, hi with
    | some lo, some hi =>
      let v := v.failIf (decide (value + tolV < lo)) s!"{comp} value_below_lp_optimum value={ratStr value} dual_bound={ratStr lo}"
      let v := v.failIf (decide (hi + tolV < value)) s!"{comp} value_above_lp_optimum value={ratStr value} primal_bound={ratStr hi}"
      if v.fails.isEmpty && decide (tolV < hi - lo) then return "skip lp_certificate_gap" else return renderV v
    | _, _ => if v.fails.isEmpty then return "skip lp_certificate_missing" else return renderV v
  | _, _ => return s!"fail {comp} value_nan value={out.value}"

/-- `saw S A N point ubQ pts vals | status value w dual primal` -/
def saw : P String := do
  let i ← interpInP; P.bar
  let out ← implOutP; let dual ← optVecP; let primal ← optVecP; let snaps ← snapsP; P.eof
  let comp := "sawtoothInterpolation"
  if out.status != "ok" then return s!"fail {comp} throws_{out.status}"
  if !snaps.isEmpty then return s!"diff {comp} lp_solve was called {snaps.length} times"
  let cv := cornerVals i.ubQ
  let M := maxQ (maxAbsL [cv, i.vals]) 1
  let model := sawtoothG Gen.C12Src.sawGuard srcVariant i.point i.ubQ i.A i.pts i.vals
  -- the as-found source builds the weights from an uninitialised local on some inputs; whatever garbage comes
  -- out is reported under one clause name
  let unspecified := match model with | some ⟨_, none⟩ => true | _ => false
  match finQ? out.value, out.w.mapM finQ? with
  | some _, none => return (if unspecified then s!"fail {comp} weights_from_uninitialised_ratio" else s!"fail {comp} weights_nan")
  | some value, some w =>
    let v : Verdict := { tag := if i.N == 0 then "saw trivial" else "saw" }
    if unspecified && !(clausesCommon comp i cv value w {}).fails.isEmpty then return s!"fail {comp} weights_from_uninitialised_ratio {showVec w}" else
    let v := match model with
      | some ⟨mv, mw⟩ =>
        let v := v.diffIf (!(closeQ (1/1000000000) mv value)) s!"{comp} value model={ratStr mv} impl={ratStr value}"
        -- `if (cf < minCF)` between two stored points whose gains agree to 1e-9 is decided by rounding: not compared
        let cfs := (List.range i.N).map (fun j => (sawStep i.point cv {} j (i.pts.getD j []) (i.vals.getD j 0)).minCF)
        let best := cfs.foldl minQ 0
        let nearTie := decide (1 < (cfs.filter (fun c => decide (c < best + tiny M))).length) && decide (best < 0)
        match mw with
        | some mw => v.diffIf (!nearTie && !(closeVec mw w)) s!"{comp} weights model={showVec mw} impl={showVec w}"
        | none => v
      | none => v.diffIf true s!"{comp} model predicts an out-of-range read, implementation returned"
    let v := clausesCommon comp i cv value w v
    let tolV := ((i.S + i.N + 1 : Nat) : Rat) * Gen.equalToleranceSmall * M + tiny M
    let v := v.failIf (decide (dot i.point cv + tolV < value)) s!"{comp} value_above_corner_bound value={ratStr value}"
    let (lo, _) := lpBounds i cv dual primal
    if tolZero i then return (if v.fails.isEmpty then "skip tolerance_sized_coordinate" else renderV v) else
    match lo with
    | some lo =>
      let floor := minQ lo (basicV i.point i.ubQ i.A)
      let v := v.failIf (decide (value + tolV < floor)) s!"{comp} value_below_lower_bound value={ratStr value} floor={ratStr floor}"
      return renderV v
    | none => if v.fails.isEmpty then return "skip lp_certificate_missing" else return renderV v
  | _, _ => return s!"fail {comp} value_nan value={out.value}"

def handle (toks : List String) : String :=
  let r := match toks with
    | "dom" :: rest => P.run dom rest
    | "ed" :: rest => P.run ed rest
    | "best" :: rest => P.run best rest
    | "bup" :: rest => P.run bup rest
    | "edi" :: rest => P.run edi rest
    | "prune" :: rest => P.run prune rest
    | "wlp" :: rest => P.run wlp rest
    | "reuse" :: rest => P.run reuse rest
    | "lpi" :: rest => P.run lpi rest
    | "saw" :: rest => P.run saw rest
    | _ => none
  r.getD "bad-op"

end DrvC12
