/-
  AITB.Model.Guard — the tiny condition language of the library's argument guards
  (`if ( <cond> ) throw std::invalid_argument(…)`), with IEEE semantics on XRat.
  Core Lean only.  The guard table itself is generated (AITB.Gen.Guards, tools/extract_c06.py).
-/
import AITB.Model.Num
namespace AITB.Guard
open AITB

inductive Cmp where
  | lt | le | gt | ge | eq | ne
  deriving Repr, DecidableEq, Inhabited

/-- a condition over ONE double variable; literals are exact rationals -/
inductive GExpr where
  | cmp (c : Cmp) (lit : Rat)
  | or (a b : GExpr)
  | and (a b : GExpr)
  | not (a : GExpr)
  deriving Repr, Inhabited

structure Site where
  cls : String
  fn : String
  file : String
  line : Nat
  g : GExpr
  deriving Repr, Inhabited

/-- IEEE `==` : nan is equal to nothing -/
def eqI : XRat → XRat → Bool
  | .pinf, .pinf => true
  | .ninf, .ninf => true
  | .fin a, .fin b => decide (a = b)
  | _, _ => false

/-- `x <c> lit` as C++ evaluates it on doubles -/
def Cmp.eval (c : Cmp) (x : XRat) (lit : Rat) : Bool :=
  match c with
  | .lt => XRat.lt x (.fin lit)
  | .le => XRat.le x (.fin lit)
  | .gt => XRat.lt (.fin lit) x
  | .ge => XRat.le (.fin lit) x
  | .eq => eqI x (.fin lit)
  | .ne => !(eqI x (.fin lit))

def GExpr.eval : GExpr → XRat → Bool
  | .cmp c lit, x => c.eval x lit
  | .or a b, x => a.eval x || b.eval x
  | .and a b, x => a.eval x && b.eval x
  | .not a, x => !(a.eval x)

/-- every literal of the guard is 0 or 1 (true of all 60 sites of the library) -/
def GExpr.litsIn01 : GExpr → Bool
  | .cmp _ lit => decide (lit = 0) || decide (lit = 1)
  | .or a b => a.litsIn01 && b.litsIn01
  | .and a b => a.litsIn01 && b.litsIn01
  | .not a => a.litsIn01

/-- the eight order classes of a double relative to the literals 0 and 1 -/
inductive Cls where
  | nan | ninf | neg | zero | mid | one | big | pinf
  deriving Repr, DecidableEq, Inhabited

def cls : XRat → Cls
  | .nan => .nan
  | .ninf => .ninf
  | .pinf => .pinf
  | .fin q => if q < 0 then .neg else if q = 0 then .zero else if q < 1 then .mid else if q = 1 then .one else .big

def Cls.rep : Cls → XRat
  | .nan => .nan
  | .ninf => .ninf
  | .neg => .fin (-1)
  | .zero => .fin 0
  | .mid => .fin (1/2)
  | .one => .fin 1
  | .big => .fin 2
  | .pinf => .pinf

def Cls.all : List Cls := [.nan, .ninf, .neg, .zero, .mid, .one, .big, .pinf]

/-- is class `c` inside the half-open unit interval (0,1] -/
def Cls.inUnit : Cls → Bool
  | .mid => true
  | .one => true
  | _ => false

/-- decision procedure: the guard rejects every class outside (0,1] (so what it lets through is a discount) -/
def GExpr.discountOK (g : GExpr) : Bool :=
  g.litsIn01 && Cls.all.all (fun c => g.eval c.rep || c.inUnit)

/-- the same, not looking at nan -/
def GExpr.discountOKfinite (g : GExpr) : Bool :=
  g.litsIn01 && Cls.all.all (fun c => g.eval c.rep || c.inUnit || c == .nan)

/-- the guard rejects nothing that is a legitimate discount -/
def GExpr.discountComplete (g : GExpr) : Bool :=
  g.litsIn01 && Cls.all.all (fun c => !(c.inUnit) || !(g.eval c.rep))

/-- the order classes a guard lets through (does not throw on) -/
def GExpr.acceptedClasses (g : GExpr) : List Cls := Cls.all.filter (fun c => !(g.eval c.rep))

def findSite (sites : List Site) (file fn : String) : Option Site :=
  sites.find? (fun s => s.file == file && s.fn == fn)

end AITB.Guard
