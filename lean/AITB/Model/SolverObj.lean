/-
  AITB.Model.SolverObj — solver objects as explicit state machines (C16): configuration set by
  the user, per-call scratch kept between calls (`v1_`, agendas, caches), and `call`.
  Core Lean only.
-/
import AITB.Model.MDP
namespace AITB.Hidden

/-- a solver object: what the user configured (`Cfg`) and what a call leaves behind (`Scr`) -/
structure SolverSem (Cfg Scr In Out : Type) where
  call : Cfg → Scr → In → Cfg × Scr × Out

/-- run a sequence of calls on ONE object; returns the outputs in order -/
def SolverSem.runSeq {Cfg Scr In Out} (S : SolverSem Cfg Scr In Out) : Cfg → Scr → List In → List Out
  | _, _, [] => []
  | c, sc, x :: xs => let (c', sc', o) := S.call c sc x; o :: S.runSeq c' sc' xs

/-- `MDP::ValueIteration` as an object: configuration = (horizon, tolerance, vParameter_), scratch = v1_.
    As written: `v1_ = (vParameter_.size == S) ? vParameter_ : makeValueFunction(S)` at the start of every
    call (a copy: vParameter_ is left as configured), the loop works on v1_, and v1_ stays behind. -/
structure VICfg where
  horizon : Nat
  tol : Rat
  vParameter : Option AITB.MDP.VF
  rep : AITB.MDP.Rep

def viObject : SolverSem VICfg AITB.MDP.VF AITB.MDP.MDP AITB.MDP.VIOut where
  call := fun cfg _v1 m =>
    let out := AITB.MDP.valueIteration m cfg.rep cfg.horizon cfg.tol cfg.vParameter
    (cfg, out.vf, out)

end AITB.Hidden

/-! ### more solver objects, as written (round 4) -/
namespace AITB.Hidden

/-- `MDP::PolicyEvaluation<M>`: the model is bound at construction (`model_`), `vParameter_` is the configured start,
    `v1_` the scratch.  As written: the first statement of the call that touches `v1_` assigns it (zeros, or a copy of
    `vParameter_` when that has S entries), the loop works on it, and `return std::make_tuple(…, std::move(v1_), …)` leaves
    the member empty. -/
structure PECfg where
  m : AITB.MDP.MDP
  rep : AITB.MDP.Rep
  horizon : Nat
  tol : Rat
  vParameter : Option AITB.MDP.Vec

def peStart (c : PECfg) : AITB.MDP.Vec :=
  match c.vParameter with
  | none => AITB.MDP.mkVec c.m.S (fun _ => 0)
  | some v => if v.size != c.m.S then AITB.MDP.mkVec c.m.S (fun _ => 0) else v

def peObject : SolverSem PECfg AITB.MDP.Vec AITB.MDP.Mat AITB.MDP.PEOut where
  call := fun c _v1 p =>
    let useTol := AITB.MDP.useTolerance c.tol
    let st := AITB.MDP.peLoop c.m c.rep (AITB.MDP.immRewards c.m c.rep) useTol c.tol p c.horizon
                ⟨peStart c, AITB.MDP.makeQ c.m.S c.m.A, c.tol * 2, 0⟩
    (c, #[], ⟨if useTol then st.variation else 0, st.v, st.q, st.timestep⟩)

/-- `POMDP::LinearSupport::agenda_` — the one scratch member of a solver that a call READS before writing: vertices are pushed
    onto whatever the member holds.  The loop of `operator()` (one horizon step), abstracted over what the vertex and support
    computations return; `Gen/C16Rng.lsOnlyExitIsEmptyTest` pins that the loop is left only through `if (agenda_.size() == 0) break;`.
    `extend = none` stands for an exception escaping the step (allocation failure inside `findVerticesNaive`): the call is then
    left with whatever the agenda held. -/
structure LSOps (V G X : Type) where
  init : X → G × List V                          -- corner supports and the vertices they create
  examine : X → G → List V → List V → List V     -- `agenda_.push(newVertex)` for each untried vertex whose error exceeds the tolerance (4th argument: agenda before)
  pick : List V → Option (V × List V)            -- `agenda_.top()` / `agenda_.pop()`; none iff empty
  prune : V → List V → List V                    -- `agenda_.erase(h)` for the entries made obsolete by best's support
  extend : X → G → V → Option (G × List V)       -- new vertices against `goodSupports`, then `goodSupports.push_back(*best.support)`

inductive LSExit (G : Type) where
  | done (g : G)
  | threw
  | outOfFuel
  deriving Repr, DecidableEq

def lsLoop {V G X} (ops : LSOps V G X) (x : X) : Nat → G → List V → List V → LSExit G × List V
  | 0, _, _, agenda => (.outOfFuel, agenda)
  | f+1, g, verts, agenda =>
    let agenda1 := ops.examine x g verts agenda
    match ops.pick agenda1 with
    | none => (.done g, agenda1)
    | some (best, rest) =>
      let rest' := ops.prune best rest
      match ops.extend x g best with
      | none => (.threw, rest')
      | some (g', verts') => lsLoop ops x f g' verts' rest'

/-- the object: scratch = `agenda_`; `fuel` bounds the (unbounded) `do … while (true)` in the model only -/
def lsObject {V G X} (ops : LSOps V G X) (fuel : Nat) : SolverSem Unit (List V) X (LSExit G) where
  call := fun c agenda x =>
    let r := lsLoop ops x fuel (ops.init x).1 (ops.init x).2 agenda
    (c, r.2, r.1)

end AITB.Hidden
