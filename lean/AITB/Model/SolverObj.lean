/-
  AITB.Model.SolverObj — solver objects as explicit state machines (C16): configuration set by
  the user, per-call scratch kept between calls (`v1_`, agendas, caches), and `call`.
  Core Lean only.
-/
import AITB.Model.MDP
namespace AITB.Hidden

/-- a solver object: what the user configured (`Cfg`) and what a call leaves behind (`Scr`) -/
structure SolverSem (Cfg Scr In Out : Type) where
  call : Cfg → Scr → In → Cfg × Scr × Out

/-- run a sequence of calls on ONE object; returns the outputs in order -/
def SolverSem.runSeq {Cfg Scr In Out} (S : SolverSem Cfg Scr In Out) : Cfg → Scr → List In → List Out
  | _, _, [] => []
  | c, sc, x :: xs => let (c', sc', o) := S.call c sc x; o :: S.runSeq c' sc' xs

/-- `MDP::ValueIteration` as an object: configuration = (horizon, tolerance, vParameter_), scratch = v1_.
    As written: `v1_ = (vParameter_.size == S) ? vParameter_ : makeValueFunction(S)` at the start of every
    call (a copy: vParameter_ is left as configured), the loop works on v1_, and v1_ stays behind. -/
structure VICfg where
  horizon : Nat
  tol : Rat
  vParameter : Option AITB.MDP.VF
  rep : AITB.MDP.Rep

def viObject : SolverSem VICfg AITB.MDP.VF AITB.MDP.MDP AITB.MDP.VIOut where
  call := fun cfg _v1 m =>
    let out := AITB.MDP.valueIteration m cfg.rep cfg.horizon cfg.tol cfg.vParameter
    (cfg, out.vf, out)

end AITB.Hidden
