/-
  AITB.Model.Num — exact numbers for the line protocol.  Core Lean only (no Mathlib)
  so that the compiled driver links.

  Every C++ `double` is a dyadic rational (or nan/±inf).  The harness prints it as one
  token `<m>p<e>` meaning m·2^e (m a signed integer), or `nan` / `inf` / `-inf`.
  The driver parses the token to an exact `Rat`; nothing is rounded on the way.
-/
namespace AITB

/-- extended rationals: what a C++ double can hold -/
inductive XRat where
  | nan
  | pinf
  | ninf
  | fin (q : Rat)
  deriving Repr, BEq, Inhabited

def pow2 (e : Int) : Rat :=
  if e ≥ 0 then ((2 ^ e.toNat : Nat) : Rat) else 1 / ((2 ^ (-e).toNat : Nat) : Rat)

def parseInt? (s : String) : Option Int :=
  if s.startsWith "-" then (s.drop 1).toNat?.map (fun n => - (n : Int))
  else if s.startsWith "+" then (s.drop 1).toNat?.map (fun n => (n : Int))
  else s.toNat?.map (fun n => (n : Int))

/-- parse one number token -/
def parseX? (s : String) : Option XRat :=
  if s == "nan" then some .nan
  else if s == "inf" then some .pinf
  else if s == "-inf" then some .ninf
  else match s.splitOn "p" with
    | [m, e] => do
        let m ← parseInt? m
        let e ← parseInt? e
        pure (.fin ((m : Rat) * pow2 e))
    | [m] => do
        -- plain integer or fraction a/b
        match m.splitOn "/" with
        | [a, b] => do
            let a ← parseInt? a
            let b ← b.toNat?
            if b == 0 then none else pure (.fin ((a : Rat) / (b : Rat)))
        | _ => do
            let a ← parseInt? m
            pure (.fin (a : Rat))
    | _ => none

def parseQ? (s : String) : Option Rat :=
  match parseX? s with
  | some (.fin q) => some q
  | _ => none

def XRat.toString : XRat → String
  | .nan => "nan"
  | .pinf => "inf"
  | .ninf => "-inf"
  | .fin q => s!"{q.num}/{q.den}"

instance : ToString XRat := ⟨XRat.toString⟩

def ratStr (q : Rat) : String := s!"{q.num}/{q.den}"

def absQ (q : Rat) : Rat := if q < 0 then -q else q

/-- `a` and `b` agree to relative-or-absolute tolerance `tol` (exact rational test) -/
def closeQ (tol a b : Rat) : Bool :=
  let d := absQ (a - b)
  let m := if absQ a < absQ b then absQ b else absQ a
  decide (d ≤ tol) || decide (d ≤ tol * m)

/-- IEEE-style comparisons on XRat (nan compares false with everything) -/
def XRat.lt : XRat → XRat → Bool
  | .nan, _ => false
  | _, .nan => false
  | .pinf, _ => false
  | _, .pinf => true
  | _, .ninf => false
  | .ninf, _ => true
  | .fin a, .fin b => decide (a < b)

def XRat.le : XRat → XRat → Bool
  | .nan, _ => false
  | _, .nan => false
  | _, .pinf => true
  | .pinf, _ => false
  | .ninf, _ => true
  | _, .ninf => false
  | .fin a, .fin b => decide (a ≤ b)

def XRat.gt (a b : XRat) : Bool := XRat.lt b a
def XRat.ge (a b : XRat) : Bool := XRat.le b a

/-- split a protocol line into tokens -/
def tokens (line : String) : List String :=
  (line.trimAscii.toString.splitOn " ").filter (· ≠ "")

def parseNat? (s : String) : Option Nat := s.toNat?

def parseNats? (l : List String) : Option (List Nat) := l.mapM parseNat?
def parseQs? (l : List String) : Option (List Rat) := l.mapM parseQ?

/-- total indexing with default, used only where the index is proved / checked in range -/
def getQ (l : List Rat) (i : Nat) : Rat := l.getD i 0

end AITB
