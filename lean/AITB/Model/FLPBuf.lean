/-
  AITB.Model.FLPBuf — the five `Global` callbacks of FactoredLP.cpp and LinearProgramming.cpp at the level of the row
  BUFFER (`lp.row`, a dense vector that `addColumn` re-allocates with unspecified content and that the callbacks clear,
  overwrite, shift and push), interpreted statement by statement.  The statement lists themselves are NOT written here:
  the translator (tools/extract_c15.py) transcribes the callback bodies into `AITB.Gen.flpCallbacks` / `mdpCallbacks`.
  `AITB.Props.C15Buf` proves that, for EVERY buffer content and width, these bodies push exactly the dense form of the
  rows of `AITB.Model.FLPGen` (`veRows`, `flpFinalRows`, `mdpFinalRows`).  Core Lean only.
-/
import AITB.Model.FLPGen
namespace AITB.FLP

/-- the index expressions the callbacks use into `lp.row` -/
inductive Ix where
  | newFactor      -- `newFactor`
  | f              -- `f`            (argument of crossSum)
  | phi            -- `phiId`
  | rule           -- `ruleId`       (loop variable over finalFactors)
  | rule1          -- `ruleId+1`
  deriving Repr, DecidableEq

/-- one statement of a callback body -/
inductive BStmt where
  | setZero                               -- `lp.row.setZero();`
  | write (ix : Ix) (q : Rat)             -- `lp.row[ix] = q;`
  | pushLe                                -- `lp.pushRow(LP::Constraint::LessEqual, 0.0);`
  | shiftRight                            -- `for (int i = lp.row.size() - 2; i >= 0; --i) if (lp.row[i] != 0.0) { lp.row[i+1] = lp.row[i]; lp.row[i] = 0.0; }`
  | forFinals (body : List (Ix × Rat))    -- `for (const auto ruleId : finalFactors) { lp.row[..] = ..; … }`
  deriving Repr

structure Callbacks where
  beginCrossSum : List BStmt
  crossSum : List BStmt
  endCrossSum : List BStmt
  makeResult : List BStmt
  deriving Repr

structure BEnv where
  newFactor : Nat := 0
  f : Nat := 0
  phi : Nat := 0
  finals : List Nat := []

/-- the row buffer and the dense rows handed to lp_solve by `pushRow(LessEqual, 0.0)`, in order -/
structure BSt where
  buf : List Rat
  pushed : List (List Rat)
  deriving Repr

def ixVal (e : BEnv) (rule : Nat) : Ix → Nat
  | .newFactor => e.newFactor
  | .f => e.f
  | .phi => e.phi
  | .rule => rule
  | .rule1 => rule + 1

/-- the shifting loop of FactoredLP's `endCrossSum`; `shiftLoop k b` still has to visit the indices `k-1, …, 0` -/
def shiftLoop : Nat → List Rat → List Rat
  | 0, b => b
  | i+1, b => shiftLoop i (if b.getD i 0 != 0 then (b.set (i+1) (b.getD i 0)).set i 0 else b)

def writes (e : BEnv) (rule : Nat) : List (Ix × Rat) → List Rat → List Rat
  | [], b => b
  | w :: ws, b => writes e rule ws (b.set (ixVal e rule w.1) w.2)

def execStmt (e : BEnv) (st : BSt) : BStmt → BSt
  | .setZero => { st with buf := List.replicate st.buf.length 0 }
  | .write ix q => { st with buf := st.buf.set (ixVal e 0 ix) q }
  | .pushLe => { st with pushed := st.pushed ++ [st.buf] }
  | .shiftRight => { st with buf := shiftLoop (st.buf.length - 1) st.buf }
  | .forFinals body => { st with buf := e.finals.foldl (fun b r => writes e r body b) st.buf }

def execBody (e : BEnv) : List BStmt → BSt → BSt
  | [], st => st
  | s :: ss, st => execBody e ss (execStmt e st s)

/-- `beginCrossSum(); crossSum(f) for every matched rule; endCrossSum()` for one value of the eliminated variable -/
def crossSumGroup (cb : Callbacks) (neg : Nat) (pos : List Nat) (st : BSt) : BSt :=
  let st1 := execBody { newFactor := neg } cb.beginCrossSum st
  let st2 := pos.foldl (fun s f => execBody { newFactor := neg, f := f } cb.crossSum s) st1
  execBody { newFactor := neg } cb.endCrossSum st2

/-- dense form of a model row at buffer width `n` (what `pushRow` hands to lp_solve) -/
def denseRow (n : Nat) (r : CRow) : List Rat := (List.range n).map r.dense

/-- do the pushed buffers equal the dense forms of the model rows?  (driver-side cross-check of the theorems) -/
def pushedMatch (n : Nat) (rows : List CRow) (pushed : List (List Rat)) : Bool :=
  pushed == rows.map (denseRow n)

/-! ## the two setup loops of FactoredLP::operator() (persistent buffer, cleared by hand after every push) -/

inductive SIx where
  | rule        -- `currentRule`
  | rule1       -- `currentRule+1`
  | weight      -- `currentWeight`
  | const       -- `constBasisId`
  deriving Repr, DecidableEq

inductive SVal where
  | lit (q : Rat)
  | val         -- `f.values[i]`
  | negVal      -- `-f.values[i]`
  | cc          -- `constBasisCoeff`
  | negCc       -- `-constBasisCoeff`
  deriving Repr

/-- one statement of the body of `for (int i = 0; i < f.values.size(); ++i) { … }` -/
inductive SStmt where
  | write (ix : SIx) (v : SVal)              -- `lp.row[ix] = v;`
  | writeIfConst (ix : SIx) (v : SVal)       -- `if (addConstantBasis) lp.row[ix] = v;`
  | pushEq (rhs : SVal)                      -- `lp.pushRow(LP::Constraint::Equal, rhs);`
  deriving Repr

structure SEnv where
  rule : Nat
  weight : Nat
  constId : Nat
  addConst : Bool
  q : Rat
  cc : Rat

/-- the buffer and the (dense row, right-hand side) pairs pushed with `Equal` -/
structure SSt where
  buf : List Rat
  pushed : List (List Rat × Rat)
  deriving Repr

def sIx (e : SEnv) : SIx → Nat
  | .rule => e.rule
  | .rule1 => e.rule + 1
  | .weight => e.weight
  | .const => e.constId

def sVal (e : SEnv) : SVal → Rat
  | .lit q => q
  | .val => e.q
  | .negVal => -e.q
  | .cc => e.cc
  | .negCc => -e.cc

def execS (e : SEnv) (st : SSt) : SStmt → SSt
  | .write ix v => { st with buf := st.buf.set (sIx e ix) (sVal e v) }
  | .writeIfConst ix v => if e.addConst then { st with buf := st.buf.set (sIx e ix) (sVal e v) } else st
  | .pushEq rhs => { st with pushed := st.pushed ++ [(st.buf, sVal e rhs)] }

def execSBody (e : SEnv) : List SStmt → SSt → SSt
  | [], st => st
  | s :: ss, st => execSBody e ss (execS e st s)

/-! ## the three setup loops of LinearProgramming::solveLP (every kept entry: addColumn, setZero, writes, one push) -/

inductive MIx where
  | rule | weight
  deriving Repr, DecidableEq

inductive MVal where
  | lit (q : Rat)
  | negVal       -- `-f.values[sId]`
  | discVal      -- `+discount * f.values(sId, aId)`
  | val          -- `f.values(sId, aId)`
  deriving Repr

inductive MStmt where
  | addColumn                            -- `lp.addColumn();`  (the buffer is re-allocated: content unspecified, one longer)
  | setZero                              -- `lp.row.setZero();`
  | write (ix : MIx) (v : MVal)          -- `lp.row[ix] = v;`
  | pushEq (rhs : MVal)                  -- `lp.pushRow(LP::Constraint::Equal, rhs);`
  deriving Repr

structure MEnv where
  rule : Nat
  weight : Nat
  q : Rat
  disc : Rat
  junk : List Rat      -- what the re-allocated buffer holds after `addColumn`

def mIx (e : MEnv) : MIx → Nat
  | .rule => e.rule
  | .weight => e.weight

def mVal (e : MEnv) : MVal → Rat
  | .lit q => q
  | .negVal => -e.q
  | .discVal => e.disc * e.q
  | .val => e.q

def execM (e : MEnv) (st : SSt) : MStmt → SSt
  | .addColumn => { st with buf := e.junk }
  | .setZero => { st with buf := List.replicate st.buf.length 0 }
  | .write ix v => { st with buf := st.buf.set (mIx e ix) (mVal e v) }
  | .pushEq rhs => { st with pushed := st.pushed ++ [(st.buf, mVal e rhs)] }

def execMBody (e : MEnv) : List MStmt → SSt → SSt
  | [], st => st
  | s :: ss, st => execMBody e ss (execM e st s)


end AITB.FLP
