/-
  AITB.Model.VETable — table-level model of VariableElimination as the code performs it
  (GraphUtils.hpp `UpdateGraphImpl<VariableElimination, rules>`, GenericVariableElimination.hpp
  `removeFactor`, VariableElimination.cpp callbacks).  Core Lean only.

  A factor node = key set + rules sorted by partial index; a rule = (index, value, tags).
  Differences to the C++ text, each semantically neutral and noted here:
  * the enumerator over the neighbours' joint values is replaced by `toFactors` of the running
    counter `jvID` (equal by C14 `enumerator_kth_eq_toFactors`);
  * the walking cursor `oldRulesCurrId` over the (sorted) old rules is replaced by a
    lower-bound insertion from the front for every new rule (same result on sorted lists);
  * `std::numeric_limits<double>::lowest()` as "nothing found yet" is `none`;
    `isValidNewFactor` is therefore `isSome`.
  Also here: the exact comparison used for UCVE's objective and the Pareto filter for MOVE's
  specification, and the models of UCVE::makeResult / MOVE final merge.
-/
import AITB.Model.Num
import AITB.Model.Factored
import AITB.Model.VE
namespace AITB.VE
open AITB.Factored

structure TRule where
  idx : Nat
  value : Rat
  tags : List (Nat × Nat)
  deriving Repr

structure TNode where
  keys : List Nat
  rules : List TRule
  deriving Repr

/-- `lower_bound` + insert-or-accumulate, as in `UpdateGraphImpl<VariableElimination, …>`
    (`it->second.first += rule.value`) and, with tags, `Global::mergeFactors` -/
def mergeRule (nr : TRule) : List TRule → List TRule
  | [] => [nr]
  | r :: rs =>
    if r.idx < nr.idx then r :: mergeRule nr rs
    else if r.idx == nr.idx then ⟨r.idx, r.value + nr.value, r.tags ++ nr.tags⟩ :: rs
    else nr :: r :: rs

/-- `graph.getFactor(keys)->getData()` then insert: find the node or append a new one -/
def addToNode (keys : List Nat) (nr : TRule) : List TNode → List TNode
  | [] => [⟨keys, [nr]⟩]
  | nd :: g => if nd.keys == keys then ⟨nd.keys, mergeRule nr nd.rules⟩ :: g else nd :: addToNode keys nr g

/-- `UpdateGraphImpl<VariableElimination, rules>` (after `graph.reset`) -/
def tInit (A : List Nat) : List Rule → List TNode → List TNode
  | [], g => g
  | r :: rs, g => tInit A rs (addToNode r.keys ⟨toIndexPartialPF A r.keys r.vals, r.value, []⟩ g)

/-- `std::lower_bound(data, jvPartialIndex)` followed by the equality test -/
def lookup (id : Nat) : List TRule → Option TRule
  | [] => none
  | r :: rs => if r.idx < id then lookup id rs else if r.idx == id then some r else none

/-- assignment of the neighbours' joint value `jv` (by position in `nb`) with `v ↦ k` -/
def jvAsg (nb jv : List Nat) (v k : Nat) : Asg := fun i =>
  if i = v then k else match (nb.zip jv).find? (fun p => p.1 == i) with
    | some p => p.2
    | none => 0

/-- `beginCrossSum` … `crossSum` over all adjacent factors: (value, tags) for one action of `v` -/
def crossAll (A : List Nat) (n : Nat) (x : Asg) : List TNode → Rat × List (Nat × Nat) → Rat × List (Nat × Nat)
  | [], acc => acc
  | nd :: fs, acc =>
    match lookup (toIndexPartial nd.keys A (listOf n x)) nd.rules with
    | some r => crossAll A n x fs (acc.1 + r.value, acc.2 ++ r.tags)
    | none => crossAll A n x fs acc

/-- loop over `vValue = 0 .. A[v]-1` with `endCrossSum` (`>` strict: first maximum wins) -/
def bestOver (A : List Nat) (n : Nat) (nb jv : List Nat) (v : Nat) (factors : List TNode) :
    Nat → Nat → Option (Rat × List (Nat × Nat)) → Option (Rat × List (Nat × Nat))
  | 0, _, best => best
  | cnt+1, k, best =>
    let c := crossAll A n (jvAsg nb jv v k) factors (0, [(v, k)])
    let best' := match best with
      | none => some c
      | some b => if b.1 < c.1 then some c else some b
    bestOver A n nb jv v factors cnt (k+1) best'

structure TState where
  graph : List TNode
  finals : List (Rat × List (Nat × Nat))

/-- the `while (jointValues.isValid())` loop of `removeFactor`, `jvID` counting up -/
def removeLoop (A : List Nat) (n : Nat) (nb : List Nat) (v : Nat) (factors : List TNode) :
    Nat → Nat → TState → TState
  | 0, _, st => st
  | cnt+1, jvID, st =>
    let jv := toFactors (sel nb A) jvID
    let st' := match bestOver A n nb jv v factors (A.getD v 0) 0 none with
      | none => st
      | some nf =>
        if nb.isEmpty then { st with finals := st.finals ++ [nf] }
        else { st with graph := addToNode nb ⟨jvID, nf.1, nf.2⟩ st.graph }
    removeLoop A n nb v factors cnt (jvID+1) st'

/-- `removeFactor(V, graph, v, finalFactors, global)` -/
def removeVar (A : List Nat) (n : Nat) (v : Nat) (st : TState) : TState :=
  let factors := st.graph.filter (fun nd => nd.keys.contains v)
  let nb := nbrs n v (st.graph.map (·.keys))
  -- `graph.getFactor(vNeighbors)`: make sure the node exists (appended if new)
  let g := if nb.isEmpty || st.graph.any (fun nd => nd.keys == nb) then st.graph else st.graph ++ [⟨nb, []⟩]
  let st1 := removeLoop A n nb v factors (spacePartial nb A) 0 { st with graph := g }
  -- `graph.erase(v)`
  { st1 with graph := st1.graph.filter (fun nd => !nd.keys.contains v) }

def tveLoop (A : List Nat) (n : Nat) : Nat → List Nat → TState → TState
  | 0, _, st => st
  | _, [], st => st
  | fuel+1, active, st =>
    let v := bestVar A n active (st.graph.map (·.keys))
    tveLoop A n fuel (active.filter (· != v)) (removeVar A n v st)

def setAt : List Nat → Nat → Nat → List Nat
  | [], _, _ => []
  | _ :: xs, 0, k => k :: xs
  | x :: xs, i+1, k => x :: setAt xs i k

/-- `Global::makeResult`: sum the final factors, write every tag into the action -/
def tMakeResult (n : Nat) (finals : List (Rat × List (Nat × Nat))) : List Nat × Rat :=
  finals.foldl (fun (acc : List Nat × Rat) f =>
    (f.2.foldl (fun a t => setAt a t.1 t.2) acc.1, acc.2 + f.1)) (List.replicate n 0, 0)

/-- `VariableElimination::operator()(A, graph)` after `UpdateGraph(graph, rules, A)` -/
def tveRun (A : List Nat) (rules : List Rule) : List Nat × Rat :=
  let n := A.length
  let st := tveLoop A n n (List.range n) ⟨tInit A rules [], []⟩
  tMakeResult n st.finals

/-! ## exact comparison with square roots (UCVE objective  m + sqrt(s)) -/

/-- decides  sqrt(s1) > d + sqrt(s2)  for s1, s2 ≥ 0, in exact rational arithmetic -/
def sqrtGt (d s1 s2 : Rat) : Bool :=
  if d < 0 then
    if s2 ≤ s1 then true
    else
      let e := -d
      let t := s2 - s1 - e * e
      if t < 0 then true else decide (t * t < 4 * e * e * s1)
  else
    let t := s1 - s2 - d * d
    decide (0 < t) && decide (4 * d * d * s2 < t * t)

/-! ## Pareto front (MOVE specification) -/

def geAll : List Rat → List Rat → Bool
  | a :: as, b :: bs => decide (b ≤ a) && geAll as bs
  | [], [] => true
  | _, _ => false

/-- vectors of `vs` not weakly dominated by a different vector of `vs` -/
def paretoFront (vs : List (List Rat)) : List (List Rat) :=
  vs.filter (fun v => !vs.any (fun w => w != v && geAll w v))

/-! ## LocalSearch::operator()(A, graph, startAction)

The agents are visited in a shuffled order drawn from the maximiser's own random engine; the model takes the sequence
of orders as an input (one list per sweep), so every theorem about it holds for every outcome of the shuffles. -/

/-- `graph.getFactors(a)` -/
def adjNodes (v : Nat) (g : List Node) : List Node := g.filter (fun nd => nd.keys.contains v)

/-- `evaluateFactors(A, factors, retAction)` with `retAction[v] = k` -/
def evalAdj (A : List Nat) (g : List Node) (a : List Nat) (v k : Nat) : Rat := evalGraph A (setAt a v k) (adjNodes v g)

/-- one agent: try every action, keep the first best (strict `>`), move only on a strict improvement -/
def lsAgent (A : List Nat) (g : List Node) (a : List Nat) (v : Nat) : List Nat × Bool :=
  let best := argmaxTo (A.getD v 1 - 1) (evalAdj A g a v)
  if evalAdj A g a v (a.getD v 0) < evalAdj A g a v best then (setAt a v best, true) else (a, false)

/-- one `for (auto a : agents_)` sweep in the given order; the flag is `updated` -/
def lsSweep (A : List Nat) (g : List Node) : List Nat → List Nat × Bool → List Nat × Bool
  | [], st => st
  | v :: vs, st =>
    let r := lsAgent A g st.1 v
    lsSweep A g vs (r.1, st.2 || r.2)

/-- `do { … } while (updated)`; one order per sweep (stops early when the orders run out) -/
def lsRun (A : List Nat) (g : List Node) : List (List Nat) → List Nat → List Nat
  | [], a => a
  | o :: os, a =>
    let r := lsSweep A g o (a, false)
    if r.2 then lsRun A g os r.1 else r.1

/-- the pair LocalSearch returns: the action and `evaluateGraph` of it -/
def lsResult (A : List Nat) (g : List Node) (orders : List (List Nat)) (start : List Nat) : List Nat × Rat :=
  let a := lsRun A g orders start
  (a, evalGraph A a g)

/-! ## ReusingIterativeLocalSearch::operator() and MaxPlus::operator(): bookkeeping of (best action, its value)

Both keep a current best `(action, value)` and replace it when a candidate evaluates strictly better.  Where the
candidates come from (random restarts / perturbations run through LocalSearch; arg-max of the message sums) is an INPUT
of the model, so the theorems hold for every outcome of the random engine and of the message passing. -/

/-- RILS trial loop: `starts` are the `newAction_` of the successive trials (restart or perturbation), each run through
    LocalSearch with its own shuffle outcomes; `if (action_ == newAction_) continue;`, keep on strict improvement -/
def rilsTrials (A : List Nat) (g : List Node) : List (List Nat × List (List Nat)) → List Nat × Rat → List Nat × Rat
  | [], st => st
  | (s, orders) :: ts, st =>
    if s == st.1 then rilsTrials A g ts st else
    let r := lsResult A g orders s
    rilsTrials A g ts (if st.2 < r.2 then r else st)

/-- `forceResetAction_ || action_.empty()` → LocalSearch from a random start; else reuse `action_`, value recomputed -/
def rilsRun (A : List Nat) (g : List Node) (reuse : Option (List Nat)) (first : List Nat × List (List Nat))
    (trials : List (List Nat × List (List Nat))) : List Nat × Rat :=
  let init := match reuse with
    | some a => (a, evalGraph A a g)
    | none => lsResult A g first.2 first.1
  rilsTrials A g trials init

/-- MaxPlus bookkeeping: `cands` are the `cAction` of the successive iterations; `none` = `lowest()` marker -/
def mpTrack (A : List Nat) (g : List Node) : List (List Nat) → List Nat × Option Rat → List Nat × Option Rat
  | [], st => st
  | c :: cs, st =>
    if c == st.1 then mpTrack A g cs st else
    let cv := evalGraph A c g
    match st.2 with
    | none => mpTrack A g cs (c, some cv)
    | some rv => mpTrack A g cs (if rv < cv then (c, some cv) else st)

def mpRun (A : List Nat) (g : List Node) (cands : List (List Nat)) : List Nat × Rat :=
  let r := mpTrack A g cands (List.replicate A.length 0, none)
  match r.2 with
  | some v => (r.1, v)
  | none => (r.1, evalGraph A r.1 g)

end AITB.VE
