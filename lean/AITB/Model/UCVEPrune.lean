/-
  AITB.Model.UCVEPrune — UCVE's elimination-time pruning (`Global::endFactorCrossSum` in UCVE.cpp):
    bound = extractDominated(entries);  best = max_element(computeValue(·, x_l));  iter_swap(begin, best);
    erase(remove_if(begin+1, bound, computeValue(e, x_u) <= max))
  Core Lean only.  `extractDominated` is modelled by an insertion procedure that keeps a set of mutually non-dominated
  entries covering every input entry (exact `>=` domination; the library's 1e-6 tolerance is outside the model and
  irrelevant for the dyadic payoffs used by the harness).  The two comparisons of `computeValue` are parameters
  (`gtL a b`: value(a, x_l) > value(b, x_l);  `leU e b`: value(e, x_u) <= value(b, x_l)); the driver-side instance
  uses the exact `sqrtGt`.
-/
import AITB.Model.GVE
namespace AITB.VE

/-- `dominates(lhs, rhs)` on the 2-vectors (mean, count), exact -/
def uDom (a b : UEntry) : Bool := decide (b.m ≤ a.m) && decide (b.n ≤ a.n)

/-- keep `e` unless a kept entry dominates it; drop the kept entries it dominates -/
def insertND (kept : List UEntry) (e : UEntry) : List UEntry :=
  if kept.any (fun d => uDom d e) then kept else e :: kept.filter (fun x => !uDom e x)

def pruneDom (l : List UEntry) : List UEntry := l.foldl insertND []

/-- index of the first maximum (`max_element_unary`, strict `>` update) -/
def firstMaxIdx (gt : UEntry → UEntry → Bool) : UEntry → Nat → Nat → List UEntry → Nat × UEntry
  | best, bi, _, [] => (bi, best)
  | best, bi, i, e :: es => if gt e best then firstMaxIdx gt e i (i+1) es else firstMaxIdx gt best bi (i+1) es

/-- the pruning step; the result starts with the best entry (after `iter_swap`) -/
def ucvePrune (gtL : UEntry → UEntry → Bool) (leU : UEntry → UEntry → Bool) (entries : List UEntry) : List UEntry :=
  match pruneDom entries with
  | [] => []
  | e :: es =>
    let r := firstMaxIdx gtL e 0 1 es
    r.2 :: ((e :: es).eraseIdx r.1).filter (fun x => !leU x r.2)

/-- exact instances of the two comparisons: `computeValue(e, x, h) = e.m + sqrt((e.n + x)·h)` -/
def uGtAt (h x : Rat) (a b : UEntry) : Bool := sqrtGt (b.m - a.m) ((a.n + x) * h) ((b.n + x) * h)
def uLeU (h xl xu : Rat) (e b : UEntry) : Bool := !sqrtGt (b.m - e.m) ((e.n + xu) * h) ((b.n + xl) * h)

end AITB.VE
