/-
  AITB.Model.VEWritten — round 3 of C13: the parts of the anchored code that `VETable.lean` had replaced by
  "semantically neutral" shortcuts, now AS WRITTEN, plus the rarely used `QFunction` overloads of GraphUtils.hpp.
  Core Lean only.

  * `removeLoopW`: the `while (jointValues.isValid())` loop of `GenericVariableElimination::removeFactor` driven by the
    `PartialFactorsEnumerator(V, vNeighbors, v, true)` state itself (`advance` with the skipped position, model of
    C14) and inserting the new rule with the walking cursor `oldRulesCurrId` (`cursorIns`), not with a fresh
    `lower_bound` from the front.  `Props/C13GVE.lean` proves it equal to `removeLoop` (all sizes).
  * `insKey`: the key list built by the enumerator's `missing = true` constructor (the eliminated variable inserted at
    its sorted position; that position is `factorToSkipId_`).
  * `tInitQF`, `lsMakeQF`, `lsUpdateQF`: `UpdateGraphImpl<VariableElimination, QFunction>`,
    `MakeGraphImpl/UpdateGraphImpl<LocalSearch, QFunction>` (dense bases instead of rules).
    `Props/C13QF.lean` proves them equal to the rule builders on the cell-by-cell expansion `qfRules`.
-/
import AITB.Model.VETable
namespace AITB.VE
open AITB.Factored

/-! ## the walking cursor `oldRulesCurrId` -/

/-- `while (cur < size && rules[cur].first < jvID) ++cur;` then merge on an equal index, else `emplace(begin + cur)`;
    finally `++cur`.  Rules in front of the cursor are not looked at.  Returns the new rules and the new cursor. -/
def cursorIns (nr : TRule) : Nat → List TRule → List TRule × Nat
  | cur+1, r :: rs => let p := cursorIns nr cur rs; (r :: p.1, p.2 + 1)
  | 0, r :: rs =>
    if r.idx < nr.idx then let p := cursorIns nr 0 rs; (r :: p.1, p.2 + 1)
    else if r.idx == nr.idx then (⟨r.idx, r.value + nr.value, r.tags ++ nr.tags⟩ :: rs, 1)
    else (nr :: r :: rs, 1)
  | cur, [] => ([nr], cur + 1)

/-- the same on the node `graph.getFactor(vNeighbors)` (created before the loop, so it is always found) -/
def cursorAdd (keys : List Nat) (nr : TRule) (cur : Nat) : List TNode → List TNode × Nat
  | [] => ([⟨keys, [nr]⟩], cur + 1)
  | nd :: g =>
    if nd.keys == keys then let p := cursorIns nr cur nd.rules; (⟨nd.keys, p.1⟩ :: g, p.2)
    else let p := cursorAdd keys nr cur g; (nd :: p.1, p.2)

/-- `PartialFactorsEnumerator(F, factors, factorToSkip, missing = true)`: `factorToSkip` inserted in front of the first
    larger key; returns the key list and `factorToSkipId_` -/
def insKey (v : Nat) : List Nat → List Nat × Nat
  | [] => ([v], 0)
  | k :: ks => if v < k then (v :: k :: ks, 0) else let p := insKey v ks; (k :: p.1, p.2 + 1)

/-- the `while (jointValues.isValid())` loop as written: `en` is the enumerator state (`none` = cleared), `jvID` the
    counter, `cur` the cursor `oldRulesCurrId`.  The neighbours' joint value is the enumerator tuple without the
    skipped position (`jointValue.second[id]` is overwritten with every `vValue` and never read by `advance`). -/
def removeLoopW (A : List Nat) (n : Nat) (nb : List Nat) (v : Nat) (factors : List TNode) (skip : Nat) (dims : List Nat) :
    Nat → Option (List Nat) → Nat → Nat → TState → TState
  | 0, _, _, _, st => st
  | _+1, none, _, _, st => st
  | fuel+1, some vals, jvID, cur, st =>
    let jv := er 0 skip vals
    let nxt := advance skip dims (some vals)
    match bestOver A n nb jv v factors (A.getD v 0) 0 none with
    | none => removeLoopW A n nb v factors skip dims fuel nxt (jvID+1) cur st
    | some nf =>
      if nb.isEmpty then removeLoopW A n nb v factors skip dims fuel nxt (jvID+1) cur { st with finals := st.finals ++ [nf] }
      else
        let p := cursorAdd nb ⟨jvID, nf.1, nf.2⟩ cur st.graph
        removeLoopW A n nb v factors skip dims fuel nxt (jvID+1) p.2 { st with graph := p.1 }

/-- `removeFactor(V, graph, v, finalFactors, global)` as written -/
def removeVarW (A : List Nat) (n : Nat) (v : Nat) (st : TState) : TState :=
  let factors := st.graph.filter (fun nd => nd.keys.contains v)
  let nb := nbrs n v (st.graph.map (·.keys))
  let g := if nb.isEmpty || st.graph.any (fun nd => nd.keys == nb) then st.graph else st.graph ++ [⟨nb, []⟩]
  let ks := insKey v nb
  let dims := sel ks.1 A
  let st1 := removeLoopW A n nb v factors ks.2 dims (spacePartial nb A + 1) (advanceN ks.2 dims 0) 0 0 { st with graph := g }
  { st1 with graph := st1.graph.filter (fun nd => !nd.keys.contains v) }

def tveLoopW (A : List Nat) (n : Nat) : Nat → List Nat → TState → TState
  | 0, _, st => st
  | _, [], st => st
  | fuel+1, active, st =>
    let v := bestVar A n active (st.graph.map (·.keys))
    tveLoopW A n fuel (active.filter (· != v)) (removeVarW A n v st)

/-- `VariableElimination::operator()` on a graph built by `init` (rules or QFunction), as written -/
def tveRunWOn (A : List Nat) (g0 : List TNode) : List Nat × Rat :=
  let n := A.length
  let st := tveLoopW A n n (List.range n) ⟨g0, []⟩
  tMakeResult n st.finals

def tveRunW (A : List Nat) (rules : List Rule) : List Nat × Rat := tveRunWOn A (tInit A rules [])

/-! ## the elimination loop under an arbitrary variable-selection heuristic -/

/-- `while (graph.variableSize()) removeFactor(V, graph, pick(...))` for ANY `pick` (the library's is `bestVar`) -/
def tveLoopBy (pick : List Nat → List TNode → Nat) (A : List Nat) (n : Nat) : Nat → List Nat → TState → TState
  | 0, _, st => st
  | _, [], st => st
  | fuel+1, active, st =>
    let v := pick active st.graph
    tveLoopBy pick A n fuel (active.filter (· != v)) (removeVar A n v st)

def tveRunBy (pick : List Nat → List TNode → Nat) (A : List Nat) (rules : List Rule) : List Nat × Rat :=
  let n := A.length
  let st := tveLoopBy pick A n n (List.range n) ⟨tInit A rules [], []⟩
  tMakeResult n st.finals

/-! ## FactorGraph::getFactor: the incremental neighbour lists as written -/

/-- the loop of `getFactor` over `variables` (index i) and the old sorted `va.vNeighbors[0..mid)` (index j): the keys pushed
    behind the old ones — those of `variables` other than `a` not met in the old list -/
def nbPush (a : Nat) : List Nat → List Nat → List Nat
  | [], _ => []
  | x :: xs, [] => if x = a then nbPush a xs [] else x :: nbPush a xs []
  | x :: xs, y :: ys =>
    if x = a then nbPush a xs (y :: ys)
    else if x < y then x :: nbPush a xs (y :: ys)
    else if x = y then nbPush a xs ys
    else nbPush a (x :: xs) ys
termination_by vars old => vars.length + old.length

/-- `std::inplace_merge` of two ascending ranges -/
def mergeS : List Nat → List Nat → List Nat
  | [], r => r
  | l, [] => l
  | x :: l, y :: r => if y < x then y :: mergeS (x :: l) r else x :: mergeS l (y :: r)
termination_by l r => l.length + r.length

/-- `va.vNeighbors` after `getFactor(variables)` registered a factor containing `a` -/
def nbUnion (a : Nat) (vars old : List Nat) : List Nat := mergeS old (nbPush a vars old)

/-- all neighbour lists after `getFactor(vars)`: only the agents of `vars` are touched -/
def nbRegister (vars : List Nat) (vn : List (List Nat)) : List (List Nat) :=
  (List.range vn.length).map (fun a => if vars.contains a then nbUnion a vars (vn.getD a []) else vn.getD a [])

/-- neighbour lists after the graph has been built by `getFactor` calls in this order -/
def nbBuild (n : Nat) (scopes : List (List Nat)) : List (List Nat) :=
  scopes.foldl (fun vn s => nbRegister s vn) (List.replicate n [])

/-! ## QFunction (= FactoredVector: a list of bases `tag`, dense `values`) -/

structure Basis where
  keys : List Nat
  vals : List Rat
  deriving Repr

/-- THE DEFINITION for a QFunction (`FactoredVector::getValue`): sum over the bases of the cell the action selects -/
def qfPayoff (A : List Nat) : List Basis → List Nat → Rat
  | [], _ => 0
  | b :: bs, a => b.vals.getD (toIndexPartial b.keys A a) 0 + qfPayoff A bs a

/-- cell-by-cell expansion of a basis into rules (cell `i` ↦ the partial action `toFactorsPartial(keys, A, i)`) -/
def basisRulesFrom (keys dims : List Nat) : Nat → List Rat → List Rule
  | _, [] => []
  | i, q :: qs => ⟨keys, toFactors dims i, q⟩ :: basisRulesFrom keys dims (i+1) qs

def qfRules (A : List Nat) : List Basis → List Rule
  | [] => []
  | b :: bs => basisRulesFrom b.keys (sel b.keys A) 0 b.vals ++ qfRules A bs

/-- `for (ai < Ai) factorNode.emplace_back(ai, Factor{0.0, {}})` -/
def qfFill : Nat → Nat → List TRule
  | _, 0 => []
  | i, c+1 => ⟨i, 0, []⟩ :: qfFill (i+1) c

/-- `for (ai < Ai) factorNode[ai].second.first += basis.values(ai)` (positional) -/
def qfAccum : List TRule → List Rat → List TRule
  | r :: rs, q :: qs => ⟨r.idx, r.value + q, r.tags⟩ :: qfAccum rs qs
  | rs, _ => rs

/-- one basis of `UpdateGraphImpl<VariableElimination, QFunction>`: `getFactor(tag)`, fill when empty, accumulate -/
def qfAddBasis (b : Basis) : List TNode → List TNode
  | [] => [⟨b.keys, qfAccum (qfFill 0 b.vals.length) b.vals⟩]
  | nd :: g =>
    if nd.keys == b.keys then ⟨nd.keys, qfAccum (if nd.rules.isEmpty then qfFill 0 b.vals.length else nd.rules) b.vals⟩ :: g
    else nd :: qfAddBasis b g

def tInitQF : List Basis → List TNode → List TNode
  | [], g => g
  | b :: bs, g => tInitQF bs (qfAddBasis b g)

def tveRunQF (A : List Nat) (bases : List Basis) : List Nat × Rat :=
  let n := A.length
  let st := tveLoop A n n (List.range n) ⟨tInitQF bases [], []⟩
  tMakeResult n st.finals

/-- `MakeGraphImpl<LocalSearch, QFunction>`: `if (!factorNode.size()) factorNode.resize(basis.values.size())` -/
def lsMakeQF : List Basis → List Node → List Node
  | [], g => g
  | b :: bs, g =>
    if g.any (fun nd => nd.keys == b.keys) then lsMakeQF bs g
    else lsMakeQF bs (g ++ [⟨b.keys, List.replicate b.vals.length 0⟩])

/-- `table += basis.values` -/
def vecAddQ : List Rat → List Rat → List Rat
  | t :: ts, q :: qs => (t + q) :: vecAddQ ts qs
  | ts, _ => ts

def lsAddQF (b : Basis) : List Node → List Node
  | [] => []
  | nd :: g => if nd.keys == b.keys then ⟨nd.keys, vecAddQ nd.table b.vals⟩ :: g else nd :: lsAddQF b g

/-- `UpdateGraphImpl<LocalSearch, QFunction>` after `setZero` -/
def lsUpdateQF : List Basis → List Node → List Node
  | [], g => g
  | b :: bs, g => lsUpdateQF bs (lsAddQF b g)

def lsGraphQF (bases : List Basis) : List Node := lsUpdateQF bases (lsMakeQF bases [])

def Basis.wfB (A : List Nat) (b : Basis) : Bool :=
  !b.keys.isEmpty && ascBelow A.length b.keys && b.vals.length == spacePartial b.keys A

end AITB.VE
