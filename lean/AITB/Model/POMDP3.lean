/-
  AITB.Model.POMDP3 — executable model of the approximate POMDP bound solvers (C03).  Core Lean only.

  Modelled code (all in the library copy):
    include/AIToolbox/POMDP/Algorithms/BlindStrategies.hpp   operator() (both start vectors, the 0.0001 clamp, tolerance loop)
    include/AIToolbox/POMDP/Algorithms/FastInformedBound.hpp operator() (plain model: SOSA = T·O; and the SOSA-parameterised form GapMin
                                                             runs on its belief-augmented POMDP), start `max R / max(0.0001, 1-γ)`
    include/AIToolbox/POMDP/Algorithms/QMDP.hpp / QMDP.cpp   = C01 value iteration (AITB.MDP.valueIteration) + `fromQFunction` (columns of Q)
    include/AIToolbox/POMDP/Utils.hpp                        crossSumBestAtBelief (as `backupVec` of the chosen vectors), bestConservativeAction
                                                             (incl. the `checkEqualSmall(prob, 0)` skip), bestPromisingAction (same skip),
                                                             makeSOSA
    include/AIToolbox/POMDP/Algorithms/PBVI.hpp, PERSEUS.hpp one outer step = point backups at the belief set, any sub-list kept (pruning)
    SARSOP.hpp / GapMin.hpp                                   the event system of `Props/C03Anytime.lean` (add backed-up vector, drop vectors,
                                                             overwrite a corner entry of ubQ, push / drop a belief point, FIB pass on the
                                                             belief-augmented model); sampling heuristics and bookkeeping are NOT modelled.

  Specification side (no reals): the belief-MDP Bellman operator `Hop` on *unnormalised* beliefs (`bstep` is linear, nothing is divided),
  its iterates `iterH`, and the two reference families that enclose the optimal value
      lowerRef j k = H^k (x ↦ max_a x·Blind_a^j(start))     (increasing in k, below V*)
      upperRef j k = H^k (x ↦ x·B_MDP^j(start))              (decreasing in k, above V*)
  "lb ≤ V*" is stated as `∀ j k, lb ≤ upperRef j k`, "ub ≥ V*" as `∀ j k, ub ≥ lowerRef j k` (V* = inf upperRef = sup lowerRef).

  Doubles are read as exact rationals (DESIGN §3).  Beliefs / vectors are functions `Nat → Rat` in the specification and `Array Rat`
  (`AITB.MDP.Vec`) where the compiled driver runs them.
-/
import AITB.Model.Num
import AITB.Model.MDP
import AITB.Model.Prune
import AITB.Model.Interp
import AITB.Gen.Constants
import AITB.Gen.C03Src

namespace AITB.POMDP3
open AITB.MDP (sumTo maxTo argmaxTo absR Vec Mat mkVec mkMat checkEqualSmall checkDifferentSmall)

structure POMDP where
  S : Nat
  A : Nat
  O : Nat
  /-- getTransitionProbability(s,a,s1) -/
  T : Nat → Nat → Nat → Rat
  /-- getRewardFunction()(s,a) -/
  R : Nat → Nat → Rat
  /-- getObservationProbability(s1,a,o) -/
  Ob : Nat → Nat → Nat → Rat
  /-- getDiscount() -/
  γ : Rat

/-- the underlying MDP (what QMDP hands to ValueIteration) -/
def POMDP.toMDP (m : POMDP) : AITB.MDP.MDP :=
  { S := m.S, A := m.A, T := m.T, R3 := fun s a _ => m.R s a, R := m.R, γ := m.γ }

/-! ## specification: Bellman operator of the belief MDP on unnormalised beliefs -/

/-- `x · α` over the `S` states -/
def dotS (S : Nat) (x α : Nat → Rat) : Rat := sumTo S (fun s => x s * α s)

/-- total mass of an unnormalised belief -/
def mass (S : Nat) (x : Nat → Rat) : Rat := sumTo S x

/-- unnormalised belief update: `(x T_a)(s1) · O(s1,a,o)`  (updateBeliefPartial + updateBeliefPartialUnnormalized) -/
def bstep (m : POMDP) (x : Nat → Rat) (a o : Nat) : Nat → Rat :=
  fun s1 => sumTo m.S (fun s => x s * m.T s a s1) * m.Ob s1 a o

/-- expected immediate reward `x · R(:,a)` -/
def rew (m : POMDP) (x : Nat → Rat) (a : Nat) : Rat := sumTo m.S (fun s => x s * m.R s a)

/-- one-step look-ahead value of action `a` at `x` on the continuation `V` (V positively homogeneous, so nothing is normalised) -/
def qval (m : POMDP) (V : (Nat → Rat) → Rat) (x : Nat → Rat) (a : Nat) : Rat :=
  rew m x a + m.γ * sumTo m.O (fun o => V (bstep m x a o))

/-- Bellman optimality operator of the belief MDP -/
def Hop (m : POMDP) (V : (Nat → Rat) → Rat) (x : Nat → Rat) : Rat := maxTo (m.A - 1) (qval m V x)

/-- `H^k V0` -/
def iterH (m : POMDP) (V0 : (Nat → Rat) → Rat) : Nat → (Nat → Rat) → Rat
  | 0 => V0
  | k+1 => Hop m (iterH m V0 k)

/-- the linear function `x ↦ x · v` -/
def linV (S : Nat) (v : Nat → Rat) (x : Nat → Rat) : Rat := dotS S x v

/-- upper envelope of `n+1` vectors `x ↦ max_{i ≤ n} x · β i` -/
def maxLinV (S n : Nat) (β : Nat → Nat → Rat) (x : Nat → Rat) : Rat := maxTo n (fun i => dotS S x (β i))

/-- unit vector `e_s` -/
def unit (s : Nat) : Nat → Rat := fun i => if i = s then 1 else 0

/-! ## kernels of the solvers -/

/-- the vector a point-based backup creates for action `a` when observation `o` continues with vector `ch o`:
    `R(:,a) + γ Σ_o T_a (O(:,a,o) ∘ ch o)`   (Projecter + crossSumBestAtBelief; the α of bestConservativeAction) -/
def backupVec (m : POMDP) (a : Nat) (ch : Nat → Nat → Rat) : Nat → Rat :=
  fun s => m.R s a + m.γ * sumTo m.O (fun o => sumTo m.S (fun s1 => m.T s a s1 * m.Ob s1 a o * ch o s1))

/-- one Blind-strategies step for action `a` -/
def blindStep (m : POMDP) (a : Nat) (α : Nat → Rat) : Nat → Rat :=
  fun s => m.R s a + m.γ * sumTo m.S (fun s1 => m.T s a s1 * α s1)

/-- one FastInformedBound step on a SOSA table `W a o i j` over `n` (pseudo-)states with rewards `R i a`:
    `Q(i,a) = R(i,a) + γ Σ_o max_a' Σ_j W(a,o,i,j) Q(j,a')` -/
def fibStepW (n A O : Nat) (γ : Rat) (R : Nat → Nat → Rat) (W : Nat → Nat → Nat → Nat → Rat) (Q : Nat → Nat → Rat) : Nat → Nat → Rat :=
  fun i a => R i a + γ * sumTo O (fun o => maxTo (A - 1) (fun a' => sumTo n (fun j => W a o i j * Q j a')))

/-- `makeSOSA(m)[a][o](s,s1) = T(s,a,s1) · O(s1,a,o)` -/
def sosa (m : POMDP) : Nat → Nat → Nat → Nat → Rat := fun a o s s1 => m.T s a s1 * m.Ob s1 a o

/-- FastInformedBound step on the POMDP itself -/
def fibStep (m : POMDP) (Q : Nat → Nat → Rat) : Nat → Nat → Rat := fibStepW m.S m.A m.O m.γ m.R (sosa m) Q

/-- one QMDP (= MDP value iteration on Q) step: `Q(s,a) = R(s,a) + γ Σ_s1 T(s,a,s1) max_a' Q(s1,a')` -/
def qmdpStep (m : POMDP) (Q : Nat → Nat → Rat) : Nat → Nat → Rat :=
  fun s a => m.R s a + m.γ * sumTo m.S (fun s1 => m.T s a s1 * maxTo (m.A - 1) (Q s1))

/-- MDP Bellman backup of a state-value vector -/
def mdpStep (m : POMDP) (v : Nat → Rat) : Nat → Rat :=
  fun s => maxTo (m.A - 1) (fun a => m.R s a + m.γ * sumTo m.S (fun s1 => m.T s a s1 * v s1))

/-- value the corner part of the upper surface assigns to `x`: `(x^T · ubQ).maxCoeff()` -/
def basicVal (S A : Nat) (Q : Nat → Nat → Rat) (x : Nat → Rat) : Rat := maxTo (A - 1) (fun a => sumTo S (fun s => x s * Q s a))

/-- `ubQ.rowwise().maxCoeff()` -/
def cornerVal (A : Nat) (Q : Nat → Nat → Rat) (s : Nat) : Rat := maxTo (A - 1) (Q s)

/-- the value of an interpolation with corner weights `wc` and point weights `wp` (what LPInterpolation / sawtooth return when a
    stored point helps): `Σ_s wc_s · cornerVal_s + Σ_i wp_i · val_i` -/
def interpVal (S A N : Nat) (Q : Nat → Nat → Rat) (vals : Nat → Rat) (wc wp : Nat → Rat) : Rat :=
  sumTo S (fun s => wc s * cornerVal A Q s) + sumTo N (fun i => wp i * vals i)

/-- per-action value of `bestPromisingAction` given the interpolated value `iv o` of every (unnormalised) successor and the
    `checkEqualSmall(prob, 0)` skip flags -/
def promisingVal (m : POMDP) (x : Nat → Rat) (a : Nat) (skip : Nat → Bool) (iv : Nat → Rat) : Rat :=
  rew m x a + m.γ * sumTo m.O (fun o => if skip o then 0 else iv o)

/-! ## data level (what the driver runs): every iterate is materialised -/

def Vec.fn (v : Vec) : Nat → Rat := v.get
def Mat.fn (q : Mat) : Nat → Nat → Rat := q.get

def minTo : Nat → (Nat → Rat) → Rat
  | 0, f => f 0
  | n+1, f => if f (n+1) < minTo n f then f (n+1) else minTo n f

/-- `std::max(0.0001, 1.0 - discount)` — the literal is regenerated from the source -/
def clampDen (γ : Rat) : Rat := if 1 - γ < Gen.C03Src.clamp then Gen.C03Src.clamp else 1 - γ

/-- `ir.row(a).minCoeff()` -/
def minRa (m : POMDP) (a : Nat) : Rat := minTo (m.S - 1) (fun s => m.R s a)
/-- the slack that pays for probability mass `D` dropped per (pseudo-state, action) when `C·mass` bounds the value of what is dropped:
    `e = C·D/(1−γ)`  (Props/C03Trunc: `truncSlack_pays`, `anytimeT_sound`) -/
def truncSlack (γ C D : Rat) : Rat := C * D / (1 - γ)

/-- `ir.maxCoeff()` -/
def maxRall (m : POMDP) : Rat := maxTo (m.S - 1) (fun s => maxTo (m.A - 1) (m.R s))
def minRall (m : POMDP) : Rat := minTo (m.S - 1) (fun s => minTo (m.A - 1) (m.R s))

def maxRa (m : POMDP) (a : Nat) : Rat := maxTo (m.S - 1) (fun s => m.R s a)
/-- numerator of the fast start as the source has it now -/
def blindStartNum (m : POMDP) (a : Nat) : Rat := if Gen.C03Src.blindStartIsMin then minRa m a else maxRa m a
/-- numerator of the FIB start as the source has it now -/
def fibStartNum (m : POMDP) : Rat := if Gen.C03Src.fibStartIsMax then maxRall m else minRall m

def blindStepV (m : POMDP) (a : Nat) (α : Vec) : Vec := mkVec m.S (blindStep m a α.get)

def maxAbsDiffV (n : Nat) (a b : Vec) : Rat := AITB.MDP.maxAbsDiff n a.get b.get

structure LoopSt (σ : Type) where
  x : σ
  variation : Rat
  timestep : Nat

/-- the common `while (timestep < horizon && (!useTolerance || variation > tolerance))` loop; fuel = horizon -/
def tolLoop {σ : Type} (step : σ → σ) (dist : σ → σ → Rat) (useTol : Bool) (tol : Rat) : Nat → LoopSt σ → LoopSt σ
  | 0, st => st
  | fuel+1, st =>
    if useTol && !(decide (st.variation > tol)) then st
    else
      let y := step st.x
      tolLoop step dist useTol tol fuel ⟨y, if useTol then dist st.x y else st.variation, st.timestep + 1⟩

/-- BlindStrategies::operator() for one action: `(variation, alpha, iterations)` -/
def blindAction (m : POMDP) (fast : Bool) (horizon : Nat) (tol : Rat) (a : Nat) : LoopSt Vec :=
  let start : Vec := if fast then mkVec m.S (fun _ => blindStartNum m a / clampDen m.γ) else mkVec m.S (fun s => m.R s a)
  tolLoop (blindStepV m a) (maxAbsDiffV m.S) (checkDifferentSmall tol 0) tol horizon ⟨start, tol * 2, 0⟩

structure BlindOut where
  variation : Rat
  alphas : List Vec
  steps : List Nat

def maxL (l : List Rat) (init : Rat) : Rat := l.foldl (fun m x => if m < x then x else m) init

def blind (m : POMDP) (fast : Bool) (horizon : Nat) (tol : Rat) : BlindOut :=
  let rs := (List.range m.A).map (blindAction m fast horizon tol)
  let useTol := checkDifferentSmall tol 0
  ⟨if useTol then maxL (rs.map (·.variation)) 0 else 0, rs.map (·.x), rs.map (·.timestep)⟩

/-- the same step with the reduction over next actions the source has now (`maxCoeff` unless the extractor says otherwise) -/
def fibStepWsrc (n A O : Nat) (γ : Rat) (R : Nat → Nat → Rat) (W : Nat → Nat → Nat → Nat → Rat) (Q : Nat → Nat → Rat) : Nat → Nat → Rat :=
  if Gen.C03Src.fibInnerIsMax then fibStepW n A O γ R W Q
  else fun i a => R i a + γ * sumTo O (fun o => minTo (A - 1) (fun a' => sumTo n (fun j => W a o i j * Q j a')))

def fibStepM (m : POMDP) (Q : Mat) : Mat := mkMat m.S m.A (fibStepWsrc m.S m.A m.O m.γ m.R (sosa m) Q.get)
def maxAbsDiffM (S A : Nat) (x y : Mat) : Rat :=
  maxTo (S - 1) (fun s => maxTo (A - 1) (fun a => absR (x.get s a - y.get s a)))

/-- FastInformedBound::operator()(m) with the default (empty) start -/
def fib (m : POMDP) (horizon : Nat) (tol : Rat) : LoopSt Mat :=
  let start : Mat := mkMat m.S m.A (fun _ _ => fibStartNum m / clampDen m.γ)
  let useTol := checkDifferentSmall tol 0
  let st := tolLoop (fibStepM m) (maxAbsDiffM m.S m.A) useTol tol horizon ⟨start, tol * 2, 0⟩
  { st with variation := if useTol then st.variation else 0 }

/-- FIB on an explicit SOSA table (GapMin's belief-augmented POMDP), warm start `Q0` -/
def fibW (n A O : Nat) (γ : Rat) (R : Mat) (W : Nat → Nat → Nat → Nat → Rat) (Q0 : Mat) (horizon : Nat) (tol : Rat) : LoopSt Mat :=
  let useTol := checkDifferentSmall tol 0
  tolLoop (fun Q => mkMat n A (fibStepWsrc n A O γ R.get W Q.get)) (maxAbsDiffM n A) useTol tol horizon ⟨Q0, tol * 2, 0⟩

def qmdpStepM (m : POMDP) (Q : Mat) : Mat := mkMat m.S m.A (qmdpStep m Q.get)
def mdpStepV (m : POMDP) (v : Vec) : Vec := mkVec m.S (mdpStep m v.get)

def iterV {σ : Type} (f : σ → σ) : Nat → σ → σ
  | 0, x => x
  | k+1, x => iterV f k (f x)

def bstepV (m : POMDP) (x : Vec) (a o : Nat) : Vec := mkVec m.S (bstep m x.get a o)

/-- `H^k V0` on materialised beliefs (cost (A·O)^k) -/
def iterHV (m : POMDP) (V0 : Vec → Rat) : Nat → Vec → Rat
  | 0, x => V0 x
  | k+1, x => maxTo (m.A - 1) (fun a => rew m x.get a + m.γ * sumTo m.O (fun o => iterHV m V0 k (bstepV m x a o)))

def linVV (S : Nat) (v : Vec) (x : Vec) : Rat := dotS S x.get v.get
def maxLinVV (S : Nat) (βs : Array Vec) (x : Vec) : Rat := maxTo (βs.size - 1) (fun i => dotS S x.get (βs.getD i #[]).get)

/-- `upperRef`: `j` MDP backups of the constant `c`, then `k` belief-MDP backups -/
def upperRefV (m : POMDP) (c : Rat) (j k : Nat) (x : Vec) : Rat :=
  iterHV m (linVV m.S (iterV (mdpStepV m) j (mkVec m.S (fun _ => c)))) k x

/-- `lowerRef`: `j` blind steps of every action from the constants `c a`, then `k` belief-MDP backups -/
def lowerRefV (m : POMDP) (c : Nat → Rat) (j k : Nat) (x : Vec) : Rat :=
  iterHV m (maxLinVV m.S ((Array.range m.A).map (fun a => iterV (blindStepV m a) j (mkVec m.S (fun _ => c a))))) k x

/-! ## bestConservativeAction / bestPromisingAction as written (data level) -/

def dotV (S : Nat) (x α : Vec) : Rat := dotS S x.get α.get

/-- `findBestAtPoint(x, begin(Γ), end(Γ))`: highest value at `x`, exact ties broken by `veccmp` (the C12 model of the same function) -/
def bestAt (_S : Nat) (x : Vec) (Γ : Array Vec) : Nat :=
  AITB.Prune.findBest (fun v => AITB.Prune.dot x.toList v) (Γ.toList.map Array.toList)

/-- the α-vector `bestConservativeAction` builds for action `a` at belief `b`: per observation the best vector of `Γ` at the
    successor; `skips = true` (the source as found): nothing at all when `checkEqualSmall(prob, 0)`; `skips = false` (repaired):
    the best vector at the unnormalised successor (any vector of `Γ` when the successor is exactly zero) -/
def conservativeAlphaOf (skips : Bool) (m : POMDP) (b : Vec) (Γ : Array Vec) (a : Nat) : Vec :=
  let ch : Nat → Nat → Rat := fun o =>
    let nb := bstepV m b a o
    if skips && checkEqualSmall (mass m.S nb.get) 0 then (fun _ => 0) else (Γ.getD (bestAt m.S nb Γ) #[]).get
  mkVec m.S (backupVec m a ch)

/-- as the source has it now (`Gen.C03Src.consSkips`) -/
def conservativeAlpha (m : POMDP) (b : Vec) (Γ : Array Vec) (a : Nat) : Vec := conservativeAlphaOf Gen.C03Src.consSkips m b Γ a

/-- `(action, value, alpha)` of `bestConservativeAction` -/
def bestConservative (m : POMDP) (b : Vec) (Γ : Array Vec) : Nat × Rat × Vec :=
  let αs := (Array.range m.A).map (conservativeAlpha m b Γ)
  let id := argmaxTo (m.A - 1) (fun a => dotV m.S b (αs.getD a #[]))
  (id, dotV m.S b (αs.getD id #[]), αs.getD id #[])


/-! ## the reference values the driver evaluates (tied to `upperRef` / `lowerRef` in Props/C03Tie) -/

/-- depth of the exact look-ahead the instance allows: (A·O)^k ≤ budget -/
def depthFor (m : POMDP) (budget : Nat) : Nat :=
  let br := m.A * m.O
  if br ≤ 1 then 8 else
  let rec go (fuel k acc : Nat) : Nat := match fuel with
    | 0 => k
    | f+1 => if acc * br ≤ budget then go f (k+1) (acc * br) else k
  go 8 0 1

structure Refs where
  m : POMDP
  /-- MDP super-solution after `j` backups of `Rmax/(1-γ)` -/
  vU : Vec
  /-- blind sub-solutions after `j` steps from `minR_a/(1-γ)` -/
  βL : Array Vec
  k : Nat

def mkRefs (m : POMDP) (j budget : Nat) : Refs :=
  let cU := maxRall m / (1 - m.γ)
  { m := m, vU := iterV (mdpStepV m) j (mkVec m.S (fun _ => cU)),
    βL := (Array.range m.A).map (fun a => iterV (blindStepV m a) j (mkVec m.S (fun _ => minRa m a / (1 - m.γ)))),
    k := depthFor m budget }

/-- infinite-horizon upper reference at `x` -/
def Refs.U (r : Refs) (x : Vec) : Rat := iterHV r.m (linVV r.m.S r.vU) r.k x
/-- infinite-horizon lower reference at `x` -/
def Refs.L (r : Refs) (x : Vec) : Rat := iterHV r.m (maxLinVV r.m.S r.βL) r.k x


/-! ## per-instance certificates (Props/C03Trace): finitely many componentwise inequalities that decide soundness at every belief -/

/-- `β ≤ Blind_a β + δ` on the `S` states -/
def blindCertOK (m : POMDP) (a : Nat) (β : Vec) (δ : Rat) : Bool :=
  decide (a < m.A) && AITB.MDP.allLt m.S (fun s => decide (β.get s ≤ blindStep m a β.get s + δ))

/-- `α ≤ backupVec a (cands[idx o])_o + δ` on the `S` states, all indices in range -/
def backupCertOK (m : POMDP) (a : Nat) (α : Vec) (cands : Array Vec) (idx : List Nat) (δ : Rat) : Bool :=
  decide (a < m.A) && idx.length == m.O && idx.all (fun i => decide (i < cands.size)) &&
  AITB.MDP.allLt m.S (fun s => decide (α.get s ≤ backupVec m a (fun o => (cands.getD (idx.getD o 0) #[]).get) s + δ))

/-- certify `(action, vector, witness indices)` triples in order; each may lean on the start set and on the ones certified before it -/
def certChain (m : POMDP) (δ : Rat) : Array Vec → List (Nat × Vec × List Nat) → Option (Array Vec)
  | cands, [] => some cands
  | cands, (a, α, idx) :: rest => if backupCertOK m a α cands idx δ then certChain m δ (cands.push α) rest else none


/-! ## bestPromisingAction<false> as written: per-action value through `sawtoothInterpolation` (the C12 model, reading = the source now) -/

/-- `std::get<0>(sawtoothInterpolation(x, ubQ, ubV))`; `none` = the C12 model makes no prediction -/
def sawVal (m : POMDP) (Q : Mat) (pts : Array (Vec × Rat)) (x : Vec) : Option Rat :=
  (AITB.Interp.sawtooth AITB.Interp.srcVariant x.toList (Q.toList.map (·.toList)) m.A (pts.toList.map (·.1.toList)) (pts.toList.map (·.2))).map (·.value)

/-- the `sum` of the observation loop after the first `n` observations (`continue` on `checkEqualSmall(prob, 0)`) -/
def sumSaw (m : POMDP) (Q : Mat) (pts : Array (Vec × Rat)) (b : Vec) (a : Nat) : Nat → Option Rat
  | 0 => some 0
  | n+1 => match sumSaw m Q pts b a n with
    | none => none
    | some s =>
      let nb := bstepV m b a n
      if checkEqualSmall (mass m.S nb.get) 0 then some s else (sawVal m Q pts nb).map (fun t => s + t)

/-- `qvals[a]` -/
def promisingActSaw (m : POMDP) (Q : Mat) (pts : Array (Vec × Rat)) (b : Vec) (a : Nat) : Option Rat :=
  (sumSaw m Q pts b a m.O).map (fun s => rew m b.get a + m.γ * s)

/-- running maximum of `qvals[0..n]` (`none` as soon as one entry has no prediction) -/
def maxSaw (m : POMDP) (Q : Mat) (pts : Array (Vec × Rat)) (b : Vec) : Nat → Option Rat
  | 0 => promisingActSaw m Q pts b 0
  | n+1 => match maxSaw m Q pts b n, promisingActSaw m Q pts b (n+1) with
    | some x, some y => some (if x < y then y else x)
    | _, _ => none

/-- `qvals.maxCoeff()` -/
def bestPromisingSaw (m : POMDP) (Q : Mat) (pts : Array (Vec × Rat)) (b : Vec) : Option Rat := maxSaw m Q pts b (m.A - 1)

end AITB.POMDP3
