/-
  AITB.Model.Cursor — cursor models (C10b): index/iterator cores modelled with CHECKED access.
  `none` = the code would read outside a container.  Core Lean only.
-/
namespace AITB.Cursor

/-- `match(lhsK, lhs, rhsK, rhs)` of src/Factored/Utils/Core.cpp, two-cursor scan over the
    bigger (index `i`) and smaller (index `j`) key lists, as written AFTER the repair
    (`while (j < smaller.size() && i < bigger.size())`).  Every read is `l[i]?`. -/
def matchLoop (bk bv sk sv : List Nat) : Nat → Nat → Nat → Option Bool
  | 0, _, _ => none            -- out of fuel (never happens with fuel = |bk|+|sk|+1, proved below)
  | fuel+1, i, j =>
    if j < sk.length ∧ i < bk.length then
      match bk[i]?, sk[j]? with
      | some b, some s =>
        if b < s then matchLoop bk bv sk sv fuel (i+1) j
        else if b > s then matchLoop bk bv sk sv fuel i (j+1)
        else match bv[i]?, sv[j]? with
          | some x, some y => if x ≠ y then some false else matchLoop bk bv sk sv fuel (i+1) (j+1)
          | _, _ => none
      | _, _ => none
    else some true

/-- the ORIGINAL loop (`while (j < smaller.size())` only): reads `bigger[i]` unguarded -/
def matchLoopOrig (bk bv sk sv : List Nat) : Nat → Nat → Nat → Option Bool
  | 0, _, _ => none
  | fuel+1, i, j =>
    if j < sk.length then
      match bk[i]?, sk[j]? with
      | some b, some s =>
        if b < s then matchLoopOrig bk bv sk sv fuel (i+1) j
        else if b > s then matchLoopOrig bk bv sk sv fuel i (j+1)
        else match bv[i]?, sv[j]? with
          | some x, some y => if x ≠ y then some false else matchLoopOrig bk bv sk sv fuel (i+1) (j+1)
          | _, _ => none
      | _, _ => none            -- bigger[i] out of bounds
    else some true

/-- the public entry: the longer key list is `bigger` -/
def matchPartial (lk lv rk rv : List Nat) : Option Bool :=
  if lk.length > rk.length then matchLoop lk lv rk rv (lk.length + rk.length + 1) 0 0
  else matchLoop rk rv lk lv (lk.length + rk.length + 1) 0 0

def matchPartialOrig (lk lv rk rv : List Nat) : Option Bool :=
  if lk.length > rk.length then matchLoopOrig lk lv rk rv (lk.length + rk.length + 1) 0 0
  else matchLoopOrig rk rv lk lv (lk.length + rk.length + 1) 0 0

end AITB.Cursor
