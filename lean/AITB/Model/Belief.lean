/-
  AITB.Model.Belief — model of the belief-update helpers of include/AIToolbox/POMDP/Utils.hpp
  (makeSOSA, updateBeliefUnnormalized, updateBelief, updateBeliefPartial,
  updateBeliefPartialUnnormalized, updateBeliefPartialNormalized, beliefExpectedReward) and of the
  table storage of POMDP::Model<MDP::Model> / POMDP::SparseModel<MDP::SparseModel> they read.
  Core Lean only (the compiled driver runs these definitions).

  Every helper has two branches in the source, selected by `if constexpr (IsModelEigen<M>)`:
    * the triple-loop branch (any model offering probability queries only)  — suffix `G`
    * the Eigen-expression branch (dense `Model`, sparse `SparseModel`)        — suffix `E`
  Both are modelled as written (loop accumulators become `sumTo`/`addTo`, Eigen expressions
  become the matrix/vector operations they denote); `AITB.Props.C05` proves them equal.

  Tables are total functions with explicit sizes: `T s a s1`, `Ob s1 a o`, `R s a s1`.
-/
import AITB.Model.Num
namespace AITB.Belief

abbrev Vec := Nat → Rat
abbrev Mat := Nat → Nat → Rat

/-- `double acc = 0.0; for (i = 0; i < n; ++i) acc += f(i);` -/
def sumTo : Nat → (Nat → Rat) → Rat
  | 0, _ => 0
  | n+1, f => sumTo n f + f n

/-- the same loop continuing from a running accumulator `acc` -/
def addTo (acc : Rat) : Nat → (Nat → Rat) → Rat
  | 0, _ => acc
  | n+1, f => addTo acc n f + f n

structure POMDP where
  S : Nat
  A : Nat
  O : Nat
  /-- `getTransitionProbability(s, a, s1)` -/
  T : Nat → Nat → Nat → Rat
  /-- `getObservationProbability(s1, a, o)` -/
  Ob : Nat → Nat → Nat → Rat
  /-- `getExpectedReward(s, a, s1)` -/
  R : Nat → Nat → Nat → Rat

/-! ## the triple-loop branch (`else` of `if constexpr (IsModelEigen<M>)`) -/

/-- `updateBeliefPartial`: `br[s1] = 0; for s: br[s1] += T(s,a,s1) * b[s]` -/
def predictG (m : POMDP) (b : Vec) (a : Nat) : Vec :=
  fun s1 => sumTo m.S (fun s => m.T s a s1 * b s)

/-- `updateBeliefUnnormalized`: `sum = 0; for s: sum += T(s,a,s1) * b[s]; br[s1] = O(s1,a,o) * sum` -/
def unnormG (m : POMDP) (b : Vec) (a o : Nat) : Vec :=
  fun s1 => m.Ob s1 a o * sumTo m.S (fun s => m.T s a s1 * b s)

/-- `updateBeliefPartialUnnormalized`: `br[s] = O(s,a,o) * b[s]` (b = intermediate belief) -/
def partialUnnormG (m : POMDP) (b : Vec) (a o : Nat) : Vec :=
  fun s => m.Ob s a o * b s

/-- `br /= br.sum()` (in ℚ a zero sum gives the zero vector; C++ gives NaN — the property and
    every theorem below exclude that case from the normalised form) -/
def normalize (S : Nat) (v : Vec) : Vec := fun s => v s / sumTo S v

/-- `updateBelief` = `updateBeliefUnnormalized` then `br /= br.sum()` -/
def updateG (m : POMDP) (b : Vec) (a o : Nat) : Vec := normalize m.S (unnormG m b a o)

/-- `updateBeliefPartialNormalized` -/
def partialNormG (m : POMDP) (b : Vec) (a o : Nat) : Vec := normalize m.S (partialUnnormG m b a o)

/-- `makeSOSA`, loop branch: `retval[a][o](s, s1) = T(s,a,s1) * O(s1,a,o)` -/
def sosaG (m : POMDP) (a o : Nat) : Mat := fun s s1 => m.T s a s1 * m.Ob s1 a o

/-- `beliefExpectedReward`, loop branch: one accumulator over the double loop
    `for s: for s1: rew += T(s,a,s1) * R(s,a,s1) * b[s]` -/
def rewardLoop (m : POMDP) (b : Vec) (a : Nat) : Nat → Rat
  | 0 => 0
  | s+1 => addTo (rewardLoop m b a s) m.S (fun s1 => m.T s a s1 * m.R s a s1 * b s)

def rewardG (m : POMDP) (b : Vec) (a : Nat) : Rat := rewardLoop m b a m.S

/-! ## the loop branch called in place (`bRet == &b`)

  Nothing in the documentation of the pointer overloads forbids passing the input belief as the output.
  The Eigen branch evaluates `bᵀ·T_a` into a temporary before assigning, so it is unaffected.  The loop
  branch overwrites cell `s1` and later cells then read the overwritten value.  Modelled as written. -/

/-- `updateBeliefUnnormalized`, loop branch, in place: state of the shared vector after cells `0..n-1` were written -/
def unnormInPlaceG (m : POMDP) (b : Vec) (a o : Nat) : Nat → Vec
  | 0 => b
  | n+1 =>
    let v := unnormInPlaceG m b a o n
    fun k => if k = n then m.Ob n a o * sumTo m.S (fun s => m.T s a n * v s) else v k

/-- `updateBeliefPartial`, loop branch, in place, one output cell: `br[s1] = 0.0` clears `b[s1]`, and the
    accumulation `br[s1] += T(s,a,s1) * b[s]` reads its own running value when `s = s1` -/
def predictCellInPlace (m : POMDP) (a : Nat) (v : Vec) (s1 : Nat) : Nat → Rat
  | 0 => 0
  | s+1 =>
    let acc := predictCellInPlace m a v s1 s
    acc + m.T s a s1 * (if s = s1 then acc else v s)

def predictInPlaceG (m : POMDP) (b : Vec) (a : Nat) : Nat → Vec
  | 0 => b
  | n+1 =>
    let v := predictInPlaceG m b a n
    fun k => if k = n then predictCellInPlace m a v n m.S else v k

/-! The two in-place models above are chains of closures: evaluating cell `k` of step `n` re-evaluates step `n-1`
  for every read, exponentially in `n`.  The driver therefore runs the list-state versions below, which
  `AITB.Props.C05` proves equal to them entry by entry (`unnormInPlaceL_eq`, `predictInPlaceL_eq`). -/

def unnormInPlaceL (m : POMDP) (a o : Nat) : Nat → List Rat → List Rat
  | 0, st => st
  | n+1, st =>
    let st' := unnormInPlaceL m a o n st
    st'.set n (m.Ob n a o * sumTo m.S (fun s => m.T s a n * st'.getD s 0))

def predictInPlaceL (m : POMDP) (a : Nat) : Nat → List Rat → List Rat
  | 0, st => st
  | n+1, st =>
    let st' := predictInPlaceL m a n st
    st'.set n (predictCellInPlace m a (fun i => st'.getD i 0) n m.S)

/-- the pointer overload of `updateBeliefUnnormalized`, loop branch, as a function of whether the source carries
    the alias guard (`Gen.BeliefSrc.aliasGuard_updateBeliefUnnormalizedPtr`) and whether the call is in place:
    guarded code copies the input and runs the ordinary loop on the copy -/
def unnormPtrG (guard aliased : Bool) (m : POMDP) (b : Vec) (a o : Nat) : Vec :=
  if aliased && !guard then unnormInPlaceG m b a o m.S else unnormG m b a o

def predictPtrG (guard aliased : Bool) (m : POMDP) (b : Vec) (a : Nat) : Vec :=
  if aliased && !guard then predictInPlaceG m b a m.S else predictG m b a

/-- the Eigen branch on a SPARSE model called in place: assigning a sparse expression to a dense vector
    clears the destination first (`dst.setZero()`) and then adds the stored entries, so with `br` aliasing `b`
    the factor `b` is already zero when `O_a.col(o).cwiseProduct(…b…)` is evaluated
    (Eigen behaviour: modelled, observed on the real library, not verified) -/
def unnormInPlaceSp (_m : POMDP) (_b : Vec) (_a _o : Nat) : Vec := fun _ => 0

/-! ## the Eigen branch -/

/-- row vector times matrix: `(b.transpose() * M)(j) = Σ_i b(i) M(i,j)` -/
def vecMat (n : Nat) (b : Vec) (M : Mat) : Vec := fun j => sumTo n (fun i => b i * M i j)

/-- matrix product -/
def matMul (n : Nat) (M N : Mat) : Mat := fun i j => sumTo n (fun k => M i k * N k j)

/-- `v.asDiagonal()` -/
def diag (v : Vec) : Mat := fun i j => if i = j then v i else 0

/-- `v.dot(w)` -/
def dot (n : Nat) (v w : Vec) : Rat := sumTo n (fun i => v i * w i)

/-- `model.getTransitionFunction(a)` : S×S', `(s, s1)` -/
def Ta (m : POMDP) (a : Nat) : Mat := fun s s1 => m.T s a s1

/-- `model.getObservationFunction(a).col(o)` : vector over s1 -/
def Ocol (m : POMDP) (a o : Nat) : Vec := fun s1 => m.Ob s1 a o

/-- `br = (b.transpose() * model.getTransitionFunction(a)).transpose()` -/
def predictE (m : POMDP) (b : Vec) (a : Nat) : Vec := vecMat m.S b (Ta m a)

/-- `br = O_a.col(o).cwiseProduct((b.transpose() * T_a).transpose())` -/
def unnormE (m : POMDP) (b : Vec) (a o : Nat) : Vec :=
  fun s1 => Ocol m a o s1 * predictE m b a s1

/-- `br = O_a.col(o).cwiseProduct(b)` -/
def partialUnnormE (m : POMDP) (b : Vec) (a o : Nat) : Vec :=
  fun s => Ocol m a o s * b s

def updateE (m : POMDP) (b : Vec) (a o : Nat) : Vec := normalize m.S (unnormE m b a o)
def partialNormE (m : POMDP) (b : Vec) (a o : Nat) : Vec := normalize m.S (partialUnnormE m b a o)

/-- `retval[a][o] = T_a * Vector(O_a.col(o)).asDiagonal()` -/
def sosaE (m : POMDP) (a o : Nat) : Mat := matMul m.S (Ta m a) (diag (Ocol m a o))

/-- the S×A reward matrix an `MDP::Model` stores (`setRewardFunction`):
    `rewards_(s,a) = Σ_s1 r[s][a][s1] * transitions_[a](s,s1)` -/
def rewardMatrix (m : POMDP) : Mat := fun s a => sumTo m.S (fun s1 => m.R s a s1 * m.T s a s1)

/-- `model.getRewardFunction().col(a).dot(b)` -/
def rewardE (m : POMDP) (b : Vec) (a : Nat) : Rat := dot m.S (fun s => rewardMatrix m s a) b

/-- what `MDP::Model::getExpectedReward(s,a,s1)` answers: the stored `rewards_(s,a)`, whatever `s1` -/
def collapseR (m : POMDP) : POMDP := { m with R := fun s a _ => rewardMatrix m s a }

/-! ## sparse storage (`MDP::SparseModel::setTransitionFunction`, `POMDP::SparseModel::setObservationFunction`)

  `if (checkDifferentSmall(0.0, p)) insert(s, s1) = p`, i.e. an entry is stored iff `|p - 0| > tol`;
  `coeff` of a missing entry is 0, and Eigen's sparse products skip missing entries. -/

def stored (tol p : Rat) : Bool := !(decide (absQ (0 - p) ≤ tol))

def keep (tol p : Rat) : Rat := if stored tol p then p else 0

/-- sparse reward: `newRew = Σ_s1 r * coeff(s,s1); if (checkDifferentSmall(newRew, 0)) rewards_(s,a) = newRew` -/
def sparsify (tol : Rat) (m : POMDP) : POMDP :=
  { m with
    T := fun s a s1 => keep tol (m.T s a s1)
    Ob := fun s1 a o => keep tol (m.Ob s1 a o) }

def sparseRewardMatrix (tol : Rat) (m : POMDP) : Mat :=
  fun s a => keep tol (rewardMatrix (sparsify tol m) s a)

/-- reward matrix of a sparse model built by the converting constructor `MDP::SparseModel(const M&)` from a
    model that answers `getExpectedReward(s,a,s1) = ρ(s,a)`:
    `r = ρ; if (checkDifferentSmall(0.0, r)) rewards_(s,a) += r * p` for every `s1` (with the unfiltered `p`) -/
def sparseRewardMatrixConv (tol : Rat) (m : POMDP) : Mat :=
  fun s a => if stored tol (rewardMatrix m s a) then sumTo m.S (fun s1 => rewardMatrix m s a * m.T s a s1) else 0

/-- a sum that skips the structurally missing (zero) entries, as Eigen's sparse kernels do -/
def sumToNZ : Nat → (Nat → Rat) → Rat
  | 0, _ => 0
  | n+1, f => if f n = 0 then sumToNZ n f else sumToNZ n f + f n

/-- sparse `b^T * T_a` : only stored entries of the column take part -/
def predictSp (m : POMDP) (b : Vec) (a : Nat) : Vec :=
  fun s1 => sumToNZ m.S (fun s => b s * m.T s a s1)

def unnormSp (m : POMDP) (b : Vec) (a o : Nat) : Vec :=
  fun s1 => m.Ob s1 a o * predictSp m b a s1

def rewardSp (tol : Rat) (m : POMDP) (b : Vec) (a : Nat) : Rat :=
  sumToNZ m.S (fun s => sparseRewardMatrix tol m s a * b s)

def rewardSpConv (tol : Rat) (m : POMDP) (b : Vec) (a : Nat) : Rat :=
  sumToNZ m.S (fun s => sparseRewardMatrixConv tol m s a * b s)

def allLt (n : Nat) (p : Nat → Bool) : Bool := (List.range n).all p

/-! ## `POMDP::SparseModel::getObservationProbability(const Belief & b, size_t o, size_t a)`

  `double p = 0.0; for s: { if (b[s] == 0.0) continue; for s1: p += b[s] * T(s,a,s1) * coeff(s1,o); } return p;`
  one accumulator over the double loop, rows of zero belief skipped.  -/

def obsProbLoop (m : POMDP) (b : Vec) (a o : Nat) : Nat → Rat
  | 0 => 0
  | s+1 =>
    if b s = 0 then obsProbLoop m b a o s
    else addTo (obsProbLoop m b a o s) m.S (fun s1 => b s * m.T s a s1 * m.Ob s1 a o)

def obsProbB (m : POMDP) (b : Vec) (a o : Nat) : Rat := obsProbLoop m b a o m.S

/-! ## validation of supplied tables (`isProbability`, include/AIToolbox/Utils/Probability.hpp, src/Utils/Probability.cpp)
  and the models the constructors / setters accept -/

/-- `checkEqualSmall(a, b)`: `std::fabs(a - b) <= equalToleranceSmall` -/
def eqSmall (tol a b : Rat) : Bool := decide (absQ (a - b) ≤ tol)

/-- `checkDifferentSmall(a, b)`: `!checkEqualSmall(a, b)` -/
def diffSmall (tol a b : Rat) : Bool := !eqSmall tol a b

/-- the loop of `isProbability(size, in)`: `p = 0; for i: { if (in[i] < 0.0) return false; p += in[i]; }`
    (`none` = returned false inside the loop, `some p` = the accumulated sum) -/
def isProbLoop (row : Nat → Rat) : Nat → Option Rat
  | 0 => some 0
  | n+1 =>
    match isProbLoop row n with
    | none => none
    | some p => if row n < 0 then none else some (p + row n)

/-- `isProbability(size, in)`: the loop, then `if (checkDifferentSmall(p, 1.0)) return false; return true;` -/
def isProbRow (tol : Rat) (n : Nat) (row : Nat → Rat) : Bool :=
  match isProbLoop row n with
  | none => false
  | some p => !diffSmall tol p 1

/-- one row of `isProbability(const Matrix2D &)`: `!(row.minCoeff() < 0.0 || checkDifferentSmall(row.sum(), 1.0))` -/
def isProbRowE (tol : Rat) (n : Nat) (row : Nat → Rat) : Bool :=
  !((List.range n).any (fun i => decide (row i < 0)) || diffSmall tol (sumTo n row) 1)

/-- one row of `isProbability(const SparseMatrix2D &)`:
    `!(checkDifferentSmall(row.sum(), 1.0) || checkDifferentSmall(row.cwiseAbs().sum(), 1.0))` (no sign test) -/
def isProbRowSp (tol : Rat) (n : Nat) (row : Nat → Rat) : Bool :=
  !(diffSmall tol (sumTo n row) 1 || diffSmall tol (sumTo n (fun i => absQ (row i))) 1)

/-- the sparse form with fixes/C05-2-sparse-isprobability-sign.diff applied: the stored values are walked first
    (`for (InnerIterator it(in, k); it; ++it) if (it.value() < 0.0) return false;` — a position that is not stored holds 0,
    so this tests every entry), then `checkDifferentSmall(row.sum(), 1.0)` per row; the `cwiseAbs` test is gone -/
def isProbRowSpSigned (tol : Rat) (n : Nat) (row : Nat → Rat) : Bool :=
  !((List.range n).any (fun i => decide (row i < 0))) && !diffSmall tol (sumTo n row) 1

/-- the sparse form as the source currently has it (`Gen.BeliefDeepSrc.sparseSignTest`) -/
def isProbRowSpAs (signTest : Bool) (tol : Rat) (n : Nat) (row : Nat → Rat) : Bool :=
  if signTest then isProbRowSpSigned tol n row else isProbRowSp tol n row

/-- `POMDP::Model(o, of, s, a, t, r, d)`: `MDP::Model::setTransitionFunction(t)` = `isProbability(S, A, S, t)`,
    then `POMDP::Model::setObservationFunction(of)` = `isProbability(O, of[s1][a])` for every `(s1, a)`;
    the tables are then copied entry by entry (`transitions_[a](s, s1) = t[s][a][s1]`, `observations_[a](s1, o) = of[s1][a][o]`) -/
def acceptDense (tol : Rat) (m : POMDP) : Bool :=
  allLt m.S (fun s => allLt m.A (fun a => isProbRow tol m.S (fun s1 => m.T s a s1))) &&
  allLt m.S (fun s1 => allLt m.A (fun a => isProbRow tol m.O (fun o => m.Ob s1 a o)))

/-- `POMDP::SparseModel(o, of, s, a, t, r, d)`: the same entry checks on the supplied tables, then the tables are stored
    without their sub-threshold entries (`sparsify`) and what is stored must pass `isProbability(const SparseMatrix3D &)` -/
def acceptSparse (tol : Rat) (m : POMDP) : Bool :=
  acceptDense tol m &&
  allLt m.A (fun a => allLt m.S (fun s => isProbRowSp tol m.S (fun s1 => keep tol (m.T s a s1)))) &&
  allLt m.A (fun a => allLt m.S (fun s1 => isProbRowSp tol m.O (fun o => keep tol (m.Ob s1 a o))))

/-- the converting constructors `MDP::SparseModel(const M&)` / `POMDP::SparseModel(const PM&)`: per entry
    `if (p < 0.0 || p > 1.0) throw; if (checkDifferentSmall(p, 0.0)) insert(…) = p;` and per row
    `if (checkDifferentSmall(1.0, stored_row.sum())) throw;` -/
def convRowSp (tol : Rat) (n : Nat) (row : Nat → Rat) : Bool :=
  allLt n (fun i => !(decide (row i < 0) || decide (1 < row i))) && !diffSmall tol 1 (sumTo n (fun i => keep tol (row i)))

def acceptSparseConv (tol : Rat) (m : POMDP) : Bool :=
  allLt m.S (fun s => allLt m.A (fun a => convRowSp tol m.S (fun s1 => m.T s a s1))) &&
  allLt m.A (fun a => allLt m.S (fun s1 => convRowSp tol m.O (fun o => m.Ob s1 a o)))

/-- `POMDP::Model(o, s, a, discount)`: `MDP::Model(s, a)` sets every `transitions_[a]` to the identity,
    `observations_[a].col(0).fill(1.0)`, the other columns zero -/
def defaultModel (S A O : Nat) : POMDP :=
  { S := S, A := A, O := O,
    T := fun s _ s1 => if s = s1 then 1 else 0,
    Ob := fun _ _ o => if o = 0 then 1 else 0,
    R := fun _ _ _ => 0 }

/-! ## the specification side: joint probability and P(o | b, a) -/

/-- textbook `P(o | b, a) = Σ_s b(s) Σ_s1 T(s,a,s1) O(s1,a,o)` -/
def probO (m : POMDP) (b : Vec) (a o : Nat) : Rat :=
  sumTo m.S (fun s => b s * sumTo m.S (fun s1 => m.T s a s1 * m.Ob s1 a o))

/-- unnormalised posterior weight `O(s1,a,o) Σ_s T(s,a,s1) b(s)` -/
def weight (m : POMDP) (b : Vec) (a o : Nat) : Vec :=
  fun s1 => m.Ob s1 a o * sumTo m.S (fun s => m.T s a s1 * b s)

/-- expected immediate reward `Σ_s b(s) Σ_s1 T(s,a,s1) R(s,a,s1)` -/
def expReward (m : POMDP) (b : Vec) (a : Nat) : Rat :=
  sumTo m.S (fun s => b s * sumTo m.S (fun s1 => m.T s a s1 * m.R s a s1))

/-! ## histories: repeated filtering vs the forward (joint-probability) recursion -/

/-- `α_0 = b`, `α_{t+1} = updateBeliefUnnormalized(α_t, a_t, o_t)`;
    `α_t(s) = P(s_t = s, o_1..o_t | b, a_1..a_t)` -/
def forward (m : POMDP) : Vec → List (Nat × Nat) → Vec
  | b, [] => b
  | b, (a, o) :: h => forward m (unnormG m b a o) h

/-- the belief an agent holds after calling `updateBelief` once per step -/
def filter (m : POMDP) : Vec → List (Nat × Nat) → Vec
  | b, [] => b
  | b, (a, o) :: h => filter m (updateG m b a o) h

/-- chain-rule likelihood `Π_t P(o_t | b_{t-1}, a_t)` with `b_t` the filtered beliefs -/
def seqProb (m : POMDP) : Vec → List (Nat × Nat) → Rat
  | _, [] => 1
  | b, (a, o) :: h => probO m b a o * seqProb m (updateG m b a o) h

/-- `P(o_1..o_n | s_0 = s, a_1..a_n)` by the backward recursion straight from the tables -/
def backward (m : POMDP) : List (Nat × Nat) → Vec
  | [] => fun _ => 1
  | (a, o) :: h => fun s => sumTo m.S (fun s1 => m.T s a s1 * m.Ob s1 a o * backward m h s1)

/-- the joint distribution of (previous state, next state, observation) under belief `b` and action `a` -/
def joint (m : POMDP) (b : Vec) (a : Nat) (s s1 o : Nat) : Rat := b s * m.T s a s1 * m.Ob s1 a o

/-! ## simulated trajectories (`sampleSOR`) -/

/-- one simulated step `(a, s1, o)` from state `s` that the tables allow -/
def Consistent (m : POMDP) : Nat → List (Nat × Nat × Nat) → Prop
  | _, [] => True
  | s, (a, s1, o) :: h => a < m.A ∧ s1 < m.S ∧ o < m.O ∧ 0 < m.T s a s1 ∧ 0 < m.Ob s1 a o ∧ Consistent m s1 h

/-- the state the trajectory ends in -/
def endState : Nat → List (Nat × Nat × Nat) → Nat
  | s, [] => s
  | _, (_, s1, _) :: h => endState s1 h

/-- what the agent sees of it -/
def observed (h : List (Nat × Nat × Nat)) : List (Nat × Nat) := h.map (fun x => (x.1, x.2.2))

/-- decidable form of `Consistent` for the driver -/
def consistentB (m : POMDP) : Nat → List (Nat × Nat × Nat) → Bool
  | _, [] => true
  | s, (a, s1, o) :: h =>
    decide (a < m.A) && decide (s1 < m.S) && decide (o < m.O) && decide (0 < m.T s a s1) && decide (0 < m.Ob s1 a o) && consistentB m s1 h

/-! ## decidable checkers evaluated by the driver on the library's exact outputs (L3) -/

/-- the reported unnormalised update is entry-wise the Bayes weight -/
def checkUnnorm (m : POMDP) (b : Vec) (a o : Nat) (impl : Vec) : Bool :=
  allLt m.S (fun s1 => decide (impl s1 = weight m b a o s1))

/-- the reported prediction is entry-wise `Σ_s T(s,a,s1) b(s)` -/
def checkPredict (m : POMDP) (b : Vec) (a : Nat) (impl : Vec) : Bool :=
  allLt m.S (fun s1 => decide (impl s1 = predictG m b a s1))

/-- the reported SOSA block has the entries `T(s,a,s1) O(s1,a,o)` -/
def checkSosa (m : POMDP) (a o : Nat) (impl : Mat) : Bool :=
  allLt m.S (fun s => allLt m.S (fun s1 => decide (impl s s1 = m.T s a s1 * m.Ob s1 a o)))

/-! ## executable helpers for the driver -/

def ofList (l : List Rat) : Vec := fun i => l.getD i 0
def toList (n : Nat) (v : Vec) : List Rat := (List.range n).map v
def ofList2 (cols : Nat) (l : List Rat) : Mat := fun i j => l.getD (i * cols + j) 0
def toList2 (rows cols : Nat) (M : Mat) : List Rat :=
  (List.range rows).flatMap (fun i => (List.range cols).map (fun j => M i j))

end AITB.Belief
