/-
  AITB.Model.CodecNum — the `DblIO` instance the driver runs (C17).  Core Lean only.

  A finite `double` is the exact rational it denotes.  `scanDQ` follows libstdc++'s
  `num_get::_M_extract_float` (which characters are accumulated from the pending token) followed by
  `strtod` (the accumulated text must be a complete decimal literal; the value is the decimal rounded
  to the nearest double, ties to even; overflow to ±HUGE_VAL sets failbit, underflow does not).
  `printDQ p` follows `printf("%.*g", p, d)` (what `os << d` does in the default float field):
  `p` significant digits of the exact value, round-half-even, fixed notation iff the decimal exponent
  X satisfies −4 ≤ X < p, trailing zeros removed.

  Nothing is proved about these two functions.  That 17 significant digits identify a double
  (`scanDQ (printDQ 17 d) = d`) is the classical result the round-trip theorems take as a hypothesis;
  the driver evaluates that hypothesis on every value of every object the harness writes, and compares
  `printDQ` / `scanDQ` with the library's own text / parsed values on every case.
-/
import AITB.Model.Codec
import AITB.Model.Num
namespace AITB.Codec

def pow2Q (e : Int) : Rat :=
  if e ≥ 0 then ((2 ^ e.toNat : Nat) : Rat) else 1 / ((2 ^ (-e).toNat : Nat) : Rat)
def pow10Q (e : Int) : Rat :=
  if e ≥ 0 then ((10 ^ e.toNat : Nat) : Rat) else 1 / ((10 ^ (-e).toNat : Nat) : Rat)

/-- round a non-negative rational to the nearest natural, ties to even -/
def roundHalfEven (r : Rat) : Nat :=
  let n := r.num.toNat
  let d := r.den
  let fl := n / d
  let rm := n % d
  if 2 * rm > d then fl + 1
  else if 2 * rm == d then (if fl % 2 == 0 then fl else fl + 1)
  else fl

/-- ⌊log2 a⌋ for a > 0 -/
def floorLog2 (a : Rat) : Int :=
  let e0 : Int := (Nat.log2 a.num.toNat : Int) - (Nat.log2 a.den : Int)
  -- a ∈ [2^(e0-1), 2^(e0+1))
  if pow2Q e0 ≤ a then e0 else e0 - 1

/-- nearest double (ties to even) of a rational; `none` = overflow (±HUGE_VAL) -/
def toDouble (q : Rat) : Option Rat :=
  if q == 0 then some 0 else
  let a := if q < 0 then -q else q
  let e := floorLog2 a
  let ue : Int := if e - 52 < -1074 then -1074 else e - 52
  let m := roundHalfEven (a / pow2Q ue)
  let r : Rat := (m : Rat) * pow2Q ue
  if r ≥ pow2Q 1024 then none else some (if q < 0 then -r else r)

/-- is the rational a finite double? -/
def isDoubleB (q : Rat) : Bool := toDouble q == some q

/-- characters `_M_extract_float` accumulates from the pending token, and the unread rest.
    state: found a mantissa digit, found '.', (after 'e' only digits are taken) -/
def accMant : List Char → Bool → Bool → List Char × List Char
  | [], _, _ => ([], [])
  | c :: cs, fm, fd =>
    if isDig c then let (a, r) := accMant cs true fd; (c :: a, r)
    else if c == '.' && !fd then let (a, r) := accMant cs fm true; (c :: a, r)
    else if (c == 'e' || c == 'E') && fm then
      -- scientific: optional sign, then digits
      match cs with
      | '+' :: cs' => let (a, r) := spanP isDig cs'; ('e' :: '+' :: a, r)
      | '-' :: cs' => let (a, r) := spanP isDig cs'; ('e' :: '-' :: a, r)
      | _ => let (a, r) := spanP isDig cs; ('e' :: a, r)
    else ([], c :: cs)

def natOfDigits (ds : List Char) : Nat := evalDigits (ds.map digitVal)

/-- `strtod` on the accumulated text (sign already removed): the text must be a complete decimal literal
    `digits [. digits] [e [sign] digits]` with a digit in the mantissa and, if `e` is present, in the exponent;
    the value is rounded to the nearest double; `none` = failbit (malformed, or overflow to HUGE_VAL) -/
def floatValue (acc : List Char) : Option Rat :=
  let (mant, ex) := spanP (fun c => c != 'e') acc
  let (ip, fp0) := spanP isDig mant
  let fp := match fp0 with | '.' :: r => r | _ => []
  if ip.isEmpty && fp.isEmpty then none else
  let expo : Option Int := match ex with
    | [] => some 0
    | _ :: '+' :: ds => if ds.isEmpty then none else some (natOfDigits ds : Int)
    | _ :: '-' :: ds => if ds.isEmpty then none else some (-(natOfDigits ds : Int))
    | _ :: ds => if ds.isEmpty then none else some (natOfDigits ds : Int)
  match expo with
  | none => none
  | some x =>
    let mnat := natOfDigits (ip ++ fp)
    if mnat == 0 then some 0 else
    let x10 : Int := x - (fp.length : Int)
    -- keep the exact arithmetic small: far outside the double range the answer is known
    if x10 > 400 then none
    else if x10 + ((ip ++ fp).length : Int) < -400 then some 0
    else toDouble ((mnat : Rat) * pow10Q x10)

/-- `is >> d` (double) on the pending token: lex (sign, accumulated characters, unread rest), then evaluate -/
def scanDQ (t : Tok) : Option (Rat × Tok) :=
  let nb := splitSign t
  let ar := accMant nb.2 false false
  match floatValue ar.1 with
  | none => none
  | some v => some (if nb.1 then -v else v, ar.2)

/-- ⌊log10 a⌋ for a > 0, by bounded search from 0 -/
def floorLog10 (a : Rat) : Int :=
  let rec up : Nat → Int → Int
    | 0, x => x
    | f + 1, x => if pow10Q (x + 1) ≤ a then up f (x + 1) else x
  let rec down : Nat → Int → Int
    | 0, x => x
    | f + 1, x => if a < pow10Q x then down f (x - 1) else x
  down 400 (up 400 0)

def padDigits (width : Nat) (n : Nat) : List Char :=
  let ds := printN n
  List.replicate (width - ds.length) '0' ++ ds

def stripZeros (l : List Char) : List Char := (l.reverse.dropWhile (· == '0')).reverse

/-- fractional part of the text: trailing zeros removed, and no `.` when nothing is left -/
def fracStr (l : List Char) : List Char :=
  let f := stripZeros l
  if f.isEmpty then [] else '.' :: f

/-- layout of `%g`: `ds` = the `p` significant digits d1 d2 … dp, value = d1.d2…dp × 10^x; scientific notation iff
    x < −4 or x ≥ p, otherwise fixed -/
def gText (p : Nat) (neg : Bool) (ds : List Char) (x : Int) : Tok :=
  let sign : List Char := if neg then ['-'] else []
  if x < -4 || x ≥ (p : Int) then
    sign ++ ds.take 1 ++ fracStr (ds.drop 1) ++ ['e', if x < 0 then '-' else '+'] ++ padDigits 2 (if x < 0 then (-x).toNat else x.toNat)
  else if x ≥ 0 then
    sign ++ ds.take (x.toNat + 1) ++ fracStr (ds.drop (x.toNat + 1))
  else
    sign ++ ['0'] ++ fracStr (List.replicate ((-x).toNat - 1) '0' ++ ds)

/-- the `p` significant digits (as a number) and the decimal exponent of a positive rational, round-half-even -/
def sigDigits (p : Nat) (a : Rat) : Nat × Int :=
  let x0 := floorLog10 a
  let n0 := roundHalfEven (a / pow10Q (x0 - (p : Int) + 1))
  if n0 == 10 ^ p then (10 ^ (p - 1), x0 + 1) else (n0, x0)

/-- `printf("%.*g", p, d)` -/
def printDQ (p : Nat) (q : Rat) : Tok :=
  let p := if p == 0 then 1 else p
  if q == 0 then ['0'] else
  let nx := sigDigits p (if q < 0 then -q else q)
  gText p (decide (q < 0)) (padDigits p nx.1) nx.2

def absR (q : Rat) : Rat := if q < 0 then -q else q

/-- is the rational a finite double of either sign (the executable form of `IsDbl`, see `isDblB_iff_IsDbl`) -/
def isDblB (q : Rat) : Bool := q == 0 || isDoubleB (absR q)

/-- `printf("%.*f", p, d)`: what `os << d` emits when the caller left the stream in `std::fixed` notation — `p` digits
    AFTER the point (finding C17-4: the writers override the precision but inherit the notation) -/
def printFixedQ (p : Nat) (q : Rat) : Tok :=
  let n := roundHalfEven (absR q * pow10Q (p : Int))
  (if q < 0 then ['-'] else []) ++ printN (n / 10 ^ p) ++ (if p == 0 then [] else '.' :: padDigits p (n % 10 ^ p))
def sumQ (l : List Rat) : Rat := l.foldl (· + ·) 0

/-- `double → unsigned long` as the hardware does it for the values that occur; outside
    [0, 2^64) the C++ conversion is undefined behaviour (modelled as truncation modulo 2^64) -/
def toCountQ (q : Rat) : Nat :=
  if q ≥ 0 then (q.num.toNat / q.den) % two64
  else (two64 - ((-q).num.toNat / q.den) % two64) % two64

/-- the instance used by the driver; `tol` = `equalToleranceSmall` from `AITB.Gen.Constants` -/
def ratIO (tol : Rat) : DblIO Rat where
  printD := printDQ
  scanD := scanDQ
  zero := 0
  add := fun a b => (toDouble (a + b)).getD (a + b)   -- one IEEE addition (overflow does not occur on finite test data)
  toCount := toCountQ
  discountOk := fun d => !(decide (d ≤ 0) || decide (d > 1))
  rowOk := fun r => !(r.any (fun x => decide (x < 0))) && decide (absR (sumQ r - 1) ≤ tol)
  sparseRowOk := fun r => decide (absR (sumQ r - 1) ≤ tol) && decide (absR (sumQ (r.map absR) - 1) ≤ tol)

/-! ### decisions of a POMDP policy (`Policy::sampleAction(b, horizon)` = `findBestAtPoint`), exact-arithmetic reading -/

def dotQ (b v : List Rat) : Rat := (List.zipWith (· * ·) b v).foldl (· + ·) 0

/-- `veccmp(a, b) > 0` : at the first differing component `a` is larger -/
def vecGt : List Rat → List Rat → Bool
  | x :: xs, y :: ys => if x > y then true else if x < y then false else vecGt xs ys
  | _, _ => false

/-- `findBestAtPoint`: strictly better value wins; on an exact tie the lexicographically greater vector wins; else the earlier entry stays -/
def bestEntry (b : List Rat) : VList Rat → Option (Nat × VEntry Rat)
  | [] => none
  | e :: es =>
    some ((es.foldl (fun (acc : Nat × Nat × VEntry Rat) c =>
      let (i, bi, be) := acc
      let cv := dotQ b c.values
      let bv := dotQ b be.values
      if cv > bv || (cv == bv && vecGt c.values be.values) then (i + 1, i + 1, c) else (i + 1, bi, be)) (0, 0, e)).2)

/-- (action, entry id) chosen at belief `b` with `h` steps to go -/
def decision (vf : VF Rat) (h : Nat) (b : List Rat) : Option (Nat × Nat) :=
  (bestEntry b (vf.getD h [])).map (fun ie => (ie.2.action, ie.1))

end AITB.Codec
