/-
  AITB.Model.Sampling — model of the sampling routines of
  include/AIToolbox/Utils/Probability.hpp and src/Utils/Probability.cpp (property C08),
  and of the model-sampling compositions (MDP::Model::sampleSR, POMDP::Model::sampleSOR, …).
  Core Lean only.  `double` is read as exact `Rat` (DESIGN §3); the uniform draw `u ∈ [0,1)`
  is an explicit argument, so every sampler is a total function of its draw(s).

  The functions named `…Fixed` model the code after the repairs proposed in fixes/C08-*.diff;
  all others model the code as it is (same control flow, same tie-breaks, same tolerances).
-/
import AITB.Model.Num
import AITB.Gen.Constants

namespace AITB.Sampling

/-! ## tolerance predicates (Utils/Core.hpp) -/

/-- `checkEqualSmall(a,b)` : `fabs(a-b) <= equalToleranceSmall` -/
def eqSmall (a b : Rat) : Bool := decide (absQ (a - b) ≤ Gen.equalToleranceSmall)

/-- `isProbability(size, in)` (template): no entry `< 0`, and `!checkDifferentSmall(sum, 1.0)` -/
def isProb (l : List Rat) : Bool := l.all (fun x => !decide (x < 0)) && eqSmall l.sum 1

/-- `isProbability(const SparseMatrix2D &)` on one row (src/Utils/Probability.cpp): Eigen sparse has no
    `minCoeff`, so negativity is detected through the sum of absolute values -/
def isProbSparse (l : List Rat) : Bool := eqSmall l.sum 1 && eqSmall (l.map absQ).sum 1

/-! ## dense `sampleProbability(d, in, generator)`

    double p = draw;
    for (i = 0; i < d; ++i) { if (in[i] > p) return i;  p -= in[i]; }
    return d-1;
-/

/-- the `for` loop; `none` = the loop ran to `i == d` without returning -/
def denseGo : List Rat → Rat → Nat → Option Nat
  | [], _, _ => none
  | x :: xs, p, i => if x > p then some i else denseGo xs (p - x) (i + 1)

/-- loop, then the fall-through `return d-1` -/
def sampleDense (l : List Rat) (u : Rat) : Nat := (denseGo l u 0).getD (l.length - 1)

/-- prefix sum of the first `k` entries (the breakpoints `c_k` of the inverse CDF) -/
def cum (l : List Rat) (k : Nat) : Rat := (l.take k).sum

/-- decidable form of the defining clause of the inverse-CDF sampler, evaluated by the driver on the
    implementation's answer `r` (L3 checker; sound and complete by `intervalSpec_iff_sample`) -/
def intervalSpec (l : List Rat) (u : Rat) (r : Nat) : Bool :=
  decide (r < l.length) && decide (cum l r ≤ u) && (decide (l.length ≤ r + 1) || decide (u < cum l (r + 1)))

/-! ## sparse `sampleProbability(d, SparseMatrix2D::ConstRowXpr, generator)`

    double p = draw;
    for (InnerIterator i(in, 0); ; ++i) { if (i.value() > p) return i.col();  p -= i.value(); }

  There is no end-of-row test.  In Eigen's compressed row-major storage the iterator is an
  index into the flat value/column arrays, so walking off the row continues into the stored
  entries of the following rows; walking off the whole array is an out-of-bounds read (`none`). -/

/-- scan over stored (column, value) entries -/
def sparseGo : List (Nat × Rat) → Rat → Option Nat
  | [], _ => none
  | (c, v) :: r, p => if v > p then some c else sparseGo r (p - v)

/-- `row` = stored entries of the sampled row, `rest` = stored entries that follow it in the arrays -/
def sampleSparse (row rest : List (Nat × Rat)) (u : Rat) : Option Nat := sparseGo (row ++ rest) u

/-- proposed repair (fixes/C08-2): the loop stops at the end of the row and falls through to the
    last stored column (`d-1` when the row stores nothing, as the dense version does) -/
def sparseGoFixed : List (Nat × Rat) → Rat → Nat → Nat
  | [], _, last => last
  | (c, v) :: r, p, _ => if v > p then c else sparseGoFixed r (p - v) c

def sampleSparseFixed (d : Nat) (row : List (Nat × Rat)) (u : Rat) : Nat := sparseGoFixed row u (d - 1)

/-- dense expansion of a stored row (later entries of the same column are added, as `coeff` would) -/
def sparseCoeff (row : List (Nat × Rat)) (c : Nat) : Rat := ((row.filter (fun e => e.1 == c)).map (·.2)).sum

/-! ## `projectToProbability(v)` (src/Utils/Probability.cpp) -/

/-- `retval[i]` after the first loop: 0 for negative entries, 1 otherwise -/
def mask (x : Rat) : Rat := if x < 0 then 0 else 1
/-- `sum` after the first loop: sum of the non-negative entries -/
def posSum (v : List Rat) : Rat := (v.map (fun x => if x < 0 then 0 else x)).sum
/-- `count` after the first loop -/
def posCount (v : List Rat) : Nat := v.countP (fun x => !decide (x < 0))

/-- the code as it is: in the first two branches `retval` still holds the 0/1 mask -/
def project (v : List Rat) : List Rat :=
  let sum := posSum v
  if eqSmall sum 1 then v.map mask
  else if eqSmall sum 0 then v.map (fun x => mask x + 1 / (v.length : Rat))
  else if sum > 1 then v.map (fun x => mask x * (x / sum))
  else
    let diff := (1 - sum) / (posCount v : Rat)
    v.map (fun x => mask x * (x + diff))

/-- proposed repair (fixes/C08-1): clipped input when the sum is ≈ 1, uniform when it is ≈ 0 -/
def projectFixed (v : List Rat) : List Rat :=
  let sum := posSum v
  if eqSmall sum 1 then v.map (fun x => mask x * x)
  else if eqSmall sum 0 then v.map (fun _ => 1 / (v.length : Rat))
  else if sum > 1 then v.map (fun x => mask x * (x / sum))
  else
    let diff := (1 - sum) / (posCount v : Rat)
    v.map (fun x => mask x * (x + diff))

/-- which branch `projectToProbability` takes (used to attribute a failure to a branch) -/
def projectBranch (v : List Rat) : String :=
  let sum := posSum v
  if eqSmall sum 1 then "sum_near_one" else if eqSmall sum 0 then "sum_near_zero"
  else if sum > 1 then "normalize" else "shift"

/-! ## `makeRandomProbability(S, generator)`: S-1 draws, sorted, spacings, last = 1 - max -/

/-- the difference loop over the sorted draws; `prev` is `helper1` (0 before the first entry:
    `bData[0]` is kept as it is) -/
def spacings : List Rat → Rat → List Rat
  | [], prev => [1 - prev]
  | x :: xs, prev => (x - prev) :: spacings xs x

def makeRandomProbability (draws : List Rat) : List Rat :=
  spacings (draws.mergeSort (fun a b => decide (a ≤ b))) 0

/-! ## `VoseAliasSampler` -/

/-- `while (i < n && cond i) ++i;` with fuel (n - i steps always suffice) -/
def scanFrom (cond : Nat → Bool) (n : Nat) : Nat → Nat → Nat
  | 0, i => i
  | fuel + 1, i => if i < n && cond i then scanFrom cond n fuel (i + 1) else i

structure Vose where
  prob : List Rat
  alias : List Nat
  small : Nat
  large : Nat
  cp : Nat            -- smallCheckpoint
  deriving Repr

def pr (st : Vose) (i : Nat) : Rat := st.prob.getD i 0
def al (st : Vose) (i : Nat) : Nat := st.alias.getD i 0

/-- one iteration of the main loop of the constructor as it is -/
def voseStep (n : Nat) (avg : Rat) (st : Vose) : Vose :=
  let pl := (pr st st.large + pr st st.small) - avg
  let prob := st.prob.set st.large pl
  let alias := st.alias.set st.small st.large
  if pl < avg then
    let large := scanFrom (fun i => prob.getD i 0 < avg) n n (st.large + 1)
    { prob, alias, small := st.large, large, cp := st.cp }
  else
    let small := scanFrom (fun i => prob.getD i 0 ≥ avg) n n (st.cp + 1)
    { prob, alias, small, large := st.large, cp := small }

/-- `while (small < n && large < n) …` (each iteration increases `large + cp`, so `2n+1` fuel suffices) -/
def voseLoop (n : Nat) (avg : Rat) : Nat → Vose → Vose
  | 0, st => st
  | fuel + 1, st => if st.small < n && st.large < n then voseLoop n avg fuel (voseStep n avg st) else st

/-- final sweep as it is: `alias_[x] != 0` is the "already assigned" test -/
def voseSweep (n : Nat) : Nat → Nat → List Rat → List Nat → List Rat × List Nat
  | 0, _, prob, alias => (prob, alias)
  | fuel + 1, x, prob, alias =>
    if x < n then
      let prob := prob.set x 1
      let alias := alias.set x x
      let x' := scanFrom (fun i => alias.getD i 0 != 0) n n (x + 1)
      voseSweep n fuel x' prob alias
    else (prob, alias)

/-- the constructor as it is; `avg` is passed in (the code computes the double `1.0/n`;
    the theorems instantiate `avg = 1/n`).  Returns the final `prob_` (scaled by n) and `alias_`. -/
def voseBuild (p : List Rat) (avg : Rat) : List Rat × List Nat :=
  let n := p.length
  let small := scanFrom (fun i => p.getD i 0 ≥ avg) n n 0
  let large := scanFrom (fun i => p.getD i 0 < avg) n n 0
  let st := voseLoop n avg (2 * n + 1) { prob := p, alias := List.replicate n 0, small, large, cp := small }
  let (prob, alias) := voseSweep n (n + 1) (min st.large st.small) st.prob st.alias
  (prob.map (· * (n : Rat)), alias)

/-- proposed repair (fixes/C08-3): `n` marks "unassigned"; the small cursor skips entries that
    already have an alias; the final sweep visits every index -/
def voseStepFixed (n : Nat) (avg : Rat) (st : Vose) : Vose :=
  let pl := (pr st st.large + pr st st.small) - avg
  let prob := st.prob.set st.large pl
  let alias := st.alias.set st.small st.large
  if pl < avg then
    let large := scanFrom (fun i => prob.getD i 0 < avg) n n (st.large + 1)
    { prob, alias, small := st.large, large, cp := st.cp }
  else
    let small := scanFrom (fun i => prob.getD i 0 ≥ avg || alias.getD i 0 != n) n n (st.cp + 1)
    { prob, alias, small, large := st.large, cp := small }

def voseLoopFixed (n : Nat) (avg : Rat) : Nat → Vose → Vose
  | 0, st => st
  | fuel + 1, st => if st.small < n && st.large < n then voseLoopFixed n avg fuel (voseStepFixed n avg st) else st

def voseBuildFixed (p : List Rat) (avg : Rat) : List Rat × List Nat :=
  let n := p.length
  let small := scanFrom (fun i => p.getD i 0 ≥ avg) n n 0
  let large := scanFrom (fun i => p.getD i 0 < avg) n n 0
  let st := voseLoopFixed n avg (2 * n + 1) { prob := p, alias := List.replicate n n, small, large, cp := small }
  let idx := List.range n
  let prob := idx.map (fun x => if st.alias.getD x 0 == n then 1 else st.prob.getD x 0)
  let alias := idx.map (fun x => if st.alias.getD x 0 == n then x else st.alias.getD x 0)
  (prob.map (· * (n : Rat)), alias)

/-- `VoseAliasSampler::sampleProbability`: `x` is the draw from `uniform_real(0, n)`;
    `int i = x; y = x - i; if (y < prob_[i]) return i; return alias_[i];` -/
def aliasSampleX (prob : List Rat) (alias : List Nat) (x : Rat) : Nat :=
  let i := x.floor.toNat
  let y := x - (i : Rat)
  if y < prob.getD i 0 then i else alias.getD i 0

/-- as a function of the canonical draw `u ∈ [0,1)` -/
def aliasSample (prob : List Rat) (alias : List Nat) (u : Rat) : Nat :=
  aliasSampleX prob alias (u * (prob.length : Rat))

def clamp01 (t : Rat) : Rat := if t < 0 then 0 else if t > 1 then 1 else t

/-- probability mass the table gives to index `j`: column `i` is chosen with probability 1/n,
    then `i` itself with probability `clamp01 prob_i`, else `alias_i` -/
def aliasMass (prob : List Rat) (alias : List Nat) (j : Nat) : Rat :=
  ((List.range prob.length).map (fun i =>
      (if i = j then clamp01 (prob.getD i 0) else 0) +
      (if alias.getD i 0 = j then 1 - clamp01 (prob.getD i 0) else 0))).sum / (prob.length : Rat)

/-- decidable table checker (L3): sizes agree, aliases in range, mass of every index within `tol` of `p` -/
def aliasTableOk (tol : Rat) (p prob : List Rat) (alias : List Nat) : Bool :=
  prob.length == p.length && alias.length == p.length &&
  alias.all (fun a => decide (a < p.length)) &&
  (List.range p.length).all (fun j => decide (absQ (aliasMass prob alias j - p.getD j 0) ≤ tol))

/-! ## model sampling as compositions -/

/-- `MDP::Model::sampleSR(s,a)` / `MDP::SparseModel::sampleSR` on the dense expansion:
    next state from row `T a s`, reward `R s a` -/
def sampleSR (T : Nat → Nat → List Rat) (R : Nat → Nat → Rat) (s a : Nat) (u : Rat) : Nat × Rat :=
  (sampleDense (T a s) u, R s a)

/-- `POMDP::Model::sampleSOR(s,a)`: `sampleSR`, then the observation from row `O a s1` with a second draw -/
def sampleSOR (T O : Nat → Nat → List Rat) (R : Nat → Nat → Rat) (s a : Nat) (u1 u2 : Rat) : Nat × Nat × Rat :=
  let (s1, r) := sampleSR T R s a u1
  (s1, sampleDense (O a s1) u2, r)

/-- `POMDP::Model::sampleOR(s,a,s1)` -/
def sampleOR (O : Nat → Nat → List Rat) (R : Nat → Nat → Rat) (s a s1 : Nat) (u : Rat) : Nat × Rat :=
  (sampleDense (O a s1) u, R s a)

/-- `Factored::MDP::CooperativeModel::sampleSR`: one independent row scan per state factor -/
def sampleFactored (rows : List (List Rat)) (us : List Rat) : List Nat :=
  List.zipWith sampleDense rows us

end AITB.Sampling
