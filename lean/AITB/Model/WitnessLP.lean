/-
  AITB.Model.WitnessLP — model of `class WitnessLP` (include/AIToolbox/Utils/Polytope.hpp, src/Utils/Polytope.cpp)
  and of the LP that `LPInterpolation` hands to the LP wrapper.  Core Lean only.

  * `ilogbPos`, `witnessScale`    static `witnessScale()`: `std::ilogb` of the largest magnitude, an exact power of two
                                   `2^-e` when `|e| > 16`, else 1 (1 also for an all-zero vector)
  * `WLP`, `reset`, `addOptimalRow`, `posed`, `findWitness`
                                   the object's state (`scale_`, the optimal rows pushed so far), the LP that `findWitness(v)`
                                   hands to `LP::solve` (rows exactly as passed to `LP::pushRow`), and the post-processing
                                   `if (deltaValue <= 0) solution.reset()`
  * `lpRows`                       the same LP as full lp_solve rows (simplex row, optimal rows with the K and delta
                                   coefficients, witness row) — compared by the driver, row by row and coefficient by coefficient,
                                   with what lp_solve received (recorded at link time)
  * `witnessOracle`                `reset(); addOptimalRow(g) for g in best; findWitness(v)` — the oracle `Pruner::operator()` uses
  * `interpRows`                   the rows of `LPInterpolation`'s LP in lp_solve's layout

  The LP solver is a parameter (`Posed → Option (Rat × Vec)`: objective `delta` and the first `S` variables); its contract
  and the theorems are in `AITB/Props/C12WitnessLP.lean`.
-/
import AITB.Gen.C12Src
import AITB.Model.Num
import AITB.Model.Prune
import AITB.Model.Interp
namespace AITB.WitnessLP
open AITB AITB.Prune

/-- `std::ilogb(m)` for the positive rational `m = p / q` (`p, q > 0`): the integer `e` with `2^e ≤ m < 2^(e+1)` -/
def ilogbPos (p q : Nat) : Int :=
  if q ≤ p then ((Nat.log2 (p / q) : Nat) : Int) else - ((Nat.log2 ((q - 1) / p) + 1 : Nat) : Int)

/-- `v.cwiseAbs().maxCoeff()` (0 for the empty vector) -/
def maxAbsV (v : Vec) : Rat := v.foldl (fun m x => maxQ m (absQ x)) 0

/-- exponent bound of `witnessScale` (`std::abs(e) > 16`), regenerated from the source -/
def scaleExpBound : Nat := Gen.C12Src.witnessExpBound

/-- `std::abs(e) > 16 ? std::ldexp(1.0, -e) : 1.0` -/
def scaleOfExp (e : Int) : Rat := if scaleExpBound < e.natAbs then pow2 (-e) else 1

/-- `witnessScale(v)`: 1 when the largest magnitude is 0 or its exponent is within the bound, else `ldexp(1.0, -e)` -/
def witnessScale (v : Vec) : Rat :=
  let m := maxAbsV v
  if m ≤ 0 then 1 else scaleOfExp (ilogbPos m.num.natAbs m.den)

/-- `v[i] * scale` for every coordinate -/
def scaleVec (s : Rat) (v : Vec) : Vec := v.map (fun x => x * s)

/-- state of a `WitnessLP` object after `reset()`: `scale_` (0 = not chosen yet) and the optimal rows pushed so far,
    as passed to `LP::pushRow` (first `S` coefficients) -/
structure WLP where
  scale : Rat := 0
  rows : List Vec := []

def reset : WLP := {}

/-- `addOptimalRow(v)`: `if (scale_ == 0.0) scale_ = witnessScale(v); row = v * scale_` -/
def addOptimalRow (l : WLP) (v : Vec) : WLP :=
  let s := if l.scale == 0 then witnessScale v else l.scale
  { scale := s, rows := l.rows ++ [scaleVec s v] }

/-- the scale `findWitness(v)` uses: `scale_ != 0.0 ? scale_ : witnessScale(v)` -/
def usedScale (l : WLP) (v : Vec) : Rat := if l.scale != 0 then l.scale else witnessScale v

/-- the LP handed to `LP::solve` by `findWitness(v)`: optimal rows and the witness row (first `S` coefficients each) -/
structure Posed where
  rows : List Vec
  wit : Vec
  deriving BEq, DecidableEq

def posed (l : WLP) (v : Vec) : Posed := ⟨l.rows, scaleVec (usedScale l v) v⟩

/-- `findWitness(v)`: solve, pop the row, `if (deltaValue <= 0) solution.reset()`; the state is unchanged -/
def findWitness (solver : Posed → Option (Rat × Vec)) (l : WLP) (v : Vec) : Option Vec :=
  match solver (posed l v) with
  | some (delta, b) => if delta ≤ 0 then none else some b
  | none => none

/-- `lp_.reset(); for (g : best) lp_.addOptimalRow(g); lp_.findWitness(v)` -/
def witnessOracle (solver : Posed → Option (Rat × Vec)) (best : List Vec) (v : Vec) : Option Vec :=
  findWitness solver (best.foldl addOptimalRow reset) v

/-! ### lp_solve's view (what the driver compares with the recorded calls) -/

inductive Rel where | le | ge | eq
  deriving BEq, DecidableEq, Repr

/-- lp_solve's constants `LE = 1`, `GE = 2`, `EQ = 3` -/
def Rel.ofCode : Nat → Option Rel
  | 1 => some .le | 2 => some .ge | 3 => some .eq | _ => none

structure Row where
  coef : Vec
  rel : Rel
  rhs : Rat
  deriving BEq, DecidableEq

/-- all rows of the witness LP over the `S + 2` columns `b_0 … b_{S-1}, K, delta`:
    simplex row `Σ b = 1`; per optimal row `g·b − K + delta ≤ 0`; witness row `v·b − K = 0` -/
def lpRows (S : Nat) (p : Posed) : List Row :=
  ⟨List.replicate S 1 ++ [0, 0], .eq, 1⟩ ::
  (p.rows.map (fun g => ⟨g ++ [-1, 1], .le, 0⟩) ++ [⟨p.wit ++ [-1, 0], .eq, 0⟩])

/-- objective of the witness LP: maximise column `S + 1` (delta) -/
def lpObjective (S : Nat) : Vec := List.replicate (S + 1) 0 ++ [1]

/-- does the constructor make `delta` a free variable (regenerated from the source)?  As found it is lp_solve's default
    `delta ≥ 0`: the LP is then infeasible exactly when there is no witness; with `delta` free it is always feasible. -/
def deltaFree : Bool := Gen.C12Src.witnessDeltaFree

/-- the free columns of the witness LP: `K` (column `S`), and `delta` (column `S + 1`) in the repaired reading -/
def lpFree (S : Nat) : List Nat := if deltaFree then [S, S + 1] else [S]

/-- rows of `LPInterpolation`'s LP over the `k + 1` columns `c_0 … c_{k-1}, K`: per non-zero state `Σ c_j p_j[s] ≤ point[s]`
    (K coefficient `+0.0`), then `Σ c_j gain_j − K = 0` -/
def interpRows (inp : Interp.LpIn) : List Row :=
  inp.rows.map (fun r => ⟨r.1 ++ [0], .le, r.2⟩) ++ [⟨inp.gains ++ [-1], .eq, 0⟩]

end AITB.WitnessLP
