/-
  AITB.Model.FGCursor — cursor model (C10b, round 4) of the neighbour bookkeeping of
  include/AIToolbox/Factored/Utils/FactorGraph.hpp: the index loop of `getFactor` that merges the variables of a new
  factor into `vNeighbors` of each of them, and `erase(a)`, which removes `a` from the neighbour list of each of its
  neighbours with `vaa.vNeighbors.erase(std::find(begin, end, a))` — an `erase(end())` (undefined behaviour) whenever
  `a` is NOT found.  CHECKED access: `none` = a read outside a vector or an `erase(end())`.  Core Lean only.
-/
namespace AITB.FGCursor

/-- `for (size_t i = 0, j = 0; i < variables.size(); ) { if (variables[i] == a) ++i;
      else if (j == mid || variables[i] < va.vNeighbors[j]) { va.vNeighbors.push_back(variables[i]); ++i; }
      else { if (variables[i] == va.vNeighbors[j]) ++i; ++j; } }`
    `buf` is `va.vNeighbors` (its first `mid` slots are the old neighbours, pushes go to the back). -/
def nbLoop (vars : List Nat) (a mid : Nat) : Nat → Nat → Nat → List Nat → Option (List Nat)
  | 0, _, _, _ => none
  | fuel+1, i, j, buf =>
    if i < vars.length then
      match vars[i]? with
      | none => none
      | some x =>
        if x = a then nbLoop vars a mid fuel (i+1) j buf
        else if j = mid then nbLoop vars a mid fuel (i+1) j (buf ++ [x])
        else
          match buf[j]? with
          | none => none
          | some y =>
            if x < y then nbLoop vars a mid fuel (i+1) j (buf ++ [x])
            else if x = y then nbLoop vars a mid fuel (i+1) (j+1) buf
            else nbLoop vars a mid fuel i (j+1) buf
    else some buf

/-- the same scan on the remaining suffixes (what the cursor loop computes; proved equal in Props.C10FG) -/
def recPush (a : Nat) : List Nat → List Nat → List Nat
  | [], _ => []
  | x :: vs, [] => if x = a then recPush a vs [] else x :: recPush a vs []
  | x :: vs, y :: os =>
    if x = a then recPush a vs (y :: os)
    else if x < y then x :: recPush a vs (y :: os)
    else if x = y then recPush a vs os
    else recPush a (x :: vs) os
termination_by vs os => vs.length + os.length

/-- neighbours of `a` after `getFactor(vars)` registered a new factor: the loop, then
    `std::inplace_merge(begin, begin+mid, end)` -/
def mergeNeighbours (old vars : List Nat) (a : Nat) : Option (List Nat) :=
  (nbLoop vars a old.length (vars.length + old.length + 1) 0 0 old).map
    (fun buf => List.merge (buf.take old.length) (buf.drop old.length) (fun x y => x ≤ y))

/-- the neighbour lists of all variables (`variableAdjacencies_[v].vNeighbors`) -/
abbrev Nbrs := Nat → List Nat

/-- `for (const auto a : variables) { auto & va = variableAdjacencies_[a]; … }` over the remaining variables `todo` of the new factor -/
def addAll (vars : List Nat) : Nbrs → List Nat → Option Nbrs
  | nb, [] => some nb
  | nb, a :: t => (mergeNeighbours (nb a) vars a).bind (fun l => addAll vars (fun v => if v = a then l else nb v) t)

/-- `getFactor(vars)` when a NEW factor node is created: every variable of the factor merges the others into its list -/
def addFactor (nb : Nbrs) (vars : List Nat) : Option Nbrs := addAll vars nb vars

/-- `vaa.vNeighbors.erase(std::find(begin, end, a))` : `none` when `a` is not there (`erase(end())`) -/
def eraseFound (l : List Nat) (a : Nat) : Option (List Nat) := if l.contains a then some (l.erase a) else none

/-- `for (const auto aa : va.vNeighbors) { auto & vaa = variableAdjacencies_[aa]; vaa.vNeighbors.erase(find(a)); }` over the remaining
    neighbours; `aa == a` would erase from the very list the range-for walks (iterator invalidation): `none` -/
def eraseAll (a : Nat) : Nbrs → List Nat → Option Nbrs
  | nb, [] => some nb
  | nb, aa :: t => if aa = a then none else (eraseFound (nb aa) a).bind (fun l => eraseAll a (fun v => if v = aa then l else nb v) t)

/-- `erase(a)` : the loop over `va.vNeighbors`, then `va.vNeighbors.clear()` -/
def eraseVar (nb : Nbrs) (a : Nat) : Option Nbrs :=
  (eraseAll a nb (nb a)).map (fun nb' => fun v => if v = a then [] else nb' v)

/-- one step of a history: `getFactor(vars)` (new factor; looking up an existing one changes nothing) or `erase(a)` -/
inductive Op where
  | add (vars : List Nat)
  | erase (a : Nat)

def step (nb : Nbrs) : Op → Option Nbrs
  | .add vars => addFactor nb vars
  | .erase a => eraseVar nb a

def run (nb : Nbrs) : List Op → Option Nbrs
  | [] => some nb
  | o :: os => (step nb o).bind (fun nb' => run nb' os)

def strictSorted : List Nat → Bool
  | a :: b :: t => a < b && strictSorted (b :: t)
  | _ => true

end AITB.FGCursor
