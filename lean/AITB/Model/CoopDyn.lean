/-
  AITB.Model.CoopDyn — what an accepted `Factored::MDP::CooperativeModel` DOES with its tables (property C06, round 3):
  the dynamics `DDN::getTransitionProbability(s, a, s1)` (src/Factored/Utils/BayesianNetwork.cpp: product over the state
  features of `transitions[i](graph.getId(i, s, a), s1[i])`), the row-id arithmetic it relies on (`DDNGraph::getId`,
  `getIds(feature, j)`, `getPartialSize`, `startIds_` — prefix sums built by `push` — and `toIndexPartial` of
  src/Factored/Utils/Core.cpp, one level below the anchored files) and the expected reward
  (`FactoredMatrix2D::getValue`: sum over the bases of `values(toIndexPartial(tag,S,s), toIndexPartial(actionTag,A,a))`).

  The id / index functions are the ones of AITB.Model.SamplingModels and AITB.Model.Factored (shared with C08 / C14); new here:
  the inverse loop `getIds(feature, j)`, the joint probability, the enumeration of a factor space, graphs reachable by `push`.
  Core Lean only.
-/
import AITB.Model.ModelState
import AITB.Model.SamplingModels
namespace AITB.MS
open AITB AITB.Factored AITB.Sampling

/-- a stored matrix entry as a rational (accepted matrices hold finite entries only: `coop_accepted_wellformed`) -/
def xq : XRat → Rat
  | .fin q => q
  | _ => 0

def PSet.toPS (p : PSet) : ParentSet := ⟨p.agents, p.features⟩

/-- `graph.getId(i, s, a)` -/
def rowId (g : Graph) (i : Nat) (s a : List Nat) : Nat := ddnGetId g.S g.A (g.parents.getD i default).toPS s a

/-- `Π_{i<n} f i`, accumulated as the C++ loop does (`retval = 1.0; retval *= …`) -/
def prodIdx (f : Nat → Rat) : Nat → Rat
  | 0 => 1
  | n+1 => prodIdx f n * f n

/-- entry `(id, x)` of the `i`-th transition matrix, `id` the row the dynamics read for `(s, a)` -/
def dynEntry (g : Graph) (mats : List Mat) (s a : List Nat) (i x : Nat) : Rat :=
  xq (get2 (mats.getD i default).ent (rowId g i s a) x)

/-- `DDN::getTransitionProbability(const Factors & s, const Factors & a, const Factors & s1)` as written: a left fold -/
def jointProbLoop (g : Graph) (mats : List Mat) (s a s1 : List Nat) : Rat :=
  (List.range g.S.length).foldl (fun acc i => acc * dynEntry g mats s a i (s1.getD i 0)) 1

/-- … and structurally -/
def jointProb (g : Graph) (mats : List Mat) (s a s1 : List Nat) : Rat :=
  prodIdx (fun i => dynEntry g mats s a i (s1.getD i 0)) g.S.length

/-- `DDN::getTransitionProbability(const PartialFactors & s, a, s1)` for full `s`, `a` and a partial `s1` = (feature, value) pairs:
    `for j: nodeId = s1.first[j]; retval *= transitions[nodeId](graph.getId(nodeId, s, a), s1.second[j])` -/
def marginalProb (g : Graph) (mats : List Mat) (s a : List Nat) (sub : List (Nat × Nat)) : Rat :=
  sub.foldl (fun acc kv => acc * dynEntry g mats s a kv.1 kv.2) 1

/-- all tuples `[x_0, …, x_{n-1}]` with `x_i < dims i`, last factor fastest -/
def enumN (dims : Nat → Nat) : Nat → List (List Nat)
  | 0 => [[]]
  | n+1 => (enumN dims n).flatMap (fun t => (List.range (dims n)).map (fun x => t ++ [x]))

/-- every tuple of the factor space `sp` -/
def enumSpace (sp : List Nat) : List (List Nat) := enumN (fun i => sp.getD i 0) sp.length

/-- the joint row of `(s, a)`: `getTransitionProbability(s, a, s1)` for every `s1` of the state space -/
def jointRow (g : Graph) (mats : List Mat) (s a : List Nat) : List Rat := (enumSpace g.S).map (jointProb g mats s a)

/-! ## `DDNGraph::getIds(feature, j)`: from a row id back to (parentId, actionId) -/

/-- `while (startIds_[feature][actionId] > j) --actionId;` started at `actionId = k` (the code starts at `size() - 2` and
    relies on `startIds_[feature][0] = 0` to stop) -/
def idsDown (st : List Nat) (j : Nat) : Nat → Nat
  | 0 => 0
  | k+1 => if st.getD (k+1) 0 > j then idsDown st j k else k+1

def ddnIdsOfRow (S : List Nat) (ps : ParentSet) (j : Nat) : Nat × Nat :=
  let st := ddnStartIds S ps
  let a := idsDown st j (st.length - 2)
  (j - st.getD a 0, a)

/-- `getPartialSize(feature, actionId) = startIds_[feature][actionId+1] - startIds_[feature][actionId]` -/
def ddnPartialSize (S : List Nat) (ps : ParentSet) (actionId : Nat) : Nat :=
  (ddnStartIds S ps).getD (actionId + 1) 0 - (ddnStartIds S ps).getD actionId 0

/-! ## graphs reachable by `push` (every history of calls, failing ones included: a failing call leaves the graph) -/

def emptyGraph (S A : List Nat) : Graph := { S := S, A := A, parents := [], sizes := [] }

/-- the graph after a history of `push` calls (validate-then-commit as extracted) -/
def pushAll (vf : Bool) (g : Graph) : List PSet → Graph
  | [] => g
  | p :: r => pushAll vf (push vf g p).1 r

/-- a parent set as `push` accepts it: well-formed agents tag, one well-formed feature tag per joint action of those agents -/
def wfPSet (g : Graph) (p : PSet) : Bool :=
  checkTag g.A p.agents == .none && p.features.length == spacePartial g.A p.agents &&
  p.features.all (fun f => checkTag g.S f == .none)

/-- decidable invariant of reachable graphs: the recorded sizes (`startIds_[i].back()`) are the sums of the partial spaces of
    the feature tags; every parent set well formed -/
def graphOK (g : Graph) : Bool :=
  g.sizes == g.parents.map (fun p => ddnSize g.S p.toPS) && g.parents.all (wfPSet g)

/-! ## rewards -/

/-- a reward basis with its values -/
structure BasisV where
  tag : List Nat
  actionTag : List Nat
  rows : Nat
  cols : Nat
  values : List (List Rat)
  deriving Repr, Inhabited

def BasisV.shape (b : BasisV) : Basis := ⟨b.tag, b.actionTag, b.rows, b.cols⟩
def BasisV.to2D (b : BasisV) : Basis2D := ⟨b.tag, b.actionTag, b.values⟩

/-- `CooperativeModel::getExpectedReward(s, a, ·) = rewards_.getValue(S, A, s, a)` -/
def coopReward (g : Graph) (bases : List BasisV) (s a : List Nat) : Rat :=
  factoredReward g.S g.A (bases.map BasisV.to2D) s a

/-! ## checker evaluated by the driver on the implementation's own joint row (soundness: Props/C06Factored) -/

/-- entries in [0, 1+slack], sum within `slack` of one -/
def jointDistB (slack : Rat) (row : List Rat) : Bool :=
  row.all (fun q => decide (0 ≤ q) && decide (q ≤ 1 + slack)) && decide (-slack ≤ row.sum - 1) && decide (row.sum - 1 ≤ slack)

end AITB.MS
