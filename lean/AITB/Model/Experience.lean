/-
  AITB.Model.Experience — model of the experience classes and the learned models built on them
  (property C07).  Core Lean only.

  Anchors (all in $AITB_REPO):
    src/MDP/Experience.cpp, src/MDP/SparseExperience.cpp, src/Bandit/Experience.cpp,
    src/Factored/Bandit/Experience.cpp, src/Factored/MDP/CooperativeExperience.cpp      (record / reset)
    include/AIToolbox/MDP/MaximumLikelihoodModel.hpp, SparseMaximumLikelihoodModel.hpp    (ctor, sync forms)
    src/Factored/MDP/CooperativeMaximumLikelihoodModel.cpp                                (ctor, syncRow)
    include/AIToolbox/MDP/ThompsonModel.hpp, src/Factored/MDP/CooperativeThompsonModel.cpp (row normalisation, reward rule)

  One observation organises the model: every one of these classes is a table of independent
  *pairs* — a pair is one (s,a) of the flat classes, one arm of a bandit, one (basis, joint
  action id) of the factored bandit, one (feature i, parent row j) of the cooperative classes.
  A pair holds the Welford cell (visitsSum, mean reward, M2), the row of next-state counts, and —
  when a learned model is attached — the model's transition row and reward.  An operation of the
  C++ API acts on one pair (`record`, `sync(s,a)`, `sync(s,a,s1)`) or on all of them the same
  way (`sync()`, `reset()`, constructing the model).  `World.step` is literally "apply the
  projected local operation to every pair", so what is proved about one pair (`Pair.step`) lifts
  to every table shape.

  Arithmetic is exact (`Rat`); the C++ computes in `double` (rounding is outside the model, see
  DESIGN §3).  `visits * (1.0/visitSum)` and `visits / visitSum` are the same rational.
-/
namespace AITB.Exp

/-! ### list helpers (structural, so that the Props file can do induction on them) -/

/-- `l[i]` with default 0 (reads are always in range under the well-formedness hypotheses) -/
def nthQ : List Rat → Nat → Rat
  | [], _ => 0
  | x :: _, 0 => x
  | _ :: xs, i+1 => nthQ xs i

def nthN : List Nat → Nat → Nat
  | [], _ => 0
  | x :: _, 0 => x
  | _ :: xs, i+1 => nthN xs i

/-- `l[i] = v` (no-op when out of range; the C++ would be out of bounds — excluded by well-formedness) -/
def setQ : List Rat → Nat → Rat → List Rat
  | [], _, _ => []
  | _ :: xs, 0, v => v :: xs
  | x :: xs, i+1, v => x :: setQ xs i v

/-- `++l[i]` -/
def bump : List Nat → Nat → List Nat
  | [], _ => []
  | c :: cs, 0 => (c + 1) :: cs
  | c :: cs, i+1 => c :: bump cs i

def sumQ : List Rat → Rat
  | [] => 0
  | x :: xs => x + sumQ xs

/-- the row `e_k` of width `w` starting at column `j` (identity row / "column 0 = 1" default) -/
def unitFrom (k : Nat) : Nat → Nat → List Rat
  | 0, _ => []
  | w+1, j => (if j = k then 1 else 0) :: unitFrom k w (j+1)

def unit (w k : Nat) : List Rat := unitFrom k w 0

def zeros : Nat → List Rat
  | 0 => []
  | w+1 => 0 :: zeros w

def absQ (q : Rat) : Rat := if q < 0 then -q else q

/-! ### Welford cell: `visitsSum_(s,a)`, `rewards_(s,a)`, `M2s_(s,a)` -/

structure Cell where
  n : Nat
  mean : Rat
  m2 : Rat
  deriving Repr, BEq, Inhabited

def Cell.init : Cell := ⟨0, 0, 0⟩

/-- the three statistics lines of every `record`:
    `visitsSum += 1; delta = rew - mean; mean += delta / visitsSum; M2 += delta * (rew - mean)` -/
def Cell.record (c : Cell) (x : Rat) : Cell :=
  let n' := c.n + 1
  let delta := x - c.mean
  let mean' := c.mean + delta / (n' : Rat)
  ⟨n', mean', c.m2 + delta * (x - mean')⟩

/-! ### configuration = which class / which source variant is being modelled -/

structure Cfg where
  /-- `visitSum % period == 0` forces a full sync inside `sync(s,a,s1)` (from `AITB.Gen`) -/
  period : Nat
  /-- `visitSum == 1` branch of `sync(s,a,s1)`: `true` = clears the whole row before writing the 1
      (repaired code), `false` = only zeroes the diagonal entry (code as written) -/
  n1Clear : Bool
  /-- dense `MaximumLikelihoodModel` constructor with `sync = true`: the transition storage is not
      initialised before `sync()`; `true` = rows start as `junk` (code as written) -/
  ctorJunk : Bool
  /-- the uninitialised storage, an arbitrary parameter: pair index → column → value -/
  junk : Nat → Nat → Rat
  /-- sparse model: the reward is copied only if `checkDifferentSmall(old, new)`, i.e. `|old-new| > tol` -/
  rewTol : Option Rat
  /-- `SparseMaximumLikelihoodModel::sync(s,a)` over an experience without Eigen tables (the `else` branch of
      `if constexpr (IsExperienceEigen<E>)`): only the cells with `visits > 0` are written, the others keep their value;
      `true` = that branch as written -/
  sparseGeneric : Bool := false

/-- reward copy rule of `sync`: dense `rewards_(s,a) = exp.getReward(s,a)`;
    sparse `if (checkDifferentSmall(rewards_, new)) rewards_ = new` -/
def copyRew (cfg : Cfg) (old new : Rat) : Rat :=
  match cfg.rewTol with
  | none => new
  | some t => if absQ (old - new) ≤ t then old else new

/-! ### one pair -/

structure Pair where
  /-- index of the default unit row: `s` for flat models (self-loop), `0` for the cooperative model -/
  dfl : Nat
  /-- pair index inside its table (only used to address `junk`) -/
  idx : Nat
  cell : Cell
  /-- `visits_[a](s, ·)` -/
  cnt : List Nat
  /-- model `transitions_[a](s, ·)` -/
  row : List Rat
  /-- model `rewards_(s,a)` -/
  rew : Rat
  deriving Repr, BEq, Inhabited

/-- local operation on one pair -/
inductive LOp where
  | record (s1 : Nat) (r : Rat)
  | sync                       -- `sync(s,a)` or this pair's turn inside `sync()`
  | syncInc (s1 : Nat)         -- `sync(s,a,s1)`
  | reset                      -- experience `reset()`
  | ctor (toSync : Bool)       -- (re)construction of the learned model over the current experience
  | nop                        -- an operation that addresses another pair
  deriving Repr, BEq, Inhabited

def Pair.init (w dfl idx : Nat) : Pair :=
  { dfl := dfl, idx := idx, cell := Cell.init, cnt := List.replicate w 0, row := unit w dfl, rew := 0 }

/-- the element-wise loop of the sparse model over a generic experience:
    `if (visits > 0) T(s,a,s1) = visits * (1/visitSum)` — cells with no visits are left alone -/
def writeVisited (n : Nat) : List Rat → List Nat → List Rat
  | x :: xs, c :: cs => (if c > 0 then (c : Rat) / (n : Rat) else x) :: writeVisited n xs cs
  | _, _ => []

/-- `MaximumLikelihoodModel::sync(s,a)` / `CooperativeMaximumLikelihoodModel::syncRow` -/
def Pair.fullSync (cfg : Cfg) (p : Pair) : Pair :=
  if p.cell.n = 0 then p
  else { p with rew := copyRew cfg p.rew p.cell.mean,
                row := if cfg.sparseGeneric then
                         -- "Clear beginning's identity matrix" only when this is the very first visit
                         writeVisited p.cell.n (if p.cell.n = 1 then setQ p.row p.dfl 0 else p.row) p.cnt
                       else p.cnt.map (fun (c : Nat) => (c : Rat) / (p.cell.n : Rat)) }

/-- `MaximumLikelihoodModel::sync(s,a,s1)` -/
def Pair.incSync (cfg : Cfg) (s1 : Nat) (p : Pair) : Pair :=
  let N := p.cell.n
  if N % cfg.period = 0 then p.fullSync cfg
  else
    let rew' := copyRew cfg p.rew p.cell.mean
    if N = 1 then
      let r0 := if cfg.n1Clear then zeros p.row.length else setQ p.row p.dfl 0
      { p with rew := rew', row := setQ r0 s1 1 }
    else
      let newV : Rat := (nthN p.cnt s1 : Rat) / ((N - 1 : Nat) : Rat)
      let newSum : Rat := 1 + (newV - nthQ p.row s1)
      { p with rew := rew', row := (setQ p.row s1 newV).map (fun x => x / newSum) }

/-- the row of column `j…` of pair `idx` in uninitialised storage -/
def junkRow (cfg : Cfg) (idx : Nat) : Nat → Nat → List Rat
  | 0, _ => []
  | w+1, j => cfg.junk idx j :: junkRow cfg idx w (j+1)

/-- learned-model constructor, restricted to one pair.
    `toSync = false`: identity / default row, reward 0.
    `toSync = true` : (storage zero or junk) ; `sync()` ; unvisited pairs get a 1 on the default entry. -/
def Pair.ctor (cfg : Cfg) (toSync : Bool) (p : Pair) : Pair :=
  let w := p.cnt.length
  if toSync then
    let start := if cfg.ctorJunk then junkRow cfg p.idx w 0 else zeros w
    let q := ({ p with row := start, rew := 0 } : Pair).fullSync cfg
    if q.cell.n = 0 then { q with row := setQ q.row q.dfl 1 } else q
  else { p with row := unit w p.dfl, rew := 0 }

def Pair.step (cfg : Cfg) (p : Pair) : LOp → Pair
  | .record s1 r => { p with cell := p.cell.record r, cnt := bump p.cnt s1 }
  | .sync => p.fullSync cfg
  | .syncInc s1 => p.incSync cfg s1
  | .reset => { p with cell := Cell.init, cnt := p.cnt.map (fun _ => 0) }
  | .ctor b => p.ctor cfg b
  | .nop => p

def Pair.run (cfg : Cfg) (p : Pair) (h : List LOp) : Pair := h.foldl (Pair.step cfg) p

/-! ### a table of pairs -/

/-- global operation on a table; `p` is the pair index (flat classes: `p = s*A + a`) -/
inductive Op where
  | record (p s1 : Nat) (r : Rat)
  | syncAll
  | sync (p : Nat)
  | syncInc (p s1 : Nat)
  | reset
  | ctor (toSync : Bool)
  deriving Repr, BEq, Inhabited

/-- what a global operation means for pair `i` -/
def Op.project (i : Nat) : Op → LOp
  | .record p s1 r => if p = i then .record s1 r else .nop
  | .syncAll => .sync
  | .sync p => if p = i then .sync else .nop
  | .syncInc p s1 => if p = i then .syncInc s1 else .nop
  | .reset => .reset
  | .ctor b => .ctor b

structure World where
  /-- `timesteps_` -/
  ts : Nat
  pairs : List Pair
  deriving Repr, Inhabited

def mapIdxFrom {α β} (f : Nat → α → β) : Nat → List α → List β
  | _, [] => []
  | k, x :: xs => f k x :: mapIdxFrom f (k+1) xs

def initPairs (w : Nat) (dflOf : Nat → Nat) : Nat → Nat → List Pair
  | 0, _ => []
  | n+1, k => Pair.init w (dflOf k) k :: initPairs w dflOf n (k+1)

/-- a fresh experience with `np` pairs of width `w` (and a default model attached, which is what
    constructing the model with `sync = false` on the fresh experience gives) -/
def World.init (np w : Nat) (dflOf : Nat → Nat) : World := { ts := 0, pairs := initPairs w dflOf np 0 }

def World.step (cfg : Cfg) (wd : World) (op : Op) : World :=
  { ts := (match op with | .record .. => wd.ts + 1 | .reset => 0 | _ => wd.ts),
    pairs := mapIdxFrom (fun i p => p.step cfg (op.project i)) 0 wd.pairs }

def World.run (cfg : Cfg) (wd : World) (h : List Op) : World := h.foldl (World.step cfg) wd

/-! ### the specification side: what the recorded data says (definitions, not code) -/

/-- ghost state of one pair: the records since the last `reset`, the records the model last
    absorbed (`[]` = none: default row), and the number of `record` calls since the pair's last sync -/
structure Ghost where
  recs : List (Nat × Rat)
  snap : List (Nat × Rat)
  pend : Nat
  deriving Repr, BEq, Inhabited

def Ghost.init : Ghost := ⟨[], [], 0⟩

def Ghost.step (g : Ghost) : LOp → Ghost
  | .record s1 r => { g with recs := g.recs ++ [(s1, r)], pend := g.pend + 1 }
  | .sync => { g with snap := if g.recs.isEmpty then g.snap else g.recs, pend := 0 }
  | .syncInc _ => { g with snap := if g.recs.isEmpty then g.snap else g.recs, pend := 0 }
  | .reset => { g with recs := [] }
  | .ctor b => if b then { g with snap := g.recs, pend := 0 } else { g with snap := [], pend := g.recs.length }
  | .nop => g

def Ghost.run (g : Ghost) (h : List LOp) : Ghost := h.foldl Ghost.step g

/-- documented precondition of `sync(s,a,s1)`: exactly one new record for the pair since its last
    sync, and that record went to `s1` -/
def incPreOK (g : Ghost) : LOp → Bool
  | .syncInc s1 => g.pend == 1 && (match g.recs.getLast? with | none => true | some (x, _) => x == s1)
  | _ => true

/-- every `syncInc` in the local history satisfies the precondition (checked along the run) -/
def incPre : Ghost → List LOp → Bool
  | _, [] => true
  | g, op :: h => incPreOK g op && incPre (g.step op) h

/-- indices in range: every recorded / incrementally synced next state is below the row width -/
def opWF (w : Nat) : LOp → Bool
  | .record s1 _ => decide (s1 < w)
  | .syncInc s1 => decide (s1 < w)
  | _ => true

def isReset : LOp → Bool
  | .reset => true
  | _ => false

def countS1 (i : Nat) : List (Nat × Rat) → Nat
  | [] => 0
  | (s1, _) :: t => (if s1 = i then 1 else 0) + countS1 i t

def sumR : List (Nat × Rat) → Rat
  | [] => 0
  | (_, r) :: t => r + sumR t

/-- empirical mean of the recorded rewards (0 on no data, like the zero-initialised table) -/
def meanOf (l : List (Nat × Rat)) : Rat := if l.isEmpty then 0 else sumR l / (l.length : Rat)

/-- sum of squared deviations from the mean -/
def sqDevOf (l : List (Nat × Rat)) : Rat :=
  let m := meanOf l
  sumQ (l.map (fun x => (x.2 - m) * (x.2 - m)))

/-- empirical frequency of next state `i` -/
def freqOf (l : List (Nat × Rat)) (i : Nat) : Rat := (countS1 i l : Rat) / (l.length : Rat)

/-- the row the property demands: frequencies of the absorbed records, or the default unit row -/
def specRow (w dfl : Nat) (g : Ghost) (i : Nat) : Rat :=
  if g.snap.isEmpty then (if i = dfl ∧ i < w then 1 else 0) else freqOf g.snap i

/-! ### Thompson models: what is deterministic about them -/

/-- `sampleDirichletDistribution`: the gamma draws `g` divided by their sum -/
def normalize (g : List Rat) : List Rat := g.map (fun x => x / sumQ g)

/-- reward rule of `ThompsonModel::sync(s,a)`: MLE when fewer than two visits, otherwise
    `mean + t * sd` with `t` the Student-t draw and `sd` the value of the square root (both parameters) -/
def thompsonReward (c : Cell) (t sd : Rat) : Rat := if c.n < 2 then c.mean else c.mean + t * sd


/-- parameters of the Dirichlet posterior of a row: the visit counts plus the Jeffreys prior 1/2
    (`getVisitsTable(a).row(s).array().cast<double>() + 0.5`, `getVisits(s,a,s1) + 0.5`) -/
def dirichletParams (cnt : List Nat) : List Rat := cnt.map (fun (c : Nat) => (c : Rat) + 1 / 2)

/-- the Student-t posterior of the mean reward that `sync` draws from when `visits >= 2`:
    location `mean`, squared scale `M2 / (visits * (visits - 1))`, `visits - 1` degrees of freedom -/
structure TPost where
  loc : Rat
  scale2 : Rat
  dof : Nat
  deriving Repr, BEq, Inhabited

def thompsonPost (c : Cell) : Option TPost :=
  if c.n < 2 then none
  else some { loc := c.mean, scale2 := c.m2 / (((c.n * (c.n - 1) : Nat)) : Rat), dof := c.n - 1 }

/-- `ThompsonModel::sync(s,a)` / `CooperativeThompsonModel::syncRow` as a function of the engine's outputs:
    `gs` the gamma draws (one per next state, in order), `t` the Student-t draw, `sd` the value of the square root -/
def Pair.thompsonSync (p : Pair) (gs : List Rat) (t sd : Rat) : Pair :=
  { p with row := normalize gs, rew := thompsonReward p.cell t sd }


/-! ### the table setters of `Experience` / `SparseExperience`
    (`setVisitsTable`, `setRewardMatrix`, `setM2Matrix`, Eigen-typed and element-wise overloads), restricted to one pair -/

def sumN : List Nat → Nat
  | [] => 0
  | x :: xs => x + sumN xs

/-- experience part of a pair -/
structure EPair where
  cell : Cell
  cnt : List Nat
  deriving Repr, BEq, Inhabited

inductive EOp where
  | record (s1 : Nat) (r : Rat)
  | reset
  /-- `setVisitsTable`: the pair's visit row is replaced, `visitsSum_` becomes the row sum -/
  | setCnt (row : List Nat)
  /-- `setRewardMatrix` -/
  | setMean (m : Rat)
  /-- `setM2Matrix` -/
  | setM2 (m : Rat)
  | nop
  deriving Repr, BEq, Inhabited

/-- element-wise `SparseExperience::setRewardMatrix / setM2Matrix`: an entry is stored only
    `if (checkDifferentSmall(0.0, x))`, i.e. dropped to 0 when `|x| ≤ tol`; every other overload stores `x` -/
def storeTol (tol : Option Rat) (x : Rat) : Rat :=
  match tol with
  | none => x
  | some t => if absQ x ≤ t then 0 else x

def EPair.step (tol : Option Rat) (e : EPair) : EOp → EPair
  | .record s1 r => { cell := e.cell.record r, cnt := bump e.cnt s1 }
  | .reset => { cell := Cell.init, cnt := e.cnt.map (fun _ => 0) }
  | .setCnt row => { cell := { e.cell with n := sumN row }, cnt := row }
  | .setMean m => { e with cell := { e.cell with mean := storeTol tol m } }
  | .setM2 m => { e with cell := { e.cell with m2 := storeTol tol m } }
  | .nop => e

def EPair.run (tol : Option Rat) (e : EPair) (h : List EOp) : EPair := h.foldl (EPair.step tol) e

def EPair.init (w : Nat) : EPair := { cell := Cell.init, cnt := List.replicate w 0 }

/-- the statistics the property demands when prior data was loaded through the setters: sufficient statistics add up -/
def priorN (b : Cell) (l : List (Nat × Rat)) : Nat := b.n + l.length
def priorMean (b : Cell) (l : List (Nat × Rat)) : Rat :=
  if l.isEmpty then b.mean else ((b.n : Rat) * b.mean + sumR l) / ((b.n + l.length : Nat) : Rat)
def sumR2 : List (Nat × Rat) → Rat
  | [] => 0
  | (_, r) :: t => r * r + sumR2 t
def priorM2 (b : Cell) (l : List (Nat × Rat)) : Rat :=
  if l.isEmpty then b.m2
  else b.m2 + (b.n : Rat) * b.mean * b.mean + sumR2 l - ((b.n + l.length : Nat) : Rat) * priorMean b l * priorMean b l

/-- specification side: the pair's state at the last setter/reset (`base`) and the records since -/
structure EGhost where
  base : EPair
  since : List (Nat × Rat)
  deriving Repr, BEq, Inhabited

/-- what the pair must hold now, by the closed forms (no running update) -/
def EGhost.current (w : Nat) (g : EGhost) : EPair :=
  { cell := ⟨priorN g.base.cell g.since, priorMean g.base.cell g.since, priorM2 g.base.cell g.since⟩,
    cnt := (List.range w).map (fun i => nthN g.base.cnt i + countS1 i g.since) }

/-- a setter (or `reset`) is an assignment on the current value and starts a new base -/
def EGhost.step (tol : Option Rat) (w : Nat) (g : EGhost) : EOp → EGhost
  | .record s1 r => { g with since := g.since ++ [(s1, r)] }
  | .nop => g
  | op => { base := (g.current w).step tol op, since := [] }

def EGhost.run (tol : Option Rat) (w : Nat) (g : EGhost) (h : List EOp) : EGhost := h.foldl (EGhost.step tol w) g

def eopWF (w : Nat) : EOp → Bool
  | .setCnt row => row.length == w
  | _ => true

end AITB.Exp
