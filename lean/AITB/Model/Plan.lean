/-
  AITB.Model.Plan — POMDP value functions as executable conditional plans (property C04).
  Core Lean only (the driver is a compiled executable).

  Modelled code (AI-Toolbox):
    include/AIToolbox/POMDP/Types.hpp                      VEntry / VList / ValueFunction
    include/AIToolbox/POMDP/Algorithms/Utils/Projecter.hpp possibleObservations, operator()(w, a)
    src/POMDP/Algorithms/IncrementalPruning.cpp            crossSum (order flag)
    include/AIToolbox/POMDP/Algorithms/IncrementalPruning.hpp   the per-action merge schedule
    include/AIToolbox/POMDP/Utils.hpp                      crossSumBestAtBelief (row form)
    include/AIToolbox/Utils/Polytope.hpp                   dominates, findBestAtPoint (veccmp tie-break)
    include/AIToolbox/Utils/Prune.hpp                      extractDominated
    src/POMDP/Policies/Policy.cpp                          the three sampleAction overloads
    src/POMDP/Algorithms/QMDP.cpp                          fromQFunction

  Numbers are exact rationals (`Rat`); tolerances come from `AITB.Gen.Constants`.
-/
import AITB.Model.Num
import AITB.Gen.Constants
import AITB.Gen.C04

namespace AITB.Plan
open AITB

/-! ## sums and maxima over `i < n` -/

def sumTo : Nat → (Nat → Rat) → Rat
  | 0, _ => 0
  | n+1, f => sumTo n f + f n

def maxQ (a b : Rat) : Rat := if a < b then b else a

/-- maximum of `f 0 … f (n-1)`; for `n = 0` it is `f 0` (never used with `n = 0`) -/
def maxTo : Nat → (Nat → Rat) → Rat
  | 0, f => f 0
  | n+1, f => maxQ (maxTo n f) (f n)

/-! ## the POMDP tables -/

structure Pomdp where
  S : Nat
  A : Nat
  O : Nat
  disc : Rat
  T : Nat → Nat → Nat → Rat      -- T a s s1
  R : Nat → Nat → Rat            -- R s a        (expected immediate reward)
  Ob : Nat → Nat → Nat → Rat     -- Ob a s1 o

/-- tables from the flat lists of the protocol (`putPomdp` order) -/
def Pomdp.ofLists (S A O : Nat) (disc : Rat) (t r ob : List Rat) : Pomdp :=
  let ta := t.toArray; let ra := r.toArray; let oa := ob.toArray
  { S := S, A := A, O := O, disc := disc,
    T := fun a s s1 => ta.getD ((a * S + s) * S + s1) 0,
    R := fun s a => ra.getD (s * A + a) 0,
    Ob := fun a s1 o => oa.getD ((a * S + s1) * O + o) 0 }

/-! ## value functions -/

structure VEntry where
  values : List Rat
  action : Nat
  obs : List Nat
  deriving BEq, Repr, Inhabited, DecidableEq

abbrev VList := List VEntry
/-- `vf[h]` = list of horizon `h`; `vf[0]` is the terminal list (one entry, usually zeros) -/
abbrev VF := List VList

def nilEntry : VEntry := ⟨[], 0, []⟩

def vlist (vf : VF) (h : Nat) : VList := vf.getD h []
def entryAt (l : VList) (id : Nat) : VEntry := l.getD id nilEntry
def entry (vf : VF) (h id : Nat) : VEntry := entryAt (vlist vf h) id

def val (e : VEntry) (s : Nat) : Rat := e.values.getD s 0
def link (e : VEntry) (o : Nat) : Nat := e.obs.getD o 0

/-- `b · v` over `s < S` -/
def dot (S : Nat) (b : Nat → Rat) (v : Nat → Rat) : Rat := sumTo S (fun s => b s * v s)

/-! ## Projecter -/

/-- `checkDifferentSmall(x, 0.0)` -/
def differentSmall0 (x : Rat) : Bool := !(decide (absQ (x - 0) ≤ Gen.equalToleranceSmall))

/-- `Projecter::computePossibleObservations`: some `s` has `Ob(s,a,o)` different from 0 beyond the tolerance -/
def possible (m : Pomdp) (a o : Nat) : Bool :=
  (List.range m.S).any (fun s => differentSmall0 (m.Ob a s o))

/-- `immediateRewards_.row(a)` after the division by `O` -/
def immR (m : Pomdp) (a : Nat) : List Rat := (List.range m.S).map (fun s => m.R s a / (m.O : Rat))

/-- one projected vector: `(T_a * (v ∘ Ob_a(:,o))) * discount + R_a / O` -/
def projVec (m : Pomdp) (a o : Nat) (v : VEntry) : List Rat :=
  (List.range m.S).map (fun s =>
    sumTo m.S (fun s1 => m.T a s s1 * (val v s1 * m.Ob a s1 o)) * m.disc + m.R s a / (m.O : Rat))

/-- `Projecter::operator()(w, a)[o]` -/
def project (m : Pomdp) (w : VList) (a o : Nat) : VList :=
  if possible m a o then
    (List.range w.length).map (fun i => ⟨projVec m a o (entryAt w i), a, [i]⟩)
  else
    [⟨immR m a, a, [Gen.C04.projImpossibleLink]⟩]

/-! ## cross sums -/

def addV : List Rat → List Rat → List Rat
  | x :: xs, y :: ys => (x + y) :: addV xs ys
  | _, _ => []

/-- `IncrementalPruning::crossSum(l1, l2, a, order)` -/
def crossSum (l1 l2 : VList) (a : Nat) (order : Bool) : VList :=
  l1.flatMap (fun v1 => l2.map (fun v2 =>
    ⟨addV v1.values v2.values, a, if order == Gen.C04.crossSumL1First then v1.obs ++ v2.obs else v2.obs ++ v1.obs⟩))

/-! ## the one-step derivation of an entry from its action and links (the property's "genuine plan") -/

/-- value at `s` of: take `e.action`, then on observation `o` follow entry `e.obs[o]` of `prev`.
    Observations the Projecter deems impossible contribute no future value, exactly as in the code. -/
def oneStep (m : Pomdp) (prev : VList) (e : VEntry) (s : Nat) : Rat :=
  m.R s e.action + m.disc * sumTo m.O (fun o =>
    if possible m e.action o then
      sumTo m.S (fun s1 => m.T e.action s s1 * m.Ob e.action s1 o * val (entryAt prev (link e o)) s1)
    else 0)

/-- the same without the tolerance cut (the true expectation) -/
def oneStepExact (m : Pomdp) (prev : VList) (e : VEntry) (s : Nat) : Rat :=
  m.R s e.action + m.disc * sumTo m.O (fun o =>
      sumTo m.S (fun s1 => m.T e.action s s1 * m.Ob e.action s1 o * val (entryAt prev (link e o)) s1))

/-- structural part: action and links in range, sizes right -/
def entryShapeB (m : Pomdp) (prev : VList) (e : VEntry) : Bool :=
  decide (e.action < m.A) && decide (e.obs.length = m.O) && decide (e.values.length = m.S) &&
  (List.range m.O).all (fun o => decide (link e o < prev.length))

/-- numeric part with a comparison `cmp` (exact equality for the theorems, `closeQ tol` in the checker) -/
def entryValsB (cmp : Rat → Rat → Bool) (m : Pomdp) (prev : VList) (e : VEntry) : Bool :=
  (List.range m.S).all (fun s => cmp (val e s) (oneStep m prev e s))

def eqQ (a b : Rat) : Bool := decide (a = b)

def levelB (cmp : Rat → Rat → Bool) (m : Pomdp) (prev cur : VList) : Bool :=
  cur.all (fun e => entryShapeB m prev e && entryValsB cmp m prev e)

/-- walk the value function from horizon 0 upward -/
def consistentFrom (cmp : Rat → Rat → Bool) (m : Pomdp) : VList → List VList → Bool
  | _, [] => true
  | prev, cur :: rest => levelB cmp m prev cur && consistentFrom cmp m cur rest

/-- decidable `Consistent`: links in range at every horizon, every entry is its one-step derivation -/
def consistentB (cmp : Rat → Rat → Bool) (m : Pomdp) : VF → Bool
  | [] => false
  | v0 :: rest => consistentFrom cmp m v0 rest

/-- largest deviation `|values[s] - oneStep|` of one level (for diagnostics) -/
def levelDev (m : Pomdp) (prev cur : VList) : Rat :=
  cur.foldl (fun acc e => (List.range m.S).foldl (fun acc s => maxQ acc (absQ (val e s - oneStep m prev e s))) acc) 0

/-! ## executing the plan -/

/-- reward expected under (unnormalised) belief `b` for action `a` -/
def rewardB (m : Pomdp) (b : Nat → Rat) (a : Nat) : Rat := sumTo m.S (fun s => b s * m.R s a)

/-- unnormalised belief update: `tau b a o s1 = Σ_s b(s) T(s,a,s1) · Ob(s1,a,o)`; its mass is `P(o | b, a)` -/
def tau (m : Pomdp) (b : Nat → Rat) (a o : Nat) : Nat → Rat :=
  fun s1 => sumTo m.S (fun s => b s * m.T a s s1) * m.Ob a s1 o

/-- expected discounted return of: start at entry `id` of horizon `h` with belief `b`, take its action,
    observe `o`, continue with entry `obs[o]` of horizon `h-1`, …; terminal value = the horizon-0 entry.
    Linear in `b`, so the expectation over observations is the sum over unnormalised successor beliefs. -/
def execReturn (m : Pomdp) (vf : VF) : Nat → Nat → (Nat → Rat) → Rat
  | 0, id, b => dot m.S b (val (entry vf 0 id))
  | h+1, id, b =>
    let e := entry vf (h+1) id
    rewardB m b e.action + m.disc * sumTo m.O (fun o => execReturn m vf h (link e o) (tau m b e.action o))

/-- a belief given as a list, read as a function -/
def ofList (l : List Rat) : Nat → Rat := fun s => l.getD s 0

/-- `tau` on list beliefs: the successor belief is materialised (a chain of `tau` closures would be re-evaluated
    exponentially often in the horizon) -/
def tauL (m : Pomdp) (b : List Rat) (a o : Nat) : List Rat := (List.range m.S).map (tau m (ofList b) a o)

/-- `execReturn` on list beliefs: what the driver runs (`execFast_eq`) -/
def execFast (m : Pomdp) (vf : VF) : Nat → Nat → List Rat → Rat
  | 0, id, b => dot m.S (ofList b) (val (entry vf 0 id))
  | h+1, id, b =>
    let e := entry vf (h+1) id
    rewardB m (ofList b) e.action + m.disc * sumTo m.O (fun o => execFast m vf h (link e o) (tauL m b e.action o))

/-- the POMDP as the Projecter sees it: observation columns it deems impossible carry no mass -/
def cutModel (m : Pomdp) : Pomdp :=
  { m with Ob := fun a s o => if possible m a o then m.Ob a s o else 0 }

/-! ## Policy -/

/-- lexicographic `veccmp(l, r) > 0` on the first `S` components -/
def vecGt (S : Nat) (l r : VEntry) : Bool :=
  go (List.range S)
where go : List Nat → Bool
  | [] => false
  | s :: rest => if val l s = val r s then go rest else decide (val r s < val l s)

/-- `findBestAtPoint(b, begin, end, &value, unwrap)`: running best with the `veccmp` tie-break;
    returns (index, value).  Scans `l` from index `i`. -/
def bestScan (S : Nat) (b : Nat → Rat) (l : VList) : List VEntry → Nat → Nat → Rat → Nat × Rat
  | [], _, best, bv => (best, bv)
  | e :: rest, i, best, bv =>
    let cv := dot S b (val e)
    if bv < cv || (cv = bv && vecGt S e (entryAt l best)) then bestScan S b l rest (i+1) i cv
    else bestScan S b l rest (i+1) best bv

def bestAtPoint (S : Nat) (b : Nat → Rat) (l : VList) : Nat × Rat :=
  match l with
  | [] => (0, 0)
  | e :: rest => bestScan S b l rest 1 0 (dot S b (val e))

/-- `Policy::sampleAction(b, horizon)` → (action, id) -/
def sampleActionB (m : Pomdp) (vf : VF) (b : Nat → Rat) (h : Nat) : Nat × Nat :=
  let id := (bestAtPoint m.S b (vlist vf h)).1
  ((entry vf h id).action, id)

/-- `Policy::sampleAction(id, o, horizon)` → (action, newId): `newId = policy[horizon+K][id].observations[o]`
    (K = 1, read from the source), `action = policy[horizon][newId].action` -/
def sampleActionIdO (vf : VF) (id o h : Nat) : Nat × Nat :=
  let newId := link (entry vf (h + Gen.C04.policyLinkLevel) id) o
  ((entry vf h newId).action, newId)

/-- range-checked version used to decide whether the C++ call is defined -/
def sampleActionIdO? (vf : VF) (id o h : Nat) : Option (Nat × Nat) :=
  if id < (vlist vf (h + Gen.C04.policyLinkLevel)).length ∧ o < (entry vf (h + Gen.C04.policyLinkLevel) id).obs.length then
    let newId := link (entry vf (h + Gen.C04.policyLinkLevel) id) o
    if newId < (vlist vf h).length then some ((entry vf h newId).action, newId) else none
  else none

/-- follow one observation history from entry `id` at horizon `h`; the list of (action, id) visited -/
def follow (vf : VF) : Nat → Nat → List Nat → List (Nat × Nat)
  | 0, _, _ => []
  | _, _, [] => []
  | h+1, id, o :: os =>
    let r := sampleActionIdO vf id o h
    r :: follow vf h r.2 os

/-- depth-first replay of ALL observation histories from `(h, id)`: the (action, id) sequence in DFS order -/
def replayAll (O : Nat) (vf : VF) : Nat → Nat → List (Nat × Nat)
  | 0, _ => []
  | h+1, id => (List.range O).flatMap (fun o =>
      let r := sampleActionIdO vf id o h
      r :: replayAll O vf h r.2)

/-! ## one-step look-ahead on the value function's own envelope, and the optimal value -/

def envV (S : Nat) (l : VList) (b : Nat → Rat) : Rat := maxTo l.length (fun id => dot S b (val (entryAt l id)))

def qVF (m : Pomdp) (prev : VList) (b : Nat → Rat) (a : Nat) : Rat :=
  rewardB m b a + m.disc * sumTo m.O (fun o => envV m.S prev (tau m b a o))

/-- finite-horizon optimal value with terminal value `term` (expectimax on unnormalised beliefs) -/
def optV (m : Pomdp) (term : (Nat → Rat) → Rat) : Nat → (Nat → Rat) → Rat
  | 0, b => term b
  | h+1, b => maxTo m.A (fun a => rewardB m b a + m.disc * sumTo m.O (fun o => optV m term h (tau m b a o)))

def optQ (m : Pomdp) (term : (Nat → Rat) → Rat) (h : Nat) (b : Nat → Rat) (a : Nat) : Rat :=
  rewardB m b a + m.disc * sumTo m.O (fun o => optV m term h (tau m b a o))

/-! ## QMDP -/

/-- `QMDP::fromQFunction(O, qfun)`: one entry per action, values = column of Q, every link 0 -/
def fromQFunction (S A O : Nat) (q : Nat → Nat → Rat) : VList :=
  (List.range A).map (fun a => ⟨(List.range S).map (fun s => q s a), a, List.replicate O 0⟩)

end AITB.Plan
