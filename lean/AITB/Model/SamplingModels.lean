/-
  AITB.Model.SamplingModels — model objects' sampling functions as executable compositions of the
  samplers in AITB.Model.Sampling (property C08, round 2).  Core Lean only.

  * MDP::SparseModel::sampleSR, POMDP::SparseModel::sampleSOR / sampleOR over the STORED entries of the
    sparse rows (the scan the code runs), not over a dense expansion;
  * Factored::MDP::CooperativeModel::sampleSR / sampleSRs: the DDN row id (`DDNGraph::getId`:
    action id of the feature's agents tag selects a parent set, `startIds_` prefix sums + partial
    state index), one dense scan per state factor, and the factored reward
    (`FactoredMatrix2D::getValue` / the per-basis rewards of `sampleSRs`);
  * the gamma-based samplers of Utils/Probability.hpp (`sampleDirichletDistribution`,
    `sampleBetaDistribution`) as functions of the gamma draws (libstdc++'s gamma sampler is not
    modelled: the draws are parameters, assumed positive and finite).
-/
import AITB.Model.Sampling
import AITB.Model.Factored

namespace AITB.Sampling
open AITB.Factored

/-! ## sparse model objects (stored rows: column/value lists in column order) -/

/-- `MDP::SparseModel::sampleSR(s,a)`: `sampleProbability(S, transitions_[a].row(s), rand_)`, reward `rewards_.coeff(s,a)` -/
def sampleSRSparse (S : Nat) (T : Nat → Nat → List (Nat × Rat)) (R : Nat → Nat → Rat) (s a : Nat) (u : Rat) : Nat × Rat :=
  (sampleSparseFixed S (T a s) u, R s a)

/-- `POMDP::SparseModel::sampleSOR(s,a)`: the MDP part's `sampleSR`, then the observation from the stored row
    `observations_[a].row(s1)` of the SAMPLED next state with a second draw (the POMDP part's own engine) -/
def sampleSORSparse (S O : Nat) (T Ob : Nat → Nat → List (Nat × Rat)) (R : Nat → Nat → Rat) (s a : Nat) (u1 u2 : Rat) :
    Nat × Nat × Rat :=
  let (s1, r) := sampleSRSparse S T R s a u1
  (s1, sampleSparseFixed O (Ob a s1) u2, r)

/-- `POMDP::SparseModel::sampleOR(s,a,s1)`: observation from row `(a, s1)`, reward `getExpectedReward(s,a,s1) = R s a` -/
def sampleORSparse (O : Nat) (Ob : Nat → Nat → List (Nat × Rat)) (R : Nat → Nat → Rat) (s a s1 : Nat) (u : Rat) : Nat × Rat :=
  (sampleSparseFixed O (Ob a s1) u, R s a)

/-! ## Factored::MDP::CooperativeModel -/

/-- `DDNGraph::ParentSet`: the agents whose joint action selects a parent set, and one feature tag per joint action of those agents -/
structure ParentSet where
  agents : List Nat
  features : List (List Nat)
  deriving Repr

/-- `startIds_[feature]` as built by `DDNGraph::push` (running sum `newStartId += factorSpacePartial(features[i], S)`,
    then the total): entry `i` is the sum of the sizes of the first `i` parent sets -/
def ddnStartIds (S : List Nat) (ps : ParentSet) : List Nat :=
  (List.range (ps.features.length + 1)).map (fun i => ((ps.features.take i).map (fun f => spacePartial f S)).sum)

/-- `DDNGraph::getIds(feature, s, a)`: (parentId, actionId) -/
def ddnGetIds (S A : List Nat) (ps : ParentSet) (s a : List Nat) : Nat × Nat :=
  let actionId := toIndexPartial ps.agents A a
  (toIndexPartial (ps.features.getD actionId []) S s, actionId)

/-- `DDNGraph::getId(feature, s, a) = startIds_[feature][actionId] + parentId` -/
def ddnGetId (S A : List Nat) (ps : ParentSet) (s a : List Nat) : Nat :=
  let (parentId, actionId) := ddnGetIds S A ps s a
  (ddnStartIds S ps).getD actionId 0 + parentId

/-- `DDNGraph::getSize(feature)` = last entry of `startIds_` = number of rows of the feature's transition matrix -/
def ddnSize (S : List Nat) (ps : ParentSet) : Nat := (ps.features.map (fun f => spacePartial f S)).sum

/-- one basis of a `FactoredMatrix2D`: state tag, action tag, values(fid, aid) -/
structure Basis2D where
  tag : List Nat
  actionTag : List Nat
  values : List (List Rat)
  deriving Repr

def basisValue (S A : List Nat) (b : Basis2D) (s a : List Nat) : Rat :=
  (b.values.getD (toIndexPartial b.tag S s) []).getD (toIndexPartial b.actionTag A a) 0

/-- `FactoredMatrix2D::getValue(S, A, s, a)`: `retval = 0; for e in bases: retval += e.values(fid, aid)` -/
def factoredReward (S A : List Nat) (bases : List Basis2D) (s a : List Nat) : Rat :=
  bases.foldl (fun acc b => acc + basisValue S A b s a) 0

/-- the transition part shared by `sampleSR` and `sampleSRs`:
    `for i: j = graph_.getId(i, s, a); s1[i] = sampleProbability(S[i], tProbs[i].row(j), rand_)`
    (`T i` = rows of `transitions[i]`; the draws are consumed in factor order) -/
def coopSampleS (S A : List Nat) (parents : List ParentSet) (T : List (List (List Rat))) (s a : List Nat) (us : List Rat) : List Nat :=
  List.zipWith (fun (pt : ParentSet × List (List Rat)) u => sampleDense (pt.2.getD (ddnGetId S A pt.1 s a) []) u)
    (parents.zip T) us

/-- `CooperativeModel::sampleSR(s, a)` -/
def coopSampleSR (S A : List Nat) (parents : List ParentSet) (T : List (List (List Rat))) (bases : List Basis2D)
    (s a : List Nat) (us : List Rat) : List Nat × Rat :=
  (coopSampleS S A parents T s a us, factoredReward S A bases s a)

/-- `CooperativeModel::sampleSRs(s, a)`: same next state, one reward per basis -/
def coopSampleSRs (S A : List Nat) (parents : List ParentSet) (T : List (List (List Rat))) (bases : List Basis2D)
    (s a : List Nat) (us : List Rat) : List Nat × List Rat :=
  (coopSampleS S A parents T s a us, bases.map (fun b => basisValue S A b s a))

/-! ## gamma-based samplers (functions of the gamma draws) -/

/-- `sampleDirichletDistribution(params, gen, out)`: `out[i] = gamma(params[i],1)(gen); sum += out[i]; out /= sum` -/
def dirichletFromGammas (gs : List Rat) : List Rat := gs.map (fun g => g / gs.sum)

/-- `sampleBetaDistribution(a, b, gen)`: `X = gamma(a,1)(gen); Y = gamma(b,1)(gen); return X / (X + Y)` -/
def betaFromGammas (x y : Rat) : Rat := x / (x + y)

end AITB.Sampling
