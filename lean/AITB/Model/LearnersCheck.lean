/-
  AITB.Model.LearnersCheck — decidable checkers (L3) for property C11, evaluated by the driver on the
  implementation's exact outputs.  Core Lean only.  Soundness statements live in AITB.Props.C11Check.
-/
import AITB.Model.Learners
namespace AITB.Learn

/-- the hull interval `[min(rmin,0), max(rmax,0)]/(1-γ)` written with `if` (core Lean) -/
def loC (rmin γ : Rat) : Rat := (if rmin < 0 then rmin else 0) / (1 - γ)
def hiC (rmax γ : Rat) : Rat := (if 0 < rmax then rmax else 0) / (1 - γ)

/-- every entry of the `S×A` table (given as rows) lies in `[lo - slack, hi + slack]` -/
def rowsWithin (lo hi slack : Rat) (rows : List (List Rat)) : Bool :=
  rows.all (fun row => row.all (fun x => decide (lo - slack ≤ x) && decide (x ≤ hi + slack)))

/-- first entry outside the interval, for the verdict message -/
def firstOutside (lo hi slack : Rat) (rows : List (List Rat)) : Option (Nat × Nat × Rat) :=
  let flat := (rows.zipIdx).flatMap (fun (row, s) => (row.zipIdx).map (fun (x, a) => (s, a, x)))
  flat.find? (fun (_, _, x) => !(decide (lo - slack ≤ x) && decide (x ≤ hi + slack)))

/-- trace list checker: every eligibility in `[tol, 1]`, no pair stored twice -/
def tracesInRange (tol : Rat) (tr : List Tr) : Bool := tr.all (fun t => decide (tol ≤ t.el) && decide (t.el ≤ 1))

def keysNodup : List (Nat × Nat) → Bool
  | [] => true
  | k :: ks => !(ks.contains k) && keysNodup ks

def tracesNodup (tr : List Tr) : Bool := keysNodup (tr.map (fun t => (t.s, t.a)))

/-- Bellman optimality residual of a table on an explicit MDP: max over S×A of |Q − (R + γ T max Q)| -/
def bellmanResidual (m : MDP) (q : QF) : Rat :=
  ((List.range m.S).flatMap (fun s => (List.range m.A).map (fun a =>
      absR (q s a - (m.R s a + m.γ * sumTo m.S (fun s1 => m.T s a s1 * maxA m.A (q s1))))))).foldl
    (fun acc x => if acc < x then x else acc) 0

end AITB.Learn
