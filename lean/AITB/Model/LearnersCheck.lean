/-
  AITB.Model.LearnersCheck — decidable checkers (L3) for property C11, evaluated by the driver on the
  implementation's exact outputs.  Core Lean only.  Soundness statements live in AITB.Props.C11Check.
-/
import AITB.Model.Learners
import AITB.Gen.C11Guards
namespace AITB.Learn

/-- the hull interval `[min(rmin,0), max(rmax,0)]/(1-γ)` written with `if` (core Lean) -/
def loC (rmin γ : Rat) : Rat := (if rmin < 0 then rmin else 0) / (1 - γ)
def hiC (rmax γ : Rat) : Rat := (if 0 < rmax then rmax else 0) / (1 - γ)

/-- every entry of the `S×A` table (given as rows) lies in `[lo - slack, hi + slack]` -/
def rowsWithin (lo hi slack : Rat) (rows : List (List Rat)) : Bool :=
  rows.all (fun row => row.all (fun x => decide (lo - slack ≤ x) && decide (x ≤ hi + slack)))

/-- first entry outside the interval, for the verdict message -/
def firstOutside (lo hi slack : Rat) (rows : List (List Rat)) : Option (Nat × Nat × Rat) :=
  let flat := (rows.zipIdx).flatMap (fun (row, s) => (row.zipIdx).map (fun (x, a) => (s, a, x)))
  flat.find? (fun (_, _, x) => !(decide (lo - slack ≤ x) && decide (x ≤ hi + slack)))

/-- policy rows (as lists) are non-negative and sum to at most one: the hypothesis of the sub-stochastic bounds theorems,
    checked by the driver on the policy it computed -/
def subDistRows (rows : List (List Rat)) : Bool :=
  rows.all (fun r => r.all (fun x => decide (0 ≤ x)) && decide (r.foldl (· + ·) 0 ≤ 1))

/-- trace list checker: every eligibility in `[tol, 1]`, no pair stored twice -/
def tracesInRange (tol : Rat) (tr : List Tr) : Bool := tr.all (fun t => decide (tol ≤ t.el) && decide (t.el ≤ 1))

def keysNodup : List (Nat × Nat) → Bool
  | [] => true
  | k :: ks => !(ks.contains k) && keysNodup ks

def tracesNodup (tr : List Tr) : Bool := keysNodup (tr.map (fun t => (t.s, t.a)))

/-- Bellman optimality residual of a table on an explicit MDP: max over S×A of |Q − (R + γ T max Q)| -/
def bellmanResidual (m : MDP) (q : QF) : Rat :=
  ((List.range m.S).flatMap (fun s => (List.range m.A).map (fun a =>
      absR (q s a - (m.R s a + m.γ * sumTo m.S (fun s1 => m.T s a s1 * maxA m.A (q s1))))))).foldl
    (fun acc x => if acc < x then x else acc) 0

/-- The NON-Eigen branch of `PrioritizedSweeping::stepUpdateQ` computes
    `Σ_{s1 : checkDifferentSmall(T(s,a,s1), 0)} T(s,a,s1) * (R(s,a,s1) + γ V(s1))`, i.e. it is the Eigen branch (`psStep`) run on
    the MDP whose transitions of probability `≤ PrioritizedSweeping_generic_skip_tolerance` (re-extracted from the source: 1e-6
    for `checkDifferentSmall(p, 0.0)`, 0 for `p != 0.0`) have been removed (rows then sum to less than one)
    and whose expected reward is taken over the remaining transitions.  `R3 s a s1` is `getExpectedReward(s,a,s1)`. -/
def truncMDP (S A : Nat) (γ : Rat) (T R3 : Nat → Nat → Nat → Rat) : MDP :=
  let T' := fun s a s1 => if absR (T s a s1 - 0) ≤ AITB.Gen.C11.PrioritizedSweeping_generic_skip_tolerance then 0 else T s a s1
  { S := S, A := A, γ := γ, T := T', R := fun s a => sumTo S (fun s1 => T' s a s1 * R3 s a s1) }

/-- `stepUpdateQ` with the backup taken on `mb` and the parent loop on `mq`.  The Eigen branch is `psStepG m m` (= `psStep m`);
    the generic branch is `psStepG (truncMDP …) m`: its backup skips small transitions but its parent loop
    (`p * model_.getTransitionProbability(ss,a,s) > theta_`) does not. -/
def psStepG (mb mq : MDP) (θ : Rat) (st : PS) (s a : Nat) : PS :=
  let q' := upd st.q s a (mb.R s a + sumTo mb.S (fun s1 => mb.T s a s1 * (st.v s1 * mb.γ)))
  let vs := maxA mb.A (q' s)
  let p := absR (vs - st.v s)
  let v' := fun x => if x = s then vs else st.v x
  { q := q', v := v', queue := parentLoop mq θ p s st.queue, done := (s, a) :: st.done }

theorem psStepG_self (m : MDP) (θ : Rat) (st : PS) (s a : Nat) : psStepG m m θ st s a = psStep m θ st s a := rfl

end AITB.Learn
