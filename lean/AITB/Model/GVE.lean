/-
  AITB.Model.GVE — generic model of GenericVariableElimination<Factor>::operator() / removeFactor
  with the `global` callback structure as a record of functions, instantiated for
  MultiObjectiveVariableElimination (MOVE).  Also: UCVE::makeResult.  Core Lean only.

  The control flow is the one of GenericVariableElimination.hpp (with `mergeFactors` present):
    for every joint value of the neighbours (jvID = 0,1,…):
      initNewFactor
      for every action of the agent: beginCrossSum;
          for every adjacent factor: beginFactorCrossSum; lookup rule by partial index -> crossSum; endFactorCrossSum
        endCrossSum
      if isValidNewFactor: merge into the neighbours' factor at jvID (or push to finalFactors)
    erase the agent
  `VariableElimination` itself is modelled separately (VETable.lean, same loop, specialised).
-/
import AITB.Model.Num
import AITB.Model.Factored
import AITB.Model.VE
import AITB.Model.VETable
namespace AITB.VE
open AITB.Factored

structure GNode (F : Type) where
  keys : List Nat
  rules : List (Nat × F)

/-- the `global` structure: mutable state `σ` + the callbacks GVE invokes -/
structure Callbacks (F σ : Type) where
  beginRemoval : List (GNode F) → List (GNode F) → Nat → σ → σ
  initNewFactor : σ → σ
  beginCrossSum : Nat → σ → σ
  beginFactorCrossSum : σ → σ
  crossSum : F → σ → σ
  endFactorCrossSum : σ → σ
  endCrossSum : σ → σ
  isValidNewFactor : σ → Bool
  newFactor : σ → F
  mergeFactors : F → F → F

structure GState (F σ : Type) where
  graph : List (GNode F)
  finals : List F
  glob : σ

section generic
variable {F σ : Type} (cb : Callbacks F σ) (A : List Nat) (n : Nat)

def gLookup (id : Nat) : List (Nat × F) → Option F
  | [] => none
  | r :: rs => if r.1 < id then gLookup id rs else if r.1 == id then some r.2 else none

def gMergeRule (id : Nat) (f : F) : List (Nat × F) → List (Nat × F)
  | [] => [(id, f)]
  | r :: rs =>
    if r.1 < id then r :: gMergeRule id f rs
    else if r.1 == id then (r.1, cb.mergeFactors r.2 f) :: rs
    else (id, f) :: r :: rs

def gAddToNode (keys : List Nat) (id : Nat) (f : F) : List (GNode F) → List (GNode F)
  | [] => [⟨keys, [(id, f)]⟩]
  | nd :: g => if nd.keys == keys then ⟨nd.keys, gMergeRule cb id f nd.rules⟩ :: g else nd :: gAddToNode keys id f g

def gCrossFactors (x : Asg) : List (GNode F) → σ → σ
  | [], s => s
  | nd :: fs, s =>
    let s := cb.beginFactorCrossSum s
    let s := match gLookup (toIndexPartial nd.keys A (listOf n x)) nd.rules with
      | some f => cb.crossSum f s
      | none => s
    gCrossFactors x fs (cb.endFactorCrossSum s)

def gOverActions (nb jv : List Nat) (v : Nat) (factors : List (GNode F)) : Nat → Nat → σ → σ
  | 0, _, s => s
  | cnt+1, k, s =>
    let s := cb.beginCrossSum k s
    let s := gCrossFactors cb A n (jvAsg nb jv v k) factors s
    gOverActions nb jv v factors cnt (k+1) (cb.endCrossSum s)

def gRemoveLoop (nb : List Nat) (v : Nat) (factors : List (GNode F)) : Nat → Nat → GState F σ → GState F σ
  | 0, _, st => st
  | cnt+1, jvID, st =>
    let jv := toFactors (sel nb A) jvID
    let s := gOverActions cb A n nb jv v factors (A.getD v 0) 0 (cb.initNewFactor st.glob)
    let st' : GState F σ :=
      if cb.isValidNewFactor s then
        if nb.isEmpty then { st with finals := st.finals ++ [cb.newFactor s], glob := s }
        else { st with graph := gAddToNode cb nb jvID (cb.newFactor s) st.graph, glob := s }
      else { st with glob := s }
    gRemoveLoop nb v factors cnt (jvID+1) st'

def gRemoveVar (v : Nat) (st : GState F σ) : GState F σ :=
  let factors := st.graph.filter (fun nd => nd.keys.contains v)
  let nb := nbrs n v (st.graph.map (·.keys))
  let s := cb.beginRemoval st.graph factors v st.glob
  let g := if nb.isEmpty || st.graph.any (fun nd => nd.keys == nb) then st.graph else st.graph ++ [⟨nb, []⟩]
  let st1 := gRemoveLoop cb A n nb v factors (spacePartial nb A) 0 { st with graph := g, glob := s }
  { st1 with graph := st1.graph.filter (fun nd => !nd.keys.contains v) }

def gLoop : Nat → List Nat → GState F σ → GState F σ
  | 0, _, st => st
  | _, [], st => st
  | fuel+1, active, st =>
    let v := bestVar A n active (st.graph.map (·.keys))
    gLoop fuel (active.filter (· != v)) (gRemoveVar cb A n v st)

/-- `gve(A, graph, global)` up to (not including) `makeResult` -/
def gRun (graph : List (GNode F)) (s0 : σ) : GState F σ :=
  gLoop cb A n n (List.range n) ⟨graph, [], s0⟩

end generic

/-! ## MultiObjectiveVariableElimination -/

structure MEntry where
  vals : List Rat
  tag : List (Nat × Nat)      -- PartialAction, keys ascending
  deriving Repr, BEq

abbrev MFactor := List MEntry

def vecAdd : List Rat → List Rat → List Rat
  | a :: as, b :: bs => (a + b) :: vecAdd as bs
  | _, _ => []

/-- `crossSumF(lhs, rhs)` (an empty side is the neutral element) -/
def mCrossSumF (lhs rhs : MFactor) : MFactor :=
  if lhs.isEmpty then rhs else if rhs.isEmpty then lhs else
  lhs.flatMap (fun l => rhs.map (fun r => ⟨vecAdd l.vals r.vals, mergePF l.tag r.tag⟩))

/-- insert `(agent, action)` at its sorted position (`endCrossSum`) -/
def insTag (agent action : Nat) : List (Nat × Nat) → List (Nat × Nat)
  | [] => [(agent, action)]
  | t :: ts => if t.1 < agent then t :: insTag agent action ts else (agent, action) :: t :: ts

structure MGlob where
  agent : Nat := 0
  agentAction : Nat := 0
  newFactor : MFactor := []
  newCrossSum : MFactor := []
  newFactorCrossSum : MFactor := []

/-- MOVE's callbacks.  `keep = false`: the code as written — an action for which nothing matched (newCrossSum
    empty) is DROPPED.  `keep = true`: the repaired code (fixes/C13-2) — it contributes the zero vector of `nobj`
    objectives.  The driver selects the variant from the translator fact `AITB.Gen.moveKeepsUnmatched`. -/
def moveCBWith (keep : Bool) (nobj : Nat) : Callbacks MFactor MGlob where
  beginRemoval := fun _ _ v s => { s with agent := v }
  initNewFactor := fun s => { s with newFactor := [] }
  beginCrossSum := fun k s => { s with newCrossSum := [], agentAction := k }
  beginFactorCrossSum := fun s => { s with newFactorCrossSum := [] }
  crossSum := fun f s => { s with newFactorCrossSum := s.newFactorCrossSum ++ mCrossSumF s.newCrossSum f }
  endFactorCrossSum := fun s => if s.newFactorCrossSum.isEmpty then s else { s with newCrossSum := s.newFactorCrossSum }
  endCrossSum := fun s =>
    let s := if keep && s.newCrossSum.isEmpty && nobj > 0 then { s with newCrossSum := [⟨List.replicate nobj 0, []⟩] } else s
    if s.newCrossSum.isEmpty then s else
    { s with newFactor := s.newFactor ++ s.newCrossSum.map (fun e => { e with tag := insTag s.agent s.agentAction e.tag }) }
  isValidNewFactor := fun s => !s.newFactor.isEmpty
  newFactor := fun s => s.newFactor
  mergeFactors := mCrossSumF

def moveCB : Callbacks MFactor MGlob := moveCBWith false 0

structure MRuleT where
  keys : List Nat
  vals : List Nat
  values : List Rat

/-- graph construction of `operator()(A, rules)`: accumulate into entry 0 on collision -/
def mInsert (id : Nat) (values : List Rat) : List (Nat × MFactor) → List (Nat × MFactor)
  | [] => [(id, [⟨values, []⟩])]
  | r :: rs =>
    if r.1 < id then r :: mInsert id values rs
    else if r.1 == id then
      (r.1, match r.2 with | e :: es => { e with vals := vecAdd e.vals values } :: es | [] => [⟨values, []⟩]) :: rs
    else (id, [⟨values, []⟩]) :: r :: rs

def mAdd (keys : List Nat) (id : Nat) (values : List Rat) : List (GNode MFactor) → List (GNode MFactor)
  | [] => [⟨keys, [(id, [⟨values, []⟩])]⟩]
  | nd :: g => if nd.keys == keys then ⟨nd.keys, mInsert id values nd.rules⟩ :: g else nd :: mAdd keys id values g

def mInit (A : List Nat) : List MRuleT → List (GNode MFactor) → List (GNode MFactor)
  | [], g => g
  | r :: rs, g => mInit A rs (mAdd r.keys (toIndexPartialPF A r.keys r.vals) r.values g)

/-- `Global::makeResult` before the final `extractDominated`: cross-sum of all final factors -/
def mFinalCross (finals : List MFactor) : MFactor := finals.foldl mCrossSumF []

/-- MOVE as the code runs it; the closing `extractDominated` is modelled by its specification
    (keep the value vectors not weakly dominated by a different one; C12 covers the routine itself) -/
def moveRunWith (keep : Bool) (nobj : Nat) (A : List Nat) (rules : List MRuleT) : MFactor :=
  let st := gRun (moveCBWith keep nobj) A A.length (mInit A rules []) {}
  mFinalCross st.finals

def moveValuesWith (keep : Bool) (nobj : Nat) (A : List Nat) (rules : List MRuleT) : List (List Rat) :=
  paretoFront ((moveRunWith keep nobj A rules).map (·.vals)).eraseDups

/-- the code as written -/
def moveRun (A : List Nat) (rules : List MRuleT) : MFactor := moveRunWith false 0 A rules
def moveValues (A : List Nat) (rules : List MRuleT) : List (List Rat) := moveValuesWith false 0 A rules

/-- the specification: value vector of a joint action -/
def mPayoff (nobj : Nat) (rules : List MRuleT) (x : Asg) : List Rat :=
  rules.foldl (fun acc r => if matchKV r.keys r.vals x then vecAdd acc r.values else acc) (List.replicate nobj 0)

def moveSpec (A : List Nat) (nobj : Nat) (rules : List MRuleT) : List (List Rat) :=
  paretoFront (((allActs A).map (fun a => mPayoff nobj rules (asgOf a))).eraseDups)

/-! ## UCVE::makeResult

`gt e1 e2` stands for `computeValue(e1, 0, logtA12) > computeValue(e2, 0, logtA12)`; the driver and the
theorems instantiate it with the exact comparison `sqrtGt`. -/

structure UEntry where
  m : Rat
  n : Rat
  tag : List (Nat × Nat)
  deriving Repr, BEq

/-- `max_element_unary`: first maximum (strict `>` update) -/
def firstMax (gt : UEntry → UEntry → Bool) : UEntry → List UEntry → UEntry
  | best, [] => best
  | best, e :: es => if gt e best then firstMax gt e es else firstMax gt best es

/-- `Global::makeResult` as written: per final factor pick the best entry, add values, write tags -/
def ucveMakeResult (gt : UEntry → UEntry → Bool) : List (List UEntry) → Rat × Rat × List (Nat × Nat)
  | [] => (0, 0, [])
  | [] :: fs => ucveMakeResult gt fs
  | (e :: es) :: fs =>
    let b := firstMax gt e es
    let r := ucveMakeResult gt fs
    (b.m + r.1, b.n + r.2.1, b.tag ++ r.2.2)

/-- exact version of `computeValue(e1,0,h) > computeValue(e2,0,h)`:  m1 + sqrt(n1 h) > m2 + sqrt(n2 h) -/
def uGt (h : Rat) (e1 e2 : UEntry) : Bool := sqrtGt (e2.m - e1.m) (e1.n * h) (e2.n * h)

end AITB.VE
