/-
  AITB.Model.PlanOps — the kernels that move or assemble whole VEntries (property C04). Core Lean only.

    include/AIToolbox/Utils/Polytope.hpp   dominates, findBestAtSimplexCorner, extractBestAtPoint
    include/AIToolbox/Utils/Prune.hpp      extractDominated, Pruner::operator() (LP = oracle parameter)
    include/AIToolbox/POMDP/Algorithms/IncrementalPruning.hpp   the merge schedule (front/back/stepsize/diff)
    include/AIToolbox/POMDP/Utils.hpp      crossSumBestAtBelief (row form)
-/
import AITB.Model.Plan

namespace AITB.Plan
open AITB

/-! ## dominates -/

def minQ (a b : Rat) : Rat := if b < a then b else a

/-- `dominates(lhs, rhs)`: all components within the absolute tolerance, or all within the relative one -/
def dominates (S : Nat) (l r : VEntry) : Bool :=
  (List.range S).all (fun s => decide (-Gen.equalToleranceSmall ≤ val l s - val r s)) ||
  (List.range S).all (fun s => decide (-(minQ (val l s) (val r s)) * Gen.equalToleranceGeneral ≤ val l s - val r s))

/-! ## extractDominated: positions in an array, `iter_swap` = `swapIfInBounds` -/

def at' (arr : Array VEntry) (i : Nat) : VEntry := arr.getD i nilEntry

/-- the inner `while (helper != optEnd)` loop; `k` = remaining iterations, `helper` (after `--helper`) = `optEnd + k` -/
def xdInner (S optEnd : Nat) : Nat → Array VEntry → Nat → Nat → Array VEntry × Nat × Nat
  | 0, arr, target, en => (arr, target, en)
  | k+1, arr, target, en =>
    let helper := optEnd + k
    if dominates S (at' arr helper) (at' arr target) then
      xdInner S optEnd k (arr.swapIfInBounds target (en - 1)) helper (en - 1)
    else xdInner S optEnd k arr target en

/-- the outer `while (optEnd < end)` loop (fuel ≥ end - optEnd) -/
def xdLoop (S : Nat) : Nat → Array VEntry → Nat → Nat → Array VEntry × Nat
  | 0, arr, _, en => (arr, en)
  | f+1, arr, optEnd, en =>
    if optEnd < en then
      let target := en - 1
      if (List.range optEnd).any (fun i => dominates S (at' arr i) (at' arr target)) then
        xdLoop S f arr optEnd (en - 1)
      else
        let r := xdInner S optEnd (target - optEnd) arr target en
        xdLoop S f (r.1.swapIfInBounds r.2.1 optEnd) (optEnd + 1) r.2.2
    else (arr, en)

/-- `extractDominated(begin, end, unwrap)` on an array: (permuted array, new end) -/
def extractDominatedArr (S : Nat) (arr : Array VEntry) (en : Nat) : Array VEntry × Nat :=
  if en < 2 then (arr, en) else xdLoop S en arr 0 en

def extractDominated (S : Nat) (l : VList) : VList :=
  let r := extractDominatedArr S l.toArray l.length
  r.1.toList.take r.2

/-- multiset inclusion of whole entries (the driver's "moved whole" clause on the implementation's kept prefix):
    `out` can be obtained from `inp` by deleting entries -/
def subMultiset : List VEntry → List VEntry → Bool
  | [], _ => true
  | e :: out, inp => if inp.contains e then subMultiset out (inp.erase e) else false

/-! ## Pruner::operator() with the LP as an oracle -/

/-- `findBestAtSimplexCorner(s, begin, end)` over positions `[0, en)` of the array: running best with veccmp tie-break -/
def bestCornerScan (S s : Nat) (arr : Array VEntry) : Nat → Nat → Nat → Nat
  | 0, _, best => best
  | k+1, i, best =>
    let cv := val (at' arr i) s
    let bv := val (at' arr best) s
    if bv < cv || (cv = bv && vecGt S (at' arr i) (at' arr best)) then bestCornerScan S s arr k (i+1) i
    else bestCornerScan S s arr k (i+1) best

/-- `extractBestAtSimplexCorners(S, begin, bound, end)` -/
def cornersLoop (S : Nat) (en : Nat) : List Nat → Array VEntry → Nat → Array VEntry × Nat
  | [], arr, bound => (arr, bound)
  | s :: rest, arr, bound =>
    let best := bestCornerScan S s arr (en - 1) 1 0
    if bound ≤ best then cornersLoop S en rest (arr.swapIfInBounds best bound) (bound + 1)
    else cornersLoop S en rest arr bound

/-- position of the best entry at belief `b` within `[lo, en)` (findBestAtPoint on that sub-range) -/
def bestInRange (S : Nat) (b : Nat → Rat) (arr : Array VEntry) (lo en : Nat) : Nat :=
  lo + (bestAtPoint S b ((arr.toList.take en).drop lo)).1

/-- the `while (bound < end)` witness loop; `wit best cand` stands for `lp_.findWitness` with the rows
    `best` added so far -/
def witnessLoop (S : Nat) (wit : List VEntry → VEntry → Option (Nat → Rat)) :
    Nat → Array VEntry → Nat → Nat → Array VEntry × Nat
  | 0, arr, bound, _ => (arr, bound)
  | f+1, arr, bound, en =>
    if bound < en then
      match wit (arr.toList.take bound) (at' arr (en - 1)) with
      | some b =>
        let best := bestInRange S b arr bound en
        witnessLoop S wit f (arr.swapIfInBounds best bound) (bound + 1) en
      | none => witnessLoop S wit f arr bound (en - 1)
    else (arr, bound)

/-- `Pruner::operator()(begin, end, unwrap)` for an arbitrary LP oracle -/
def prunerArr (S : Nat) (wit : List VEntry → VEntry → Option (Nat → Rat)) (arr : Array VEntry) (en : Nat) :
    Array VEntry × Nat :=
  let r := extractDominatedArr S arr en
  if r.2 < 2 then r else
  let c := cornersLoop S r.2 (List.range S) r.1 0
  witnessLoop S wit r.2 c.1 c.2 r.2

def pruner (S : Nat) (wit : List VEntry → VEntry → Option (Nat → Rat)) (l : VList) : VList :=
  let r := prunerArr S wit l.toArray l.length
  r.1.toList.take r.2

/-! ## IncrementalPruning's merge schedule, run on abstract slots

  `slots[i]` is whatever `projs[a][i]` holds; `mrg x y order` is "crossSum then prune".  The integer
  bookkeeping (`front`, `back`, `stepsize`, `diff`, `elements`, `oddOld`) is copied literally. -/

def slotGet {α} [Inhabited α] (slots : List α) (i : Int) : α := if i < 0 then default else slots.getD i.toNat default
def slotSet {α} (slots : List α) (i : Int) (x : α) : List α := if i < 0 then slots else slots.set i.toNat x

/-- the `for (i = front; i != back; i += stepsize)` loop (fuel bounds the iterations) -/
def passLoop {α} [Inhabited α] (mrg : α → α → Bool → α) (stepsize diff back : Int) :
    Nat → List α → Int → Nat → List α × Nat
  | 0, slots, _, elements => (slots, elements)
  | f+1, slots, i, elements =>
    if i = back then (slots, elements)
    else
      let merged := mrg (slotGet slots i) (slotGet slots (i + diff)) (decide (stepsize > 0) == Gen.C04.orderWhenForward)
      passLoop mrg stepsize diff back f (slotSet slots i merged) (i + stepsize) (elements - 1)

structure Sched where
  front : Int
  back : Int
  stepsize : Int
  diff : Int
  elements : Nat
  oddOld : Bool

/-- the `while (elements > 1)` loop -/
def schedLoop {α} [Inhabited α] (mrg : α → α → Bool → α) : Nat → List α → Sched → List α × Sched
  | 0, slots, st => (slots, st)
  | f+1, slots, st =>
    if st.elements > 1 then
      let r := passLoop mrg st.stepsize st.diff st.back st.elements slots st.front st.elements
      let oddNew := r.2 % 2 == 1
      let tmp := st.back
      let back := st.front - (if oddNew then 0 else st.stepsize)
      let front := tmp - (if st.oddOld then 0 else st.stepsize)
      schedLoop mrg f r.1 ⟨front, back, st.stepsize * Gen.C04.stepMul, st.diff * Gen.C04.diffMul, r.2, oddNew⟩
    else (slots, st)

/-- whole schedule for one action: returns what ends up in `projs[a][0]` -/
def mergeSchedule {α} [Inhabited α] (mrg : α → α → Bool → α) (slots : List α) : α :=
  let O := slots.length
  let oddOld := O % 2 == 1
  let st : Sched := ⟨0, (O : Int) - (if oddOld then 1 else 0), Gen.C04.stepsize0, Gen.C04.diff0, O, oddOld⟩
  let r := schedLoop mrg O slots st
  slotGet r.1 r.2.front

/-- symbolic run: each slot holds the list of observation indices its link vectors are laid out in -/
def mrgSym (x y : List Nat) (order : Bool) : List Nat := if order then x ++ y else y ++ x

def scheduleOrder (O : Nat) : List Nat := mergeSchedule mrgSym ((List.range O).map (fun o => [o]))

/-- concrete run on VLists with a pruning step `pr` after every cross-sum -/
def mrgVL (pr : VList → VList) (a : Nat) (x y : VList) (order : Bool) : VList := pr (crossSum x y a order)

/-! ## IncrementalPruning::operator(): the outer loops (pruning = parameter) -/

/-- `makeValueFunction(S)`: one horizon-0 list holding the zero entry -/
def zeroVF (S : Nat) : VF := [[⟨List.replicate S 0, 0, []⟩]]

/-- one timestep: per action prune every projection list, merge them by the schedule (crossSum + prune at each
    merge), concatenate the per-action results, prune once more -/
def ipStep (m : Pomdp) (pr : VList → VList) (prev : VList) : VList :=
  pr ((List.range m.A).flatMap (fun a =>
    mergeSchedule (mrgVL pr a) ((List.range m.O).map (fun o => pr (project m prev a o)))))

/-- `h` timesteps (the tolerance test can only stop earlier, i.e. return a prefix) -/
def ipRun (m : Pomdp) (pr : VList → VList) : Nat → VF
  | 0 => zeroVF m.S
  | h+1 =>
    let v := ipRun m pr h
    v ++ [ipStep m pr (vlist v h)]

/-! ## crossSumBestAtBelief (row form): per observation take the best projection at `b`, add values, copy its link -/

def crossSumBestAtBeliefRow (S : Nat) (b : Nat → Rat) (row : List VList) (a : Nat) : VEntry :=
  row.foldl (fun acc r =>
      let best := entryAt r (bestAtPoint S b r).1
      ⟨addV acc.values best.values, a, acc.obs ++ [link best 0]⟩)
    ⟨List.replicate S 0, a, []⟩

/-- `crossSumBestAtBelief(b, projs, &value)` over all actions: start with action 0, replace when an action's value is
    strictly larger (`tmp > bestValue`); `rows a` = the projection row of action `a` -/
def crossSumBestAtBeliefAll (S : Nat) (b : Nat → Rat) (rows : Nat → List VList) (A : Nat) : VEntry :=
  let e0 := crossSumBestAtBeliefRow S b (rows 0) 0
  ((List.range' 1 (A - 1)).foldl (fun (acc : VEntry × Rat) a =>
      let h := crossSumBestAtBeliefRow S b (rows a) a
      let t := dot S b (val h)
      if acc.2 < t then (h, t) else acc) (e0, dot S b (val e0))).1

/-! ## PBVI::operator()(model, beliefs) -/

/-- the `for belief: bound = extractBestAtPoint(belief, begin, bound, end)` loop -/
def extractBestLoop (S : Nat) : List (Nat → Rat) → Array VEntry → Nat → Array VEntry × Nat
  | [], arr, bound => (arr, bound)
  | b :: bs, arr, bound =>
    let best := (bestAtPoint S b arr.toList).1
    if bound ≤ best then extractBestLoop S bs (arr.swapIfInBounds best bound) (bound + 1)
    else extractBestLoop S bs arr bound

def pbviSelect (S : Nat) (beliefs : List (Nat → Rat)) (w : VList) : VList :=
  let r := extractBestLoop S beliefs w.toArray 0
  r.1.toList.take r.2

/-- `PBVI::crossSum(projs[a], a, beliefs)`: one point-based backup per belief, then `extractDominated` -/
def pbviAction (m : Pomdp) (beliefs : List (Nat → Rat)) (prev : VList) (a : Nat) : VList :=
  extractDominated m.S (beliefs.map (fun b =>
    crossSumBestAtBeliefRow m.S b ((List.range m.O).map (fun o => project m prev a o)) a))

def pbviStep (m : Pomdp) (beliefs : List (Nat → Rat)) (prev : VList) : VList :=
  pbviSelect m.S beliefs ((List.range m.A).flatMap (pbviAction m beliefs prev))

def pbviRun (m : Pomdp) (beliefs : List (Nat → Rat)) : Nat → VF
  | 0 => zeroVF m.S
  | h+1 =>
    let v := pbviRun m beliefs h          -- bound once: the compiled driver must not recompute the prefix three times per level
    v ++ [pbviStep m beliefs (vlist v (v.length - 1))]

/-- `PBVI::operator()(model, beliefs, v)` with a warm start: `if (v.size() == 0) v = makeValueFunction(S)`, then every
    timestep projects `v.back()` and appends -/
def pbviRunFrom (m : Pomdp) (beliefs : List (Nat → Rat)) (v0 : VF) : Nat → VF
  | 0 => if v0.isEmpty then zeroVF m.S else v0
  | h+1 =>
    let v := pbviRunFrom m beliefs v0 h
    -- `projecter(v.back())`; a source reading `v[timestep-1]` instead flips `Gen.C04.pbviProjectsBack`
    v ++ [pbviStep m beliefs (vlist v (if Gen.C04.pbviProjectsBack then v.length - 1 else h))]

/-! ## PERSEUS::operator(): the belief sweep (belief list = parameter) -/

/-- `PERSEUS::crossSum(projs, beliefs, oldV)` before the final `extractDominated`: a belief already improved by the
    new list (`currentValue >= oldValue`) is skipped; otherwise the all-actions point backup is appended -/
def perseusLoop (m : Pomdp) (prev : VList) : List (Nat → Rat) → VList → VList
  | [], res => res
  | b :: bs, res =>
    if !res.isEmpty && decide ((bestAtPoint m.S b prev).2 ≤ (bestAtPoint m.S b res).2) then perseusLoop m prev bs res
    else perseusLoop m prev bs (res ++ [crossSumBestAtBeliefAll m.S b (fun a => (List.range m.O).map (fun o => project m prev a o)) m.A])

def perseusStep (m : Pomdp) (beliefs : List (Nat → Rat)) (prev : VList) : VList :=
  extractDominated m.S (perseusLoop m prev beliefs [])

/-- horizon-0 entry filled with `minReward / (1 - discount)` (any value `v0`) -/
def perseusRun (m : Pomdp) (beliefs : List (Nat → Rat)) (v0 : Rat) : Nat → VF
  | 0 => [[⟨List.replicate m.S v0, 0, []⟩]]
  | h+1 =>
    let v := perseusRun m beliefs v0 h
    v ++ [perseusStep m beliefs (vlist v (v.length - 1))]

/-! ## LinearSupport::operator(): corner supports, vertex agenda (vertex enumeration = oracle) -/

def bfunL (l : List Rat) : Nat → Rat := fun s => l.getD s 0

structure LSVertex where
  belief : List Rat
  cur : Rat
  support : VEntry
  err : Rat

structure LSState where
  good : VList                 -- goodSupports
  all : List VEntry            -- allSupports (a set in the code; only membership matters)
  tried : List (List Rat)      -- triedVertices
  agenda : List LSVertex       -- agenda_ (priority queue on `err`)

/-- `checkDifferentGeneral(diff, tolerance)` -/
def differentGeneral (a b : Rat) : Bool :=
  !(decide (absQ (a - b) ≤ Gen.equalToleranceSmall) ||
    decide (absQ (a - b) ≤ minQ (absQ a) (absQ b) * Gen.equalToleranceGeneral))

/-- the all-actions point backup of LinearSupport / PERSEUS on the projections of `prev` -/
def backupAt (m : Pomdp) (prev : VList) (b : Nat → Rat) : VEntry :=
  crossSumBestAtBeliefAll m.S b (fun a => (List.range m.O).map (fun o => project m prev a o)) m.A

/-- the `for (size_t s = 0; s < S; ++s)` corner loop: a corner's support joins `goodSupports` iff it is new -/
def lsCorners (m : Pomdp) (prev : VList) : List Nat → LSState → LSState
  | [], st => st
  | s :: rest, st =>
    let e := backupAt m prev (fun i => if i = s then 1 else 0)
    if st.all.contains e then lsCorners m prev rest st
    else lsCorners m prev rest { st with all := st.all ++ [e], good := st.good ++ [e] }

/-- the `for (i < vertices.first.size())` loop: untried vertices whose true value beats the current surface by more
    than the tolerance go to the agenda together with their support -/
def lsScan (m : Pomdp) (prev : VList) (tolerance : Rat) : List (List Rat) → LSState → LSState
  | [], st => st
  | v :: rest, st =>
    if st.tried.contains v then lsScan m prev tolerance rest st else
    let b := bfunL v
    let support := backupAt m prev b
    let trueValue := dot m.S b (val support)
    let currentValue := (bestAtPoint m.S b st.good).2
    let diff := trueValue - currentValue
    let st := if decide (tolerance < diff) && differentGeneral diff tolerance then
        { st with all := if st.all.contains support then st.all else st.all ++ [support],
                  agenda := st.agenda ++ [⟨v, currentValue, support, diff⟩] }
      else st
    lsScan m prev tolerance rest { st with tried := st.tried ++ [v] }

/-- `agenda_.top()` / `pop()`: a vertex of largest error (first such in insertion order) and the others -/
def lsPopMax : List LSVertex → Option (LSVertex × List LSVertex)
  | [] => none
  | x :: xs =>
    match lsPopMax xs with
    | none => some (x, [])
    | some (y, ys) => if x.err < y.err then some (y, x :: ys) else some (x, xs)

/-- the `do { … } while (true)` loop.  `verts2 support good` stands for
    `findVerticesNaive(&support, &support+1, good.begin(), good.end())`, `pop` for the priority queue. -/
def lsLoop (m : Pomdp) (prev : VList) (tolerance : Rat) (verts2 : VEntry → VList → List (List Rat))
    (pop : List LSVertex → Option (LSVertex × List LSVertex)) : Nat → List (List Rat) → LSState → LSState
  | 0, _, st => st
  | f+1, vs, st =>
    let st1 := lsScan m prev tolerance vs st
    match pop st1.agenda with
    | none => st1
    | some (best, rest) =>
      let rest' := rest.filter (fun it => !(decide (it.cur < dot m.S (bfunL it.belief) (val best.support))))
      lsLoop m prev tolerance verts2 pop f (verts2 best.support st1.good)
        { st1 with agenda := rest', good := st1.good ++ [best.support] }

/-- one timestep; `verts1 good` stands for `findVerticesNaive(goodSupports)` -/
def lsStep (m : Pomdp) (tolerance : Rat) (verts1 : VList → List (List Rat)) (verts2 : VEntry → VList → List (List Rat))
    (pop : List LSVertex → Option (LSVertex × List LSVertex)) (fuel : Nat) (prev : VList) : VList :=
  let st0 := lsCorners m prev (List.range m.S) ⟨[], [], [], []⟩
  (lsLoop m prev tolerance verts2 pop fuel (verts1 st0.good) st0).good

def lsRun (m : Pomdp) (tolerance : Rat) (verts1 : VList → List (List Rat)) (verts2 : VEntry → VList → List (List Rat))
    (pop : List LSVertex → Option (LSVertex × List LSVertex)) (fuel : Nat) : Nat → VF
  | 0 => zeroVF m.S
  | h+1 =>
    let v := lsRun m tolerance verts1 verts2 pop fuel h
    v ++ [lsStep m tolerance verts1 verts2 pop fuel (vlist v (v.length - 1))]

/-! ## Witness::operator(): per-action agenda loop (witness LP = oracle) -/

def subV : List Rat → List Rat → List Rat
  | x :: xs, y :: ys => (x - y) :: subV xs ys
  | _, _ => []

structure WState where
  U : VList
  agenda : List (List Rat)
  tried : List (List Nat)

/-- `addVariations(projs, variated)`: for every observation and every other projection index not tried yet, push the
    varied vector; `vObs[o]` doubles as index into `projs[o]` (the projections are unpruned) -/
def addVariations (row : List VList) (variated : VEntry) (st : WState) : WState :=
  ((List.range row.length).foldl (fun (acc : WState × List Nat) o =>
      let projs := row.getD o []
      let skip := acc.2.getD o 0
      let st' := (List.range projs.length).foldl (fun (st : WState) i =>
          if i = skip then st else
          let vObs := acc.2.set o i
          if st.tried.contains vObs then st else
          { st with tried := vObs :: st.tried,
                    agenda := st.agenda ++ [addV (subV variated.values (entryAt projs skip).values) (entryAt projs i).values] }) acc.1
      (st', acc.2)) (st, variated.obs)).1

/-- the `while (!agenda_.empty())` loop; the last agenda element is `agenda_.back()` -/
def witnessLoop2 (S : Nat) (wit : VList → List Rat → Option (Nat → Rat)) (row : List VList) (a : Nat) : Nat → WState → WState
  | 0, st => st
  | f+1, st =>
    match st.agenda.getLast? with
    | none => st
    | some v =>
      match wit st.U v with
      | some b =>
        let e := crossSumBestAtBeliefRow S b row a
        -- `if (std::any_of(U[a], sameValues)) { agenda_.pop_back(); continue; }` (present iff `Gen.C04.witnessSkipsKnown`)
        if Gen.C04.witnessSkipsKnown && st.U.any (fun u => u.values == e.values) then
          witnessLoop2 S wit row a f { st with agenda := st.agenda.dropLast }
        else
          witnessLoop2 S wit row a f (addVariations row e { st with U := st.U ++ [e] })
      | none => witnessLoop2 S wit row a f { st with agenda := st.agenda.dropLast }

/-- `addDefaultEntry` + loop for one action: returns `U[a]` -/
def witnessAction (m : Pomdp) (wit : VList → List Rat → Option (Nat → Rat)) (fuel : Nat) (prev : VList) (a : Nat) : VList :=
  let row := (List.range m.O).map (fun o => project m prev a o)
  let v0 := row.foldl (fun acc r => addV acc (entryAt r 0).values) (List.replicate m.S 0)
  (witnessLoop2 m.S wit row a fuel ⟨[], [v0], [List.replicate m.O 0]⟩).U

def witnessStep (m : Pomdp) (wit : VList → List Rat → Option (Nat → Rat)) (pr : VList → VList) (fuel : Nat) (prev : VList) : VList :=
  pr ((List.range m.A).flatMap (witnessAction m wit fuel prev))

def witnessRun (m : Pomdp) (wit : VList → List Rat → Option (Nat → Rat)) (pr : VList → VList) (fuel : Nat) : Nat → VF
  | 0 => zeroVF m.S
  | h+1 =>
    let v := witnessRun m wit pr fuel h
    v ++ [witnessStep m wit pr fuel (vlist v (v.length - 1))]

end AITB.Plan
