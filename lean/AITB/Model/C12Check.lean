/-
  AITB.Model.C12Check — decidable checkers (L3) for C12, evaluated by the driver on the implementation's
  exact outputs and on untrusted certificates.  Core Lean only.  Soundness theorems: AITB.Props.C12.
-/
import AITB.Model.Prune
import AITB.Model.Interp
namespace AITB.C12Check
open AITB.Prune AITB.Interp

/-- clamp negatives to 0 and divide by the sum: an exact point of the simplex made from a float vector -/
def normalize (b : Vec) : Option Vec :=
  let c := b.map (fun x => if x < 0 then 0 else x)
  let s := sumL c
  if s ≤ 0 then none else some (c.map (fun x => x / s))

def nonneg (v : Vec) : Bool := v.all (fun x => decide (0 ≤ x))

/-- `b` is exactly a belief of dimension `n` -/
def isBeliefB (n : Nat) (b : Vec) : Bool := b.length == n && nonneg b && sumL b == 1

/-- `sum_i l_i * g_i[s]` -/
def comboAt (l : Vec) (G : List Vec) (s : Nat) : Rat := mixAt l G s

/-- Farkas certificate: multipliers `l` (exactly in the simplex of dimension |G|) whose combination of `G`
    is componentwise at least `r - eps` on the `n` coordinates -/
def farkasOK (n : Nat) (eps : Rat) (G : List Vec) (l : Vec) (r : Vec) : Bool :=
  isBeliefB G.length l && (List.range n).all (fun s => decide (r.getD s 0 ≤ comboAt l G s + eps))

/-- witness of a violated envelope: at belief `b`, `r` is more than `eps` above every vector of `G` -/
def violationOK (n : Nat) (eps : Rat) (G : List Vec) (b : Vec) (r : Vec) : Bool :=
  isBeliefB n b && G.all (fun g => decide (dot b g + eps < dot b r))

/-- `k` attains the maximum of `G ∪ {k}` at belief `b` -/
def neededOK (n : Nat) (G : List Vec) (b : Vec) (k : Vec) : Bool :=
  isBeliefB n b && G.all (fun g => decide (dot b g ≤ dot b k))

/-- pairwise test used before any certificate: some `g ∈ G` is within `eps` above `r` on every coordinate -/
def pairwiseOK (eps : Rat) (G : List Vec) (r : Vec) : Bool := G.any (fun g => domAbs eps g r)

def maxAbsL (vs : List Vec) : Rat := vs.foldl (fun m v => v.foldl (fun m x => maxQ m (absQ x)) m) 0

/-- documented slack of one `dominates` link for entries bounded by `M` -/
def linkSlack (M : Rat) : Rat := maxQ Gen.equalToleranceSmall (M * Gen.equalToleranceGeneral)

/-! ### interpolation certificates -/

/-- weighted reconstruction error at coordinate `s`: corners `wc`, points `wp` -/
def reconAt (point wc wp : Vec) (pts : List Vec) (s : Nat) : Rat :=
  wc.getD s 0 + mixAt wp pts s - point.getD s 0

def weightedValue (cv wc wp vals : Vec) : Rat := dot wc cv + dot wp vals

/-- exact primal feasibility: all weights non-negative and the query reconstructed exactly -/
def primalOK (point wc wp : Vec) (pts : List Vec) : Bool :=
  nonneg wc && nonneg wp && wc.length == point.length && wp.length == pts.length &&
  (List.range point.length).all (fun s => reconAt point wc wp pts s == 0)

/-- exact dual feasibility: hyperplane `h` below every corner value and every stored point value -/
def dualOK (cv : Vec) (pts : List Vec) (vals : Vec) (h : Vec) : Bool :=
  h.length == cv.length &&
  (List.range cv.length).all (fun s => decide (h.getD s 0 ≤ cv.getD s 0)) &&
  (List.range pts.length).all (fun j => decide (dot h (pts.getD j []) ≤ vals.getD j 0))

/-- turn float point-weights into an exactly feasible primal solution: clamp, scale down until
    `sum c_j p_j ≤ point`, give the rest to the corners -/
def mkPrimal (point : Vec) (pts : List Vec) (c : Vec) : Vec × Vec :=
  let c := c.map (fun x => if x < 0 then 0 else x)
  let theta := (List.range point.length).foldl (fun t s =>
      let m := mixAt c pts s
      if point.getD s 0 < m then minQ t (point.getD s 0 / m) else t) 1
  let c := c.map (fun x => x * theta)
  ((List.range point.length).map (fun s => point.getD s 0 - mixAt c pts s), c)

/-- shift a float hyperplane down until it is exactly dual feasible (all stored points have positive mass) -/
def mkDual (cv : Vec) (pts : List Vec) (vals : Vec) (h : Vec) : Vec :=
  let viol := (List.range cv.length).foldl (fun m s => maxQ m (h.getD s 0 - cv.getD s 0)) 0
  let viol := (List.range pts.length).foldl (fun m j =>
      let p := pts.getD j []
      let sp := sumL p
      if sp ≤ 0 then m else maxQ m ((dot h p - vals.getD j 0) / sp)) viol
  h.map (fun x => x - viol)

end AITB.C12Check

namespace AITB.C12Check
open AITB.Prune AITB.Interp

/-! ### the envelope clause as the driver evaluates it (certificates are untrusted inputs) -/

/-- one certificate sent by the harness for array slot `idx`: Farkas multipliers and/or a witness belief -/
structure Cert where
  idx : Nat
  lam : Option Vec
  b : Option Vec

/-- corners, edge midpoints and the centre of the simplex of dimension `S` -/
def probeBeliefs (S : Nat) : List Vec :=
  let unit := fun (i : Nat) => (List.range S).map (fun s => if s == i then (1 : Rat) else 0)
  let mids := (List.range S).flatMap (fun i => ((List.range S).filter (fun j => i < j)).map (fun j =>
    (List.range S).map (fun s => if s == i || s == j then (1 : Rat) / 2 else 0)))
  (List.range S).map unit ++ mids ++ (if S == 0 then [] else [(List.range S).map (fun _ => (1 : Rat) / S)])

inductive Env where | ok | bad | undecided
  deriving BEq, DecidableEq

/-- is removed vector `r` within `eps` of the envelope of `kept`, as far as the certificates decide -/
def envelopeClause (S : Nat) (eps : Rat) (kept : List Vec) (r : Vec) (c : Option Cert) : Env :=
  if pairwiseOK eps kept r then .ok else
  match c with
  | none => if (probeBeliefs S).any (fun b => violationOK S eps kept b r) then .bad else .undecided
  | some c =>
    let fk := match c.lam.bind normalize with
      | some l => farkasOK S eps kept l r
      | none => false
    if fk then .ok else
    -- violated envelope: the certificate's belief, or (independent of any LP) a corner, an edge midpoint, the centre
    let cands := (match c.b.bind normalize with | some b => [b] | none => []) ++ probeBeliefs S
    if cands.any (fun b => violationOK S eps kept b r) then .bad else .undecided

/-! ### "contains no vector that is nowhere needed": the clause for one KEPT vector `k` against the other kept ones -/

/-- `k` is more than `eps` above every vector of `G` at belief `b` -/
def strictNeededOK (n : Nat) (eps : Rat) (G : List Vec) (b : Vec) (k : Vec) : Bool :=
  isBeliefB n b && G.all (fun g => decide (dot b g + eps < dot b k))

/-- candidate beliefs: the certificate's (made exact by `normalize`) and the LP-independent probes -/
def needCands (S : Nat) (c : Option Cert) : List Vec :=
  (match c.bind (fun c => c.b.bind normalize) with | some b => [b] | none => []) ++ probeBeliefs S

/-- the certificate's Farkas multipliers, made exact by `normalize` -/
def needLam (c : Option Cert) : Option Vec := c.bind (fun c => c.lam.bind normalize)

inductive Need where | ok | bad | within | undecided
  deriving BEq, DecidableEq

/-- at belief `b` the vector `k` TIES the envelope of `G` exactly (margin 0 in exact arithmetic): some `g` has the same
    value and none is above -/
def tieAtOK (n : Nat) (G : List Vec) (b : Vec) (k : Vec) : Bool :=
  isBeliefB n b && G.any (fun g => dot b g == dot b k) && G.all (fun g => decide (dot b g ≤ dot b k))

/-- failing verdict for a kept vector `k`: a Farkas cover by the OTHER kept vectors (within `epsBad`) is verified AND
    (a) `k` ties the envelope exactly at one of the candidate beliefs — an exact tie, not a rounding matter — or
    (b) the cover holds with uniform slack `tolBig` on every coordinate — `k` is below the envelope everywhere by more than
        the documented tolerance -/
def needBad (S : Nat) (epsBad tolBig : Rat) (others : List Vec) (k : Vec) (l : Vec) (cands : List Vec) : Bool :=
  farkasOK S epsBad others l k && (cands.any (fun b => tieAtOK S others b k) || farkasOK S (-tolBig) others l k)

/-- `ok`: a candidate belief (certificate, LP-independent probes, `extra` = recorded witness points) where `k` beats all others
    by more than `epsOk`; `bad`: see `needBad`; `within`: covered by the others but neither an exact tie nor below the envelope
    by more than the documented tolerance — a near-tie inside the tolerance, not reported; otherwise undecided. -/
def neededClause (S : Nat) (epsOk epsBad tolBig : Rat) (extra : List Vec) (others : List Vec) (k : Vec) (c : Option Cert) : Need :=
  if (needCands S c ++ extra).any (fun b => strictNeededOK S epsOk others b k) then .ok else
  match needLam c with
  | some l =>
    if needBad S epsBad tolBig others k l (needCands S c ++ extra) then .bad
    else if farkasOK S epsBad others l k then .within else .undecided
  | none => .undecided

/-! ### optimality certificate for the LP inside LPInterpolation

    The LP the code builds (`LpIn`): minimise `gains · c` subject to `row · c ≤ rhs` for every row and `c ≥ 0`.
    A dual certificate is a vector `y ≥ 0` (one multiplier per row) with `gains_j + Σ_s y_s · row_s[j] ≥ 0` for every column `j`;
    then every feasible `c` has `gains · c ≥ −Σ_s y_s · rhs_s` (weak duality). -/

/-- column `j` of the constraint matrix, weighted by `y` -/
def dualCol (rows : List (Vec × Rat)) (y : Vec) (j : Nat) : Rat :=
  sumL (List.zipWith (fun (r : Vec × Rat) ys => ys * r.1.getD j 0) rows y)

/-- `−Σ_s y_s · rhs_s` -/
def dualBound (rows : List (Vec × Rat)) (y : Vec) : Rat :=
  - sumL (List.zipWith (fun (r : Vec × Rat) ys => ys * r.2) rows y)

/-- exact dual feasibility of `y` for the LP `inp` -/
def lpDualFeasible (inp : LpIn) (y : Vec) : Bool :=
  y.length == inp.rows.length && nonneg y &&
  (List.range inp.gains.length).all (fun j => decide (0 ≤ inp.gains.getD j 0 + dualCol inp.rows y j))

/-- exact primal feasibility of the answer `sol = (objective, c)` -/
def lpPrimalFeasible (inp : LpIn) (sol : Rat × Vec) : Bool :=
  sol.2.length == inp.gains.length && nonneg sol.2 &&
  inp.rows.all (fun r => decide (dot r.1 sol.2 ≤ r.2)) && sol.1 == dot sol.2 inp.gains

/-- the answer is feasible and within `eps` of the dual bound: `eps`-optimal by weak duality -/
def lpCertOK (eps : Rat) (inp : LpIn) (y : Vec) (sol : Rat × Vec) : Bool :=
  lpPrimalFeasible inp sol && lpDualFeasible inp y && decide (sol.1 ≤ dualBound inp.rows y + eps)

end AITB.C12Check

