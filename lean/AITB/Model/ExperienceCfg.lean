/-
  AITB.Model.ExperienceCfg — the configurations of `AITB.Model.Experience` that correspond to the
  library's classes AS THE SOURCE IS NOW: the constants and syntactic facts come from the
  translator-generated `AITB.Gen.Constants` / `AITB.Gen.C07` (regenerated on every check).
  The driver runs exactly these; `AITB.Props.C07Current` proves the property for exactly these.
-/
import AITB.Model.Experience
import AITB.Gen.Constants
import AITB.Gen.C07
namespace AITB.Exp

def mkCfg (period : Nat) (n1 junkB : Bool) (junk : Rat) (rt : Option Rat) (sg : Bool := false) : Cfg :=
  { period := period, n1Clear := n1, ctorJunk := junkB, junk := fun _ _ => junk, rewTol := rt, sparseGeneric := sg }

def sparseTol : Option Rat := if AITB.Gen.C07.sparseRewardGuard then some AITB.Gen.equalToleranceSmall else none

/-- `MaximumLikelihoodModel<E>` (any experience type) -/
def cfgDense (junk : Rat) : Cfg :=
  mkCfg AITB.Gen.resyncPeriodDense AITB.Gen.C07.denseN1Clear AITB.Gen.C07.denseCtorJunk junk none
/-- `SparseMaximumLikelihoodModel<E>`, `E` with sparse Eigen tables -/
def cfgSparse (junk : Rat) : Cfg :=
  mkCfg AITB.Gen.resyncPeriodSparse AITB.Gen.C07.sparseN1Clear false junk sparseTol
/-- `SparseMaximumLikelihoodModel<E>`, element-wise branch (dense or user-defined experience) -/
def cfgGSparse (junk : Rat) : Cfg :=
  mkCfg AITB.Gen.resyncPeriodSparse AITB.Gen.C07.sparseN1Clear false junk sparseTol AITB.Gen.C07.sparseGenericPartial
/-- experiences without a flat learned model, and the cooperative model (no incremental sync: the
    `n1Clear` flag is never consulted; storage is initialised in the constructor) -/
def cfgPlain (junk : Rat) : Cfg := mkCfg AITB.Gen.resyncPeriodDense true false junk none

end AITB.Exp
