/-
  AITB.Model.Loader — `operator>>(std::istream&, MDP::Model&)` and `operator>>(std::istream&, MDP::SparseModel&)`
  (src/MDP/IO.cpp) as compositions of the modelled constructors and setters (property C06, round 3).  The reader builds a
  default object `in(S, A)`, calls `in.setDiscount(d)` (an exception propagates to the caller), reads the transition function and
  calls `in.setTransitionFunction(t)` inside try/catch (failure → failbit), reads the reward function, `in.setRewardFunction(r)`,
  and only then `m = std::move(in)`.  What the stream yielded before it failed is the input (`Parsed`).  Core Lean only.
-/
import AITB.Model.ModelState
namespace AITB.MS
open AITB

/-- what the reader got out of the stream before the first unreadable token -/
inductive Parsed where
  | nothing                                   -- not even the discount
  | disc (d : XRat)                           -- the discount; the transition function is incomplete
  | discT (d : XRat) (t : Tab3)               -- … and the transition function t[a][s][s1]; the reward function is incomplete
  | all (d : XRat) (t : Tab3) (r : Tab2)      -- everything
  deriving Repr, Inhabited

inductive LoadOut where
  | loaded | failbit | threw
  deriving Repr, DecidableEq, Inhabited

/-- the reader once its default object `in0` exists -/
def loadFrom (kk : Kind) (m in0 : St) : Parsed → St × LoadOut
  | .nothing => (m, .failbit)
  | .disc d => if (step kk in0 (.setDiscount d)).2 then (m, .threw) else (m, .failbit)
  | .discT d _ => if (step kk in0 (.setDiscount d)).2 then (m, .threw) else (m, .failbit)
  | .all d t r =>
      if (step kk in0 (.setDiscount d)).2 then (m, .threw) else
      if (step kk (step kk in0 (.setDiscount d)).1 (.setTEigen t)).2 then (m, .failbit) else
      ((step kk (step kk (step kk in0 (.setDiscount d)).1 (.setTEigen t)).1 (.setREigen r)).1, .loaded)

def load (k : Rep) (m : St) (p : Parsed) : St × LoadOut :=
  match ctorBasic k m.S m.A (.fin 1) with
  | none => (m, .threw)                       -- does not happen: 1.0 is a valid discount (`load_default_exists`)
  | some in0 => loadFrom ⟨k, k⟩ m in0 p

end AITB.MS
