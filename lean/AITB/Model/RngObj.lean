/-
  AITB.Model.RngObj — library objects that carry a random engine (C16).

  Every such class owns a `RandomEngine rand_` data member that its constructors initialise with
  `rand_(Seeder::getSeed())` (pinned per constructor by tools/extract_c16.py → `Gen/C16Rng.ctors`); the
  sampling member functions hand `rand_` by reference to the helpers of Utils/Probability.hpp, which take
  the engine as their last parameter and own no state (`Gen/C16Rng.samplingHelpers`).  So
      output      = f(configuration, arguments, engine state)
      engine after = g(configuration, arguments, engine state)
  and the only coupling between two objects is the order in which they drew their seeds from `Seeder`.

  `World` = the Seeder plus the objects alive (configuration, engine), `WOp` = what a program does.
  Implicit copy construction copies the engine (`copy`); `CooperativeModel`'s hand-written copy
  constructor does the same (`rand_(other.rand_)`).
  Core Lean only.
-/
import AITB.Model.Hidden
import AITB.Model.Sampling

namespace AITB.Hidden

/-- a class of engine-carrying objects.  `seedEngine` is `std::mt19937(seed)` (trusted: a deterministic
    function of the seed). -/
structure RngSem (Eng Cfg In Out : Type) where
  /-- how many `Seeder::getSeed()` draws a constructor makes (1 for most classes; 2 for `POMDP::Model<M>`: base class, then own) -/
  nSeeds : Nat
  seedEngine : List Nat → Eng
  call : Cfg → Eng → In → Eng × Out

inductive WOp (Cfg In : Type) where
  | setRoot (s : Nat)              -- Seeder::setRootSeed(s)
  | construct (c : Cfg)            -- a constructor: one `Seeder::getSeed()` draw seeds the new object's engine
  | call (i : Nat) (x : In)        -- a sampling member function of object i (no such object: nothing happens)
  | copy (i : Nat)                 -- copy construction from object i: configuration AND engine state are copied, no seed is drawn
  deriving Repr

structure World (Eng Cfg : Type) where
  seeder : Seeder
  objs : List (Cfg × Eng)

/-- the next `n` words of the root engine -/
def seedsAt (stream : Nat → Nat → Nat) (sd : Seeder) (n : Nat) : List Nat :=
  (List.range n).map (fun k => stream sd.root (sd.pos + k))

/-- one program step; the output is tagged with the object that produced it -/
def stepW {Eng Cfg In Out} (S : RngSem Eng Cfg In Out) (stream : Nat → Nat → Nat) (w : World Eng Cfg) :
    WOp Cfg In → World Eng Cfg × Option (Nat × Out)
  | .setRoot s => ({ w with seeder := ⟨s, 0⟩ }, none)
  | .construct c =>
      ({ seeder := ⟨w.seeder.root, w.seeder.pos + S.nSeeds⟩,
         objs := w.objs ++ [(c, S.seedEngine (seedsAt stream w.seeder S.nSeeds))] }, none)
  | .call i x =>
      match w.objs[i]? with
      | none => (w, none)
      | some (c, e) => let r := S.call c e x; ({ w with objs := w.objs.set i (c, r.1) }, some (i, r.2))
  | .copy i =>
      match w.objs[i]? with
      | none => (w, none)
      | some o => ({ w with objs := w.objs ++ [o] }, none)

/-- run a program: tagged outputs in order, and the final world -/
def runW {Eng Cfg In Out} (S : RngSem Eng Cfg In Out) (stream : Nat → Nat → Nat) :
    World Eng Cfg → List (WOp Cfg In) → List (Nat × Out) × World Eng Cfg
  | w, [] => ([], w)
  | w, op :: ops =>
      let r := stepW S stream w op
      let rest := runW S stream r.1 ops
      (match r.2 with | none => rest.1 | some o => o :: rest.1, rest.2)

/-- what ONE object does on its own inputs, starting from (configuration, engine) -/
def objTrace {Eng Cfg In Out} (S : RngSem Eng Cfg In Out) : Cfg × Eng → List In → List Out
  | _, [] => []
  | (c, e), x :: xs => let r := S.call c e x; r.2 :: objTrace S (c, r.1) xs

/-- the object's state after those inputs -/
def objAfter {Eng Cfg In Out} (S : RngSem Eng Cfg In Out) : Cfg × Eng → List In → Cfg × Eng
  | o, [] => o
  | (c, e), x :: xs => objAfter S (c, (S.call c e x).1) xs

/-- the inputs a program sends to object j -/
def inputsOf {Cfg In} (j : Nat) : List (WOp Cfg In) → List In
  | [] => []
  | .call i x :: ops => if i = j then x :: inputsOf j ops else inputsOf j ops
  | _ :: ops => inputsOf j ops

/-- the outputs tagged j -/
def outputsOf {Out} (j : Nat) (l : List (Nat × Out)) : List Out := (l.filter (fun p => p.1 == j)).map (·.2)

/-- the Seeder after a program (n = seeds drawn per construction) -/
def seederAfter {Cfg In} (n : Nat) : Seeder → List (WOp Cfg In) → Seeder
  | sd, [] => sd
  | _, .setRoot s :: ops => seederAfter n ⟨s, 0⟩ ops
  | sd, .construct _ :: ops => seederAfter n ⟨sd.root, sd.pos + n⟩ ops
  | sd, _ :: ops => seederAfter n sd ops

/-! ### instances: the model classes' sampling functions (C08's models of the code), with the engine as a
    stream of uniform draws in [0,1) (`std::uniform_real_distribution<double>(0,1)` applied to the engine) -/

/-- an engine seen through `probabilityDistribution(rand_)`: the draws still to come -/
structure DrawEng where
  draws : Nat → Rat
  pos : Nat

def DrawEng.next (e : DrawEng) : Rat × DrawEng := (e.draws e.pos, { e with pos := e.pos + 1 })

structure MdpCfg where
  T : Nat → Nat → List Rat
  R : Nat → Nat → Rat

/-- `MDP::Model::sampleSR(s, a)`: one draw from `rand_` -/
def mdpModelSampler (uniformOf : Nat → Nat → Rat) : RngSem DrawEng MdpCfg (Nat × Nat) (Nat × Rat) where
  nSeeds := 1
  seedEngine := fun seeds => ⟨uniformOf (seeds.getD 0 0), 0⟩
  call := fun c e sa => let d := e.next; (d.2, AITB.Sampling.sampleSR c.T c.R sa.1 sa.2 d.1)

structure PomdpCfg where
  T : Nat → Nat → List Rat
  O : Nat → Nat → List Rat
  R : Nat → Nat → Rat

/-- `POMDP::Model<MDP::Model>::sampleSOR(s, a)`: the object owns TWO engines — the base class's `rand_` (drawn first, for
    s') and its own `rand_` (for o).  Constructing the object draws two seeds in base-then-derived order. -/
def pomdpModelSampler (uniformOf : Nat → Nat → Rat) :
    RngSem (DrawEng × DrawEng) PomdpCfg (Nat × Nat) (Nat × Nat × Rat) where
  nSeeds := 2
  seedEngine := fun seeds => (⟨uniformOf (seeds.getD 0 0), 0⟩, ⟨uniformOf (seeds.getD 1 0), 0⟩)
  call := fun c e sa =>
    let d1 := e.1.next; let d2 := e.2.next
    ((d1.2, d2.2), AITB.Sampling.sampleSOR c.T c.O c.R sa.1 sa.2 d1.1 d2.1)

end AITB.Hidden
