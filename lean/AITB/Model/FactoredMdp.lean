/-
  AITB.Model.FactoredMdp — round 3 of C14: the validation chain and the model-level consumers of the factored algebra
    src/Factored/Utils/Core.cpp            checkTag, factorSpace / factorSpacePartial WITH the wraparound clamp,
                                           PartialFactorsEnumerator(F, factors, factorToSkip, missing) key insertion, reset()
    src/Factored/Utils/BayesianNetwork.cpp DDNGraph::push (the sanity checks in front of the startIds computation)
    include/AIToolbox/Utils/Probability.hpp isProbability(size, row)
    src/Factored/MDP/CooperativeModel.cpp  constructor checks, getTransitionProbability, getExpectedReward, sampleSRs rewards
    src/Factored/MDP/Utils.cpp             bellmanBackup
  Core Lean only.
-/
import AITB.Model.FactoredAlg
namespace AITB.Factored

/-! ### checkTag -/

/-- `TagErrors` -/
inductive TagErr where
  | none | noElements | tooManyElements | idTooHigh | notSorted | duplicates
  deriving DecidableEq, Repr

def TagErr.code : TagErr → Nat
  | .none => 0 | .noElements => 1 | .tooManyElements => 2 | .idTooHigh => 3 | .notSorted => 4 | .duplicates => 5

/-- the loop `for (t = 1; t < tag.size(); ++t)` of `checkTag`: `n = space.size()`, `prev = previousV`, `t` the position of the head -/
def checkTagLoop (n : Nat) : Nat → Nat → List Nat → TagErr × Nat
  | _, _, [] => (.none, 0)
  | prev, t, v :: r =>
      if n ≤ v then (.idTooHigh, t)
      else if v < prev then (.notSorted, t)
      else if v = prev then (.duplicates, t)
      else checkTagLoop n v (t + 1) r

/-- `checkTag(space, tag)` -/
def checkTag (sp tag : List Nat) : TagErr × Nat :=
  match tag with
  | [] => (.noElements, 0)
  | v0 :: r =>
      if sp.length < (v0 :: r).length then (.tooManyElements, 0)
      else if sp.length ≤ v0 then (.idTooHigh, 0)
      else checkTagLoop sp.length v0 1 r

def tagAccepted (sp tag : List Nat) : Bool := (checkTag sp tag).1 == .none

/-! ### factorSpace / factorSpacePartial with the wraparound clamp (`M = numeric_limits<size_t>::max()`) -/

/-- `for (f : space) { if (M / f < retval) return M; retval *= f; }` -/
def spaceClamp (M : Nat) : List Nat → Nat → Nat
  | [], r => r
  | f :: fs, r => if M / f < r then M else spaceClamp M fs (r * f)

def factorSpaceC (M : Nat) (sp : List Nat) : Nat := spaceClamp M sp 1
def factorSpacePartialC (M : Nat) (keys sp : List Nat) : Nat := spaceClamp M (sel keys sp) 1

/-! ### PartialFactorsEnumerator(F, factors, factorToSkip, missing) -/

/-- the `missing` branch: `factors_.first` = `factors` with `factorToSkip` inserted at its sorted place, and
    `factorToSkipId_` = that place.  `j` is the position of the head (`i == j` holds until the insertion happens). -/
def pfeMissingKeys (skipF : Nat) : List Nat → Nat → List Nat × Nat
  | [], j => ([skipF], j)
  | f :: fs, j =>
      if skipF < f then (skipF :: f :: fs, j)
      else let r := pfeMissingKeys skipF fs (j + 1); (f :: r.1, r.2)

/-- the `!missing` branch: the keys are `factors`; the skip id is the first position holding `factorToSkip`
    (when it is absent the member is left uninitialised: excluded by the documented precondition) -/
def pfePresentSkip (skipF : Nat) : List Nat → Nat → Option Nat
  | [], _ => none
  | f :: fs, i => if skipF = f then some i else pfePresentSkip skipF fs (i + 1)

/-- `reset()`: both branches (cleared → `resize`, otherwise `fill 0`) leave the all-zero tuple of the key count -/
def pfeReset (dims : List Nat) (_st : Option (List Nat)) : Option (List Nat) :=
  if dims.isEmpty then none else some (dims.map (fun _ => 0))

/-- the values visited from a given state on (the loop `for (; e.isValid(); e.advance())`) -/
def enumFrom (skip : Nat) (dims : List Nat) (st : Option (List Nat)) : Nat → List (List Nat)
  | 0 => []
  | f + 1 => match st with
      | none => []
      | some v => v :: enumFrom skip dims (advance skip dims st) f

/-! ### DDNGraph::push — the checks in front of the `startIds_` computation -/

/-- `DDNGraph::push(parents)` returns normally (true) / throws (false); `pushed` = number of nodes already in -/
def pushAccepts (S A : List Nat) (pushed : Nat) (ps : ParentSet) : Bool :=
  pushed != S.length && tagAccepted A ps.agents && ps.features.length == spacePartial ps.agents A &&
  ps.features.all (fun f => tagAccepted S f)

/-- the graph after a sequence of `push` calls (a throwing call leaves the graph as it was) -/
def pushAll (S A : List Nat) : List ParentSet → List ParentSet → List ParentSet
  | acc, [] => acc
  | acc, p :: ps => if pushAccepts S A acc.length p then pushAll S A (acc ++ [p]) ps else pushAll S A acc ps

/-! ### isProbability(size, row) of Utils/Probability.hpp -/

def sumList (l : List Rat) : Rat := l.foldl (· + ·) 0

/-- `for (i < size) { if (in[i] < 0) return false; p += in[i]; }  if (checkDifferentSmall(p, 1.0)) return false; return true;` -/
def isProbRow (n : Nat) (row : List Rat) : Bool :=
  let r := row.take n
  r.all (fun v => decide (0 ≤ v)) && decide (absQ (sumList r - 1) ≤ AITB.Gen.equalToleranceSmall)

/-! ### CooperativeModel -/

structure CoopModel where
  g : DDNGraph
  T : List Mat
  R : FM
  discount : Rat
  deriving Repr

def matCols (m : Mat) : Nat := (m.getD 0 []).length

/-- the reward-basis checks of the constructor: both tags pass `checkTag`, the matrix has Π(actionTag) columns and Π(tag) rows -/
def rewardBasisOK (S A : List Nat) (r : BM) : Bool :=
  tagAccepted A r.atag && tagAccepted S r.tag &&
  r.vals.all (fun row => row.length == spacePartial r.atag A) && r.vals.length == spacePartial r.tag S

/-- `CooperativeModel::CooperativeModel(graph, transitions, rewards, discount)` returns normally (true) / throws `invalid_argument` (false) -/
def cmAccepts (m : CoopModel) : Bool :=
  decide (0 < m.discount) && decide (m.discount ≤ 1) &&
  !m.g.S.isEmpty && !m.g.A.isEmpty &&
  m.g.parents.length == m.g.S.length &&
  m.T.length == m.g.S.length &&
  (List.range m.g.S.length).all (fun i =>
    let Ti := m.T.getD i []
    Ti.length == m.g.getSize i && Ti.all (fun row => row.length == m.g.S.getD i 0) &&
    Ti.all (fun row => isProbRow (m.g.S.getD i 0) row)) &&
  m.R.all (rewardBasisOK m.g.S m.g.A)

/-- `CooperativeModel::getTransitionProbability(s, a, s1)` -/
def CoopModel.prob (m : CoopModel) (s a s1 : List Nat) : Rat := ddnProb m.g m.T s a s1
/-- `CooperativeModel::getExpectedReward(s, a, s1)` -/
def CoopModel.reward (m : CoopModel) (s a : List Nat) : Rat := fmGet m.g.S m.g.A m.R s a
/-- the `Rewards` vector filled by `sampleSRs`: one entry per reward basis -/
def CoopModel.rewards (m : CoopModel) (s a : List Nat) : List Rat := m.R.map (fun e => e.get m.g.S m.g.A s a)
/-- the next state `sampleSR` returns when every looked-up row is a point mass: the position of the 1 in each row -/
def CoopModel.detNext (m : CoopModel) (s a : List Nat) : List Nat :=
  (List.range m.g.S.length).map (fun i => ((m.T.getD i []).getD (m.g.getId i s a) []).findIdx (· == 1))

/-! ### bellmanBackup (src/Factored/MDP/Utils.cpp)

`QFunction Q = backProject(m.getTransitionFunction(), v.values * (v.weights * m.getDiscount()));`
`return plusEqual(m.getS(), m.getA(), Q, m.getRewardFunction());` -/
def bellmanBackup (m : CoopModel) (vals : FV) (w : List Rat) : FM :=
  fmPlusEqualFM m.g.S m.g.A (backProjectFV m.g m.T (fvScaleW (w.map (· * m.discount)) vals)) m.R

end AITB.Factored
