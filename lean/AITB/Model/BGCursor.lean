/-
  AITB.Model.BGCursor — cursor model (C10b, round 4) of the selection loop at the end of
  `BeliefGenerator<M>::expandBeliefList` (include/AIToolbox/POMDP/Algorithms/Utils/BeliefGenerator.hpp): the in-place partitioning of the
  belief list into "good" beliefs `bl[0, good)` and candidate beliefs `bl[good, all)` whose distances live in `distances[k] ↔ bl[good + k]`,
  with the "double swap" that moves the farthest candidate into the good set.  CHECKED access: `none` = an index outside a vector.
  Beliefs are represented by identifiers; every distance carries the identifier of the belief it was computed for (`tag`), so that the
  correspondence `distances[k] ↔ bl[good + k]` the code relies on can be stated.  Core Lean only.
-/
namespace AITB.BGCursor

structure St where
  bl : List Nat                -- belief ids; `bl.size()` may exceed `all` by the one scratch slot
  dist : List (Nat × Nat)      -- (distance, tag = id of the belief it belongs to)
  good : Nat
  all : Nat
deriving DecidableEq, Repr

/-- checked `std::swap(l[i], l[j])` -/
def swapAt {α : Type} (l : List α) (i j : Nat) : Option (List α) :=
  match l[i]?, l[j]? with
  | some a, some b => some ((l.set i b).set j a)
  | _, _ => none

/-- one step of `std::max_element`: state (next index, index of the best so far, best value); a later element wins only if strictly greater -/
def argStep (acc : Nat × Nat × Nat) (x : Nat × Nat) : Nat × Nat × Nat :=
  if x.1 > acc.2.2 then (acc.1 + 1, acc.1, x.1) else (acc.1 + 1, acc.2.1, acc.2.2)

/-- `std::distance(begin, std::max_element(begin, end))` : index of the FIRST maximum; `none` on an empty range (the code would then
    index `distances[0]` of an empty vector) -/
def argmaxFirst : List (Nat × Nat) → Option Nat
  | [] => none
  | (v, _) :: t => some (t.foldl argStep (1, 0, v)).2.1

/-- one iteration of `for (size_t i = 0; i < beliefsToAdd; ++i)`: returns the new state and whether the loop breaks (`good >= max`).
    `upd good k old` = the recomputed distance `min(old, distance(bl[good-1], bl[good+k]))` (an arbitrary function: its value never
    affects an index other than through later maxima). -/
def selectStep (upd : St → Nat → Nat → Nat) (max : Nat) (s : St) : Option (St × Bool) :=
  match argmaxFirst s.dist with
  | none => none
  | some id =>
    match swapAt s.dist id (s.dist.length - 1) with                           -- std::swap(distances[id], distances.back())
    | none => none
    | some d1 =>
      match swapAt s.bl (s.good + id) (s.all - 1) with                        -- std::swap(bl[good + id], bl[all - 1])
      | none => none
      | some b1 =>
        match swapAt b1 s.good (s.all - 1) with                               -- std::swap(bl[good], bl[all - 1])
        | none => none
        | some b2 =>
          let s1 : St := { bl := b2, dist := d1, good := s.good + 1, all := s.all }
          if s1.good ≥ max then some (s1, true)
          else
            let d2 := d1.dropLast                                             -- distances.pop_back()
            -- for (k < distances.size()) distances[k] = min(distances[k], computeDistance(bl[good - 1], bl[good + k]))  (checked reads)
            if (List.range d2.length).all (fun k => (b2[s1.good - 1]?).isSome && (b2[s1.good + k]?).isSome) then
              some ({ s1 with dist := (List.range d2.length).zip d2 |>.map (fun (k, (v, t)) => (upd s1 k v, t)) }, false)
            else none

/-- the loop with its bound `beliefsToAdd` -/
def selectLoop (upd : St → Nat → Nat → Nat) (max : Nat) : Nat → St → Option St
  | 0, s => some s
  | n+1, s =>
    match selectStep upd max s with
    | none => none
    | some (s', true) => some s'
    | some (s', false) => selectLoop upd max n s'

/-- the correspondence the code relies on: `distances[k]` is the distance of `bl[good + k]` -/
def aligned (s : St) : Bool := (List.range s.dist.length).all (fun k => (s.dist[k]?).map (·.2) == s.bl[s.good + k]?)

end AITB.BGCursor
