/-
  AITB.Model.Policies — executable model of the policy classes (C09).  Core Lean only.

  Action values / rows are total functions `Nat → Rat` with an explicit size `n` (number of actions);
  every statement is quantified over indices `< n`.  Random draws are inputs: a uniform real `u ∈ [0,1)`
  (what `probabilityDistribution(rand_)` returned) or the raw 32-bit words of the mt19937 engine
  (consumed by libstdc++'s `uniform_int_distribution`, Lemire's multiply-shift with rejection).

  Modelled code (same control flow, same tie-breaks, same tolerances):
    include/AIToolbox/Utils/Core.hpp                    checkEqualSmall, checkEqualGeneral
    include/AIToolbox/Utils/Probability.hpp             sampleProbability (dense, subtractive scan)
    src/Utils/Probability.cpp                           projectToProbability (as written / as repaired: `Gen.C09.projRepaired`)
    Bandit/Policies/Utils/QGreedyPolicyWrapper.hpp      sampleAction, getActionProbability, getPolicy (three different scans)
    Bandit/Policies/Utils/QSoftmaxPolicyWrapper.hpp     the three members, given the implementation's exp vector
    EpsilonPolicyInterface.hpp, {MDP,Bandit}/EpsilonPolicy.cpp    mixture, getPolicy, sampleAction
    src/MDP/Policies/PolicyWrapper.cpp                  table look-up + scan
    src/MDP/Policies/WoLFPolicy.cpp                     stepUpdateP
    src/MDP/Policies/PGAAPPPolicy.cpp                   stepUpdateP
    src/Bandit/Policies/LRPPolicy.cpp                   stepUpdateP
    src/Bandit/Policies/ESRLPolicy.cpp                  stepUpdateP / getPolicy / getActionProbability state machine
    src/Bandit/Policies/SuccessiveRejectsPolicy.cpp     stepUpdateQ state machine (phase lengths nK supplied)
    src/Bandit/Policies/ThompsonSamplingPolicy.cpp      selection kernel of sampleAction given the posterior draws
-/
import AITB.Model.Num
import AITB.Gen.Constants
import AITB.Gen.C09
namespace AITB.Pol

/-! ## numbers -/

def sumTo : Nat → (Nat → Rat) → Rat
  | 0, _ => 0
  | n+1, f => sumTo n f + f n

def dotTo (n : Nat) (f g : Nat → Rat) : Rat := sumTo n (fun i => f i * g i)

def minQ (a b : Rat) : Rat := if a ≤ b then a else b
def maxQ (a b : Rat) : Rat := if a ≤ b then b else a

def tolS : Rat := AITB.Gen.equalToleranceSmall
def tolG : Rat := AITB.Gen.equalToleranceGeneral

/-- `checkEqualSmall` -/
def ceS (a b : Rat) : Bool := decide (absQ (a - b) ≤ tolS)
/-- `checkEqualGeneral` -/
def ceG (a b : Rat) : Bool := ceS a b || decide (absQ (a - b) ≤ minQ (absQ a) (absQ b) * tolG)

/-- number of indices `< n` satisfying `p` -/
def countTo (p : Nat → Bool) : Nat → Nat
  | 0 => 0
  | k+1 => countTo p k + (if p k then 1 else 0)

/-- materialise a row as a list / read a list as a row (the driver stores lists between steps so closures do not pile up) -/
def freezeL (n : Nat) (f : Nat → Rat) : List Rat := (List.range n).map f
def thaw (l : List Rat) : Nat → Rat := fun i => l.getD i 0

/-! ## libstdc++ `uniform_int_distribution<…>(0, range-1)` over a 32-bit engine (Lemire, `_S_nd`) -/

def two32 : Nat := 4294967296

/-- consume words until one is accepted; returns the value in `[0, range)` and the remaining words -/
def lemire (range : Nat) : List Nat → Option (Nat × List Nat)
  | [] => none
  | w :: ws =>
    let prod := w * range
    let low := prod % two32
    if low < range && low < (two32 - range) % range then lemire range ws
    else some (prod / two32, ws)

/-! ## dense `sampleProbability` : subtractive scan with fall-through to `d-1` -/

def scanOff (row : Nat → Rat) : (rem : Nat) → (off : Nat) → (u : Rat) → Option Nat
  | 0, _, _ => none
  | r+1, off, u => if u < row off then some off else scanOff row r (off + 1) (u - row off)

def sampleRow (row : Nat → Rat) (n : Nat) (u : Rat) : Nat := (scanOff row n 0 u).getD (n - 1)

/-! ## QGreedyPolicyWrapper -/

structure GS where
  best : Rat
  buf : List Nat

/-- one iteration of the loop of `sampleAction` (also of `WoLFPolicy::stepUpdateP`'s best-action search) -/
def gStep (q : Nat → Rat) (st : GS) (a : Nat) : GS :=
  if ceG (q a) st.best then { st with buf := st.buf ++ [a] }
  else if st.best < q a then ⟨q a, [a]⟩ else st

/-- state after the loop has looked at actions `0..k` -/
def gScan (q : Nat → Rat) : Nat → GS
  | 0 => ⟨q 0, [0]⟩
  | k+1 => gStep q (gScan q k) (k + 1)

/-- `sampleAction` : tie list, then a uniform pick driven by the engine words -/
def gSample (q : Nat → Rat) (n : Nat) (ws : List Nat) : Option Nat :=
  let st := gScan q (n - 1)
  match lemire st.buf.length ws with
  | some (k, _) => some (st.buf.getD k 0)
  | none => none

/-- loop of `getActionProbability(a)` over the first `k` actions: `none` = early `return 0.0` -/
def gProbAux (q : Nat → Rat) (a : Nat) : Nat → Option Nat
  | 0 => some 0
  | k+1 => match gProbAux q a k with
    | none => none
    | some c => if ceG (q k) (q a) then some (c + 1) else if q a < q k then none else some c

def gProb (q : Nat → Rat) (n a : Nat) : Rat :=
  match gProbAux q a n with
  | none => 0
  | some c => 1 / (c : Rat)

structure GM where
  max : Rat
  count : Nat

def gmStep (q : Nat → Rat) (st : GM) (a : Nat) : GM :=
  if ceG (q a) st.max then { st with count := st.count + 1 }
  else if st.max < q a then ⟨q a, 1⟩ else st

/-- first loop of `getPolicy` after actions `0..k` -/
def gMax (q : Nat → Rat) : Nat → GM
  | 0 => ⟨q 0, 1⟩
  | k+1 => gmStep q (gMax q k) (k + 1)

def gPolicy (q : Nat → Rat) (n a : Nat) : Rat :=
  let m := gMax q (n - 1)
  if ceG (q a) m.max then 1 / (m.count : Rat) else 0

/-! ### the same three members with the tolerance test of each of the four sites as a parameter (`Gen.C09.greedyCmp…`:
    which of `checkEqualGeneral` / `checkEqualSmall` the source uses at that site), and in the "maximum first" form
    (`Gen.C09.greedyMaxFirst`): the true maximum is found with plain `>` and the tie set is `{a | ce (q a) max}` in all three. -/

abbrev Cmp := Rat → Rat → Bool

def gStepC (ce : Cmp) (q : Nat → Rat) (st : GS) (a : Nat) : GS :=
  if ce (q a) st.best then { st with buf := st.buf ++ [a] }
  else if st.best < q a then ⟨q a, [a]⟩ else st

def gScanC (ce : Cmp) (q : Nat → Rat) : Nat → GS
  | 0 => ⟨q 0, [0]⟩
  | k+1 => gStepC ce q (gScanC ce q k) (k + 1)

def gProbAuxC (ce : Cmp) (q : Nat → Rat) (a : Nat) : Nat → Option Nat
  | 0 => some 0
  | k+1 => match gProbAuxC ce q a k with
    | none => none
    | some c => if ce (q k) (q a) then some (c + 1) else if q a < q k then none else some c

def gmStepC (ce : Cmp) (q : Nat → Rat) (st : GM) (a : Nat) : GM :=
  if ce (q a) st.max then { st with count := st.count + 1 }
  else if st.max < q a then ⟨q a, 1⟩ else st

def gMaxC (ce : Cmp) (q : Nat → Rat) : Nat → GM
  | 0 => ⟨q 0, 1⟩
  | k+1 => gmStepC ce q (gMaxC ce q k) (k + 1)

/-- plain maximum of `q 0 … q k` (`>` scan / Eigen `maxCoeff`) -/
def maxTo (q : Nat → Rat) : Nat → Rat
  | 0 => q 0
  | k+1 => if maxTo q k < q (k + 1) then q (k + 1) else maxTo q k

/-- the tie list of the "maximum first" form -/
def tieList (ce : Cmp) (q : Nat → Rat) (n : Nat) : List Nat := (List.range n).filter (fun a => ce (q a) (maxTo q (n - 1)))

/-- the greedy wrapper as the source has it: `mf` = maximum-first form; `cS cP c1 c2` = tolerance test used by `sampleAction`,
    `getActionProbability`, first and second pass of `getPolicy` -/
structure GForm where
  mf : Bool
  cS : Cmp
  cP : Cmp
  c1 : Cmp
  c2 : Cmp

def GForm.buf (f : GForm) (q : Nat → Rat) (n : Nat) : List Nat :=
  if f.mf then tieList f.cS q n else (gScanC f.cS q (n - 1)).buf

def GForm.sample (f : GForm) (q : Nat → Rat) (n : Nat) (ws : List Nat) : Option Nat :=
  let buf := f.buf q n
  match lemire buf.length ws with
  | some (k, _) => some (buf.getD k 0)
  | none => none

def GForm.prob (f : GForm) (q : Nat → Rat) (n a : Nat) : Rat :=
  if f.mf then (if f.cP (q a) (maxTo q (n - 1)) then 1 / ((tieList f.cP q n).length : Rat) else 0)
  else match gProbAuxC f.cP q a n with
    | none => 0
    | some c => 1 / (c : Rat)

def GForm.policy (f : GForm) (q : Nat → Rat) (n a : Nat) : Rat :=
  if f.mf then (if f.c2 (q a) (maxTo q (n - 1)) then 1 / ((tieList f.c1 q n).length : Rat) else 0)
  else
    let m := gMaxC f.c1 q (n - 1)
    if f.c2 (q a) m.max then 1 / (m.count : Rat) else 0

/-- the source as first read: running maximum, `checkEqualGeneral` at all four sites -/
def GForm.asWritten : GForm := ⟨false, ceG, ceG, ceG, ceG⟩
/-- the repaired source: maximum first, `checkEqualGeneral` at all four sites -/
def GForm.repaired : GForm := ⟨true, ceG, ceG, ceG, ceG⟩

/-! ### deciders evaluated by the driver on every greedy-type line (`Props/C09k`: they decide the hypotheses of the theorems) -/

/-- `checkEqualGeneral` is transitive on the row (with reflexivity and symmetry: an equivalence) — "clustered" rows: exact ties,
    ties inside the library tolerance, everything else separated.  The hypothesis of `greedy_classes` (`clsB_iff`). -/
def clsB (q : Nat → Rat) (n : Nat) : Bool :=
  (List.range n).all (fun i => (List.range n).all (fun j => (List.range n).all (fun k =>
    !(ceG (q i) (q j) && ceG (q j) (q k)) || ceG (q i) (q k))))

/-- the tie relation is the same before and after the shift -/
def sameRelB (q : Nat → Rat) (c : Rat) (n : Nat) : Bool :=
  (List.range n).all (fun i => (List.range n).all (fun j => ceG (q i) (q j) == ceG (q i + c) (q j + c)))

/-! ## QSoftmaxPolicyWrapper — `e a` is the implementation's `exp(q a / T)` when finite, `inf a` says it is `+inf` -/

def smProb (e : Nat → Rat) (inf : Nat → Bool) (n a : Nat) : Rat :=
  let c := countTo inf n
  if c ≠ 0 then (if inf a then 1 / (c : Rat) else 0) else e a / sumTo n e

def smPolicy (smallUniform : Bool) (e : Nat → Rat) (inf : Nat → Bool) (n a : Nat) : Rat :=
  let c := countTo inf n
  if c ≠ 0 then (if inf a then 1 / (c : Rat) else 0)
  else if smallUniform && ceS (sumTo n e) 0 then 1 / (n : Rat)
  else e a / sumTo n e

def smSample (e : Nat → Rat) (inf : Nat → Bool) (n : Nat) (u : Rat) (ws : List Nat) : Option Nat :=
  let infs := (List.range n).filter inf
  if infs.length ≠ 0 then
    match lemire infs.length ws with
    | some (k, _) => some (infs.getD k 0)
    | none => none
  else
    let s := sumTo n e
    some (sampleRow (fun i => e i / s) n u)

/-- the temperature test in front of all three members -/
def smDelegates (t : Rat) : Bool := ceS t 0

/-! ## EpsilonPolicyInterface / EpsilonPolicy -/

def epsProb (eps : Rat) (p : Nat → Rat) (n a : Nat) : Rat := (1 - eps) * p a + eps * (1 / (n : Rat))
def epsPolicy (eps : Rat) (p : Nat → Rat) (n a : Nat) : Rat := p a * (1 - eps) + eps / (n : Rat)
/-- `u` = the uniform real drawn first; `rnd` = what `sampleRandomAction` would return, `wrapped` = what the wrapped policy would return -/
def epsSample (eps u : Rat) (rnd wrapped : Nat) : Nat := if u ≤ eps then rnd else wrapped

/-! ## projectToProbability -/

def projMask (v : Nat → Rat) (i : Nat) : Rat := if v i < 0 then 0 else 1
def projSum (n : Nat) (v : Nat → Rat) : Rat := sumTo n (fun i => if v i < 0 then 0 else v i)
def projCount (n : Nat) (v : Nat → Rat) : Nat := countTo (fun i => !decide (v i < 0)) n

def project (repaired : Bool) (n : Nat) (v : Nat → Rat) : Nat → Rat :=
  let sum := projSum n v
  let count := projCount n v
  if ceS sum 1 then (if repaired then fun i => projMask v i * v i else projMask v)
  else if ceS sum 0 then (if repaired then fun _ => 1 / (n : Rat) else fun i => projMask v i + 1 / (n : Rat))
  else if 1 < sum then fun i => projMask v i * (v i / sum)
  else fun i => projMask v i * (v i + (1 - sum) / (count : Rat))

/-! ## PGAAPPPolicy::stepUpdateP (one state's row) -/

def pgaPre (n : Nat) (lr pl : Rat) (q row : Nat → Rat) : Nat → Rat :=
  let avgR := dotTo n row q
  fun a =>
    let d0 := if ceS (row a) 1 then q a - avgR else (q a - avgR) / (1 - row a)
    let d := d0 - pl * row a * absQ d0
    row a + lr * d

def pgaStep (repaired : Bool) (n : Nat) (lr pl : Rat) (q row : Nat → Rat) : Nat → Rat :=
  project repaired n (pgaPre n lr pl q row)

/-! ## WoLFPolicy::stepUpdateP (one state's rows) -/

structure WRow where
  avg : Nat → Rat
  act : Nat → Rat
  c : Nat

def WRow.init (n : Nat) : WRow := ⟨fun _ => 1 / (n : Rat), fun _ => 1 / (n : Rat), 0⟩

/-- running-average row after `avg = avg*c + actual; avg /= avg.sum()` -/
def wolfAvg (n : Nat) (r : WRow) : Nat → Rat :=
  let avg1 := fun i => r.avg i * (r.c : Rat) + r.act i
  fun i => avg1 i / sumTo n avg1

/-- the two expected values whose comparison selects the learning rate: (avgValue, actualValue) -/
def wolfVals (n : Nat) (q : Nat → Rat) (r : WRow) : Rat × Rat := (dotTo n q (wolfAvg n r), dotTo n q r.act)

/-- `best` is the action the tie-pick selected (`gSample q n words`) -/
def wolfStep (n : Nat) (dW dL sc : Rat) (q : Nat → Rat) (best : Nat) (r : WRow) : WRow :=
  let avg2 := wolfAvg n r
  let c2 := r.c + 1
  let (avgV, actV) := wolfVals n q r
  let d0 := if avgV < actV then dW else dL
  let d := d0 / ((c2 : Rat) / sc + 1)
  let oldV := r.act best
  let a1 := fun i => if i = best then minQ 1 (oldV + d) else maxQ 0 (r.act i - d / ((n : Rat) - 1))
  let s2 := sumTo n a1
  ⟨avg2, fun i => a1 i / s2, c2⟩

/-! ## LRPPolicy::stepUpdateP -/

def lrpStep (n : Nat) (a b : Rat) (act : Nat) (result : Bool) (p : Nat → Rat) : Nat → Rat :=
  fun i =>
    if result then (if i = act then p i + a * (1 - p i) else p i - a * p i)
    else (if i = act then p i * (1 - b) else b / ((n : Rat) - 1) + (1 - b) * p i)

def lrpInit (n : Nat) : Nat → Rat := fun _ => 1 / (n : Rat)

/-! ## ThompsonSamplingPolicy::sampleAction — selection kernel.
    `val a` is the posterior draw of arm `a` (`q[a] + t·sqrt(m2/(n(n-1)))`, computed by the implementation);
    the running maximum starts at `init` (`none` = below every double). -/

def gtOpt (v : Rat) : Option Rat → Bool
  | none => true
  | some b => decide (b < v)

def thLoop (cnt : Nat → Nat) (val : Nat → Rat) : (rem a best : Nat) → (bv : Option Rat) → Nat
  | 0, _, best, _ => best
  | r+1, a, best, bv =>
    if cnt a < 2 then a
    else if gtOpt (val a) bv then thLoop cnt val r (a + 1) a (some (val a))
    else thLoop cnt val r (a + 1) best bv

/-- smallest positive normal double, `std::numeric_limits<double>::min()` = 2^-1022 -/
def dblMin : Rat := 1 / ((2 ^ 1022 : Nat) : Rat)

def thInit (lowest : Bool) : Option Rat := if lowest then none else some dblMin

def thompson (lowest : Bool) (cnt : Nat → Nat) (val : Nat → Rat) (n : Nat) : Nat :=
  thLoop cnt val n 0 0 (thInit lowest)

/-! ## Monte-Carlo tables of ThompsonSamplingPolicy / TopTwoThompsonSamplingPolicy / T3CPolicy:
    `getPolicy` : `retval[sampleAction()] += 1.0` (`trials` times), then `retval /= retval.sum()`;
    `getActionProbability(a)` : `selected / trials` with `selected` = number of the `trials` fresh samples equal to `a`.
    `cnt a` = how often `a` was sampled. -/

def mcTable (n : Nat) (cnt : Nat → Nat) : Nat → Rat := fun a => (cnt a : Rat) / sumTo n (fun i => (cnt i : Rat))
def mcQuery (trials selected : Nat) : Rat := (selected : Rat) / (trials : Rat)

/-! ## Factored (joint-action) policies: `Factored::Bandit::EpsilonPolicy::getActionProbability` =
    `(1 - eps) * wrapped(a) + eps * (1 / factorSpace(A))` over a deterministic wrapped policy that plays `g`
    (`eps = 0`: QGreedyPolicy / SingleActionPolicy / LLRPolicy themselves, `eps = 1`: RandomPolicy). `N` = size of the joint space. -/

def jointEps (eps : Rat) (N : Nat) (g a : List Nat) : Rat := (1 - eps) * (if a = g then 1 else 0) + eps * (1 / (N : Rat))

/-- `recommendAction` of TopTwoThompson / T3C: Eigen `maxCoeff(&idx)` — first index of the maximum -/
def recommend (mean : Nat → Rat) (n : Nat) : Nat :=
  (List.range n).foldl (fun b i => if mean b < mean i then i else b) 0

/-- `std::find` on the list of allowed actions: index of the first occurrence -/
def findIdx (a : Nat) : List Nat → Option Nat
  | [] => none
  | x :: t => if x = a then some 0 else (findIdx a t).map (· + 1)

/-! ## SuccessiveRejectsPolicy — deterministic round-robin with arm elimination.
    `nk ph` = `nKNew_` computed by `updateNks()` when `currentPhase_ = ph` (taken from the implementation: it is a
    `ceil` of a double expression); `mean a` = current reward estimate. -/

structure SR where
  n : Nat                 -- A
  phase : Nat
  actId : Nat
  pulls : Nat
  nkOld : Nat
  nkNew : Nat
  avail : List Nat

def SR.init (n nk1 : Nat) : SR := ⟨n, 1, 0, 0, 0, nk1, List.range n⟩

/-- arm of `avail` with the smallest mean, first one on ties (loop in `stepUpdateQ`) -/
def srMinArm (mean : Nat → Rat) : List Nat → Nat → Rat → Nat
  | [], best, _ => best
  | a :: t, best, bv => if mean a < bv then srMinArm mean t a (mean a) else srMinArm mean t best bv

/-- split off the last element -/
def unsnoc : List Nat → Option (List Nat × Nat)
  | [] => none
  | [z] => some ([], z)
  | x :: y :: t => match unsnoc (y :: t) with
    | some (d, z) => some (x :: d, z)
    | none => none

/-- `*it = back(); pop_back()` (SuccessiveRejects) / `swap(v[i], v.back()); pop_back()` (ESRL): the last element moves to
    position `i` and the vector shrinks by one (when `i` is the last position the element is simply dropped) -/
def swapPop (l : List Nat) (i : Nat) : List Nat :=
  match unsnoc l with
  | none => []
  | some (d, z) => d.set i z

def SR.step (s : SR) (nkNext : Nat) (mean : Nat → Rat) : SR :=
  let pulls := s.pulls + 1
  if pulls < s.nkNew - s.nkOld then { s with pulls := pulls }
  else
    let actId := s.actId + 1
    if actId < s.avail.length then { s with pulls := 0, actId := actId }
    else
      let phase := s.phase + 1
      if phase > s.n then { s with pulls := 0, actId := 0, phase := phase }
      else
        let a0 := s.avail.getD 0 0
        let worst := srMinArm mean (s.avail.drop 1) a0 (mean a0)
        { s with pulls := 0, actId := 0, phase := phase, nkOld := s.nkNew, nkNew := nkNext,
                 avail := swapPop s.avail ((findIdx worst s.avail).getD 0) }

def SR.current (s : SR) : Nat := s.avail.getD s.actId 0

/-! ## ESRLPolicy — exploration phases over a reward-inaction automaton (LRP with b = 0), then exploitation -/

/-- `std::lower_bound(begin, end, a)` as libstdc++ runs it (bisection on `count`), on a list that need not be sorted -/
def lowerBoundAux (l : List Nat) (a : Nat) : (fuel first count : Nat) → Nat
  | 0, first, _ => first
  | f+1, first, count =>
    if count = 0 then first
    else
      let step := count / 2
      if l.getD (first + step) 0 < a then lowerBoundAux l a f (first + step + 1) (count - (step + 1))
      else lowerBoundAux l a f first step

/-- look-up by bisection followed by the usual `it == end || *it != a` guard -/
def lowerBoundIdx (a : Nat) (l : List Nat) : Option Nat :=
  let i := lowerBoundAux l a (l.length + 1) 0 l.length
  if i < l.length && l.getD i 0 == a then some i else none

/-- `retval[allowed[i]] = f (k + i)` for `i = 0, 1, …` in order (loop of `getPolicy`) -/
def scatter (f : Nat → Rat) : List Nat → Nat → List Rat → List Rat
  | [], _, v => v
  | x :: t, k, v => scatter f t (k + 1) (v.set x (f k))

structure ESRL where
  n : Nat
  a : Rat
  exploit : Bool
  bestAction : Nat
  timestep : Nat
  N : Nat
  explorations : Nat
  phases : Nat
  average : Rat
  window : Nat
  values : List Rat
  allowed : List Nat
  lri : List Rat

def ESRL.init (n : Nat) (a : Rat) (N phases window : Nat) : ESRL :=
  ⟨n, a, false, 0, 0, N, 0, phases, 0, window, List.replicate n 0, List.range n, freezeL n (lrpInit n)⟩

/-- first index of the maximum (strict `>` scan) over `0..k` -/
def argmaxFirst (p : Nat → Rat) : Nat → Nat
  | 0 => 0
  | k+1 => let b := argmaxFirst p k; if p b < p (k + 1) then k + 1 else b

/-- Eigen `maxCoeff(&idx)` on a list: first maximum -/
def argmaxList (l : List Rat) : Nat := argmaxFirst (fun i => l.getD i 0) (l.length - 1)

def ESRL.step (s : ESRL) (act : Nat) (result : Bool) : ESRL :=
  if s.explorations < s.phases then
    match findIdx act s.allowed with
    | none => s
    | some k =>
      let m := s.allowed.length
      let lri := freezeL m (lrpStep m s.a 0 k result (thaw s.lri))
      let ts := s.timestep + 1
      let avg := (((s.window : Rat) - 1) * s.average + (if result then 1 else 0)) / (s.window : Rat)
      if ts ≥ s.N then
        let conv := argmaxFirst (thaw lri) (m - 1)
        let ca := s.allowed.getD conv 0
        let values := s.values.set ca (maxQ (s.values.getD ca 0) avg)
        let allowed := if m > 1 then swapPop s.allowed conv else List.range s.n
        { s with explorations := s.explorations + 1, values := values, allowed := allowed,
                 lri := freezeL allowed.length (lrpInit allowed.length), timestep := 0, average := 0 }
      else { s with lri := lri, timestep := ts, average := avg }
  else if !s.exploit then { s with exploit := true, bestAction := argmaxList s.values }
  else s

/-- `getActionProbability`; `useFind` = the look-up in the list of allowed actions is `std::find` (as first read) rather than a
    bisection (`Gen.C09.esrlProbUsesFind`) -/
def ESRL.prob (useFind : Bool) (s : ESRL) (a : Nat) : Rat :=
  if s.exploit then (if a = s.bestAction then 1 else 0)
  else match (if useFind then findIdx a s.allowed else lowerBoundIdx a s.allowed) with
    | none => 0
    | some k => thaw s.lri k

/-- `getPolicy`: zero vector overwritten at `allowed[i]` with `lri i`, in order of `i` -/
def ESRL.policy (s : ESRL) : List Rat :=
  if s.exploit then (List.replicate s.n (0 : Rat)).set s.bestAction 1
  else scatter (thaw s.lri) s.allowed 0 (List.replicate s.n 0)

/-- `sampleAction` given the uniform real the inner automaton would draw -/
def ESRL.sample (s : ESRL) (u : Rat) : Nat :=
  if s.exploit then s.bestAction else s.allowed.getD (sampleRow (thaw s.lri) s.allowed.length u) 0

/-! ## TopTwoThompsonSamplingPolicy / T3CPolicy — selection kernels given the inner Thompson policy's answers and the coins -/

/-- `inner` = successive answers of the inner `ThompsonSamplingPolicy::sampleAction()`; `coin` = outcome of `pickBest(rand_)`.
    `none` = the rejection loop has not found a different arm within the supplied answers. -/
def topTwo (cnt : Nat → Nat) (coin : Bool) : List Nat → Option Nat
  | [] => none
  | b :: rest => if cnt b < 2 then some b else if coin then some b else rest.find? (fun x => x != b)

/-- T3C transportation cost of arm `a` against the leader `b` -/
def t3cCost (mean : Nat → Rat) (cnt : Nat → Nat) (var : Rat) (b a : Nat) : Rat :=
  if mean b ≤ mean a then 0
  else (mean b - mean a) * (mean b - mean a) / (2 * var * (1 / (cnt b : Rat) + 1 / (cnt a : Rat)))

structure T3CSt where
  second : Nat
  lowest : Option Rat      -- `none` = numeric_limits<double>::max()
  k : Nat
  us : List Rat            -- uniform reals still to be consumed by the tie coins

/-- one iteration of the challenger loop for arm `a ≠ best` -/
def t3cStep (w : Rat) (a : Nat) (st : T3CSt) : T3CSt :=
  match st.lowest with
  | none => { st with second := a, lowest := some w, k := 1 }
  | some lo =>
    if w < lo then { st with second := a, lowest := some w, k := 1 }
    else if w = lo then
      let k := st.k + 1
      match st.us with
      | [] => { st with k := k }
      | u :: us => if u < 1 / (k : Rat) then { st with second := a, k := k, us := us } else { st with k := k, us := us }
    else st

def t3cLoop (cost : Nat → Rat) (best : Nat) : (rem a : Nat) → T3CSt → T3CSt
  | 0, _, st => st
  | r+1, a, st => t3cLoop cost best r (a + 1) (if a = best then st else t3cStep (cost a) a st)

/-- `T3CPolicy::sampleAction` after the inner Thompson policy answered `best`: `u0` drives `pickBest`, `us` the tie coins -/
def t3c (mean : Nat → Rat) (cnt : Nat → Nat) (var beta : Rat) (n best : Nat) (u0 : Rat) (us : List Rat) : Nat :=
  if cnt best < 2 then best
  else if u0 < beta then best
  else (t3cLoop (t3cCost mean cnt var best) best n 0 ⟨0, none, 0, us⟩).second

end AITB.Pol
