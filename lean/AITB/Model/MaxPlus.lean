/-
  AITB.Model.MaxPlus — MaxPlus::operator() message passing and the ReusingIterativeLocalSearch trial loop
  (src/Factored/Bandit/Algorithms/Utils/MaxPlus.cpp, ReusingIterativeLocalSearch.cpp).  Core Lean only.

  MaxPlus is deterministic: the model is the algorithm (in exact rationals).  Per agent the messages are a matrix with one
  row per adjacent factor (in `graph.getFactors(a)` order) plus the bottom row holding the column sums.
  Every out-message row (factor f → agent a) is a function of the IN messages only, so the in-place loop over the
  factors is modelled as a map; the subtraction/re-addition of a row from the bottom row (`-=` … `+=`) is the identity in
  exact arithmetic and is modelled as the cavity `bottom - row`.
  RILS: every random draw (restart or not, the restart action, which factors are randomised, the new actions, the
  shuffles inside LocalSearch) is an INPUT of the model; raw integer draws are reduced modulo the action count, which is
  what `uniform_int_distribution(0, A[a]-1)` guarantees.
-/
import AITB.Model.VETable
namespace AITB.VE
open AITB.Factored

structure AMsg where
  rows : List (List Rat)
  bottom : List Rat
  deriving Repr

def sumQ : List Rat → Rat
  | [] => 0
  | q :: qs => q + sumQ qs

/-- column sums of `rows` for `k` columns (`m.topRows(rows).colwise().sum()`) -/
def colSums (k : Nat) (rows : List (List Rat)) : List Rat :=
  (List.range k).map (fun j => sumQ (rows.map (fun r => r.getD j 0)))

/-- `outMessages[a].setZero()` with the right shape -/
def initMsgs (A : List Nat) (g : List Node) : List AMsg :=
  (List.range A.length).map (fun a =>
    ⟨(adjNodes a g).map (fun _ => List.replicate (A.getD a 0) 0), List.replicate (A.getD a 0) 0⟩)

/-- position of the factor with key set `ks` among the factors adjacent to `a` (`std::find` in `getFactors(a)`) -/
def factorId (g : List Node) (a : Nat) (ks : List Nat) : Nat :=
  ((adjNodes a g).findIdx? (fun nd => nd.keys == ks)).getD 0

def getMsg (ms : List AMsg) (a : Nat) : AMsg := ms.getD a ⟨[], []⟩

/-- message agent `b` → factor `ks`: the sum of all messages into `b` except the one from this factor -/
def cavity (A : List Nat) (g : List Node) (inM : List AMsg) (ks : List Nat) (b : Nat) : List Rat :=
  let m := getMsg inM b
  let row := m.rows.getD (factorId g b ks) []
  (List.range (A.getD b 0)).map (fun j => m.bottom.getD j 0 - row.getD j 0)

def maxList : List Rat → Rat
  | [] => 0
  | q :: qs => qs.foldl (fun m x => if m < x then x else m) q

/-- the (normalised) message factor `f` → agent `a` -/
def outRow (A : List Nat) (g : List Node) (inM : List AMsg) (f : Node) (a : Nat) : List Rat :=
  let ks := f.keys
  let dims := sel ks A
  let cavs := ks.map (cavity A g inM ks)
  let ai := (ks.findIdx? (· == a)).getD 0
  let fSize := f.table.length
  -- value of joint index i without the contribution of agent a
  let partialAt := fun (i : Nat) =>
    let acts := toFactors dims i
    let contrib := (List.range ks.length).map (fun p => (cavs.getD p []).getD (acts.getD p 0) 0)
    f.table.getD i 0 + sumQ contrib - (cavs.getD ai []).getD (acts.getD ai 0) 0
  let raw := (List.range (A.getD a 0)).map (fun av =>
    maxList (((List.range fSize).filter (fun i => (toFactors dims i).getD ai 0 == av)).map partialAt))
  let norm := sumQ raw
  raw.map (fun x => x - norm / (A.getD a 0 : Rat))

/-- one message-passing step: all out messages from the in messages, then the bottom rows -/
def mpStep (A : List Nat) (g : List Node) (inM : List AMsg) : List AMsg :=
  (List.range A.length).map (fun a =>
    let rows := (adjNodes a g).map (fun f => outRow A g inM f a)
    ⟨rows, colSums (A.getD a 0) rows⟩)

/-- `m.row(rowsMinusOne).maxCoeff(&cAction[a])`: first maximum of the bottom row -/
def mpAction (A : List Nat) (ms : List AMsg) : List Nat :=
  (List.range A.length).map (fun a => argmaxTo (A.getD a 1 - 1) (fun j => (getMsg ms a).bottom.getD j 0))

/-- the candidate joint actions of the successive iterations -/
def mpCandsFrom (A : List Nat) (g : List Node) : Nat → List AMsg → List (List Nat)
  | 0, _ => []
  | it+1, ms => let out := mpStep A g ms; mpAction A out :: mpCandsFrom A g it out

def mpCands (A : List Nat) (g : List Node) (iters : Nat) : List (List Nat) := mpCandsFrom A g iters (initMsgs A g)

/-- `MaxPlus::operator()(A, graph)` with `iterations_ = iters` -/
def mpFull (A : List Nat) (g : List Node) (iters : Nat) : List Nat × Rat := mpRun A g (mpCands A g iters)

/-! ## ReusingIterativeLocalSearch::operator(), every random draw an input -/

structure RTrial where
  reset : Bool                 -- `probabilityDistribution(rnd_) < resetActionProbability_`
  restart : List Nat           -- raw draws of `makeRandomValue`
  pick : List Bool             -- per factor: `probabilityDistribution(rnd_) < randomizeFactorProbability_`
  draws : List (List Nat)      -- per factor, per key: raw draw of `dAction(rnd_)`
  orders : List (List Nat)     -- shuffles of the nested LocalSearch
  deriving Repr

/-- `makeRandomValue(A, rnd)`: one in-range action per agent -/
def randomAct (A : List Nat) (raw : List Nat) : List Nat :=
  (List.range A.length).map (fun a => raw.getD a 0 % A.getD a 1)

/-- randomise the agents of one factor -/
def perturbKeys (A : List Nat) : List Nat → List Nat → List Nat → List Nat
  | [], _, a => a
  | k :: ks, ds, a => perturbKeys A ks ds.tail (setAt a k (ds.headD 0 % A.getD k 1))

/-- `for (const auto & f : graph) { if (u >= p) continue; for (auto a : f.getVariables()) newAction_[a] = dAction(rnd_); }` -/
def perturb (A : List Nat) : List Node → List Bool → List (List Nat) → List Nat → List Nat
  | [], _, _, a => a
  | nd :: g, ps, ds, a =>
    perturb A g ps.tail ds.tail (if ps.headD false then perturbKeys A nd.keys (ds.headD []) a else a)

def rilsLoop (A : List Nat) (g : List Node) : List RTrial → List Nat × Rat → List Nat × Rat
  | [], st => st
  | t :: ts, st =>
    let s := if t.reset then randomAct A t.restart else perturb A g t.pick t.draws st.1
    if s == st.1 then rilsLoop A g ts st else
    let r := lsResult A g t.orders s
    rilsLoop A g ts (if st.2 < r.2 then r else st)

/-- whole call: `reuse = some action_` when the stored action is kept (`!forceResetAction_ && !action_.empty()`) -/
def rilsFull (A : List Nat) (g : List Node) (reuse : Option (List Nat)) (firstRaw : List Nat) (firstOrders : List (List Nat))
    (trials : List RTrial) : List Nat × Rat :=
  let init := match reuse with
    | some a => (a, evalGraph A a g)
    | none => lsResult A g firstOrders (randomAct A firstRaw)
  rilsLoop A g trials init

end AITB.VE
