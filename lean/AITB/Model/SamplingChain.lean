/-
  AITB.Model.SamplingChain — property C08, round 4.  Core Lean only.

  * the matrix overloads of `isProbability` (src/Utils/Probability.cpp): `Matrix2D` (row `minCoeff` and row
    sum), `Matrix3D`, `SparseMatrix2D` as it is after 54353bc (sign test on every STORED value of the whole
    matrix first, then the row sums), `SparseMatrix3D`, and the 2-D / 3-D template overloads
    (include/AIToolbox/Utils/Probability.hpp) — the predicates every checked constructor / setter of the
    model classes runs before a table can reach a sampler;
  * SEQUENCES of samples drawn through ONE engine handed by reference (`rand_` of a model object): draw `i`
    is consumed by sample `i`, and the row scanned by sample `i` may depend on every earlier outcome
    (`chainGo`); instances: a rollout of `MDP::Model::sampleSR` under a history-dependent policy
    (`mdpRollout`) and of `POMDP::Model::sampleSOR` (`pomdpRollout`: two engines, the MDP part's and the
    POMDP part's, merged in consumption order);
  * what a COPIED engine would do instead (`chainCopied`: every sample sees the same draw).
-/
import AITB.Model.Sampling
import AITB.Model.SamplingModels

namespace AITB.Sampling
open AITB.Factored

/-! ## `isProbability` overloads -/

/-- `Eigen::minCoeff` of a non-empty row (first entry as the start value) -/
def minCoeff : List Rat → Rat
  | [] => 0
  | x :: xs => xs.foldl (fun m y => if y < m then y else m) x

/-- one row of `isProbability(const Matrix2D &)`:
    `if (in.row(row).minCoeff() < 0.0 || checkDifferentSmall(in.row(row).sum(), 1.0)) return false;` -/
def isProbRowMin (l : List Rat) : Bool := !(decide (minCoeff l < 0) || !(eqSmall l.sum 1))

/-- `isProbability(const Matrix2D &)` -/
def isProbMatrix2D (m : List (List Rat)) : Bool := m.all isProbRowMin
/-- `isProbability(const Matrix3D &)`: `for (m2 : in) if (!isProbability(m2)) return false;` -/
def isProbMatrix3D (t : List (List (List Rat))) : Bool := t.all isProbMatrix2D

/-- `isProbability(rows, cols, in)` (template): every row through the 1-D template -/
def isProbTable2D (m : List (List Rat)) : Bool := m.all isProb
/-- `isProbability(depth, rows, cols, in)` (template) -/
def isProbTable3D (t : List (List (List Rat))) : Bool := t.all isProbTable2D

/-- `isProbability(const SparseMatrix2D &)` on the stored rows (column, value):
    first loop: `for k, for it(in,k): if (it.value() < 0.0) return false;`
    second loop: `if (checkDifferentSmall(in.row(row).sum(), 1.0)) return false;` -/
def isProbSparse2D (m : List (List (Nat × Rat))) : Bool :=
  m.all (fun row => row.all (fun e => !decide (e.2 < 0))) &&
  m.all (fun row => eqSmall (row.map (·.2)).sum 1)

/-- `isProbability(const SparseMatrix3D &)` -/
def isProbSparse3D (t : List (List (List (Nat × Rat)))) : Bool := t.all isProbSparse2D

/-! ## sequences of samples through one engine -/

/-- `row hist` = the probability row scanned by the next `sampleProbability` call when the earlier calls
    returned `hist` (oldest first).  Each call consumes the next draw of the engine. -/
def chainGo (row : List Nat → List Rat) : List Nat → List Rat → List Nat
  | _, [] => []
  | hist, u :: us =>
    let k := sampleDense (row hist) u
    k :: chainGo row (hist ++ [k]) us

/-- the outcomes of `us.length` successive samples -/
def chainSample (row : List Nat → List Rat) (us : List Rat) : List Nat := chainGo row [] us

/-- a COPIED engine: every sample is computed from the same (first) draw -/
def chainCopied (row : List Nat → List Rat) (n : Nat) (u : Rat) : List Nat :=
  chainGo row [] (List.replicate n u)

/-- probability the tables give to the outcome sequence `tr` after `hist`: Π_i row(hist ++ tr[:i])[tr_i] -/
def chainProb (row : List Nat → List Rat) : List Nat → List Nat → Rat
  | _, [] => 1
  | hist, k :: ks => (row hist).getD k 0 * chainProb row (hist ++ [k]) ks

/-- rollout of `MDP::Model::sampleSR` from `s0`: at step `t` the action is `pol` of the states visited so far
    (`s0` excluded), the next state is scanned from row `T a s` -/
def mdpRow (T : Nat → Nat → List Rat) (pol : List Nat → Nat) (s0 : Nat) (hist : List Nat) : List Rat :=
  T (pol hist) (hist.getLastD s0)

def mdpRollout (T : Nat → Nat → List Rat) (pol : List Nat → Nat) (s0 : Nat) (us : List Rat) : List Nat :=
  chainSample (mdpRow T pol s0) us

/-- rollout of `POMDP::Model::sampleSOR`: the outcome list alternates next state, observation
    (s1, o1, s2, o2, …); the action of a step is `pol` of the outcomes before the step; an even position scans
    `T a s`, an odd one `O a s1` with the same action and the state just sampled.  The draws alternate
    between the MDP part's engine and the POMDP part's engine in the same order. -/
def pomdpRow (T O : Nat → Nat → List Rat) (pol : List Nat → Nat) (s0 : Nat) (hist : List Nat) : List Rat :=
  if hist.length % 2 == 0 then
    -- last state = the outcome two positions back (or s0)
    T (pol hist) (if hist.length == 0 then s0 else hist.getD (hist.length - 2) s0)
  else
    O (pol (hist.take (hist.length - 1))) (hist.getLastD s0)

def pomdpRollout (T O : Nat → Nat → List Rat) (pol : List Nat → Nat) (s0 : Nat) (us : List Rat) : List Nat :=
  chainSample (pomdpRow T O pol s0) us

/-- rollout of `CooperativeModel::sampleSR` on one object: the chain position `p = t·n + i` is factor `i` of step `t`; the
    state of step `t` is `s0` (t = 0) or the `n` outcomes of step `t−1`; the joint action is `pol` of the completed steps -/
def coopRolloutRow (S A : List Nat) (parents : List ParentSet) (T : List (List (List Rat)))
    (pol : List Nat → List Nat) (s0 : List Nat) (hist : List Nat) : List Rat :=
  let n := parents.length
  let t := hist.length / n
  let i := hist.length % n
  let s := if t = 0 then s0 else (hist.drop ((t - 1) * n)).take n
  let a := pol (hist.take (t * n))
  (T.getD i []).getD (ddnGetId S A (parents.getD i ⟨[], []⟩) s a) []

def coopRollout (S A : List Nat) (parents : List ParentSet) (T : List (List (List Rat)))
    (pol : List Nat → List Nat) (s0 : List Nat) (us : List Rat) : List Nat :=
  chainSample (coopRolloutRow S A parents T pol s0) us

/-! ## gamma-based samplers with the underflow fallback (fixes/C08-8) -/

/-- `sampleDirichletDistribution` with the underflow fallback (fixes/C08-8): `gs` are the plain gamma draws; when
    their sum is exactly 0 (every draw underflowed) the numbers `hs` = exp(log-gamma − max) are normalised instead -/
def dirichletWithFallback (gs hs : List Rat) : List Rat :=
  if gs.sum == 0 then dirichletFromGammas hs else dirichletFromGammas gs

/-- `sampleBetaDistribution` with the same fallback -/
def betaWithFallback (x y hx hy : Rat) : Rat :=
  if x + y == 0 then betaFromGammas hx hy else betaFromGammas x y

/-! ## bandit models: `Bandit::Model::sampleR`, `Factored::Bandit::Model::sampleR`, `FlattenedModel::sampleR` -/

/-- one arm of a `Bandit::Model<std::uniform_real_distribution<double>>`: `lo + u·(hi − lo)` for the canonical draw `u` -/
def armSample (arm : Rat × Rat) (u : Rat) : Rat := arm.1 + u * (arm.2 - arm.1)

/-- `Bandit::Model::sampleR(a)`: `arms_[a](rand_)` -/
def banditSampleR (arms : List (Rat × Rat)) (a : Nat) (u : Rat) : Rat := armSample (arms.getD a (0, 0)) u

/-- `Factored::Bandit::Model::sampleR(a)`: `for i: rews_[i] = arms_[i].sampleR(toIndexPartial(groups_[i], A, a))`;
    every group owns a `Bandit::Model` with its own engine: group `i` consumes `us[i]` -/
def fbSampleR (A : List Nat) (groups : List (List Nat)) (arms : List (List (Rat × Rat))) (a : List Nat) (us : List Rat) : List Rat :=
  List.zipWith (fun (ga : List Nat × List (Rat × Rat)) u => banditSampleR ga.2 (toIndexPartial ga.1 A a) u) (groups.zip arms) us

/-- `FlattenedModel::sampleR(a)`: `toFactors(A, a, &helper_); return model_.sampleR(helper_).sum();` -/
def flatSampleR (A : List Nat) (groups : List (List Nat)) (arms : List (List (Rat × Rat))) (id : Nat) (us : List Rat) : Rat :=
  (fbSampleR A groups arms (toFactors A id) us).sum

end AITB.Sampling
