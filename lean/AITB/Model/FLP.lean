/-
  AITB.Model.FLP — flat ("written out over the full joint space") linear programs that
  FactoredLP and Factored::MDP::LinearProgramming are supposed to solve, the factored objects
  they are stated over, and the exact certificate checkers the driver evaluates (property C15).
  Core Lean only.

  Anchors:
    src/Factored/MDP/Algorithms/Utils/FactoredLP.cpp           (what is minimised: max_s |Cw(s) − b(s)|)
    src/Factored/MDP/Algorithms/LinearProgramming.cpp          (V ≥ R + γ P V, objective Σ_k mean(h_k) w_k, Q = R + γ P V)
    src/Factored/Utils/BayesianNetwork.cpp                     (DDNGraph::getId, DDN::getTransitionProbability, backProject)
    src/Factored/Utils/FactoredMatrix.cpp                      (FactoredVector / FactoredMatrix2D::getValue)

  A linear program is kept in the form   minimise c·x  subject to  coef_i · x ≥ rhs_i  (x free),
  all sums taken over the first `n` coordinates with `getD` (no partial indexing anywhere).
-/
import AITB.Model.Num
import AITB.Model.Factored
import AITB.Model.VE
import AITB.Model.FactoredAlg
namespace AITB.FLP
open AITB.Factored AITB.VE

/-! ## sums -/

def sumQ : List Rat → Rat
  | [] => 0
  | q :: qs => q + sumQ qs

/-- Σ_{i<n} f i -/
def sumTo : Nat → (Nat → Rat) → Rat
  | 0, _ => 0
  | n+1, f => sumTo n f + f n

def dotN (n : Nat) (a x : List Rat) : Rat := sumTo n (fun i => a.getD i 0 * x.getD i 0)

/-! ## factored objects -/

/-- `BasisFunction`: tag (ascending keys) + one value per joint value of the tagged factors -/
structure Basis where
  tag : List Nat
  vals : List Rat
  deriving Repr

/-- `BasisMatrix`: state tag, action tag, values(sId, aId) stored row-major -/
structure BasisM where
  tag : List Nat
  atag : List Nat
  vals : List Rat
  deriving Repr

/-- `basis.values[toIndexPartial(tag, S, s)]` -/
def Basis.at (S : List Nat) (b : Basis) (s : List Nat) : Rat := b.vals.getD (toIndexPartial b.tag S s) 0

/-- `basis.values(toIndexPartial(tag,S,s), toIndexPartial(actionTag,A,a))` -/
def BasisM.at (S A : List Nat) (b : BasisM) (s a : List Nat) : Rat :=
  b.vals.getD (toIndexPartial b.tag S s * spacePartial b.atag A + toIndexPartial b.atag A a) 0

/-- `FactoredVector::getValue(space, value)` -/
def fvAt (S : List Nat) (bs : List Basis) (s : List Nat) : Rat := sumQ (bs.map (·.at S s))

/-- Σ_k w_k · h_k(s) -/
def wAt (S : List Nat) (bs : List Basis) (w : List Rat) (s : List Nat) : Rat :=
  sumTo bs.length (fun k => w.getD k 0 * ((bs.map (·.at S s)).getD k 0))

/-- `FactoredMatrix2D::getValue(space, actions, value, action)` -/
def fmAt (S A : List Nat) (bs : List BasisM) (s a : List Nat) : Rat := sumQ (bs.map (·.at S A s a))

/-! ## linear programs in ≥ form and certificates -/

structure GeRow where
  coef : List Rat
  rhs : Rat
  deriving Repr, Inhabited

def GeRow.val (n : Nat) (r : GeRow) (x : List Rat) : Rat := dotN n r.coef x
def GeRow.sat (n : Nat) (r : GeRow) (x : List Rat) : Prop := r.rhs ≤ r.val n x
/-- satisfied up to `tol` (what is asked of the floating-point answer) -/
def GeRow.satB (n : Nat) (tol : Rat) (r : GeRow) (x : List Rat) : Bool := decide (r.rhs - tol ≤ r.val n x)

/-- Σ_j y_j · coef_j[i] -/
def comb : List GeRow → List Rat → Nat → Rat
  | r :: rs, y :: ys, i => y * r.coef.getD i 0 + comb rs ys i
  | _, _, _ => 0

/-- Σ_j y_j · rhs_j: the lower bound a dual certificate proves -/
def dualVal : List GeRow → List Rat → Rat
  | r :: rs, y :: ys => y * r.rhs + dualVal rs ys
  | _, _ => 0

/-- dual certificate: multipliers non-negative, and they combine the rows into the objective exactly -/
def dualOk (n : Nat) (rows : List GeRow) (c y : List Rat) : Bool :=
  y.all (fun q => decide (0 ≤ q)) && (List.range n).all (fun i => comb rows y i == c.getD i 0)

/-- Farkas certificate of infeasibility: non-negative multipliers that combine the rows into `0 · x ≥ (something positive)` -/
def farkasOk (n : Nat) (rows : List GeRow) (y : List Rat) : Bool :=
  y.all (fun q => decide (0 ≤ q)) && (List.range n).all (fun i => comb rows y i == 0) && decide (0 < dualVal rows y)

/-- every row satisfied exactly -/
def feasB (n : Nat) (rows : List GeRow) (x : List Rat) : Bool := rows.all (fun r => r.satB n 0 x)

/-- the complete exact decision for one LP: `x` feasible, `y` a dual certificate, equal objective values -/
def optimalPairB (n : Nat) (rows : List GeRow) (c x y : List Rat) : Bool :=
  feasB n rows x && dualOk n rows c y && (dotN n c x == dualVal rows y)

/-! ## FactoredLP: the flat problem

variables  x = (w_0 … w_{K-1}, [w_const], φ);  minimise φ  s.t.  −φ ≤ Σ_k w_k C_k(s) [+ w_const] − b(s) ≤ φ  ∀ s -/

/-- `Σ_k w_k C_k(s) [+ w_const] − b(s)` -/
def flpErr (S : List Nat) (C b : List Basis) (addConst : Bool) (w : List Rat) (s : List Nat) : Rat :=
  wAt S C w s + (if addConst then w.getD C.length 0 else 0) - fvAt S b s

def flpNVars (C : List Basis) (addConst : Bool) : Nat := C.length + (if addConst then 1 else 0) + 1

/-- the two rows of state `s`:  φ − err(s) ≥ 0  and  φ + err(s) ≥ 0 -/
def flpRowsAt (S : List Nat) (C b : List Basis) (addConst : Bool) (s : List Nat) : List GeRow :=
  let cs := C.map (·.at S s)
  let t := fvAt S b s
  let k := if addConst then [(1 : Rat)] else []
  [⟨cs.map (fun q => -q) ++ k.map (fun q => -q) ++ [1], -t⟩, ⟨cs ++ k ++ [1], t⟩]

def flpFlatRows (S : List Nat) (C b : List Basis) (addConst : Bool) : List GeRow :=
  (allActs S).flatMap (flpRowsAt S C b addConst)

def flpObj (C : List Basis) (addConst : Bool) : List Rat :=
  List.replicate (C.length + (if addConst then 1 else 0)) 0 ++ [1]

/-- max-norm error of a weight vector, by enumeration -/
def flpMaxErr (S : List Nat) (C b : List Basis) (addConst : Bool) (w : List Rat) : Rat :=
  maxL ((allActs S).map (fun s => absQ (flpErr S C b addConst w s)))

/-! ## dynamic decision network -/

/-- one node of the DDN: `ParentSet{agents, features}` + its transition matrix (rows indexed by `getId`) -/
structure DNode where
  agents : List Nat
  parents : List (List Nat)
  T : List (List Rat)
  deriving Repr

def sumNat : List Nat → Nat
  | [] => 0
  | q :: qs => q + sumNat qs

/-- the DDN as `AITB.Factored` (property C14) models it: graph of parent sets + one transition matrix per state factor -/
def toGraph (S A : List Nat) (ddn : List DNode) : DDNGraph := ⟨S, A, ddn.map (fun nd => ⟨nd.agents, nd.parents⟩)⟩
def toT (ddn : List DNode) : List Mat := ddn.map (·.T)

/-- `DDN::getTransitionProbability(s, a, s1)` (C14's model `ddnProb`: running product over all features of
    `transitions[i](graph.getId(i, s, a), s1[i])`) -/
def transP (S A : List Nat) (ddn : List DNode) (s a s1 : List Nat) : Rat := ddnProb (toGraph S A ddn) (toT ddn) s a s1

/-- Σ_{s'} P(s'|s,a) f(s') over the whole joint state space (joint states enumerated by index, `toFactors`) -/
def expect (S A : List Nat) (ddn : List DNode) (f : List Nat → Rat) (s a : List Nat) : Rat :=
  sumTo (space S) (fun id => transP S A ddn s a (toFactors S id) * f (toFactors S id))

/-! ## factored-MDP linear programming: the flat problem

variables x = (w_0 … w_{K-1});  V_w(s) = Σ_k w_k h_k(s);
minimise Σ_s V_w(s)/|S|  s.t.  V_w(s) ≥ R(s,a) + γ Σ_{s'} P(s'|s,a) V_w(s')  ∀ s,a -/

def mdpV (S : List Nat) (h : List Basis) (w : List Rat) (s : List Nat) : Rat := wAt S h w s

def mdpBackup (S A : List Nat) (ddn : List DNode) (R : List BasisM) (γ : Rat) (h : List Basis) (w : List Rat)
    (s a : List Nat) : Rat :=
  fmAt S A R s a + γ * expect S A ddn (mdpV S h w) s a

def mdpRowAt (S A : List Nat) (ddn : List DNode) (R : List BasisM) (γ : Rat) (h : List Basis) (s a : List Nat) : GeRow :=
  ⟨h.map (fun hk => hk.at S s - γ * expect S A ddn (hk.at S) s a), fmAt S A R s a⟩

def mdpFlatRows (S A : List Nat) (ddn : List DNode) (R : List BasisM) (γ : Rat) (h : List Basis) : List GeRow :=
  (allActs S).flatMap (fun s => (allActs A).map (fun a => mdpRowAt S A ddn R γ h s a))

/-- flat objective: uniform state-relevance weights, c_k = Σ_s h_k(s) / |S| -/
def mdpFlatObj (S : List Nat) (h : List Basis) : List Rat :=
  h.map (fun hk => sumTo (space S) (fun id => hk.at S (toFactors S id)) / ((space S : Nat) : Rat))

/-- the objective as the code states it: c_k = h_k.values.sum() / h_k.values.size() -/
def mdpStatedObj (h : List Basis) : List Rat :=
  h.map (fun hk => sumQ hk.vals / ((hk.vals.length : Nat) : Rat))

end AITB.FLP
