/-
  AITB.Model.Tree — MCTS / POMCP search trees as a nondeterministic transition system (core Lean only).

  Anchors: include/AIToolbox/MDP/Algorithms/MCTS.hpp (`sampleAction` ×2, `runSimulation`, `simulate`,
  `allocateActionNodes`), include/AIToolbox/POMDP/Algorithms/POMCP.hpp (same members),
  include/AIToolbox/MDP/Algorithms/Utils/Rollout.hpp (`rollout`).

  What is external (a *choice*, supplied by the run and only constrained to be in range): every outcome of
  the generative model (`sampleSR` / `sampleSOR`), the action picked by UCT (`findBestBonusA`: involves
  `log`/`sqrt`), the uniformly drawn rollout actions, the root particle drawn for each simulation.  One
  `Step` records one call of the generative model; a run of the planner is a list of steps, consumed by
  `simulate` / `rollout` exactly in the order the C++ code makes the calls.  The functions return `none`
  when the list is not a run of the code (wrong state passed to the model, action out of range, outcome
  outside the model's support, list too short).

  Representation: the tree of `StateNode`/`BeliefNode` → `ActionNode` → `unordered_map<key, node>` is held as
  total functions of the *path* from the root (`[(a₁,k₁),…,(a_d,k_d)]`, k = next-state key for MCTS and
  observation for POMCP) — the children of a node are the paths extending it by one pair.  `nodes` lists the
  paths that exist, in creation order (used by the driver to compare with a dump of `getGraph()`).
  `rets` (all returns that were averaged into an action's `V`) and `budget` are ghost fields.
-/
namespace AITB.Tree

abbrev Key := Nat × Nat
abbrev Path := List Key

/-- one call `sampleSR(s,a)` / `sampleSOR(s,a)` with its outcome; `term` = `isTerminal(s1)` -/
structure Step where
  s : Nat
  a : Nat
  s1 : Nat
  o : Nat
  r : Rat
  term : Bool
  deriving Repr, Inhabited

/-- the planner variant, the two source facts the horizon clause depends on (regenerated from the
    source by tools/extract_c19.py) and the generative model as far as the planners can see it -/
structure Mdl where
  /-- POMCP (children keyed by observation, particle beliefs) or MCTS (children keyed by next state) -/
  pomcp : Bool
  gamma : Rat
  /-- rollout length at a new leaf is `maxDepth_ - depth + rollOff` (source: `+ 1`; repaired: `- 1`) -/
  rollOff : Int
  /-- POMCP only: the rollout at a new leaf is guarded by `depth + 1 < maxDepth_ && !isTerminal(s1)` -/
  rollGuard : Bool
  /-- the exploration constant is > 0 (then an untried action has UCT score `+inf`); `false`: it is 0 -/
  explPos : Bool
  /-- `getA()` / `getA(s)` -/
  numA : Nat → Nat
  /-- the outcome is in the support of the generative model and `term` is `isTerminal(s1)` -/
  valid : Step → Bool

def Mdl.key (m : Mdl) (st : Step) : Nat := if m.pomcp then st.o else st.s1

def Mdl.rollLen (m : Mdl) (H depth : Nat) : Nat := ((H : Int) - (depth : Int) + m.rollOff).toNat

/-- steps a simulation can run past the horizon because of the rollout length -/
def Mdl.overrun (m : Mdl) : Nat := (m.rollOff + 1).toNat

structure Tree where
  ex : Path → Bool
  nN : Path → Nat
  nA : Path → Nat
  parts : Path → List Nat
  aN : Path → Nat → Nat
  aV : Path → Nat → Rat
  rets : Path → Nat → List Rat
  nodes : List Path
  budget : Nat

def upd {α} (f : Path → α) (p : Path) (v : α) : Path → α := fun q => if q = p then v else f q
def updN {α} (f : Nat → α) (a : Nat) (v : α) : Nat → α := fun b => if b = a then v else f b

/-- `graph_ = StateNode()` / `BeliefNode` + `children.resize(A)` + root belief -/
def Tree.fresh (parts : List Nat) (nA : Nat) (budget : Nat) : Tree :=
  { ex := fun p => p == [], nN := fun _ => 0, nA := fun p => if p = [] then nA else 0,
    parts := fun p => if p = [] then parts else [], aN := fun _ _ => 0, aV := fun _ _ => 0,
    rets := fun _ _ => [], nodes := [[]], budget := budget }

/-- `sn.N++` -/
def Tree.incN (t : Tree) (p : Path) : Tree := { t with nN := upd t.nN p (t.nN p + 1) }

/-- `aNode.children[s1Key]` (touch) / `aNode.children.emplace(o, BeliefNode(s1))`: a node with `N = 0`,
    no action nodes and (POMCP) the single particle `s1` -/
def Tree.create (t : Tree) (p : Path) (s1 : Nat) : Tree :=
  { t with ex := upd t.ex p true, parts := upd t.parts p [s1], nodes := t.nodes ++ [p] }

/-- `ot->second.belief.push_back(s1)` -/
def Tree.pushPart (t : Tree) (p : Path) (s1 : Nat) : Tree := { t with parts := upd t.parts p (t.parts p ++ [s1]) }

/-- `children.resize(n)` on a node that has either no action nodes yet or already `n` of them
    (the action count is a function of the state, so no other case arises; `none` otherwise) -/
def Tree.alloc (t : Tree) (p : Path) (n : Nat) : Option Tree :=
  if t.nA p = n then some t else if t.nA p = 0 then some { t with nA := upd t.nA p n } else none

/-- `aNode.N++; aNode.V += (rew - aNode.V) / aNode.N` -/
def Tree.update (t : Tree) (p : Path) (a : Nat) (rew : Rat) : Tree :=
  let n := t.aN p a + 1
  { t with aN := upd t.aN p (updN (t.aN p) a n),
           aV := upd t.aV p (updN (t.aV p) a (t.aV p a + (rew - t.aV p a) / (n : Rat))),
           rets := upd t.rets p (updN (t.rets p) a (rew :: t.rets p a)) }

/-- `rollout(model, s, n, rnd)`: accumulates `totalRew += gamma * rew`, stops at a terminal state -/
def rollout (m : Mdl) : Nat → Nat → Rat → List Step → Option (Rat × List Step)
  | 0, _, _, log => some (0, log)
  | _+1, _, _, [] => none
  | n+1, s, g, st :: log =>
    if st.s = s && decide (st.a < m.numA s) && m.valid st then
      if st.term then some (g * st.r, log)
      else match rollout m n st.s1 (g * m.gamma) log with
        | none => none
        | some (x, log') => some (g * st.r + x, log')
    else none

/-- least `a < n` with `f a = 0` -/
def firstUntried (f : Nat → Nat) : Nat → Option Nat
  | 0 => none
  | n+1 => match firstUntried f n with
    | some a => some a
    | none => if f n = 0 then some n else none

/-- what `findBestBonusA` is known to do without evaluating `log`/`sqrt`: the score of an untried action is
    `V + c·sqrt(log(N+1)/0)`, i.e. `+inf` for `c > 0` and `NaN` for `c = 0`; the scan keeps the first best
    (`>`), and nothing compares greater than, or to, a `NaN`.  So for `c > 0` the first untried action is taken
    while there is one; for `c = 0` action 0 if it is untried, otherwise some action already tried. -/
def uctOk (m : Mdl) (t : Tree) (p : Path) (a : Nat) : Bool :=
  if m.explPos then
    match firstUntried (t.aN p) (t.nA p) with
    | some u => a == u
    | none => true
  else if t.aN p 0 = 0 then a == 0 else t.aN p a != 0

inductive Mode where
  | stop
  | roll (n : Nat)
  | deeper

/-- the part of `simulate` between the model call and the action update: child lookup, node creation,
    particle push, allocation; says how the future reward is obtained.  For MCTS the particle list of a
    state node is a ghost: the states the simulations passed through it (all equal to its key). -/
def descend (m : Mdl) (H : Nat) (t : Tree) (p : Path) (depth : Nat) (st : Step) : Option (Tree × Mode) :=
  let child := p ++ [(st.a, m.key st)]
  let deeper := decide (depth + 1 < H) && !st.term
  if m.pomcp then
    if !(t.ex child) then
      let t := t.create child st.s1
      if m.rollGuard && !deeper then some (t, .stop) else some (t, .roll (m.rollLen H depth))
    else
      let t := t.pushPart child st.s1
      if deeper then (t.alloc child (m.numA st.s1)).map (fun t => (t, Mode.deeper)) else some (t, .stop)
  else
    if deeper then
      if !(t.ex child) then some (t.create child st.s1, .roll (m.rollLen H depth))
      else ((t.pushPart child st.s1).alloc child (m.numA st.s1)).map (fun t => (t, Mode.deeper))
    else some (t, .stop)

/-- `simulate(node at p, s, depth)`; `H` is `maxDepth_`.  Returns the new tree, the return `rew` and the
    unconsumed steps. -/
def simulate (m : Mdl) (H : Nat) : Nat → Tree → Path → Nat → Nat → List Step → Option (Tree × Rat × List Step)
  | 0, _, _, _, _, _ => none
  | _+1, _, _, _, _, [] => none
  | fuel+1, t, p, s, depth, st :: log =>
    if st.s = s && decide (st.a < t.nA p) && m.valid st && uctOk m t p st.a then
      match descend m H (t.incN p) p depth st with
      | none => none
      | some (t1, .stop) => some (t1.update p st.a st.r, st.r, log)
      | some (t1, .roll n) =>
        match rollout m n st.s1 1 log with
        | none => none
        | some (fr, log') => some (t1.update p st.a (st.r + m.gamma * fr), st.r + m.gamma * fr, log')
      | some (t1, .deeper) =>
        match simulate m H fuel t1 (p ++ [(st.a, m.key st)]) st.s1 (depth + 1) log with
        | none => none
        | some (t2, fr, log') => some (t2.update p st.a (st.r + m.gamma * fr), st.r + m.gamma * fr, log')
    else none

/-- `for (i < iterations_) simulate(graph_, s, 0)`: the root state of each simulation is the state of the
    first call, which must be a root particle (MCTS: the root state itself) -/
def runSims (m : Mdl) (H : Nat) : Nat → Tree → List Step → Option (Tree × List Step)
  | 0, t, log => some (t, log)
  | _+1, _, [] => none
  | n+1, t, st :: log =>
    if (t.parts []).contains st.s then
      match simulate m H (H + 1) t [] st.s 0 (st :: log) with
      | none => none
      | some (t', _, log') => runSims m H n t' log'
    else none

/-- subtree promotion `{ auto tmp = std::move(it->second); graph_ = std::move(tmp); }` -/
def Tree.reroot (t : Tree) (k : Key) : Tree :=
  { ex := fun p => t.ex (k :: p), nN := fun p => t.nN (k :: p), nA := fun p => t.nA (k :: p),
    parts := fun p => t.parts (k :: p), aN := fun p => t.aN (k :: p), aV := fun p => t.aV (k :: p),
    rets := fun p => t.rets (k :: p),
    nodes := t.nodes.filterMap (fun p => match p with | k' :: r => if k' = k then some r else none | [] => none),
    budget := t.budget - 1 }

/-- one public call -/
inductive Op where
  /-- `sampleAction(s / belief, horizon)`: root particles, number of root actions, horizon, iterations -/
  | fresh (parts : List Nat) (nA H iters : Nat)
  /-- `sampleAction(a, key, horizon)`; `parts`/`nA` describe the restart if the child is absent (MCTS: the
      state itself; POMCP: particles drawn from the uniform belief) and the allocation if it is present -/
  | adv (a k : Nat) (parts : List Nat) (nA H iters : Nat)

def Tree.withBudget (t : Tree) (b : Nat) : Tree := { t with budget := if t.budget < b then b else t.budget }

/-- the tree the simulations of this call start from (`none`: `graph_.children[a]` out of range) -/
def prepare (m : Mdl) (t : Tree) : Op → Option (Tree × Nat × Nat)
  | .fresh parts nA H iters => some (Tree.fresh parts nA (H + m.overrun), H, iters)
  | .adv a k parts nA H iters =>
    if a < t.nA [] then
      if t.ex [(a, k)] && !(m.pomcp && (t.parts [(a, k)]).isEmpty) then
        match (t.reroot (a, k)).alloc [] nA with
        | none => none
        | some t' => some (t'.withBudget (H + m.overrun), H, iters)
      else some (Tree.fresh parts nA (H + m.overrun), H, iters)
    else none

/-- one public call: prepare the root, run the simulations on the logged steps
    (`runSimulation`: `if ( !horizon ) return 0;` before anything is simulated) -/
def call (m : Mdl) (t : Tree) (op : Op) (log : List Step) : Option (Tree × List Step) :=
  match prepare m t op with
  | none => none
  | some (t0, H, iters) => if H = 0 then some (t0, log) else runSims m H iters t0 log

/-- the default-constructed `graph_` of a planner on which no call has been made yet -/
def Tree.init : Tree := Tree.fresh [] 0 0

/-- achievable discounted returns over at least one and at most `n` steps (a trajectory may stop early
    at a terminal state), rewards in `[rmin, rmax]`: upper and lower end -/
def hiR (g rmax : Rat) : Nat → Rat
  | 0 => 0
  | n+1 => rmax + g * (if 0 ≤ hiR g rmax n then hiR g rmax n else 0)
def loR (g rmin : Rat) : Nat → Rat
  | 0 => 0
  | n+1 => rmin + g * (if loR g rmin n ≤ 0 then loR g rmin n else 0)

def sumQ : List Rat → Rat
  | [] => 0
  | x :: xs => x + sumQ xs
def mean (l : List Rat) : Rat := sumQ l / (l.length : Rat)

def sumTo (f : Nat → Nat) : Nat → Nat
  | 0 => 0
  | n+1 => sumTo f n + f n

end AITB.Tree
