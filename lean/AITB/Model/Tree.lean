/-
  AITB.Model.Tree — MCTS / POMCP search trees as a nondeterministic transition system (core Lean only).

  Anchors: include/AIToolbox/MDP/Algorithms/MCTS.hpp (`sampleAction` ×2, `runSimulation`, `simulate`,
  `allocateActionNodes`), include/AIToolbox/POMDP/Algorithms/POMCP.hpp (same members),
  include/AIToolbox/MDP/Algorithms/Utils/Rollout.hpp (`rollout`).

  What is external (a *choice*, supplied by the run and only constrained to be in range): every outcome of
  the generative model (`sampleSR` / `sampleSOR`), the action picked by UCT (`findBestBonusA`: involves
  `log`/`sqrt`), the uniformly drawn rollout actions, the root particle drawn for each simulation.  One
  `Step` records one call of the generative model; a run of the planner is a list of steps, consumed by
  `simulate` / `rollout` exactly in the order the C++ code makes the calls.  The functions return `none`
  when the list is not a run of the code (wrong state passed to the model, action out of range, outcome
  outside the model's support, list too short).

  Representation: the tree of `StateNode`/`BeliefNode` → `ActionNode` → `unordered_map<key, node>` is held as
  total functions of the *path* from the root (`[(a₁,k₁),…,(a_d,k_d)]`, k = next-state key for MCTS and
  observation for POMCP) — the children of a node are the paths extending it by one pair.  `nodes` lists the
  paths that exist, in creation order (used by the driver to compare with a dump of `getGraph()`).
  `rets` (all returns that were averaged into an action's `V`) and `budget` are ghost fields.
-/
import AITB.Model.Num
import AITB.Gen.C19
namespace AITB.Tree

abbrev Key := Nat × Nat
abbrev Path := List Key

/-- one call `sampleSR(s,a)` / `sampleSOR(s,a)` with its outcome; `term` = `isTerminal(s1)` -/
structure Step where
  s : Nat
  a : Nat
  s1 : Nat
  o : Nat
  r : Rat
  term : Bool
  deriving Repr, Inhabited

/-- the planner variant, the two source facts the horizon clause depends on (regenerated from the
    source by tools/extract_c19.py) and the generative model as far as the planners can see it -/
structure Mdl where
  /-- POMCP (children keyed by observation, particle beliefs) or MCTS (children keyed by next state) -/
  pomcp : Bool
  gamma : Rat
  /-- rollout length at a new leaf is `maxDepth_ - depth + rollOff` (source: `+ 1`; repaired: `- 1`) -/
  rollOff : Int
  /-- POMCP only: the rollout at a new leaf is guarded by `depth + 1 < maxDepth_ && !isTerminal(s1)` -/
  rollGuard : Bool
  /-- the exploration bonus `exploration_ * sqrt(log(count + 1.0) / n)` of `findBestBonusA` as the *double* the code
      computes (`+inf` for `n = 0` when the constant is positive, `NaN` when it is 0); `log`/`sqrt` are not modelled:
      the values are a parameter, supplied by the driver from the same expression in double arithmetic -/
  bonus : Nat → Nat → XRat
  /-- `none`: the chosen action must be exactly the one the scan of `findBestBonusA` selects on the modelled scores;
      `some ε`: any action whose score is within `ε` of it is accepted (used by the driver only to recognise runs in
      which rounding of `V` decided a near-tie) -/
  uctSlack : Option Rat
  /-- `sampleAction(a, key, horizon)` tests `a >= graph_.children.size()` before indexing `graph_.children[a]` and starts
      from scratch in that case (repaired form, fixes/C19-3), or indexes unconditionally (as first read: on a planner that
      has not been called yet the vector is empty — undefined behaviour, although the documentation promises a restart) -/
  advGuard : Bool := false
  /-- rPOMCP only: a visit that ends at a node as a leaf records the datapoint it passes upwards in the node's value
      (`V += (datapoint - V) / N`, repaired form, fixes/C19-4) or leaves `V` alone (as first read) -/
  rLeafV : Bool := false
  /-- rPOMCP only: `UseEntropy` (negative-entropy knowledge measure) instead of max-of-belief -/
  entropy : Bool := false
  /-- rPOMCP with entropy only: `p * log(p)` for `p = c / n` as the double the code computes (`log` is not
      modelled: the values are a parameter, supplied by the driver from the same expression in double arithmetic) -/
  plogp : Nat → Nat → Rat := fun _ _ => 0
  /-- `getA()` / `getA(s)` -/
  numA : Nat → Nat
  /-- the outcome is in the support of the generative model and `term` is `isTerminal(s1)` -/
  valid : Step → Bool

def Mdl.key (m : Mdl) (st : Step) : Nat := if m.pomcp then st.o else st.s1

def Mdl.rollLen (m : Mdl) (H depth : Nat) : Nat := ((H : Int) - (depth : Int) + m.rollOff).toNat

/-- steps a simulation can run past the horizon because of the rollout length -/
def Mdl.overrun (m : Mdl) : Nat := (m.rollOff + 1).toNat

structure Tree where
  ex : Path → Bool
  nN : Path → Nat
  nA : Path → Nat
  parts : Path → List Nat
  aN : Path → Nat → Nat
  aV : Path → Nat → Rat
  rets : Path → Nat → List Rat
  nodes : List Path
  budget : Nat

def upd {α} (f : Path → α) (p : Path) (v : α) : Path → α := fun q => if q = p then v else f q
def updN {α} (f : Nat → α) (a : Nat) (v : α) : Nat → α := fun b => if b = a then v else f b

/-- `graph_ = StateNode()` / `BeliefNode` + `children.resize(A)` + root belief -/
def Tree.fresh (parts : List Nat) (nA : Nat) (budget : Nat) : Tree :=
  { ex := fun p => p == [], nN := fun _ => 0, nA := fun p => if p = [] then nA else 0,
    parts := fun p => if p = [] then parts else [], aN := fun _ _ => 0, aV := fun _ _ => 0,
    rets := fun _ _ => [], nodes := [[]], budget := budget }

/-- `sn.N++` -/
def Tree.incN (t : Tree) (p : Path) : Tree := { t with nN := upd t.nN p (t.nN p + 1) }

/-- `aNode.children[s1Key]` (touch) / `aNode.children.emplace(o, BeliefNode(s1))`: a node with `N = 0`,
    no action nodes and (POMCP) the single particle `s1` -/
def Tree.create (t : Tree) (p : Path) (s1 : Nat) : Tree :=
  { t with ex := upd t.ex p true, parts := upd t.parts p [s1], nodes := t.nodes ++ [p] }

/-- `ot->second.belief.push_back(s1)` -/
def Tree.pushPart (t : Tree) (p : Path) (s1 : Nat) : Tree := { t with parts := upd t.parts p (t.parts p ++ [s1]) }

/-- `children.resize(n)` on a node that has either no action nodes yet or already `n` of them
    (the action count is a function of the state, so no other case arises; `none` otherwise) -/
def Tree.alloc (t : Tree) (p : Path) (n : Nat) : Option Tree :=
  if t.nA p = n then some t else if t.nA p = 0 then some { t with nA := upd t.nA p n } else none

/-- `aNode.N++; aNode.V += (rew - aNode.V) / aNode.N` -/
def Tree.update (t : Tree) (p : Path) (a : Nat) (rew : Rat) : Tree :=
  let n := t.aN p a + 1
  { t with aN := upd t.aN p (updN (t.aN p) a n),
           aV := upd t.aV p (updN (t.aV p) a (t.aV p a + (rew - t.aV p a) / (n : Rat))),
           rets := upd t.rets p (updN (t.rets p) a (rew :: t.rets p a)) }

/-- `rollout(model, s, n, rnd)`: accumulates `totalRew += gamma * rew`, stops at a terminal state -/
def rollout (m : Mdl) : Nat → Nat → Rat → List Step → Option (Rat × List Step)
  | 0, _, _, log => some (0, log)
  | _+1, _, _, [] => none
  | n+1, s, g, st :: log =>
    if st.s = s && decide (st.a < m.numA s) && m.valid st then
      if st.term then some (g * st.r, log)
      else match rollout m n st.s1 (g * m.gamma) log with
        | none => none
        | some (x, log') => some (g * st.r + x, log')
    else none

/-- IEEE addition on extended rationals -/
def xadd : XRat → XRat → XRat
  | .nan, _ => .nan
  | _, .nan => .nan
  | .pinf, .ninf => .nan
  | .ninf, .pinf => .nan
  | .pinf, _ => .pinf
  | _, .pinf => .pinf
  | .ninf, _ => .ninf
  | _, .ninf => .ninf
  | .fin a, .fin b => .fin (a + b)

/-- the scan of `findBestBonusA` over scores `sc 0 … sc (n-1)`: start with the first, move on `actionValue > bestValue`
    (IEEE `>`: false whenever a `NaN` is involved) -/
def firstBestX (sc : Nat → XRat) : Nat → Nat
  | 0 => 0
  | n+1 => if XRat.gt (sc n) (sc (firstBestX sc n)) then n else firstBestX sc n

/-- `an.V + exploration_ * sqrt(logCount / an.N)` with the node count `cnt` already incremented -/
def uctScore (m : Mdl) (cnt : Nat) (aN : Nat → Nat) (aV : Nat → Rat) (b : Nat) : XRat :=
  xadd (.fin (aV b)) (m.bonus cnt (aN b))

/-- the action `simulate` takes at a node: `findBestBonusA(begin, end, sn.N)` after `sn.N++` -/
def uctPick (m : Mdl) (cnt nA : Nat) (aN : Nat → Nat) (aV : Nat → Rat) : Nat :=
  firstBestX (uctScore m cnt aN aV) nA

def uctOkGen (m : Mdl) (cnt nA : Nat) (aN : Nat → Nat) (aV : Nat → Rat) (a : Nat) : Bool :=
  match m.uctSlack with
  | none => a == uctPick m cnt nA aN aV
  | some eps =>
    -- the slack only concerns finite scores: on `+inf` / `NaN` (untried actions) the scan is unambiguous
    match uctScore m cnt aN aV (uctPick m cnt nA aN aV) with
    | .fin best => (match uctScore m cnt aN aV a with
                    | .fin sa => decide (best ≤ sa + eps)
                    | _ => false)
    | _ => a == uctPick m cnt nA aN aV

def uctOk (m : Mdl) (t : Tree) (p : Path) (a : Nat) : Bool :=
  uctOkGen m (t.nN p + 1) (t.nA p) (t.aN p) (t.aV p) a

inductive Mode where
  | stop
  | roll (n : Nat)
  | deeper

/-- the part of `simulate` between the model call and the action update: child lookup, node creation,
    particle push, allocation; says how the future reward is obtained.  For MCTS the particle list of a
    state node is a ghost: the states the simulations passed through it (all equal to its key). -/
def descend (m : Mdl) (H : Nat) (t : Tree) (p : Path) (depth : Nat) (st : Step) : Option (Tree × Mode) :=
  let child := p ++ [(st.a, m.key st)]
  let deeper := decide (depth + 1 < H) && !st.term
  if m.pomcp then
    if !(t.ex child) then
      let t := t.create child st.s1
      if m.rollGuard && !deeper then some (t, .stop) else some (t, .roll (m.rollLen H depth))
    else
      let t := t.pushPart child st.s1
      if deeper then (t.alloc child (m.numA st.s1)).map (fun t => (t, Mode.deeper)) else some (t, .stop)
  else
    if deeper then
      if !(t.ex child) then some (t.create child st.s1, .roll (m.rollLen H depth))
      else ((t.pushPart child st.s1).alloc child (m.numA st.s1)).map (fun t => (t, Mode.deeper))
    else some (t, .stop)

/-- `simulate(node at p, s, depth)`; `H` is `maxDepth_`.  Returns the new tree, the return `rew` and the
    unconsumed steps. -/
def simulate (m : Mdl) (H : Nat) : Nat → Tree → Path → Nat → Nat → List Step → Option (Tree × Rat × List Step)
  | 0, _, _, _, _, _ => none
  | _+1, _, _, _, _, [] => none
  | fuel+1, t, p, s, depth, st :: log =>
    if st.s = s && decide (st.a < t.nA p) && m.valid st && uctOk m t p st.a then
      match descend m H (t.incN p) p depth st with
      | none => none
      | some (t1, .stop) => some (t1.update p st.a st.r, st.r, log)
      | some (t1, .roll n) =>
        match rollout m n st.s1 1 log with
        | none => none
        | some (fr, log') => some (t1.update p st.a (st.r + m.gamma * fr), st.r + m.gamma * fr, log')
      | some (t1, .deeper) =>
        match simulate m H fuel t1 (p ++ [(st.a, m.key st)]) st.s1 (depth + 1) log with
        | none => none
        | some (t2, fr, log') => some (t2.update p st.a (st.r + m.gamma * fr), st.r + m.gamma * fr, log')
    else none

/-- `for (i < iterations_) simulate(graph_, s, 0)`: the root state of each simulation is the state of the
    first call, which must be a root particle (MCTS: the root state itself) -/
def runSims (m : Mdl) (H : Nat) : Nat → Tree → List Step → Option (Tree × List Step)
  | 0, t, log => some (t, log)
  | _+1, _, [] => none
  | n+1, t, st :: log =>
    if (t.parts []).contains st.s then
      match simulate m H (H + 1) t [] st.s 0 (st :: log) with
      | none => none
      | some (t', _, log') => runSims m H n t' log'
    else none

/-- subtree promotion `{ auto tmp = std::move(it->second); graph_ = std::move(tmp); }` -/
def Tree.reroot (t : Tree) (k : Key) : Tree :=
  { ex := fun p => t.ex (k :: p), nN := fun p => t.nN (k :: p), nA := fun p => t.nA (k :: p),
    parts := fun p => t.parts (k :: p), aN := fun p => t.aN (k :: p), aV := fun p => t.aV (k :: p),
    rets := fun p => t.rets (k :: p),
    nodes := t.nodes.filterMap (fun p => match p with | k' :: r => if k' = k then some r else none | [] => none),
    budget := t.budget - 1 }

/-- one public call -/
inductive Op where
  /-- `sampleAction(s / belief, horizon)`: root particles, number of root actions, horizon, iterations -/
  | fresh (parts : List Nat) (nA H iters : Nat)
  /-- `sampleAction(a, key, horizon)`; `parts`/`nA` describe the restart if the child is absent (MCTS: the
      state itself; POMCP: particles drawn from the uniform belief) and the allocation if it is present -/
  | adv (a k : Nat) (parts : List Nat) (nA H iters : Nat)

def Tree.withBudget (t : Tree) (b : Nat) : Tree := { t with budget := if t.budget < b then b else t.budget }

/-- the tree the simulations of this call start from (`none`: `graph_.children[a]` indexed out of range: undefined behaviour) -/
def prepare (m : Mdl) (t : Tree) : Op → Option (Tree × Nat × Nat)
  | .fresh parts nA H iters => some (Tree.fresh parts nA (H + m.overrun), H, iters)
  | .adv a k parts nA H iters =>
    if a < t.nA [] then
      if t.ex [(a, k)] && !(m.pomcp && (t.parts [(a, k)]).isEmpty) then
        match (t.reroot (a, k)).alloc [] nA with
        | none => none
        | some t' => some (t'.withBudget (H + m.overrun), H, iters)
      else some (Tree.fresh parts nA (H + m.overrun), H, iters)
    else if m.advGuard then some (Tree.fresh parts nA (H + m.overrun), H, iters) else none

/-- one public call: prepare the root, run the simulations on the logged steps
    (`runSimulation`: `if ( !horizon ) return 0;` before anything is simulated) -/
def call (m : Mdl) (t : Tree) (op : Op) (log : List Step) : Option (Tree × List Step) :=
  match prepare m t op with
  | none => none
  | some (t0, H, iters) => if H = 0 then some (t0, log) else runSims m H iters t0 log

/-- the default-constructed `graph_` of a planner on which no call has been made yet -/
def Tree.init : Tree := Tree.fresh [] 0 0

/-- achievable discounted returns over at least one and at most `n` steps (a trajectory may stop early
    at a terminal state), rewards in `[rmin, rmax]`: upper and lower end -/
def hiR (g rmax : Rat) : Nat → Rat
  | 0 => 0
  | n+1 => rmax + g * (if 0 ≤ hiR g rmax n then hiR g rmax n else 0)
def loR (g rmin : Rat) : Nat → Rat
  | 0 => 0
  | n+1 => rmin + g * (if loR g rmin n ≤ 0 then loR g rmin n else 0)

def sumQ : List Rat → Rat
  | [] => 0
  | x :: xs => x + sumQ xs
def mean (l : List Rat) : Rat := sumQ l / (l.length : Rat)

/-- `findBestA`: index of the first maximum of `f 0 … f (n-1)` (`std::max_element` with `<`); 0 for `n = 0` -/
def argmaxV (f : Nat → Rat) : Nat → Nat
  | 0 => 0
  | n+1 => if f (argmaxV f n) < f n then n else argmaxV f n

/-- the action `runSimulation` returns: `findBestA` over the root's action values (0 when `horizon = 0`) -/
def Tree.bestA (t : Tree) (H : Nat) : Nat := if H = 0 then 0 else argmaxV (t.aV []) (t.nA [])

def sumTo (f : Nat → Nat) : Nat → Nat
  | 0 => 0
  | n+1 => sumTo f n + f n


/-! ### rPOMCP (both knowledge measures: max-of-belief `UseEntropy = false`, negative entropy `UseEntropy = true`)

  Anchors: include/AIToolbox/POMDP/Algorithms/rPOMCP.hpp (`sampleAction` ×2, `runSimulation`, `simulate`,
  `maxBeliefNodeUpdate`), Utils/rPOMCPGraph.hpp (`BeliefNode<false>::updateBeliefAndKnowledge`, the three
  `HeadBeliefNode` constructors).  No rollouts, the model's rewards are ignored: the value passed upwards is
  built from the knowledge measure of the belief nodes: `max_s count(s) / (N+1)`, or the running sum of the terms
  `p log p` (one per particle type, refreshed only for the type just seen — as the code does).  Everything but `log` is rational.
  `dps` (the datapoints averaged into each action value) is a ghost field like `rets` above.
  `stops` (visits that ended at the node as a leaf) and `margin` (smallest non-zero gap seen in a `>=` / `>`
  comparison of values, so the driver can set ill-conditioned runs aside) are ghost fields. -/
namespace R

structure RTree where
  ex : Path → Bool
  nN : Path → Nat
  nA : Path → Nat
  tb : Path → Nat → Nat
  keys : Path → List Nat
  maxS : Path → Nat
  km : Path → Rat
  v : Path → Rat
  actV : Path → Rat
  best : Path → Nat
  aN : Path → Nat → Nat
  aV : Path → Nat → Rat
  stops : Path → Nat
  nodes : List Path
  margin : Option Rat
  negEnt : Path → Nat → Rat
  dps : Path → Nat → List Rat
  /-- ghost: the sum of the datapoints the node has passed to its parent (leaf visits and descents) -/
  up : Path → Rat

def RTree.fresh (support : List Nat) (nA : Nat) : RTree :=
  { ex := fun p => p == [], nN := fun _ => 0, nA := fun p => if p = [] then nA else 0,
    tb := fun p s => if p = [] ∧ support.contains s then 1 else 0, keys := fun p => if p = [] then support else [],
    maxS := fun _ => 0, km := fun _ => 0, v := fun _ => 0, actV := fun _ => 0, best := fun _ => 0,
    aN := fun _ _ => 0, aV := fun _ _ => 0, stops := fun _ => 0, nodes := [[]], margin := none,
    negEnt := fun _ _ => 0, dps := fun _ _ => [], up := fun _ => 0 }

def noteMargin (mg : Option Rat) (x y : Rat) : Option Rat :=
  let d := if x < y then y - x else x - y
  if d == 0 then mg else
  match mg with
  | none => some d
  | some e => if d < e then some d else mg

/-- `BeliefNode<UseEntropy>::updateBeliefAndKnowledge(s)`.
    max-of-belief: count the particle, move `maxS_` if it is now strictly ahead (`operator[]` on `maxS_` may create a
    zero entry), `knowledgeMeasure_ = count(maxS_) / (N+1)`.
    entropy: `km -= negativeEntropy[s]; count(s)++; negativeEntropy[s] = p log p with p = count(s)/(N+1); km += it`. -/
def RTree.updBK (m : Mdl) (t : RTree) (p : Path) (s : Nat) : RTree :=
  let c := t.tb p s + 1
  let tb' := updN (t.tb p) s c
  let ms := if m.entropy then t.maxS p else if tb' (t.maxS p) < c then s else t.maxS p
  let keys := if (t.keys p).contains s then t.keys p else t.keys p ++ [s]
  let newE := m.plogp c (t.nN p + 1)
  { t with tb := upd t.tb p tb', maxS := upd t.maxS p ms, keys := upd t.keys p keys,
           km := upd t.km p (if m.entropy then (t.km p - t.negEnt p s) + newE
                             else (tb' ms : Rat) / ((t.nN p + 1 : Nat) : Rat)),
           negEnt := upd t.negEnt p (if m.entropy then updN (t.negEnt p) s newE else t.negEnt p) }

/-- first maximum of the action values (`std::max_element` with `<`) -/
def RTree.alloc (t : RTree) (p : Path) (n : Nat) : Option RTree :=
  if t.nA p = n then some t else if t.nA p = 0 then some { t with nA := upd t.nA p n } else none

def ruct (m : Mdl) (t : RTree) (p : Path) (a : Nat) : Bool :=
  uctOkGen m (t.nN p + 1) (t.nA p) (t.aN p) (t.aV p) a

/-- `simulate`, before the recursion: `b.N++`, child lookup / insertion of an empty `BNode`, particle and knowledge
    update of the child.  Returns the tree and `newNode`. -/
def rdown (m : Mdl) (t : RTree) (p : Path) (st : Step) : RTree × Bool :=
  let t := { t with nN := upd t.nN p (t.nN p + 1) }
  let child := p ++ [(st.a, st.o)]
  let newNode := !(t.ex child)
  let t := if newNode then { t with ex := upd t.ex child true, nodes := t.nodes ++ [child] } else t
  (t.updBK m child st.s1, newNode)

/-- a visit that ends at the child as a leaf: `ot->second.N += 1`; the datapoint `imm` it passes upwards is 0, or the
    knowledge measure at the last level.  `recV` (repaired form, fixes/C19-4): the leaf's value becomes the mean of the
    datapoints it has passed upwards, `V += (imm - V) / N`; in the source as first read `V` is left alone. -/
def rleaf (t : RTree) (child : Path) (recV : Bool) (imm : Rat) : RTree :=
  -- (the new value is computed first and stored by an unconditional `upd`: an `if` between two *functions* would be
  --  eta-expanded by the compiler and re-evaluate the mean on every lookup)
  let nv : Rat := if recV then t.v child + (imm - t.v child) / ((t.nN child + 1 : Nat) : Rat) else t.v child
  { t with nN := upd t.nN child (t.nN child + 1), stops := upd t.stops child (t.stops child + 1),
           v := upd t.v child nv, up := upd t.up child (t.up child + imm) }

/-- the mean / max bookkeeping of a belief node below the root after one of its actions was updated:
    new `actionsV`, new `bestAction`, new comparison margin.  (`b.N == k_`: `actionsV = HUGE_VAL; bestAction = a`, then
    `maxBeliefNodeUpdate` takes its `else if (a == bestAction)` branch and recomputes the maximum.) -/
def rbook (k : Nat) (t : RTree) (p : Path) (a : Nat) (imm : Rat) : Rat × Nat × Option Rat :=
  if k ≤ t.nN p then
    if t.nN p = k then
      let b := argmaxV (t.aV p) (t.nA p)
      (t.aV p b, b, t.margin)
    else
      let mg := noteMargin t.margin (t.aV p a) (t.actV p)
      if t.actV p ≤ t.aV p a then (t.aV p a, a, mg)
      else if a = t.best p then
        let b := argmaxV (t.aV p) (t.nA p)
        (t.aV p b, b, mg)
      else (t.actV p, t.best p, mg)
  else (t.actV p + (imm - t.actV p) / ((t.nN p : Nat) : Rat), t.best p, t.margin)

/-- `simulate`, after the recursion: action update, then (below the root) the bookkeeping of the node and the
    datapoint transmitted upwards -/
def rup (m : Mdl) (k : Nat) (t : RTree) (p : Path) (a depth : Nat) (imm : Rat) : RTree × Rat :=
  let n := t.aN p a + 1
  let t := { t with aN := upd t.aN p (updN (t.aN p) a n),
                    aV := upd t.aV p (updN (t.aV p) a (t.aV p a + (imm - t.aV p a) / (n : Rat))),
                    dps := upd t.dps p (updN (t.dps p) a (imm :: t.dps p a)) }
  if depth = 0 then (t, 0) else
  let b := rbook k t p a imm
  let newV := m.gamma * b.1 + t.km p
  let d : Rat := ((t.nN p - 1 : Nat) : Rat) * (newV - t.v p) + newV
  ({ t with actV := upd t.actV p b.1, best := upd t.best p b.2.1, margin := b.2.2, v := upd t.v p newV,
            up := upd t.up p (t.up p + d) }, d)

/-- `rPOMCP::simulate(node at p, s, depth)`; `k` is the threshold `k_` -/
def rsim (m : Mdl) (H k : Nat) : Nat → RTree → Path → Nat → Nat → List Step → Option (RTree × Rat × List Step)
  | 0, _, _, _, _, _ => none
  | _+1, _, _, _, _, [] => none
  | fuel+1, t, p, s, depth, st :: log =>
    if st.s = s && decide (st.a < t.nA p) && m.valid st && ruct m t p st.a then
      let child := p ++ [(st.a, st.o)]
      let d := rdown m t p st
      let r : Option (RTree × Rat × List Step) :=
        if decide (depth + 1 < H) && !st.term && !d.2 then
          match d.1.alloc child (m.numA st.s1) with
          | none => none
          | some t2 => rsim m H k fuel t2 child st.s1 (depth + 1) log
        else
          let imm : Rat := if depth + 1 < H then 0 else d.1.km child
          some (rleaf d.1 child m.rLeafV imm, imm, log)
      match r with
      | none => none
      | some (t3, imm, log') => some ((rup m k t3 p st.a depth imm).1, (rup m k t3 p st.a depth imm).2, log')
    else none

def rrunSims (m : Mdl) (H k : Nat) : Nat → RTree → List Step → Option (RTree × List Step)
  | 0, t, log => some (t, log)
  | _+1, _, [] => none
  | n+1, t, st :: log =>
    if t.tb [] st.s != 0 then
      match rsim m H k (H + 1) t [] st.s 0 (st :: log) with
      | none => none
      | some (t', _, log') => rrunSims m H k n t' log'
    else none

/-- `graph_ = HNode(A, std::move(tmp), rand_)`: the child becomes the root with everything it holds -/
def RTree.reroot (t : RTree) (k : Key) : RTree :=
  { ex := fun p => t.ex (k :: p), nN := fun p => t.nN (k :: p), nA := fun p => t.nA (k :: p),
    tb := fun p => t.tb (k :: p), keys := fun p => t.keys (k :: p), maxS := fun p => t.maxS (k :: p),
    km := fun p => t.km (k :: p), v := fun p => t.v (k :: p), actV := fun p => t.actV (k :: p),
    best := fun p => t.best (k :: p), aN := fun p => t.aN (k :: p), aV := fun p => t.aV (k :: p),
    stops := fun p => t.stops (k :: p),
    nodes := t.nodes.filterMap (fun p => match p with | k' :: r => if k' = k then some r else none | [] => none),
    margin := t.margin, negEnt := fun p => t.negEnt (k :: p), dps := fun p => t.dps (k :: p), up := fun p => t.up (k :: p) }

/-- the tree the simulations of a public rPOMCP call start from: a fresh head node, or the promoted child
    (`HNode(A, std::move(tmp), rand_)`: everything the child holds, its particle map becoming the sampling belief) -/
def rprepare (t : RTree) : Op → Option (RTree × Nat × Nat)
  | .fresh parts nA H iters => some (RTree.fresh parts nA, H, iters)
  | .adv a o parts nA H iters =>
    if a < t.nA [] then
      if t.ex [(a, o)] && (t.keys [(a, o)]).any (fun s => t.tb [(a, o)] s != 0) then
        ((t.reroot (a, o)).alloc [] nA).map (fun t' => (t', H, iters))
      else some (RTree.fresh parts nA, H, iters)
    else none

/-- one public call of rPOMCP; after the simulations `graph_.V = graph_.children[bestA].V` -/
def rcall (m : Mdl) (k : Nat) (t : RTree) (op : Op) (log : List Step) : Option (RTree × List Step) :=
  match rprepare t op with
  | none => none
  | some (t0, H, iters) =>
    if H = 0 then some (t0, log) else
    match rrunSims m H k iters t0 log with
    | none => none
    | some (t1, rest) =>
      let b := argmaxV (t1.aV []) (t1.nA [])
      some ({ t1 with v := upd t1.v [] (t1.aV [] b) }, rest)

/-! #### The head node's sampling belief (Utils/rPOMCPGraph.hpp: `HeadBeliefNode`)

  `sampleBelief_` is a vector of `(state, count)` pairs, `beliefSize_` the total the uniform draw ranges over.  The head
  is built either from a `Belief` (`beliefSize` draws of `sampleProbability`, grouped by state) or from a promoted
  `BeliefNode` (one pair per entry of its particle map, *including* the zero-count entry `operator[]` may have created
  for `maxS_`; `beliefSize_` accumulated as the sum of the counts).  The iteration order of the `unordered_map` is an
  external choice: everything below is stated for the vector as it is. -/

/-- `beliefSize_` as the promotion constructor accumulates it: the sum of the counts -/
def beliefTotal : List (Nat × Nat) → Nat
  | [] => 0
  | (_, c) :: rest => c + beliefTotal rest

/-- `HeadBeliefNode::sampleBelief()` after the draw `pick` (uniform on `[1, beliefSize_]`):
    `while (true) { pick -= sampleBelief_[index].second; if ( pick < sampleWalkStop ) return sampleBelief_[index].first; ++index; }`
    (`sampleWalkStop` is read from the source by tools/extract_c19.py: 1).
    `none` = the walk leaves the vector (an out-of-bounds read in the C++ code). -/
def sampleWalk : List (Nat × Nat) → Int → Option Nat
  | [], _ => none
  | (s, c) :: rest, pick => if pick - (c : Int) < Gen.C19.sampleWalkStop then some s else sampleWalk rest (pick - (c : Int))

/-- the scan of `HeadBeliefNode::getMostCommonParticle()`: `bestGuessCount = 0`, move on `count > bestGuessCount`;
    `none` = `bestGuess` was never assigned (the function then returns an uninitialised value) -/
def mostCommonGo : List (Nat × Nat) → Option Nat → Nat → Option Nat
  | [], best, _ => best
  | (s, c) :: rest, best, bc => if bc < c then mostCommonGo rest (some s) c else mostCommonGo rest best bc
def mostCommon (l : List (Nat × Nat)) : Option Nat := mostCommonGo l none 0

def countOf (l : List (Nat × Nat)) (s : Nat) : Nat :=
  match l.find? (fun x => x.1 == s) with
  | some x => x.2
  | none => 0

def maxCount : List (Nat × Nat) → Nat
  | [] => 0
  | (_, c) :: rest => if maxCount rest < c then c else maxCount rest

/-- `l.map (·.1)` has no duplicates (the pairs come out of a map: one per state) -/
def distinctStates : List (Nat × Nat) → Bool
  | [] => true
  | (s, _) :: rest => !(rest.any (fun x => x.1 == s)) && distinctStates rest

/-- checker on the implementation's own head node after `sampleAction(a, o, h)` promoted a child: `head` (the private
    `sampleBelief_`) holds exactly the entries of the child's particle map `child` (as dumped before the call), once
    each, and `bsz` (the private `beliefSize_`) is their total and positive -/
def headOk (child head : List (Nat × Nat)) (bsz : Nat) : Bool :=
  head.length == child.length && head.all (fun x => child.contains x) && child.all (fun x => head.contains x) &&
  distinctStates head && distinctStates child &&
  bsz == beliefTotal head && decide (0 < bsz)

/-- checker on the head node built from a `Belief` with support `support` and `n` requested particles: every listed
    state has a positive count and positive probability, states are listed once, the counts add up to `n = beliefSize_` -/
def headFreshOk (support : List Nat) (head : List (Nat × Nat)) (n bsz : Nat) : Bool :=
  head.all (fun x => support.contains x.1 && decide (0 < x.2)) && distinctStates head &&
  bsz == beliefTotal head && bsz == n && decide (0 < bsz)

/-- the sum of `f` over a list of particle types -/
def sumOver (f : Nat → Nat) : List Nat → Nat
  | [] => 0
  | x :: xs => f x + sumOver f xs

end R

end AITB.Tree
