/-
  AITB.Model.Hidden — the process-wide / hidden state carriers of the library, made explicit.
  Core Lean only.

  * `Seeder` (src/Seeder.cpp): a root engine; `getSeed()` draws the next word, `setRootSeed`
    reseeds.  The engine is abstracted as `stream seed k` = k-th word of the engine seeded
    with `seed` (std::mt19937 is a deterministic function of its seed: trusted).
  * FactorGraph node pool (include/AIToolbox/Factored/Utils/FactorGraph.hpp):
    `factorAdjacenciesPool_` is a static free list of list nodes; nodes taken from it are
    overwritten (`f_ = FD{}`, `variables_ = variables`, or whole-node assignment in the copy
    constructor).
-/
namespace AITB.Hidden

/-! ### Seeder -/
structure Seeder where
  root : Nat
  pos : Nat
  deriving Repr, DecidableEq

inductive SOp where
  | setRoot (s : Nat)     -- Seeder::setRootSeed(s)
  | construct             -- any library object drawing Seeder::getSeed() in its constructor
  deriving Repr

/-- run a program; returns the seeds handed out, in order -/
def runSeeder (stream : Nat → Nat → Nat) : Seeder → List SOp → List Nat × Seeder
  | sd, [] => ([], sd)
  | _, .setRoot s :: r => runSeeder stream ⟨s, 0⟩ r
  | sd, .construct :: r =>
      let (out, sd') := runSeeder stream ⟨sd.root, sd.pos + 1⟩ r
      (stream sd.root sd.pos :: out, sd')

/-! ### FactorGraph node pool -/
structure FNode where
  data : List Rat      -- f_
  vars : List Nat      -- variables_
  deriving Repr, DecidableEq

structure PoolWorld where
  pool : List FNode        -- static factorAdjacenciesPool_
  graph : List FNode       -- factorAdjacencies_ of the graph under observation
  deriving Repr

inductive GOp where
  | addFactor (vars : List Nat)            -- getFactor(vars) when no such factor exists yet
  | setData (i : Nat) (d : List Rat)       -- write through getData()
  | eraseVar (a : Nat)                     -- erase(a): every factor mentioning a goes to the pool front
  deriving Repr

/-- take a node: from the pool front if there is one (its old content is whatever it was), else fresh -/
def takeNode (pool : List FNode) (vars : List Nat) : FNode × List FNode :=
  match pool with
  | [] => (⟨[], vars⟩, [])
  | old :: rest => ({ old with data := [], vars := vars }, rest)   -- it->f_ = FD{}; it->variables_ = variables

def setAt : List FNode → Nat → List Rat → List FNode
  | [], _, _ => []
  | n :: r, 0, d => { n with data := d } :: r
  | n :: r, i+1, d => n :: setAt r i d

def stepG (w : PoolWorld) : GOp → PoolWorld
  | .addFactor vars =>
      let (n, pool') := takeNode w.pool vars
      { pool := pool', graph := w.graph ++ [n] }
  | .setData i d => { w with graph := setAt w.graph i d }
  | .eraseVar a =>
      let gone := w.graph.filter (fun n => n.vars.contains a)
      let kept := w.graph.filter (fun n => !(n.vars.contains a))
      { pool := gone.reverse ++ w.pool, graph := kept }

def runG (w : PoolWorld) (ops : List GOp) : PoolWorld := ops.foldl stepG w

/-- copy constructor `FactorGraph(const FactorGraph & other)`: for each node of `other`, ONE node is taken from the pool
    if there is one (and assigned `= *oIt`, a whole-node overwrite) or freshly emplaced; returns (pool left, the copy) -/
def copyNodes : List FNode → List FNode → List FNode × List FNode
  | pool, [] => (pool, [])
  | [], n :: rest => let (p, c) := copyNodes [] rest; (p, n :: c)
  | _ :: pool, n :: rest => let (p, c) := copyNodes pool rest; (p, n :: c)

def copyGraph (w : PoolWorld) : PoolWorld :=
  let (p, c) := copyNodes w.pool w.graph
  { pool := p, graph := c }

end AITB.Hidden
