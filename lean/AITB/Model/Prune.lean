/-
  AITB.Model.Prune — model of include/AIToolbox/Utils/Prune.hpp and the pruning helpers of
  include/AIToolbox/Utils/Polytope.hpp.  Core Lean only.

  * `dominates`                    Polytope.hpp  (both tolerance clauses, constants from Gen)
  * `extractDominated`             Prune.hpp     (same scan order, same swaps: the resulting array is
                                                  reproduced element for element)
  * `extractDominatedIncremental`  Prune.hpp     (same four ranges, same final shuffle)
  * `findBest` / `veccmpGt`        Polytope.hpp  findBestAtPoint / findBestAtSimplexCorner, veccmp tie-break
  * `cornersLoop`                  Polytope.hpp  extractBestAtSimplexCorners
  * `pruner`                       Prune.hpp     Pruner::operator(), the witness LP being an oracle parameter

  The in-place iterator ranges of the C++ code are modelled as the lists of their contents:
  a range `[a, b)` is the list of its elements in address order; `std::iter_swap` patterns are
  the list rotations written out below (each one is justified in a comment).
-/
import AITB.Gen.Constants
import AITB.Model.Num
namespace AITB.Prune

abbrev Vec := List Rat

/-- Eigen `a.dot(b)` read in exact arithmetic -/
def dot : Vec → Vec → Rat
  | a :: as, b :: bs => a * b + dot as bs
  | _, _ => 0

def minQ (a b : Rat) : Rat := if a ≤ b then a else b
def maxQ (a b : Rat) : Rat := if a ≤ b then b else a

/-- `(lhs.array() - rhs.array() >= -equalToleranceSmall).minCoeff()` -/
def domAbs (tolS : Rat) : Vec → Vec → Bool
  | a :: as, b :: bs => decide (-tolS ≤ a - b) && domAbs tolS as bs
  | _, _ => true

/-- `(lhs.array() - rhs.array() >= -lhs.array().min(rhs.array()) * equalToleranceGeneral).minCoeff()` -/
def domRel (tolG : Rat) : Vec → Vec → Bool
  | a :: as, b :: bs => decide (-(minQ a b) * tolG ≤ a - b) && domRel tolG as bs
  | _, _ => true

/-- `dominates(lhs, rhs)` with explicit tolerances -/
def dominatesT (tolS tolG : Rat) (l r : Vec) : Bool := domAbs tolS l r || domRel tolG l r

/-- `dominates(lhs, rhs)` as compiled: tolerances regenerated from Utils/Core.hpp -/
def dominates (l r : Vec) : Bool := dominatesT Gen.equalToleranceSmall Gen.equalToleranceGeneral l r

/-- exact componentwise domination (tolerances 0): the transitive idealisation -/
def domExact (l r : Vec) : Bool := domAbs 0 l r

/-! ## extractDominated -/

section generic
variable {α : Type}

/-- region `A ++ [target] ++ B`; `std::iter_swap(target, --end)` moves the target behind the range and
    the last live element (if the target was not last) into its slot. Result is the new live range
    without the target. -/
def rotLast (A B : List α) : List α :=
  match B.getLast? with
  | none => A
  | some z => A ++ z :: B.dropLast

/-- the `while (helper != optEnd)` loop. Arguments: the not yet visited prefix *reversed* (visit order),
    `A` = visited non-dominating helpers (slots between helper and target), the target value,
    `B` = live slots above the target, removed range (front = lowest address). -/
def edScan (dom : α → α → Bool) : List α → List α → α → List α → List α → (List α × α × List α × List α)
  | [], A, tv, B, rem => (A, tv, B, rem)
  | x :: rp, A, tv, B, rem =>
    if dom x tv then edScan dom rp [] x (rotLast A B) (tv :: rem)
    else edScan dom rp (x :: A) tv B rem

/-- `std::iter_swap(target, optEnd)` on the live range `A ++ [tv] ++ B`; returns what stays unchecked -/
def afterPlace (A B : List α) : List α :=
  match A with
  | [] => B
  | a0 :: A' => A' ++ a0 :: B

/-- outer `while (optEnd < end)` loop; fuel = number of unchecked elements -/
def edLoop (dom : α → α → Bool) : Nat → List α → List α → List α → (List α × List α)
  | 0, good, U, rem => (good ++ U, rem)
  | n+1, good, U, rem =>
    match U.getLast? with
    | none => (good, rem)
    | some t =>
      let P := U.dropLast
      if good.any (fun g => dom g t) then edLoop dom n good P (t :: rem)
      else
        let r := edScan dom P.reverse [] t [] rem
        edLoop dom n (good ++ [r.2.1]) (afterPlace r.1 r.2.2.1) r.2.2.2

/-- `extractDominated(begin, end)`: (kept range, removed range) in address order -/
def extractDominated (dom : α → α → Bool) (xs : List α) : List α × List α :=
  if xs.length < 2 then (xs, []) else edLoop dom xs.length [] xs []

/-! ## extractDominatedIncremental -/

/-- last element to the front (`iter_swap(slot, --end)` where `slot` is just below the range) -/
def rotRight (l : List α) : List α :=
  match l.getLast? with
  | none => []
  | some z => z :: l.dropLast

/-- inner `while (old > begin)` loop for one new entry `t`. Arguments: unvisited old-good prefix reversed,
    visited still-good slots `S`, old-bad range, `isDominating`. `none` = `t` is dominated (no old slot
    was touched, because a swap only happens after `isDominating` is set, which disables this exit). -/
def ediScan (dom : α → α → Bool) (t : α) : List α → List α → List α → Bool → Option (List α × List α)
  | [], S, bad, _ => some (S, bad)
  | x :: rp, S, bad, isDom =>
    if !isDom && dom x t then none
    else if dom t x then ediScan dom t rp (rotRight S) (x :: bad) true
    else ediScan dom t rp (x :: S) bad isDom

/-- `while (target > newBegin)` loop: new-to-check reversed, old good, old bad, new good, new bad -/
def ediLoop (dom : α → α → Bool) : List α → List α → List α → List α → List α → (List α × List α × List α × List α)
  | [], og, ob, ng, nb => (og, ob, ng, nb)
  | t :: rc, og, ob, ng, nb =>
    match ediScan dom t og.reverse [] ob false with
    | none => ediLoop dom rc og ob (rotRight ng) (t :: nb)
    | some r => ediLoop dom rc r.1 r.2 (t :: ng) nb

/-- final pairwise swap of the "old bad" and "new good" ranges (forward / backward cursors) -/
def ediShuffle (ob ng : List α) : List α × List α :=
  let nO := ob.length; let nG := ng.length
  if nG ≤ nO then (ng.reverse, ob.drop nG ++ (ob.take nG).reverse)
  else ((ng.drop (nG - nO)).reverse ++ ng.take (nG - nO), ob.reverse)

structure EdiOut (α : Type) where
  oldGood : List α
  newGood : List α
  oldBad : List α
  newBad : List α      -- new entries dominated by an old one
  newBad0 : List α     -- new entries dominated by another new one (first step)

/-- `extractDominatedIncremental(begin, newBegin, end)` -/
def extractDominatedIncremental (dom : α → α → Bool) (old new : List α) : EdiOut α :=
  let r0 := extractDominated dom new
  let r := ediLoop dom r0.1.reverse old [] [] []
  let s := ediShuffle r.2.1 r.2.2.1
  { oldGood := r.1, newGood := s.1, oldBad := s.2, newBad := r.2.2.2, newBad0 := r0.2 }

def EdiOut.array (o : EdiOut α) : List α := o.oldGood ++ o.newGood ++ o.oldBad ++ o.newBad ++ o.newBad0
def EdiOut.kept (o : EdiOut α) : List α := o.oldGood ++ o.newGood
def EdiOut.removed (o : EdiOut α) : List α := o.oldBad ++ o.newBad ++ o.newBad0

end generic

/-! ## best-at-point selection -/

/-- `veccmp(a, b) > 0` -/
def veccmpGt : Vec → Vec → Bool
  | a :: as, b :: bs => if a == b then veccmpGt as bs else decide (b < a)
  | _, _ => false

/-- loop of findBestAtPoint / findBestAtSimplexCorner: current index, best index, best value, best vector -/
def findBestFrom (score : Vec → Rat) : List Vec → Nat → Nat → Rat → Vec → Nat
  | [], _, bi, _, _ => bi
  | v :: vs, i, bi, bv, bvec =>
    let c := score v
    if decide (bv < c) || (c == bv && veccmpGt v bvec) then findBestFrom score vs (i+1) i c v
    else findBestFrom score vs (i+1) bi bv bvec

/-- index of the best entry (0 on the empty list, which the C++ code never passes) -/
def findBest (score : Vec → Rat) : List Vec → Nat
  | [] => 0
  | v :: vs => findBestFrom score vs 1 0 (score v) v

/-- `std::iter_swap(bestMatch, bound)` then drop the first slot: what remains of `rest` after its element
    `j` has been moved into the useful range -/
def takeOut {α} (rest : List α) (j : Nat) : List α :=
  match rest with
  | [] => []
  | h :: tl => if j = 0 then tl else tl.set (j - 1) h

/-- extractBestAtSimplexCorners(S, begin, bound, end): loop over the corners -/
def cornersLoop : List Nat → List Vec → List Vec → (List Vec × List Vec)
  | [], b, r => (b, r)
  | s :: ss, b, r =>
    let idx := findBest (fun v => v.getD s 0) (b ++ r)
    if b.length ≤ idx then
      let j := idx - b.length
      cornersLoop ss (b ++ [r.getD j []]) (takeOut r j)
    else cornersLoop ss b r

/-- main loop of Pruner::operator(): `oracle best v` stands for `lp_.findWitness(v)` with the rows `best` -/
def prunerLoop (oracle : List Vec → Vec → Option Vec) : Nat → List Vec → List Vec → List Vec → (List Vec × List Vec)
  | 0, b, r, rem => (b, r ++ rem)
  | n+1, b, r, rem =>
    match r.getLast? with
    | none => (b, rem)
    | some v =>
      match oracle b v with
      | some w =>
        let j := findBest (dot w) r
        prunerLoop oracle n (b ++ [r.getD j []]) (takeOut r j) rem
      | none => prunerLoop oracle n b r.dropLast (v :: rem)

/-- `Pruner::operator()(begin, end)`: (kept range, rest of the array) -/
def pruner (dom : Vec → Vec → Bool) (oracle : List Vec → Vec → Option Vec) (S : Nat) (xs : List Vec) : List Vec × List Vec :=
  let r0 := extractDominated dom xs
  if r0.1.length < 2 then r0 else
  let c := cornersLoop (List.range S) [] r0.1
  let r := prunerLoop oracle c.2.length c.1 c.2 []
  (r.1, r.2 ++ r0.2)

end AITB.Prune
