/-
  AITB.Model.Learners — executable model of the tabular reinforcement learners (C11).  Core Lean only.

  Modelled code (exact-arithmetic reading, same control flow and tie-breaks):
    src/MDP/Algorithms/QLearning.cpp            QLearning::stepUpdateQ                       -> qlStep
    src/MDP/Algorithms/HystereticQLearning.cpp  HystereticQLearning::stepUpdateQ             -> hystStep
    src/MDP/Algorithms/SARSA.cpp                SARSA::stepUpdateQ                           -> sarsaStep
    src/MDP/Algorithms/ExpectedSARSA.cpp        ExpectedSARSA::stepUpdateQ                   -> esarsaStep
    src/MDP/Algorithms/DoubleQLearning.cpp      DoubleQLearning::stepUpdateQ (tables qa, qc) -> dqStep
    include/…/DynaQ.hpp                         stepUpdateQ / batchUpdateQ                   -> dynaStep / dynaBatch
    src/MDP/Algorithms/Utils/OffPolicyTemplate.cpp  OffPolicyBase::updateTraces              -> traceLoop / updateTraces
    src/MDP/Algorithms/SARSAL.cpp               SARSAL::stepUpdateQ (same loop, duplicated)  -> sarsalStep
    include/…/Utils/OffPolicyTemplate.hpp       OffPolicyEvaluation/Control::stepUpdateQ     -> evalStep / controlStep
    include/…/QL.hpp RetraceL.hpp TreeBackupL.hpp ImportanceSampling.hpp  getTraceDiscount   -> cControl / cEval
    include/…/PrioritizedSweeping.hpp           stepUpdateQ / batchUpdateQ (Eigen-model branch) -> psStep / psBatch

  Tables are total functions `Nat → Nat → Rat` (entries outside S×A are never read under the
  preconditions `s,s1 < S`, `a,a1 < A`, `0 < A`).  The driver tabulates them after every step.
-/
import AITB.Model.Num
namespace AITB.Learn

abbrev QF := Nat → Nat → Rat

/-- `q_(s,a) = v` -/
def upd (q : QF) (s a : Nat) (v : Rat) : QF := fun s' a' => if s' = s ∧ a' = a then v else q s' a'

/-- running maximum over indices `0..n` (Eigen `maxCoeff`: the first maximum is kept) -/
def maxTo : Nat → (Nat → Rat) → Rat
  | 0, f => f 0
  | n+1, f => if maxTo n f < f (n+1) then f (n+1) else maxTo n f

/-- index of the first maximum over `0..n` (Eigen `maxCoeff(&idx)`; also the `if (maxV < q)` loop
    of `OffPolicyControl::stepUpdateQ`) -/
def argmaxTo : Nat → (Nat → Rat) → Nat
  | 0, _ => 0
  | n+1, f => if maxTo n f < f (n+1) then n+1 else argmaxTo n f

/-- max / argmax over the `A` actions (A ≥ 1) -/
def maxA (A : Nat) (f : Nat → Rat) : Rat := maxTo (A - 1) f
def argmaxA (A : Nat) (f : Nat → Rat) : Nat := argmaxTo (A - 1) f

/-- left-to-right sum over indices `0..n-1` -/
def sumTo : Nat → (Nat → Rat) → Rat
  | 0, _ => 0
  | n+1, f => sumTo n f + f n

/-! ## one-step learners -/

/-- `q_(s,a) += alpha * (rew + discount * q_.row(s1).maxCoeff() - q_(s,a))` -/
def qlStep (γ α : Rat) (A : Nat) (q : QF) (s a s1 : Nat) (r : Rat) : QF :=
  upd q s a (q s a + α * (r + γ * maxA A (q s1) - q s a))

/-- HystereticQLearning: `delta >= 0 ? alpha : beta` -/
def hystStep (γ α β : Rat) (A : Nat) (q : QF) (s a s1 : Nat) (r : Rat) : QF :=
  let delta := r + γ * maxA A (q s1) - q s a
  if delta ≥ 0 then upd q s a (q s a + α * delta) else upd q s a (q s a + β * delta)

/-- SARSA -/
def sarsaStep (γ α : Rat) (q : QF) (s a s1 a1 : Nat) (r : Rat) : QF :=
  upd q s a (q s a + α * (r + γ * q s1 a1 - q s a))

/-- `expectedQ += policy.getActionProbability(s1, ai) * q(s1, ai)` for `ai < A` -/
def expectedQ (A : Nat) (π : Nat → Nat → Rat) (q : QF) (s1 : Nat) : Rat :=
  sumTo A (fun ai => π s1 ai * q s1 ai)

/-- ExpectedSARSA -/
def esarsaStep (γ α : Rat) (A : Nat) (π : Nat → Nat → Rat) (q : QF) (s a s1 : Nat) (r : Rat) : QF :=
  upd q s a (q s a + α * (r + γ * expectedQ A π q s1 - q s a))

/-- DoubleQLearning keeps `qa_` and `qc_ = qa + qb` -/
structure DQ where
  qa : QF
  qc : QF

def DQ.qb (d : DQ) : QF := fun s a => d.qc s a - d.qa s a

/-- DoubleQLearning::stepUpdateQ with the maximising action `a1` made explicit -/
def dqStepAt (γ α : Rat) (d : DQ) (coin : Bool) (a1 s a s1 : Nat) (r : Rat) : DQ :=
  if coin then
    let change := α * (r + γ * (d.qc s1 a1 - d.qa s1 a1) - d.qa s a)
    { qa := upd d.qa s a (d.qa s a + change), qc := upd d.qc s a (d.qc s a + change) }
  else
    { qa := d.qa, qc := upd d.qc s a (d.qc s a + α * (r + γ * d.qa s1 a1 - (d.qc s a - d.qa s a))) }

/-- the action DoubleQLearning bootstraps from: `qa_.row(s1).maxCoeff(&a1)` resp.
    `(qc_.row(s1) - qa_.row(s1)).maxCoeff(&a1)` -/
def dqArg (A : Nat) (d : DQ) (coin : Bool) (s1 : Nat) : Nat :=
  if coin then argmaxA A (d.qa s1) else argmaxA A (fun x => d.qc s1 x - d.qa s1 x)

/-- DoubleQLearning::stepUpdateQ; `coin` is the Bernoulli(1/2) draw `dist_(rand_)` -/
def dqStep (γ α : Rat) (A : Nat) (d : DQ) (coin : Bool) (s a s1 : Nat) (r : Rat) : DQ :=
  dqStepAt γ α d coin (dqArg A d coin s1) s a s1 r

/-- DynaQ: the embedded QLearning plus the visited-pair list (`visitedStatesActionsSampler_`) -/
structure Dyna where
  q : QF
  visited : List (Nat × Nat)

def dynaStep (γ α : Rat) (A : Nat) (d : Dyna) (s a s1 : Nat) (r : Rat) : Dyna :=
  { q := qlStep γ α A d.q s a s1 r,
    visited := if d.visited.contains (s, a) then d.visited else d.visited ++ [(s, a)] }

/-- DynaQ::batchUpdateQ: each pass picks a visited pair by index (`sampleDistribution_(rand_)`) and a
    model sample `(s1, rew)`; both are oracle inputs here (list of `(idx, s1, rew)`), one per pass -/
def dynaBatch (γ α : Rat) (A : Nat) (d : Dyna) : List (Nat × Nat × Rat) → Dyna
  | [] => d
  | (i, s1, r) :: rest =>
    match d.visited[i]? with
    | none => dynaBatch γ α A d rest
    | some (s, a) => dynaBatch γ α A { d with q := qlStep γ α A d.q s a s1 r } rest

/-! ## eligibility traces -/

structure Tr where
  s : Nat
  a : Nat
  el : Rat
  deriving BEq, Repr

/-- The `for (i = 0; i < traces_.size(); ++i)` loop of `OffPolicyBase::updateTraces` (identical in
    `SARSAL::stepUpdateQ`).  `acc` = slots `[0,i)` already visited, second list = slots `[i,size)`.
    Swap-and-pop: the current slot receives the last slot's content, the vector shrinks, and `i` is
    re-examined (`--i; continue`).  The Nat argument is fuel (`≥` length of the unvisited part). -/
def traceLoop (s a : Nat) (err td tol : Rat) : Nat → List Tr → List Tr → QF → Bool → (List Tr × QF × Bool)
  | 0, acc, rest, q, nt => (acc ++ rest, q, nt)
  | _+1, acc, [], q, nt => (acc, q, nt)
  | f+1, acc, x :: rest, q, nt =>
    if x.s = s ∧ x.a = a then
      traceLoop s a err td tol f (acc ++ [{ x with el := 1 }]) rest (upd q x.s x.a (q x.s x.a + err * 1)) false
    else
      let el := x.el * td
      if el < tol then
        match rest.getLast? with
        | none => traceLoop s a err td tol f acc [] q nt
        | some y => traceLoop s a err td tol f acc (y :: rest.dropLast) q nt
      else
        traceLoop s a err td tol f (acc ++ [{ x with el := el }]) rest (upd q x.s x.a (q x.s x.a + err * el)) nt

/-- `OffPolicyBase::updateTraces(s, a, error, traceDiscount)` -/
def updateTraces (s a : Nat) (err td tol : Rat) (tr : List Tr) (q : QF) : List Tr × QF :=
  match traceLoop s a err td tol tr.length [] tr q true with
  | (tr', q', nt) => if nt then (tr' ++ [⟨s, a, 1⟩], upd q' s a (q' s a + err)) else (tr', q')

/-- SARSAL::stepUpdateQ (`gammaL_ = lambda_ * discount_`) -/
def sarsalStep (γ α lam tol : Rat) (tr : List Tr) (q : QF) (s a s1 a1 : Nat) (r : Rat) : List Tr × QF :=
  updateTraces s a (α * (r + γ * q s1 a1 - q s a)) (lam * γ) tol tr q

/-- which derived class supplies `getTraceDiscount` -/
inductive Kind where
  | ql | retrace | tb | is
  deriving BEq, Repr, DecidableEq

def min1 (x : Rat) : Rat := if x < 1 then x else 1

/-- `getTraceDiscount` of the *Evaluation* classes; `pt = target(s,a)`, `pb = behaviour(s,a)` -/
def cEval (k : Kind) (lam pt pb : Rat) : Rat :=
  match k with
  | .ql => lam
  | .retrace => lam * min1 (pt / pb)
  | .tb => lam * pt
  | .is => pt / pb

/-- OffPolicyEvaluation<Derived>::stepUpdateQ -/
def evalStep (k : Kind) (γ α lam tol : Rat) (A : Nat) (πt πb : Nat → Nat → Rat)
    (tr : List Tr) (q : QF) (s a s1 : Nat) (r : Rat) : List Tr × QF :=
  let eq := sumTo A (fun x => q s1 x * πt s1 x)
  let err := α * (r + γ * eq - q s a)
  let td := γ * cEval k lam (πt s a) (πb s a)
  updateTraces s a err td tol tr q

/-- `epsilon_ / A + (a == maxA) * (1.0 - epsilon_)` -/
def probGreedy (ε : Rat) (A a mA : Nat) : Rat := ε / (A : Rat) + (if a = mA then 1 - ε else 0)

/-- the ε-greedy expectation of `OffPolicyControl::stepUpdateQ` -/
def expectedEps (ε : Rat) (A : Nat) (q : QF) (s1 : Nat) : Rat :=
  sumTo A (q s1) * (ε / (A : Rat)) + (1 - ε) * maxA A (q s1)

/-- OffPolicyControl<Derived>::stepUpdateQ.  NOTE (modelled as written): `maxA` is the greedy action
    of the *next* state `s1`, yet `getTraceDiscount` compares it with the action `a` taken in `s`. -/
def controlStep (k : Kind) (γ α lam tol ε : Rat) (A : Nat) (πb : Nat → Nat → Rat)
    (tr : List Tr) (q : QF) (s a s1 : Nat) (r : Rat) : List Tr × QF :=
  let mA := argmaxA A (q s1)
  let err := α * (r + γ * expectedEps ε A q s1 - q s a)
  let td := γ * cEval k lam (probGreedy ε A a mA) (πb s a)
  updateTraces s a err td tol tr q

/-! ## PrioritizedSweeping (Eigen-model branch) -/

structure MDP where
  S : Nat
  A : Nat
  T : Nat → Nat → Nat → Rat     -- T s a s1
  R : Nat → Nat → Rat           -- expected reward of (s,a)
  γ : Rat

structure QE where
  prio : Rat
  s : Nat
  a : Nat
  deriving BEq, Repr

/-- `done` is a ghost field (not in the C++): the pairs on which stepUpdateQ has run -/
structure PS where
  q : QF
  v : Nat → Rat
  queue : List QE
  done : List (Nat × Nat)

def PS.init : PS := { q := fun _ _ => 0, v := fun _ => 0, queue := [], done := [] }

def absR (x : Rat) : Rat := if x < 0 then -x else x

def inQueue (queue : List QE) (s a : Nat) : Bool := queue.any (fun e => e.s == s && e.a == a)

/-- one `(ss, a)` iteration of the parent loop: push, or raise the stored priority -/
def enqueue (θ delta : Rat) (ss a : Nat) (queue : List QE) : List QE :=
  if delta > θ then
    if inQueue queue ss a then
      queue.map (fun e => if e.s == ss && e.a == a then (if e.prio < delta then { e with prio := delta } else e) else e)
    else queue ++ [⟨delta, ss, a⟩]
  else queue

/-- `for ss < S, for a < A: delta = p * T(ss,a,s); if (delta > theta) …` -/
def parentLoop (m : MDP) (θ p : Rat) (s : Nat) (queue : List QE) : List QE :=
  (List.range m.S).foldl (fun qu ss =>
    (List.range m.A).foldl (fun qu a => enqueue θ (p * m.T ss a s) ss a qu) qu) queue

/-- PrioritizedSweeping::stepUpdateQ(s, a) -/
def psStep (m : MDP) (θ : Rat) (st : PS) (s a : Nat) : PS :=
  let q' := upd st.q s a (m.R s a + sumTo m.S (fun s1 => m.T s a s1 * (st.v s1 * m.γ)))
  let vs := maxA m.A (q' s)
  let p := absR (vs - st.v s)
  let v' := fun x => if x = s then vs else st.v x
  { q := q', v := v', queue := parentLoop m θ p s st.queue, done := (s, a) :: st.done }

/-- remove the element at index `i` -/
def removeAt (l : List QE) (i : Nat) : List QE := l.take i ++ l.drop (i + 1)

/-- index of the first element of maximal priority (the executable choice; the fixed-point theorem is
    proved for an arbitrary selector, so it does not depend on the heap's tie-breaking) -/
def topIdx : List QE → Nat
  | [] => 0
  | e :: rest =>
    let j := topIdx rest
    match rest[j]? with
    | none => 0
    | some b => if e.prio < b.prio then j + 1 else 0

/-- PrioritizedSweeping::batchUpdateQ with `N = n`; `sel` picks the element popped from the queue -/
def psBatch (m : MDP) (θ : Rat) (sel : List QE → Nat) : Nat → PS → PS
  | 0, st => st
  | n+1, st =>
    match st.queue[sel st.queue]? with
    | none => st
    | some e => psBatch m θ sel n (psStep m θ { st with queue := removeAt st.queue (sel st.queue) } e.s e.a)

/-! ## tabulation helpers for the driver -/

def ofRows (rows : List (List Rat)) : QF := fun s a => (rows.getD s []).getD a 0
def toRows (S A : Nat) (q : QF) : List (List Rat) := (List.range S).map (fun s => (List.range A).map (fun a => q s a))
def ofVec (l : List Rat) : Nat → Rat := fun i => l.getD i 0
def toVec (n : Nat) (f : Nat → Rat) : List Rat := (List.range n).map f

end AITB.Learn
