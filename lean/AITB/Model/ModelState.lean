/-
  AITB.Model.ModelState — executable model of the constructors and setters of
  MDP::Model, MDP::SparseModel, POMDP::Model<M>, POMDP::SparseModel<M>, of the three
  `isProbability` implementations, of the representation conversions and of AMDP's
  accumulate-and-normalise phase.  Core Lean only (the compiled driver runs these definitions).

  Numbers are `XRat` (what a double can hold) with exact arithmetic and IEEE rules for
  nan / ±inf, so "the guard lets NaN through" is expressible.  Tolerances come from
  AITB.Gen.Constants, guard conditions / statement order / constructor facts from AITB.Gen.Guards
  (both regenerated from the library source on every run).
-/
import AITB.Model.Num
import AITB.Model.Guard
import AITB.Gen.Constants
import AITB.Gen.Guards
import AITB.Gen.C06Sites
namespace AITB.MS
open AITB AITB.Guard

/-! ## XRat arithmetic (exact on finite values, IEEE on nan/inf) -/

def xadd : XRat → XRat → XRat
  | .nan, _ => .nan
  | _, .nan => .nan
  | .pinf, .ninf => .nan
  | .ninf, .pinf => .nan
  | .pinf, _ => .pinf
  | _, .pinf => .pinf
  | .ninf, _ => .ninf
  | _, .ninf => .ninf
  | .fin a, .fin b => .fin (a + b)

def xneg : XRat → XRat
  | .nan => .nan
  | .pinf => .ninf
  | .ninf => .pinf
  | .fin a => .fin (-a)

def xsub (a b : XRat) : XRat := xadd a (xneg b)

def xabs : XRat → XRat
  | .nan => .nan
  | .pinf => .pinf
  | .ninf => .pinf
  | .fin a => .fin (if a < 0 then -a else a)

/-- sign: -1, 0, 1 (nan ↦ 0, never used for nan) -/
def xsgn : XRat → Int
  | .nan => 0
  | .pinf => 1
  | .ninf => -1
  | .fin a => if a < 0 then -1 else if a = 0 then 0 else 1

def xmul : XRat → XRat → XRat
  | .nan, _ => .nan
  | _, .nan => .nan
  | .fin a, .fin b => .fin (a * b)
  | x, y => let s := xsgn x * xsgn y
            if s = 0 then .nan else if s > 0 then .pinf else .ninf

/-- finite / finite with IEEE results for a zero divisor -/
def qdivX (a b : Rat) : XRat :=
  if b = 0 then (if a = 0 then .nan else if a > 0 then .pinf else .ninf) else .fin (a / b)

def isFin : XRat → Bool
  | .fin _ => true
  | _ => false

/-- `p += v` over a row, left to right, as the C++ loops do -/
def sumX (l : List XRat) : XRat := l.foldl xadd (.fin 0)

def sumQ : List Rat → Rat
  | [] => 0
  | q :: r => q + sumQ r

def tol : Rat := AITB.Gen.equalToleranceSmall

/-- `checkEqualSmall(a,b)` : fabs(a-b) <= 1e-6 -/
def eqSmall (a b : XRat) : Bool := XRat.le (xabs (xsub a b)) (.fin tol)
/-- `checkDifferentSmall` -/
def diffSmall (a b : XRat) : Bool := !(eqSmall a b)

/-! ## isProbability, three implementations -/

/-- template loop of Utils/Probability.hpp: early `return false` on a negative value, running sum -/
def isProbLoopAux : List XRat → XRat → Option XRat
  | [], p => some p
  | v :: r, p => if XRat.lt v (.fin 0) then none else isProbLoopAux r (xadd p v)

def isProbLoop (row : List XRat) : Bool :=
  match isProbLoopAux row (.fin 0) with
  | none => false
  | some p => !(diffSmall p (.fin 1))

/-- `row.minCoeff() < 0.0`: on a NaN-free row this is "some entry is negative"; on a row with a NaN
    Eigen's answer is unspecified but the sum is NaN and the other disjunct rejects anyway -/
def anyNeg (row : List XRat) : Bool := row.any (fun v => XRat.lt v (.fin 0))

/-- src/Utils/Probability.cpp, dense row -/
def isProbDense (row : List XRat) : Bool :=
  !(anyNeg row || diffSmall (sumX row) (.fin 1))

/-- src/Utils/Probability.cpp, sparse row, AS FIRST READ: sum and sum of absolute values both ≈ 1 (no sign test: entries in
    [-tol/2, 0) pass) -/
def isProbSparseAbs (row : List XRat) : Bool :=
  !(diffSmall (sumX row) (.fin 1) || diffSmall (sumX (row.map xabs)) (.fin 1))

/-- … after fixes/C05-2 (repo 54353bc): `if (it.value() < 0.0) return false` over every STORED value, then the row sums.
    Entries that are not stored are zeros (never negative), a stored -0.0 or NaN is not `< 0.0` (a NaN makes the sum NaN);
    the sign pass over the whole matrix before the sums does not change the Boolean. -/
def isProbSparseSign (row : List XRat) : Bool :=
  !(anyNeg row || diffSmall (sumX row) (.fin 1))

/-- `isProbability(const SparseMatrix2D &)`, in the form the source has today (AITB.Gen.C06Sites.sparseSignTest) -/
def isProbSparse (row : List XRat) : Bool :=
  if AITB.Gen.C06Sites.sparseSignTest then isProbSparseSign row else isProbSparseAbs row

/-! ## tables -/

abbrev Tab2 := List (List XRat)
abbrev Tab3 := List (List (List XRat))

def get2 (t : Tab2) (i j : Nat) : XRat := (t.getD i []).getD j (.fin 0)
def get3 (t : Tab3) (i j k : Nat) : XRat := ((t.getD i []).getD j []).getD k (.fin 0)

/-- the `n` entries `in[i][j][0..n)` the template loop reads -/
def rowOf (t : Tab3) (i j n : Nat) : List XRat := (List.range n).map (fun k => get3 t i j k)

/-- build `[x][y][z]` from an accessor -/
def mk3 (X Y Z : Nat) (f : Nat → Nat → Nat → XRat) : Tab3 :=
  (List.range X).map fun x => (List.range Y).map fun y => (List.range Z).map fun z => f x y z
def mk2 (X Y : Nat) (f : Nat → Nat → XRat) : Tab2 :=
  (List.range X).map fun x => (List.range Y).map fun y => f x y

/-- entries the sparse classes store: `if ( checkDifferentSmall(0.0, p) ) insert(p)` -/
def sparsify (p : XRat) : XRat := if diffSmall (.fin 0) p then p else .fin 0

inductive Rep where
  | dense | sparse
  deriving Repr, DecidableEq, Inhabited

/-- what the getters of one model object expose -/
structure St where
  S : Nat
  A : Nat
  O : Nat          -- 0 for a plain MDP object
  disc : XRat
  T : Tab3         -- [a][s][s1]
  R : Tab2         -- [s][a]
  Om : Tab3        -- [a][s1][o]
  deriving Repr, BEq, Inhabited

/-- class of the object: representation of the MDP part and of the observation part -/
structure Kind where
  base : Rep
  obs : Rep
  deriving Repr, DecidableEq, Inhabited

/-! ## statements: the order of `throw` and writes is part of the model -/

inductive Stmt where
  | check (ok : St → Bool)      -- `if (!ok) throw std::invalid_argument`
  | assign (f : St → St)

/-- run a statement list; the Bool says "threw".  Writes made before a throw stay. -/
def exec : List Stmt → St → St × Bool
  | [], s => (s, false)
  | .check ok :: r, s => if ok s then exec r s else (s, true)
  | .assign f :: r, s => exec r (f s)

/-- a setter body: validation and commit in the order the source has them -/
def setter (validateFirst : Bool) (ok : St → Bool) (f : St → St) : List Stmt :=
  if validateFirst then [.check ok, .assign f] else [.assign f, .check ok]

/-! ## guards taken from the source -/

def guardOf (file fn : String) : GExpr :=
  match findSite AITB.Gen.Guards.sites file fn with
  | some s => s.g
  | none => .cmp .ne 0   -- unreachable: the translator fails when the site is missing; rejects everything but 0

def discGuard : Rep → GExpr
  | .dense => guardOf "src/MDP/Model.cpp" "setDiscount"
  | .sparse => guardOf "src/MDP/SparseModel.cpp" "setDiscount"

def vfDiscount : Rep → Bool
  | .dense => AITB.Gen.Guards.vf_MDP_Model_setDiscount
  | .sparse => AITB.Gen.Guards.vf_MDP_SparseModel_setDiscount
def vfT3D : Rep → Bool
  | .dense => AITB.Gen.Guards.vf_MDP_Model_setT3D
  | .sparse => AITB.Gen.Guards.vf_MDP_SparseModel_setT3D
def vfTEigen : Rep → Bool
  | .dense => AITB.Gen.Guards.vf_MDP_Model_setTEigen
  | .sparse => AITB.Gen.Guards.vf_MDP_SparseModel_setTEigen
def vfO3D : Rep → Bool
  | .dense => AITB.Gen.Guards.vf_POMDP_Model_setO_3D
  | .sparse => AITB.Gen.Guards.vf_POMDP_SparseModel_setO_3D
def vfOEigen : Rep → Bool
  | .dense => AITB.Gen.Guards.vf_POMDP_Model_setO_Eigen
  | .sparse => AITB.Gen.Guards.vf_POMDP_SparseModel_setO_Eigen
def ctorChecks : Rep → Bool
  | .dense => AITB.Gen.Guards.ctor_MDP_Model_basic_checksDiscount
  | .sparse => AITB.Gen.Guards.ctor_MDP_SparseModel_basic_checksDiscount

/-- all order facts the "failed call leaves the object unchanged" theorem needs -/
def allValidateFirst : Bool :=
  vfDiscount .dense && vfDiscount .sparse && vfT3D .dense && vfT3D .sparse && vfTEigen .dense && vfTEigen .sparse &&
  vfO3D .dense && vfO3D .sparse && vfOEigen .dense && vfOEigen .sparse

/-! ## the operations -/

inductive Op where
  | setDiscount (d : XRat)
  | setT3D (t : Tab3)        -- t[s][a][s1]
  | setTEigen (t : Tab3)     -- t[a][s][s1]
  | setR3D (r : Tab3)        -- r[s][a][s1]
  | setREigen (r : Tab2)     -- r[s][a]
  | setO3D (o : Tab3)        -- of[s1][a][o]
  | setOEigen (o : Tab3)     -- of[a][s1][o]
  deriving Repr, Inhabited

/-- `isProbability(X, Y, n, t)` of the header: every `t[x][y][0..n)` passes the loop test -/
def check3D (X Y n : Nat) (t : Tab3) : Bool :=
  (List.range X).all fun x => (List.range Y).all fun y => isProbLoop (rowOf t x y n)

/-- `isProbability(Matrix3D)` / `isProbability(SparseMatrix3D)` -/
def checkEigen (k : Rep) (t : Tab3) : Bool :=
  t.all fun m => m.all fun row => match k with
    | .dense => isProbDense row
    | .sparse => isProbSparse row

def storeP (k : Rep) (p : XRat) : XRat :=
  match k with
  | .dense => p
  | .sparse => sparsify p

/-- `Σ_s1 r[s][a][s1] * T[a][s][s1]`, accumulated left to right from 0.0 -/
def expReward (S : Nat) (r : Tab3) (T : Tab3) (s a : Nat) : XRat :=
  (List.range S).foldl (fun acc s1 => xadd acc (xmul (get3 r s a s1) (get3 T a s s1))) (.fin 0)

/-- sparse `setRewardFunction`: the value is stored only when it differs from 0 by more than the tolerance -/
def storeR (k : Rep) (x : XRat) : XRat :=
  match k with
  | .dense => x
  | .sparse => if diffSmall x (.fin 0) then x else .fin 0

/-- do the sparse 3D-container setters validate the rows AS STORED (after dropping sub-threshold entries)? -/
def recheckT : Bool := AITB.Gen.Guards.recheck_MDP_SparseModel_setT3D
def recheckO : Bool := AITB.Gen.Guards.recheck_POMDP_SparseModel_setO3D

/-- everything `setTransitionFunction(3D container)` tests before it commits -/
def okT3D (k : Rep) (s : St) (t : Tab3) : Bool :=
  check3D s.S s.A s.S t &&
  (match k with
   | .dense => true
   | .sparse => !recheckT || checkEigen .sparse (mk3 s.A s.S s.S (fun a x x1 => sparsify (get3 t x a x1))))

def okO3D (k : Rep) (s : St) (o : Tab3) : Bool :=
  check3D s.S s.A s.O o &&
  (match k with
   | .dense => true
   | .sparse => !recheckO || checkEigen .sparse (mk3 s.A s.S s.O (fun a x z => sparsify (get3 o x a z))))

def prog (k : Kind) : Op → List Stmt
  | .setDiscount d =>
      setter (vfDiscount k.base) (fun _ => !((discGuard k.base).eval d)) (fun s => { s with disc := d })
  | .setT3D t =>
      setter (vfT3D k.base) (fun s => okT3D k.base s t)
        (fun s => { s with T := mk3 s.A s.S s.S (fun a x x1 => storeP k.base (get3 t x a x1)) })
  | .setTEigen t =>
      setter (vfTEigen k.base) (fun _ => checkEigen k.base t) (fun s => { s with T := t })
  | .setR3D r =>
      [.assign (fun s => { s with R := mk2 s.S s.A (fun x a => storeR k.base (expReward s.S r s.T x a)) })]
  | .setREigen r =>
      [.assign (fun s => { s with R := r })]
  | .setO3D o =>
      setter (vfO3D k.obs) (fun s => okO3D k.obs s o)
        (fun s => { s with Om := mk3 s.A s.S s.O (fun a x z => storeP k.obs (get3 o x a z)) })
  | .setOEigen o =>
      setter (vfOEigen k.obs) (fun _ => checkEigen k.obs o) (fun s => { s with Om := o })

/-- one call on an existing object: new getters, and whether std::invalid_argument was thrown -/
def step (k : Kind) (s : St) (op : Op) : St × Bool := exec (prog k op) s

/-- a whole history of calls (failing ones included) -/
def run (k : Kind) (s : St) : List Op → St
  | [] => s
  | op :: r => run k (step k s op).1 r

/-! ## constructors -/

def identRow (n i : Nat) : List XRat := (List.range n).map (fun j => if j = i then XRat.fin 1 else XRat.fin 0)
def firstRow (n : Nat) : List XRat := (List.range n).map (fun j => if j = 0 then XRat.fin 1 else XRat.fin 0)

/-- `Model(s, a, discount)` / `SparseModel(s, a, discount)`: identity transitions, zero rewards.
    The discount is validated only if the source does so (`ctorChecks`). -/
def ctorBasic (k : Rep) (S A : Nat) (d : XRat) : Option St :=
  if ctorChecks k && (discGuard k).eval d then none
  else some { S := S, A := A, O := 0, disc := d,
              T := (List.range A).map (fun _ => (List.range S).map (fun s => identRow S s)),
              R := mk2 S A (fun _ _ => .fin 0), Om := [] }

def blank (S A O : Nat) : St :=
  { S := S, A := A, O := O, disc := .fin 0, T := mk3 A S S (fun _ _ _ => .fin 0), R := mk2 S A (fun _ _ => .fin 0), Om := [] }

/-- `Model(s, a, t, r, d)`: setDiscount; setTransitionFunction; setRewardFunction. A throw means no object. -/
def ctor3D (k : Rep) (S A : Nat) (t r : Tab3) (d : XRat) : Option St :=
  let kk : Kind := ⟨k, k⟩
  let (s, threw) := exec (prog kk (.setDiscount d) ++ prog kk (.setT3D t) ++ prog kk (.setR3D r)) (blank S A 0)
  if threw then none else some s

/-- `Model(NO_CHECK, s, a, t, r, d)`: everything is taken as given -/
def ctorNoCheck (S A : Nat) (t : Tab3) (r : Tab2) (d : XRat) : St :=
  { S := S, A := A, O := 0, disc := d, T := t, R := r, Om := [] }

/-- a source model seen through the generic interface (getS/getA/getDiscount/getTransitionProbability/getExpectedReward) -/
structure Src where
  S : Nat
  A : Nat
  disc : XRat
  T : Tab3     -- [s][a][s1]
  R : Tab3     -- [s][a][s1]   (a generic model's reward may depend on s1)
  deriving Repr, Inhabited

def srcRow (m : Src) (s a : Nat) : List XRat := rowOf m.T s a m.S

/-- `MDP::Model(const M&)`: copy every entry, `R(s,a) += R(s,a,s1) * T`, then `isProbability(S, row)` -/
def copyDense (m : Src) : Option St :=
  if (discGuard .dense).eval m.disc then none
  else if (List.range m.A).all (fun a => (List.range m.S).all (fun s => isProbLoop (srcRow m s a))) then
    let T' := mk3 m.A m.S m.S (fun a s s1 => get3 m.T s a s1)      -- built once, shared by the reward loop
    some { S := m.S, A := m.A, O := 0, disc := m.disc,
           T := T',
           R := mk2 m.S m.A (fun s a => expReward m.S m.R T' s a),
           Om := [] }
  else none

/-- the per-entry test of the sparse copy constructors: `p < 0.0 || p > 1.0` (taken from the source) -/
def sparseEntryGuard : GExpr := guardOf "include/AIToolbox/MDP/SparseModel.hpp" "SparseModel"
def sparseObsEntryGuard : GExpr := guardOf "include/AIToolbox/POMDP/SparseModel.hpp" "SparseModel"

/-- reward accumulation of the sparse copy: `if (checkDifferentSmall(0.0, r)) R(s,a) += r * p` with the UNsparsified p -/
def expRewardSparseCopy (m : Src) (s a : Nat) : XRat :=
  (List.range m.S).foldl (fun acc s1 =>
     if diffSmall (.fin 0) (get3 m.R s a s1) then xadd acc (xmul (get3 m.R s a s1) (get3 m.T s a s1)) else acc) (.fin 0)

/-- `MDP::SparseModel(const M&)` -/
def copySparse (m : Src) : Option St :=
  if (discGuard .sparse).eval m.disc then none
  else if (List.range m.S).all (fun s => (List.range m.A).all (fun a =>
            (srcRow m s a).all (fun p => !(sparseEntryGuard.eval p)) &&
            !(diffSmall (.fin 1) (sumX ((srcRow m s a).map sparsify))))) then
    some { S := m.S, A := m.A, O := 0, disc := m.disc,
           T := mk3 m.A m.S m.S (fun a s s1 => sparsify (get3 m.T s a s1)),
           R := mk2 m.S m.A (fun s a => expRewardSparseCopy m s a),
           Om := [] }
  else none

def copyBase : Rep → Src → Option St
  | .dense => copyDense
  | .sparse => copySparse

/-- POMDP constructors on top of an already built MDP part.  `Model(o, params…)`: every state emits observation 0 -/
def pomdpBasic (base : St) (O : Nat) : St :=
  { base with O := O, Om := (List.range base.A).map (fun _ => (List.range base.S).map (fun _ => firstRow O)) }

/-- `Model(o, of, params…)` : base, then setObservationFunction(of) -/
def pomdp3D (k : Kind) (base : St) (O : Nat) (o : Tab3) : Option St :=
  let (s, threw) := exec (prog k (.setO3D o)) { base with O := O, Om := mk3 base.A base.S O (fun _ _ _ => .fin 0) }
  if threw then none else some s

/-- observation part of `POMDP::Model(const PM&)` / `POMDP::SparseModel(const PM&)`; `om` is [s1][a][o] seen through
    getObservationProbability -/
def copyObs (k : Rep) (base : St) (O : Nat) (om : Tab3) : Option St :=
  match k with
  | .dense =>
      if (List.range base.A).all (fun a => (List.range base.S).all (fun s1 => isProbLoop (rowOf om s1 a O))) then
        some { base with O := O, Om := mk3 base.A base.S O (fun a s1 o => get3 om s1 a o) }
      else none
  | .sparse =>
      if (List.range base.A).all (fun a => (List.range base.S).all (fun s1 =>
            (rowOf om s1 a O).all (fun p => !(sparseObsEntryGuard.eval p)) &&
            !(diffSmall (.fin 1) (sumX ((rowOf om s1 a O).map sparsify))))) then
        some { base with O := O, Om := mk3 base.A base.S O (fun a s1 o => sparsify (get3 om s1 a o)) }
      else none

/-! ## AMDP: accumulate contributions, then normalise rows (discretizeDense / discretizeSparse) -/

/-- one (belief, action, observation) contribution: bucket `s`, action `a`, successor bucket `s1`,
    probability mass `p` (> tolerance, else the code skips it) and the belief's expected reward `r` -/
structure Ev where
  s : Nat
  a : Nat
  s1 : Nat
  p : Rat
  r : Rat
  deriving Repr, Inhabited

/-- `if (checkDifferentSmall(0.0, p))` : contributions with negligible mass are skipped -/
def Ev.keep (e : Ev) : Bool := diffSmall (.fin 0) (.fin e.p)

def accT (evs : List Ev) (a s s1 : Nat) : Rat :=
  sumQ ((evs.filter (fun e => e.keep && (e.a == a && e.s == s && e.s1 == s1))).map (·.p))

/-- dense: `R(s,a) += p*r`; sparse: the same only when `checkDifferentSmall(0.0, r)` -/
def accR (sparse : Bool) (evs : List Ev) (s a : Nat) : Rat :=
  sumQ ((evs.filter (fun e => e.keep && (e.a == a && e.s == s && (!sparse || diffSmall (.fin 0) (.fin e.r))))).map (fun e => e.p * e.r))

def rowSumT (evs : List Ev) (n a s : Nat) : Rat := sumQ ((List.range n).map (fun s1 => accT evs a s s1))

/-- normalised transition entry: `if (checkEqualSmall(sum,0)) T(s,s) = 1 else row /= sum` -/
def amdpT (evs : List Ev) (n a s s1 : Nat) : Rat :=
  let sum := rowSumT evs n a s
  if eqSmall (.fin sum) (.fin 0) then (if s1 = s then 1 else accT evs a s s1) else accT evs a s s1 / sum

/-- dense reward: `R(s,a) /= rowsum` — unconditionally unless the source guards the division -/
def amdpRDense (guarded : Bool) (evs : List Ev) (n s a : Nat) : XRat :=
  let sum := rowSumT evs n a s
  if guarded && eqSmall (.fin sum) (.fin 0) then .fin (accR false evs s a) else qdivX (accR false evs s a) sum

/-- sparse reward: divided only when the accumulated value differs from 0 -/
def amdpRSparse (evs : List Ev) (n s a : Nat) : XRat :=
  let sum := rowSumT evs n a s
  if diffSmall (.fin 0) (.fin (accR true evs s a)) then qdivX (accR true evs s a) sum else .fin (accR true evs s a)

/-- bucket index of makeDiscretizer: `maxS + S * min(k, buckets-1)` where `k = (size_t)(entropy/stepSize)` -/
def discretize (S buckets maxS k : Nat) : Nat := maxS + S * (min k (buckets - 1))

end AITB.MS

/-! ## DDNGraph::push (src/Factored/Utils/BayesianNetwork.cpp) and checkTag (src/Factored/Utils/Core.cpp) -/
namespace AITB.MS

inductive TagErr where
  | none | noElements | tooManyElements | idTooHigh | notSorted | duplicates
  deriving Repr, DecidableEq, Inhabited

/-- the loop of checkTag over tag[1..] with the previous value -/
def checkTagLoop (n : Nat) : Nat → List Nat → TagErr
  | _, [] => .none
  | prev, v :: r =>
      if v ≥ n then .idTooHigh
      else if v < prev then .notSorted
      else if v = prev then .duplicates
      else checkTagLoop n v r

def checkTag (space : List Nat) (tag : List Nat) : TagErr :=
  match tag with
  | [] => .noElements
  | v0 :: r =>
      if tag.length > space.length then .tooManyElements
      else if v0 ≥ space.length then .idTooHigh
      else checkTagLoop space.length v0 r

/-- factorSpacePartial(tag, space) = Π space[tag[i]] -/
def spacePartial (space : List Nat) (tag : List Nat) : Nat :=
  tag.foldl (fun acc k => acc * space.getD k 1) 1

structure PSet where
  agents : List Nat
  features : List (List Nat)
  deriving Repr, BEq, Inhabited

structure Graph where
  S : List Nat
  A : List Nat
  parents : List PSet
  sizes : List Nat        -- startIds_[i].back() = getSize(i)
  deriving Repr, BEq, Inhabited

inductive PushErr where
  | none | runtime | invalid
  deriving Repr, DecidableEq, Inhabited

/-- all validation of `push`, in source order -/
def pushCheck (g : Graph) (p : PSet) : PushErr :=
  if g.parents.length = g.S.length then .runtime
  else if checkTag g.A p.agents ≠ .none then .invalid
  else if p.features.length ≠ spacePartial g.A p.agents then .invalid
  else if p.features.any (fun f => checkTag g.S f ≠ .none) then .invalid
  else .none

def pushCommit (g : Graph) (p : PSet) : Graph :=
  { g with parents := g.parents ++ [p],
           sizes := g.sizes ++ [p.features.foldl (fun acc f => acc + spacePartial g.S f) 0] }

/-- `validateFirst` = every throw precedes the emplace_back (AITB.Gen.Guards.vf_DDNGraph_push) -/
def push (validateFirst : Bool) (g : Graph) (p : PSet) : Graph × PushErr :=
  if validateFirst then
    (match pushCheck g p with
     | .none => (pushCommit g p, .none)
     | e => (g, e))
  else
    (pushCommit g p, pushCheck g p)

end AITB.MS

/-! ## decidable checkers evaluated by the driver on the implementation's exact output (soundness: Props/C06) -/
namespace AITB.MS

/-- "is a discount": finite and in (0,1] -/
def inUnitB (d : XRat) : Bool := match d with
  | .fin q => decide (0 < q) && decide (q ≤ 1)
  | _ => false

/-- property clause for one row: finite entries in [-tol, 1+tol], sum within `slack` of one -/
def rowDistB (slack : Rat) (row : List XRat) : Bool :=
  row.all (fun v => match v with | .fin q => decide (-tol ≤ q) && decide (q ≤ 1 + tol) | _ => false) &&
  (match sumX row with
   | .fin s => decide (absQ (s - 1) ≤ slack)
   | _ => false)

end AITB.MS

/-! ## Factored::MDP::CooperativeModel constructor (src/Factored/MDP/CooperativeModel.cpp): everything it validates -/
namespace AITB.MS

/-- a transition matrix with its dimensions (a zero-row matrix still has a column count) -/
structure Mat where
  rows : Nat
  cols : Nat
  ent : Tab2
  deriving Repr, Inhabited

/-- a reward basis: state tag, action tag, shape of its value matrix -/
structure Basis where
  tag : List Nat
  actionTag : List Nat
  rows : Nat
  cols : Nat
  deriving Repr, Inhabited

/-- does the constructor accept?  (every failing test throws std::invalid_argument; the order only matters for
    which message is shown) -/
def coopDiscountRejected (d : XRat) : Bool :=
  -- the constructor's own numeric guard, if the source has one (none on the tree as first read)
  match AITB.Guard.findSite AITB.Gen.Guards.sites "src/Factored/MDP/CooperativeModel.cpp" "CooperativeModel" with
  | some s => s.g.eval d
  | none => false

def coopAccepts (discountRejected : Bool) (g : Graph) (mats : List Mat) (bases : List Basis) : Bool :=
  !discountRejected &&
  g.S.length != 0 && g.A.length != 0 &&
  g.parents.length == g.S.length &&
  mats.length == g.S.length &&
  (List.range g.S.length).all (fun i =>
      let m := mats.getD i default
      m.rows == g.sizes.getD i 0 && m.cols == g.S.getD i 0 &&
      (List.range m.rows).all (fun j => isProbLoop ((List.range m.cols).map (fun x => get2 m.ent j x)))) &&
  bases.all (fun b =>
      checkTag g.A b.actionTag == .none && checkTag g.S b.tag == .none &&
      b.cols == spacePartial g.A b.actionTag && b.rows == spacePartial g.S b.tag)

end AITB.MS

namespace AITB.MS
/-- the `maxS` loop of makeDiscretizer: first strict maximum among the entries that differ from 0 -/
def argmaxBelief (b : List Rat) : Nat :=
  (List.range b.length).foldl (fun m s =>
    if diffSmall (.fin 0) (.fin (b.getD s 0)) && decide (b.getD s 0 > b.getD m 0) then s else m) 0
end AITB.MS

namespace AITB.MS
/-- a library model object seen through the generic interface (what a converting constructor reads from it):
    getTransitionProbability(s,a,s1) = T[a](s,s1), getExpectedReward(s,a,s1) = R(s,a) -/
def srcOf (s : St) : Src :=
  { S := s.S, A := s.A, disc := s.disc,
    T := mk3 s.S s.A s.S (fun x a x1 => get3 s.T a x x1),
    R := mk3 s.S s.A s.S (fun x a _ => get2 s.R x a) }
end AITB.MS

/-! ## learned / factored models derived by the library: the discount cell (rows are C07's model, AITB.Model.Experience) -/
namespace AITB.MS
open AITB.Guard

/-- the guard of a learned-model class's own `setDiscount` (read from the generated table) -/
def learnedGuard (file : String) : GExpr := guardOf file "setDiscount"

/-- constructor: `setDiscount(discount)` first (when the source does so); a throw means no object -/
def lmCtor (ctorChecks : Bool) (g : GExpr) (d : XRat) : Option XRat :=
  if ctorChecks && g.eval d then none else some d

/-- `setDiscount(d)` on an object whose discount is `cur`: (new discount, threw) -/
def lmSetDiscount (validateFirst : Bool) (g : GExpr) (cur d : XRat) : XRat × Bool :=
  if validateFirst then (if g.eval d then (cur, true) else (d, false)) else (d, g.eval d)

/-- a history of setDiscount calls -/
def lmRun (validateFirst : Bool) (g : GExpr) (cur : XRat) : List XRat → XRat
  | [] => cur
  | d :: r => lmRun validateFirst g (lmSetDiscount validateFirst g cur d).1 r

end AITB.MS
