/-
  AITB.Model.Dyna2 — executable model of include/AIToolbox/MDP/Algorithms/Dyna2.hpp (C11).  Core Lean only.

  Dyna2 owns two SARSAL learners (`permanentLearning_`, `transientLearning_`), built with the same discount, step
  size and cut-off; their lambdas can be set separately (`setPermanentLambda` / `setTransientLambda`).
    stepUpdateQ(s,a,s1,a1,r) : transient.setTraces(permanent.getTraces()); permanent.stepUpdateQ(…); transient.stepUpdateQ(…)
    batchUpdateQ(initS)      : transient.clearTraces(); N simulated SARSA(λ) steps on the transient learner only
                               (internal policy + model samples; restart from initS at terminal states)
    resetTransientLearning() : transient.setQFunction(permanent.getQFunction())
  The simulated transitions of a batch are oracle input (a list), so the theorems hold for every internal policy,
  every generative model and every terminal-state pattern.
-/
import AITB.Model.Learners
namespace AITB.Learn

structure D2 where
  trP : List Tr
  qP : QF
  trT : List Tr
  qT : QF

def D2.init : D2 := ⟨[], fun _ _ => 0, [], fun _ _ => 0⟩

/-- one simulated or real SARSA(λ) sample `(s, a, s1, a1, r)` -/
structure Smp where
  s : Nat
  a : Nat
  s1 : Nat
  a1 : Nat
  r : Rat

/-- Dyna2::stepUpdateQ -/
def d2Step (γ α lamP lamT tol : Rat) (d : D2) (e : Smp) : D2 :=
  let p := sarsalStep γ α lamP tol d.trP d.qP e.s e.a e.s1 e.a1 e.r
  let t := sarsalStep γ α lamT tol d.trP d.qT e.s e.a e.s1 e.a1 e.r   -- the transient learner starts from the permanent traces
  ⟨p.1, p.2, t.1, t.2⟩

/-- the transient learner's run over the simulated samples of one batch -/
def d2Sim (γ α lamT tol : Rat) : List Smp → List Tr × QF → List Tr × QF
  | [], st => st
  | e :: es, st => d2Sim γ α lamT tol es (sarsalStep γ α lamT tol st.1 st.2 e.s e.a e.s1 e.a1 e.r)

/-- Dyna2::batchUpdateQ -/
def d2Batch (γ α lamT tol : Rat) (d : D2) (sims : List Smp) : D2 :=
  let t := d2Sim γ α lamT tol sims ([], d.qT)
  { d with trT := t.1, qT := t.2 }

/-- The simulated samples of `Dyna2::batchUpdateQ(initS)` with `N = n` on a deterministic generative model (`next`, `rew`) and a
    deterministic internal policy `pol`; `term` is `model_.isTerminal`.  Control flow of the loop as written:
    `(s1,rew) = sampleSR(s,a); a1 = sampleAction(s1); step; if isTerminal(s1) { s = initS; a = sampleAction(s); } else { s = s1; a = a1; }` -/
def d2Chain (next : Nat → Nat → Nat) (rew : QF) (pol : Nat → Nat) (term : Nat → Bool) (s0 : Nat) : Nat → Nat → Nat → List Smp
  | 0, _, _ => []
  | n+1, s, a =>
    let s1 := next s a
    let a1 := pol s1
    ⟨s, a, s1, a1, rew s a⟩ ::
      (if term s1 then d2Chain next rew pol term s0 n s0 (pol s0) else d2Chain next rew pol term s0 n s1 a1)

/-- `Dyna2::batchUpdateQ(s0)` on such a model -/
def d2BatchDet (γ α lamT tol : Rat) (next : Nat → Nat → Nat) (rew : QF) (pol : Nat → Nat) (term : Nat → Bool) (N : Nat)
    (d : D2) (s0 : Nat) : D2 :=
  d2Batch γ α lamT tol d (d2Chain next rew pol term s0 N s0 (pol s0))

/-- Dyna2::resetTransientLearning -/
def d2Reset (d : D2) : D2 := { d with qT := d.qP }

inductive D2Op where
  | step (e : Smp)
  | batch (sims : List Smp)
  | reset

def d2Apply (γ α lamP lamT tol : Rat) (d : D2) : D2Op → D2
  | .step e => d2Step γ α lamP lamT tol d e
  | .batch sims => d2Batch γ α lamT tol d sims
  | .reset => d2Reset d

def d2Run (γ α lamP lamT tol : Rat) : List D2Op → D2 → D2
  | [], d => d
  | o :: os, d => d2Run γ α lamP lamT tol os (d2Apply γ α lamP lamT tol d o)

end AITB.Learn
