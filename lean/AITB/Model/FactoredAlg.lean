/-
  AITB.Model.FactoredAlg — model of the factored algebra:
    src/Factored/Utils/FactoredMatrix.cpp      (getValue, getValue with weights, operator*=)
    src/Factored/Utils/FactoredVectorOps.cpp   (dot/plus/minus, *Subset, plusEqual/minusEqual)
    src/Factored/Utils/FactoredMatrix2DOps.cpp (plusEqualSubset, plusEqual)
    src/Factored/Utils/BayesianNetwork.cpp     (DDNGraph::push/getId/getIds, DDN::getTransitionProbability, backProject)
    src/Factored/MDP/Algorithms/JointActionLearner.cpp + src/MDP/Algorithms/QLearning.cpp (stepUpdateQ)
    src/Factored/MDP/Algorithms/CooperativeQLearning.cpp (the entry update of a single basis only)
  Core Lean only.  `double` is read as exact `Rat`.  Vectors are `List Rat` read with `getD · 0`
  (an out-of-range read is UB in C++ and excluded by the well-formedness hypotheses of the theorems).
-/
import AITB.Model.Factored
import AITB.Model.Num
import AITB.Gen.Constants
namespace AITB.Factored

/-- `merge(const PartialKeys & lhs, const PartialKeys & rhs)` (sorted union of keys) -/
def mergeKeys : List Nat → List Nat → List Nat
  | [], r => r
  | l, [] => l
  | a :: l, b :: r =>
      if a = b then a :: mergeKeys l r
      else if a < b then a :: mergeKeys l (b :: r)
      else b :: mergeKeys (a :: l) r
termination_by l r => l.length + r.length

/-- the scan of `sequential_sorted_contains(v, elems)` for `|elems| < |v|` -/
def containsScan : List Nat → List Nat → Bool
  | _, [] => true
  | [], _ :: _ => false
  | a :: v, e :: es =>
      if a < e then containsScan v (e :: es)
      else if e < a then false
      else containsScan v es
termination_by v es => v.length + es.length

/-- `sequential_sorted_contains(v, elems)` (callers guarantee `|elems| ≤ |v|`) -/
def sortedContains (v elems : List Nat) : Bool :=
  if v.length = elems.length then v == elems else containsScan v elems

/-- `toIndexPartial(ids, space, const PartialFactors & pf)`: for every id scan `pf.first` forward
    (never backwards, no bound check) until the key is found.  `r`,`m` = result, multiplier. -/
def toIndexPartialKPF : List Nat → List Nat → List Nat → List Nat → Nat → Nat → Nat
  | [], _, _, _, r, _ => r
  | id :: ids, sp, k :: ks, v :: vs, r, m =>
      if k = id then toIndexPartialKPF ids sp (k :: ks) (v :: vs) (r + m * v) (m * sp.getD id 0)
      else toIndexPartialKPF (id :: ids) sp ks vs r m
  | _ :: _, _, _, _, r, _ => r      -- key absent: the C++ loop runs off the end (UB), excluded by precondition
termination_by ids _ ks => ids.length + ks.length

/-! ### BasisFunction / FactoredVector -/

structure BF where
  tag : List Nat
  vals : List Rat
  deriving Repr, BEq

/-- one term of `FactoredVector::getValue`: `e.values[toIndexPartial(e.tag, space, value)]` -/
def BF.get (sp : List Nat) (b : BF) (x : List Nat) : Rat := b.vals.getD (toIndexPartial b.tag sp x) 0

/-- the sequence of `*e` visited by `PartialFactorsEnumerator e(space, tag)` until `!isValid()` -/
def enumTag (sp tag : List Nat) : List (List Nat) :=
  enumAll tag.length (sel tag sp) (spacePartial tag sp + 1)

/-- the argument of `retval.values.resize(toIndexPartial(retval.tag, space, space))` in dot/plus/minus.
    For tags of ≥ 2 keys this exceeds `factorSpacePartial(tag)`: the loop fills the first Π entries only. -/
def allocSize (sp tag : List Nat) : Nat := toIndexPartial tag sp sp

/-- `dot` / `plus` / `minus` (BasisFunction, BasisFunction): the filled prefix of `retval.values` -/
def binop (op : Rat → Rat → Rat) (sp : List Nat) (l r : BF) : BF :=
  let tag := mergeKeys l.tag r.tag
  { tag := tag,
    vals := (enumTag sp tag).map (fun e =>
      op (l.vals.getD (toIndexPartialKPF l.tag sp tag e 0 1) 0) (r.vals.getD (toIndexPartialKPF r.tag sp tag e 0 1) 0)) }

def bfDot := binop (· * ·)
def bfPlus := binop (· + ·)
def bfMinus := binop (· - ·)

/-- the loop `for (i = 0; e.isValid(); e.advance(), ++i) retval.values[i] ±= rhs.values[rhsId]`;
    entries of `retval.values` beyond the enumeration are left as they are -/
def addEnum (f : List Nat → Rat) : List Rat → List (List Nat) → List Rat
  | v :: vs, e :: es => (v + f e) :: addEnum f vs es
  | vs, [] => vs
  | [], _ :: _ => []     -- C++ would write out of bounds; excluded by precondition

/-- Eigen `a += s*b` on equally sized vectors (a size mismatch is an Eigen assertion) -/
def addVec (s : Rat) : List Rat → List Rat → List Rat
  | a :: as, b :: bs => (a + s * b) :: addVec s as bs
  | as, _ => as

/-- `plusEqualSubset` (s = 1) / `minusEqualSubset` (s = -1) -/
def subsetOp (s : Rat) (sp : List Nat) (ret rhs : BF) : BF :=
  if ret.tag.length = rhs.tag.length then { ret with vals := addVec s ret.vals rhs.vals }
  else { ret with vals := addEnum (fun e => s * rhs.vals.getD (toIndexPartialKPF rhs.tag sp ret.tag e 0 1) 0) ret.vals (enumTag sp ret.tag) }

abbrev FV := List BF

/-- `FactoredVector::getValue(space, value)` -/
def fvGet (sp : List Nat) (fv : FV) (x : List Nat) : Rat := fv.foldl (fun acc b => acc + b.get sp x) 0

/-- `FactoredVector::getValue(space, value, weights)` (|w| = |bases| or |bases|+1) -/
def fvGetW (sp : List Nat) (fv : FV) (x : List Nat) (w : List Rat) : Rat :=
  let init := if w.length = fv.length + 1 then w.getD (w.length - 1) 0 else 0
  (fv.zip w).foldl (fun acc bw => acc + bw.1.get sp x * bw.2) init

/-- The merge-or-append loop shared by `plusEqual(FactoredVector&, const BasisFunction&)` and
    `minusEqual(…)`.  `sMerge` is the sign with which the incoming basis enters a merge,
    `sPush` the sign with which it is appended when nothing merges (the current `minusEqual`
    has both = +1; see `AITB.Gen.C14Flags`).  `clearZero` is modelled by the caller. -/
def mergeLoop (sMerge : Rat) (sp : List Nat) (basis : BF) : FV → Option FV
  | [] => none
  | cur :: rest =>
      let retBigger := decide (basis.tag.length ≤ cur.tag.length)
      let minB := if retBigger then basis else cur
      let maxB := if retBigger then cur else basis
      if sortedContains maxB.tag minB.tag then
        if retBigger then some (subsetOp sMerge sp cur basis :: rest)
        else
          -- `curBasis = plusSubset(space, basis, curBasis)`: with sign s the incoming basis is s*basis
          some (subsetOp 1 sp { basis with vals := basis.vals.map (sMerge * ·) } cur :: rest)
      else (mergeLoop sMerge sp basis rest).map (cur :: ·)

/-- `checkEqualGeneral(v, 0.0)` of Utils/Core.hpp: `|v - 0| <= equalToleranceSmall`, or
    `|v - 0| <= min(|v|, |0|) * equalToleranceGeneral` -/
def ceqGeneral0 (v : Rat) : Bool :=
  decide (absQ (v - 0) ≤ AITB.Gen.equalToleranceSmall) ||
  decide (absQ (v - 0) ≤ (if absQ 0 < absQ v then absQ 0 else absQ v) * AITB.Gen.equalToleranceGeneral)

/-- `checkEqualGeneral(curBasis.values, 0.0)` -/
def isZeroVec (vals : List Rat) : Bool := vals.all ceqGeneral0

/-- `if (clearZero && checkEqualGeneral(curBasis.values, 0.0)) retval.bases.erase(begin + i)` -/
def dropIfZero (cz : Bool) (b : BF) (rest : FV) : FV := if cz && isZeroVec b.vals then rest else b :: rest

/-- the loop of `minusEqual(space, retval, basis, clearZero)`: `mergeLoop` plus the removal of a merged basis
    that has become (numerically) zero -/
def mergeLoopCZ (cz : Bool) (sMerge : Rat) (sp : List Nat) (basis : BF) : FV → Option FV
  | [] => none
  | cur :: rest =>
      let retBigger := decide (basis.tag.length ≤ cur.tag.length)
      let minB := if retBigger then basis else cur
      let maxB := if retBigger then cur else basis
      if sortedContains maxB.tag minB.tag then
        if retBigger then some (dropIfZero cz (subsetOp sMerge sp cur basis) rest)
        else some (dropIfZero cz (subsetOp 1 sp { basis with vals := basis.vals.map (sMerge * ·) } cur) rest)
      else (mergeLoopCZ cz sMerge sp basis rest).map (cur :: ·)

def fvAddBasisCZ (cz : Bool) (sMerge sPush : Rat) (sp : List Nat) (fv : FV) (basis : BF) : FV :=
  match mergeLoopCZ cz sMerge sp basis fv with
  | some fv' => fv'
  | none => fv ++ [{ basis with vals := basis.vals.map (sPush * ·) }]

/-- `minusEqual(space, FactoredVector &, const BasisFunction &, clearZero)` -/
def fvMinusEqualCZ (sub cz : Bool) (sp : List Nat) (fv : FV) (b : BF) : FV :=
  if sub then fvAddBasisCZ cz (-1) (-1) sp fv b else fvAddBasisCZ cz 1 1 sp fv b

def fvMinusEqualFVCZ (sub cz : Bool) (sp : List Nat) (fv rhs : FV) : FV := rhs.foldl (fvMinusEqualCZ sub cz sp) fv

def fvAddBasis (sMerge sPush : Rat) (sp : List Nat) (fv : FV) (basis : BF) : FV :=
  match mergeLoop sMerge sp basis fv with
  | some fv' => fv'
  | none => fv ++ [{ basis with vals := basis.vals.map (sPush * ·) }]

/-- `plusEqual(space, FactoredVector &, const BasisFunction &)` -/
def fvPlusEqual (sp : List Nat) (fv : FV) (b : BF) : FV := fvAddBasis 1 1 sp fv b

/-- `minusEqual(space, FactoredVector &, const BasisFunction &, clearZero=false)`; `sub` says whether the
    source subtracts (`minusEqualSubset` / negated push) or — as the current code does — adds. -/
def fvMinusEqual (sub : Bool) (sp : List Nat) (fv : FV) (b : BF) : FV :=
  if sub then fvAddBasis (-1) (-1) sp fv b else fvAddBasis 1 1 sp fv b

def fvPlusEqualFV (sp : List Nat) (fv rhs : FV) : FV := rhs.foldl (fvPlusEqual sp) fv
def fvMinusEqualFV (sub : Bool) (sp : List Nat) (fv rhs : FV) : FV := rhs.foldl (fvMinusEqual sub sp) fv

/-- `FactoredVector::operator*=(double)` -/
def fvScale (c : Rat) (fv : FV) : FV := fv.map (fun b => { b with vals := b.vals.map (· * c) })

/-- `FactoredVector::operator*=(const Vector & w)` (|w| = |bases| or |bases|+1) -/
def fvScaleW (w : List Rat) (fv : FV) : FV :=
  let add := decide (w.length = fv.length + 1)
  let toAdd := w.getD (w.length - 1) 0 / (fv.length : Rat)
  (fv.zip w).map (fun bw => { bw.1 with vals := bw.1.vals.map (fun v => if add then v * bw.2 + toAdd else v * bw.2) })

/-! ### BasisMatrix / FactoredMatrix2D -/

structure BM where
  tag : List Nat
  atag : List Nat
  vals : List (List Rat)      -- rows: state index, columns: action index
  deriving Repr, BEq

def BM.get (sp ac : List Nat) (b : BM) (x a : List Nat) : Rat :=
  (b.vals.getD (toIndexPartial b.tag sp x) []).getD (toIndexPartial b.atag ac a) 0

abbrev FM := List BM

def fmGet (sp ac : List Nat) (fm : FM) (x a : List Nat) : Rat := fm.foldl (fun acc b => acc + b.get sp ac x a) 0

def fmGetW (sp ac : List Nat) (fm : FM) (x a : List Nat) (w : List Rat) : Rat :=
  let init := if w.length = fm.length + 1 then w.getD (w.length - 1) 0 else 0
  (fm.zip w).foldl (fun acc bw => acc + bw.1.get sp ac x a * bw.2) init

def addMat : List (List Rat) → List (List Rat) → List (List Rat)
  | a :: as, b :: bs => addVec 1 a b :: addMat as bs
  | as, _ => as

/-- the outer loop `for (x = 0; se.isValid(); se.advance(), ++x)`: row `x` of `retval.values` is updated with the
    x-th enumerated state tuple; rows beyond the enumeration are left as they are -/
def mapRows (rowOp : List Rat → List Nat → List Rat) : List (List Rat) → List (List Nat) → List (List Rat)
  | r :: rs, e :: es => rowOp r e :: mapRows rowOp rs es
  | rs, [] => rs
  | [], _ :: _ => []

/-- the inner loop over the action enumerator for one state tuple `se` -/
def bmRowOp (sp ac : List Nat) (ret rhs : BM) (row : List Rat) (se : List Nat) : List Rat :=
  let rX := toIndexPartialKPF rhs.tag sp ret.tag se 0 1
  addEnum (fun ae => (rhs.vals.getD rX []).getD (toIndexPartialKPF rhs.atag ac ret.atag ae 0 1) 0) row (enumTag ac ret.atag)

/-- `plusEqualSubset(space, actions, BasisMatrix & retval, const BasisMatrix & rhs)` -/
def bmSubsetPlus (sp ac : List Nat) (ret rhs : BM) : BM :=
  if ret.tag.length = rhs.tag.length ∧ ret.atag.length = rhs.atag.length then { ret with vals := addMat ret.vals rhs.vals }
  else { ret with vals := mapRows (bmRowOp sp ac ret rhs) ret.vals (enumTag sp ret.tag) }

/-- `plusEqual(space, actions, FactoredMatrix2D &, const BasisMatrix &)` -/
def fmMergeLoop (sp ac : List Nat) (basis : BM) : FM → Option FM
  | [] => none
  | cur :: rest =>
      let retBigger := decide (basis.tag.length ≤ cur.tag.length)
      let minB := if retBigger then basis else cur
      let maxB := if retBigger then cur else basis
      if decide (minB.atag.length ≤ maxB.atag.length) && sortedContains maxB.atag minB.atag && sortedContains maxB.tag minB.tag then
        if retBigger then some (bmSubsetPlus sp ac cur basis :: rest)
        else some (bmSubsetPlus sp ac basis cur :: rest)
      else (fmMergeLoop sp ac basis rest).map (cur :: ·)

def fmPlusEqual (sp ac : List Nat) (fm : FM) (b : BM) : FM :=
  match fmMergeLoop sp ac b fm with
  | some fm' => fm'
  | none => fm ++ [b]

def fmPlusEqualFM (sp ac : List Nat) (fm rhs : FM) : FM := rhs.foldl (fmPlusEqual sp ac) fm

def fmScale (c : Rat) (fm : FM) : FM := fm.map (fun b => { b with vals := b.vals.map (·.map (· * c)) })

def fmScaleW (w : List Rat) (fm : FM) : FM :=
  let add := decide (w.length = fm.length + 1)
  let toAdd := w.getD (w.length - 1) 0 / (fm.length : Rat)
  (fm.zip w).map (fun bw => { bw.1 with vals := bw.1.vals.map (·.map (fun v => if add then v * bw.2 + toAdd else v * bw.2)) })

/-! ### DDNGraph / DDN / backProject -/

structure ParentSet where
  agents : List Nat
  features : List (List Nat)     -- one parent tag per joint value of `agents`
  deriving Repr

structure DDNGraph where
  S : List Nat
  A : List Nat
  parents : List ParentSet
  deriving Repr

/-- `startIds_[feature]` as computed by `DDNGraph::push` (prefix sums of factorSpacePartial, plus the total) -/
def startIdsOf (S : List Nat) (features : List (List Nat)) : List Nat :=
  let rec go (acc : Nat) : List (List Nat) → List Nat
    | [] => [acc]
    | f :: fs => acc :: go (acc + spacePartial f S) fs
  go 0 features

def DDNGraph.ps (g : DDNGraph) (i : Nat) : ParentSet := g.parents.getD i { agents := [], features := [] }
def DDNGraph.startIds (g : DDNGraph) (i : Nat) : List Nat := startIdsOf g.S (g.ps i).features

/-- `DDNGraph::getId(feature, const State & s, const Action & a)` = startIds_[feature][actionId] + parentId -/
def DDNGraph.getId (g : DDNGraph) (i : Nat) (s a : List Nat) : Nat :=
  let actionId := toIndexPartial (g.ps i).agents g.A a
  let parentId := toIndexPartial ((g.ps i).features.getD actionId []) g.S s
  (g.startIds i).getD actionId 0 + parentId

/-- `DDNGraph::getId(feature, const PartialState & s, const PartialAction & a)` -/
def DDNGraph.getIdP (g : DDNGraph) (i : Nat) (sk sv ak av : List Nat) : Nat :=
  let actionId := toIndexPartialKPF (g.ps i).agents g.A ak av 0 1
  let parentId := toIndexPartialKPF ((g.ps i).features.getD actionId []) g.S sk sv 0 1
  (g.startIds i).getD actionId 0 + parentId

/-- the loop `while (startIds_[feature][actionId] > j) --actionId;` started at `actionId = top` -/
def scanDown (st : List Nat) (j : Nat) : Nat → Nat
  | 0 => 0
  | a+1 => if j < st.getD (a+1) 0 then scanDown st j a else a+1

/-- `DDNGraph::getIds(feature, j)`: the (parentId, actionId) pair of row `j` -/
def DDNGraph.getIdsInv (g : DDNGraph) (i j : Nat) : Nat × Nat :=
  let st := g.startIds i
  let aid := scanDown st j (st.length - 2)
  (j - st.getD aid 0, aid)

/-- `DDNGraph::getPartialSize(feature, actionId)` -/
def DDNGraph.getPartialSize (g : DDNGraph) (i aid : Nat) : Nat := (g.startIds i).getD (aid + 1) 0 - (g.startIds i).getD aid 0

def DDNGraph.getSize (g : DDNGraph) (i : Nat) : Nat := (g.startIds i).getLastD 0

abbrev Mat := List (List Rat)
def Mat.at (m : Mat) (r c : Nat) : Rat := (m.getD r []).getD c 0

/-- `DDN::getTransitionProbability(const State&, const Action&, const State&)`: running product over all features -/
def ddnProb (g : DDNGraph) (T : List Mat) (s a s1 : List Nat) : Rat :=
  (List.range g.S.length).foldl (fun acc i => acc * (T.getD i []).at (g.getId i s a) (s1.getD i 0)) 1

/-- `DDN::getTransitionProbability(const PartialState&, const PartialAction&, const PartialState & s1)` -/
def ddnProbP (g : DDNGraph) (T : List Mat) (sk sv ak av : List Nat) : List Nat → List Nat → Rat → Rat
  | node :: ns, v :: vs, acc => ddnProbP g T sk sv ak av ns vs (acc * (T.getD node []).at (g.getIdP node sk sv ak av) v)
  | _, _, acc => acc

/-- tags of `backProject(ddn, rhs)`: union of the agents / of all parent tags of the features in `rhs.tag` -/
def bpTags (g : DDNGraph) : List Nat → List Nat × List Nat → List Nat × List Nat
  | [], acc => acc
  | d :: ds, (tag, atag) =>
      bpTags g ds ((g.ps d).features.foldl mergeKeys tag, mergeKeys atag (g.ps d).agents)

/-- `backProject(const DDN &, const BasisFunction & rhs)` -/
def backProject (g : DDNGraph) (T : List Mat) (rhs : BF) : BM :=
  let (tag, atag) := bpTags g rhs.tag ([], [])
  let rDom := enumTag g.S rhs.tag
  { tag := tag, atag := atag,
    vals := (enumTag g.S tag).map (fun sv => (enumTag g.A atag).map (fun av =>
      (rDom.zip rhs.vals).foldl (fun acc rv => acc + rv.2 * ddnProbP g T tag sv atag av rhs.tag rv.1 1) 0)) }

def backProjectFV (g : DDNGraph) (T : List Mat) (fv : FV) : FM := fv.map (backProject g T)

/-! ### learner updates (for the single-basis = flat equivalence)

`CooperativeQLearning::stepUpdateQ` restricted to ONE basis whose actionTag names all `k` agents:
`perAgentRews = rew / agentNormRews_`; `+= discount * Q(s1,a1) / k`; `+= -Q(s,a) / k`; `*= alpha`;
`Q(s,a) += Σ_{a ∈ actionTag} perAgentRews[a]`. -/
def coopPerAgent (alpha gamma q q1 : Rat) (k : Nat) (rew norm : List Rat) : List Rat :=
  (rew.zip norm).map (fun rn => alpha * (rn.1 / rn.2 + gamma * q1 / (k : Rat) + (-q) / (k : Rat)))

def coopUpdateSingle (alpha gamma q q1 : Rat) (rew norm : List Rat) : Rat :=
  q + (coopPerAgent alpha gamma q q1 rew.length rew norm).foldl (· + ·) 0

/-- `MDP::QLearning::stepUpdateQ`: `q(s,a) += alpha * (rew + discount * max_a' q(s1,a') - q(s,a))` -/
def qlUpdate (alpha gamma q qmax r : Rat) : Rat := q + alpha * (r + gamma * qmax - q)

/-! ### flat `MDP::QLearning` and `JointActionLearner` (src/Factored/MDP/Algorithms/JointActionLearner.cpp) -/

abbrev QTab := List (List Rat)      -- S rows × A columns

def QTab.get (q : QTab) (s a : Nat) : Rat := (q.getD s []).getD a 0
def QTab.put (q : QTab) (s a : Nat) (v : Rat) : QTab := q.set s ((q.getD s []).set a v)

/-- Eigen `row.maxCoeff()` -/
def rowMax : List Rat → Rat
  | [] => 0
  | x :: xs => xs.foldl (fun m v => if m < v then v else m) x

/-- one experience tuple (s, a, s1, reward) of flat QLearning -/
def qlStep (alpha gamma : Rat) (q : QTab) (e : Nat × Nat × Nat × Rat) : QTab :=
  q.put e.1 e.2.1 (qlUpdate alpha gamma (q.get e.1 e.2.1) (rowMax (q.getD e.2.2.1 [])) e.2.2.2)

def qlRun (alpha gamma : Rat) (q : QTab) (hist : List (Nat × Nat × Nat × Rat)) : QTab := hist.foldl (qlStep alpha gamma) q

structure JAL where
  A : List Nat
  id : Nat
  total : List Nat                     -- stateCounters_[s]
  counts : List (List (List Nat))      -- stateActionCounts_[s][slot][value]; slot k = k-th agent other than `id`
  q : QTab                             -- qLearning_.getQFunction(), columns = toIndex(A, joint action)
  single : QTab                        -- singleQFun_
  deriving Repr

/-- the agents other than `id`, in order (the `if (a == id_) ++i` walk) -/
def JAL.others (j : JAL) : List Nat := (List.range j.A.length).filter (· != j.id)

def jalInit (S : Nat) (A : List Nat) (id : Nat) : JAL :=
  let others := (List.range A.length).filter (· != id)
  { A := A, id := id, total := List.replicate S 0,
    counts := List.replicate S (others.map (fun i => List.replicate (A.getD i 0) 0)),
    q := List.replicate S (List.replicate (space A) 0),
    single := List.replicate S (List.replicate (A.getD id 0) 0) }

/-- probability of the other agents' part of a joint action under the empirical per-agent frequencies of state `s`:
    `p = 1; for each other agent: p *= count; p /= stateCounters_[s]` -/
def jalProb (j : JAL) (s : Nat) (ja : List Nat) : Rat :=
  (j.others.zipIdx).foldl (fun p (ik : Nat × Nat) =>
    p * ((((j.counts.getD s []).getD ik.2 []).getD (ja.getD ik.1 0) 0 : Nat) : Rat) / ((j.total.getD s 0 : Nat) : Rat)) 1

/-- `JointActionLearner::stepUpdateQ(s, aa, s1, rew)` -/
def jalStep (alpha gamma : Rat) (j : JAL) (e : Nat × List Nat × Nat × Rat) : JAL :=
  let s := e.1; let aa := e.2.1
  let total := j.total.set s (j.total.getD s 0 + 1)
  let rowC := j.counts.getD s []
  let rowC' := (j.others.zipIdx).foldl (fun rc (ik : Nat × Nat) =>
      rc.set ik.2 ((rc.getD ik.2 []).set (aa.getD ik.1 0) ((rc.getD ik.2 []).getD (aa.getD ik.1 0) 0 + 1))) rowC
  let counts := j.counts.set s rowC'
  let q := qlStep alpha gamma j.q (s, toIndexLoop j.A aa 0 1, e.2.2.1, e.2.2.2)
  let j1 : JAL := { j with total := total, counts := counts, q := q }
  let jas := enumAll j.id j.A (space j.A + 1)
  let row := (List.range (j.A.getD j.id 0)).map (fun ai =>
      jas.foldl (fun acc ja => acc + q.get s (toIndexLoop j.A (ja.set j.id ai) 0 1) * jalProb j1 s ja) 0)
  { j1 with single := j.single.set s row }

def jalRun (alpha gamma : Rat) (j : JAL) (hist : List (Nat × List Nat × Nat × Rat)) : JAL := hist.foldl (jalStep alpha gamma) j

/-! ### `CooperativeQLearning` (src/Factored/MDP/Algorithms/CooperativeQLearning.cpp), any number of bases.
The greedy next action `a1` (computed by variable elimination, property C13) is an input. -/

/-- `makeQFunction(graph, basisDomains)`: one zero matrix per domain, tags merged as in `backProject` -/
def coopInit (g : DDNGraph) (domains : List (List Nat)) : FM :=
  domains.map (fun dom =>
    let tags := bpTags g dom ([], [])
    { tag := tags.1, atag := tags.2,
      vals := List.replicate (spacePartial tags.1 g.S) (List.replicate (spacePartial tags.2 g.A) 0) })

/-- `agentNormRews_` as the constructor intends it: for every agent the number of bases whose actionTag names it
    (zero-initialised, then `++agentNormRews_[a]`) -/
def coopNorm (nA : Nat) (q : FM) : List Rat :=
  (List.range nA).map (fun ag => ((q.filter (fun b => b.atag.contains ag)).length : Rat))

/-- `for (auto a : tag) per[a] += val` -/
def addAt (per : List Rat) (tag : List Nat) (val : Rat) : List Rat := tag.foldl (fun p ag => p.set ag (p.getD ag 0 + val)) per

def BM.put (b : BM) (i j : Nat) (v : Rat) : BM := { b with vals := b.vals.set i ((b.vals.getD i []).set j v) }

/-- the three accumulation loops and `*= alpha_` of `stepUpdateQ` -/
def coopPer (S A : List Nat) (alpha gamma : Rat) (q : FM) (norm : List Rat) (s a s1 a1 : List Nat) (rew : List Rat) : List Rat :=
  let per0 := (rew.zip norm).map (fun rn => rn.1 / rn.2)
  let per1 := q.foldl (fun per b => addAt per b.atag (gamma * b.get S A s1 a1 / (b.atag.length : Rat))) per0
  let per2 := q.foldl (fun per b => addAt per b.atag (-(b.get S A s a) / (b.atag.length : Rat))) per1
  per2.map (· * alpha)

/-- `CooperativeQLearning::stepUpdateQ(s, a, s1, rew)` given the greedy `a1` it samples -/
def coopStep (S A : List Nat) (alpha gamma : Rat) (norm : List Rat) (q : FM) (e : List Nat × List Nat × List Nat × List Nat × List Rat) : FM :=
  let s := e.1; let a := e.2.1; let s1 := e.2.2.1; let a1 := e.2.2.2.1; let rew := e.2.2.2.2
  let per := coopPer S A alpha gamma q norm s a s1 a1 rew
  q.map (fun b =>
    let upd := b.atag.foldl (fun u ag => u + per.getD ag 0) 0
    b.put (toIndexPartial b.tag S s) (toIndexPartial b.atag A a) (b.get S A s a + upd))

def coopRun (S A : List Nat) (alpha gamma : Rat) (norm : List Rat) (q : FM)
    (hist : List (List Nat × List Nat × List Nat × List Nat × List Rat)) : FM := hist.foldl (coopStep S A alpha gamma norm) q

/-! ### `SparseCooperativeQLearning` (src/Factored/MDP/Algorithms/SparseCooperativeQLearning.cpp).
Rules are kept in insertion order; `rules_.filter(join(s, a))` returns the rules whose partial state and partial action
agree with (s, a), in that order (FilterMap over a Trie, property C20).  The greedy `a1` is an input. -/

structure QRule where
  sk : List Nat
  sv : List Nat
  ak : List Nat
  av : List Nat
  value : Rat
  deriving Repr, BEq

def QRule.applies (r : QRule) (s a : List Nat) : Bool :=
  (r.sk.zip r.sv).all (fun kv => s.getD kv.1 0 == kv.2) && (r.ak.zip r.av).all (fun kv => a.getD kv.1 0 == kv.2)

def sparsePer (nA : Nat) (alpha gamma : Rat) (rules : List QRule) (s a s1 a1 : List Nat) (rew : List Rat) : List Rat :=
  let before := rules.filter (·.applies s a)
  let after := rules.filter (·.applies s1 a1)
  let cnt := before.foldl (fun c r => addAt c r.ak 1) (List.replicate nA 0)
  let per0 := (rew.zip cnt).map (fun rc => rc.1 / rc.2)
  let per1 := after.foldl (fun per r => addAt per r.ak (gamma * r.value / (r.ak.length : Rat))) per0
  let per2 := before.foldl (fun per r => addAt per r.ak (-r.value / (r.ak.length : Rat))) per1
  per2.map (· * alpha)

/-- `SparseCooperativeQLearning::stepUpdateQ(s, a, s1, rew)` given the greedy `a1` it samples -/
def sparseStep (nA : Nat) (alpha gamma : Rat) (rules : List QRule) (e : List Nat × List Nat × List Nat × List Nat × List Rat) : List QRule :=
  let s := e.1; let a := e.2.1
  let per := sparsePer nA alpha gamma rules s a e.2.2.1 e.2.2.2.1 e.2.2.2.2
  rules.map (fun r => if r.applies s a then { r with value := r.value + r.ak.foldl (fun u ag => u + per.getD ag 0) 0 } else r)

def sparseRun (nA : Nat) (alpha gamma : Rat) (rules : List QRule)
    (hist : List (List Nat × List Nat × List Nat × List Nat × List Rat)) : List QRule := hist.foldl (sparseStep nA alpha gamma) rules

end AITB.Factored
