/-
  AITB.Model.FLPGen — the linear programs FactoredLP::operator() and
  Factored::MDP::LinearProgramming::solveLP BUILD, row by row and column by column, following
  GenericVariableElimination::removeFactor WITHOUT `mergeFactors` (rules are appended, every rule
  whose partial index matches is cross-summed).  Core Lean only.

  Anchors:
    include/AIToolbox/Factored/Utils/GenericVariableElimination.hpp  operator(), removeFactor (non-merge branch)
    include/AIToolbox/Factored/Utils/FactorGraph.hpp                 bestVariableToRemove (model: VE.bestVar), getFactor, erase
    src/Factored/MDP/Algorithms/Utils/FactoredLP.cpp                 setup loops, Global::{initNewFactor,beginCrossSum,crossSum,endCrossSum,makeResult}
    src/Factored/MDP/Algorithms/LinearProgramming.cpp                solveLP setup loops, the same five callbacks
    src/Utils/LP/LpSolveWrapper.cpp                                  row buffer semantics (`row[i] = x` overwrites; pushRow copies the buffer)

  A factor of the VE graph ("Factor = size_t") is the NAME of an LP column.  A rule is
  (partial index, column).  `sides` = number of LP columns per new factor: 2 for FactoredLP (the
  `+` system and, one column to the right, the `−` system that handles the absolute value), 1 for the MDP LP.
  A row is kept as the list of `row[c] = q` writes that are non-zero when `pushRow` is called.
-/
import AITB.Model.Num
import AITB.Model.Factored
import AITB.Model.VE
import AITB.Model.VETable
import AITB.Model.FLP
import AITB.Gen.Constants
namespace AITB.FLP
open AITB.Factored AITB.VE

inductive Rel where
  | le | eq
  deriving Repr, BEq, DecidableEq

/-- one pushed LP row: Σ_{(c,q)} q·u(c)  `rel`  rhs -/
structure CRow where
  ent : List (Nat × Rat)
  rel : Rel
  rhs : Rat
  deriving Repr, DecidableEq

/-- value of the left-hand side under a valuation of the LP columns -/
def lhs (u : Nat → Rat) : List (Nat × Rat) → Rat
  | [] => 0
  | e :: es => e.2 * u e.1 + lhs u es

def CRow.sat (u : Nat → Rat) (r : CRow) : Prop :=
  match r.rel with
  | .le => lhs u r.ent ≤ r.rhs
  | .eq => lhs u r.ent = r.rhs

def CRow.satB (tol : Rat) (u : Nat → Rat) (r : CRow) : Bool :=
  match r.rel with
  | .le => decide (lhs u r.ent ≤ r.rhs + tol)
  | .eq => decide (absQ (lhs u r.ent - r.rhs) ≤ tol)

/-- a node of the factor graph: key set + appended rules (partial index, LP column) -/
structure LNode where
  keys : List Nat
  rules : List (Nat × Nat)
  deriving Repr

structure GenSt where
  graph : List LNode
  finals : List Nat
  ncols : Nat
  rows : List CRow
  deriving Repr

/-- `for (rule : factor->getData()) if (jvPartialIndex == rule.first) crossSum(rule.second)` -/
def hit (A a : List Nat) (nd : LNode) : List Nat :=
  (nd.rules.filter (fun r => r.1 == toIndexPartial nd.keys A a)).map (·.2)

def hits (A a : List Nat) : List LNode → List Nat
  | [] => []
  | nd :: g => hit A a nd ++ hits A a g

/-- `beginCrossSum … crossSum* … endCrossSum` for one value of the eliminated variable:
    `newFactor ≥ Σ matched` on every side (side d uses every column shifted by d) -/
def veRows (sides : Nat) (pos : List Nat) (neg : Nat) : List CRow :=
  (List.range sides).map (fun d => ⟨(neg + d, -1) :: pos.map (fun c => (c + d, 1)), .le, 0⟩)

section ve
variable (A : List Nat) (n : Nat) (sides : Nat)

/-- loop over `vValue = 0 .. V[v]-1` -/
def overValues (nb jv : List Nat) (v : Nat) (factors : List LNode) (col : Nat) : Nat → Nat → List CRow
  | 0, _ => []
  | cnt+1, k => veRows sides (hits A (listOf n (jvAsg nb jv v k)) factors) col
                  ++ overValues nb jv v factors col cnt (k+1)

/-- `graph.getFactor(keys)->getData().emplace_back(id, col)` -/
def addRule (keys : List Nat) (r : Nat × Nat) : List LNode → List LNode
  | [] => [⟨keys, [r]⟩]
  | nd :: g => if nd.keys == keys then ⟨nd.keys, nd.rules ++ [r]⟩ :: g else nd :: addRule keys r g

/-- the `while (jointValues.isValid())` loop of `removeFactor`, `jvID` counting up; `initNewFactor` takes the
    next `sides` columns -/
def removeLoop (nb : List Nat) (v : Nat) (factors : List LNode) : Nat → Nat → GenSt → GenSt
  | 0, _, st => st
  | cnt+1, jvID, st =>
    let jv := toFactors (sel nb A) jvID
    let col := st.ncols
    let new := overValues A n sides nb jv v factors col (A.getD v 0) 0
    let st' : GenSt :=
      if nb.isEmpty then { st with finals := st.finals ++ [col], ncols := st.ncols + sides, rows := st.rows ++ new }
      else { st with graph := addRule nb (jvID, col) st.graph, ncols := st.ncols + sides, rows := st.rows ++ new }
    removeLoop nb v factors cnt (jvID+1) st'

/-- `removeFactor(V, graph, v, finalFactors, global)` -/
def removeVar (v : Nat) (st : GenSt) : GenSt :=
  let factors := st.graph.filter (fun nd => nd.keys.contains v)
  let nb := nbrs n v (st.graph.map (·.keys))
  let g := if nb.isEmpty || st.graph.any (fun nd => nd.keys == nb) then st.graph else st.graph ++ [⟨nb, []⟩]
  let st1 := removeLoop A n sides nb v factors (spacePartial nb A) 0 { st with graph := g }
  { st1 with graph := st1.graph.filter (fun nd => !nd.keys.contains v) }

/-- `while (graph.variableSize()) removeFactor(V, graph, graph.bestVariableToRemove(V), …)` -/
def genLoop : Nat → List Nat → GenSt → GenSt
  | 0, _, st => st
  | _, [], st => st
  | fuel+1, active, st =>
    let v := bestVar A n active (st.graph.map (·.keys))
    genLoop fuel (active.filter (· != v)) (removeVar A n sides v st)

def genRun (st : GenSt) : GenSt := genLoop A n sides n (List.range n) st

end ve

/-! ## FactoredLP::operator() -/

def constCoeff (C : List Basis) : Rat := 1 / ((C.length : Nat) : Rat)

/-- the two `Equal` rows naming one entry of a basis of `C` (weight column `k`, rule columns `col`, `col+1`) -/
def flpCRows (addConst : Bool) (constId : Nat) (cc : Rat) (k col : Nat) (q : Rat) : List CRow :=
  let kc := if addConst then [(constId, cc)] else []
  let kn := if addConst then [(constId, -cc)] else []
  [⟨[(col, -1), (k, q)] ++ kc, .eq, 0⟩, ⟨[(col + 1, -1), (k, -q)] ++ kn, .eq, 0⟩]

def flpBRows (col : Nat) (q : Rat) : List CRow :=
  [⟨[(col, 1)], .eq, -q⟩, ⟨[(col + 1, 1)], .eq, q⟩]

/-- entries of one basis: rules (i, col + 2i) and the rows produced by `mk` -/
def entryLoop (mk : Nat → Rat → List CRow) : List Rat → Nat → Nat → List (Nat × Nat) × List CRow
  | [], _, _ => ([], [])
  | q :: qs, i, col =>
    let r := entryLoop mk qs (i+1) (col+2)
    ((i, col) :: r.1, mk col q ++ r.2)

/-- `graph.getFactor(tag)->getData().emplace_back(...)` for a whole basis at once -/
def addRules (keys : List Nat) (rs : List (Nat × Nat)) : List LNode → List LNode
  | [] => [⟨keys, rs⟩]
  | nd :: g => if nd.keys == keys then ⟨nd.keys, nd.rules ++ rs⟩ :: g else nd :: addRules keys rs g

/-- first setup loop (`for f : C.bases`) -/
def flpSetupC (addConst : Bool) (constId : Nat) (cc : Rat) : List Basis → Nat → GenSt → GenSt
  | [], _, st => st
  | f :: fs, k, st =>
    let r := entryLoop (flpCRows addConst constId cc k) f.vals 0 st.ncols
    flpSetupC addConst constId cc fs (k+1)
      { st with graph := addRules f.tag r.1 st.graph, ncols := st.ncols + 2 * f.vals.length, rows := st.rows ++ r.2 }

/-- second setup loop (`for f : b.bases`) -/
def flpSetupB : List Basis → GenSt → GenSt
  | [], st => st
  | f :: fs, st =>
    let r := entryLoop flpBRows f.vals 0 st.ncols
    flpSetupB fs { st with graph := addRules f.tag r.1 st.graph, ncols := st.ncols + 2 * f.vals.length, rows := st.rows ++ r.2 }

def flpPhi (C : List Basis) (addConst : Bool) : Nat := C.length + (if addConst then 1 else 0)

def flpSetup (C b : List Basis) (addConst : Bool) : GenSt :=
  let phi := flpPhi C addConst
  flpSetupB b (flpSetupC addConst (phi - 1) (constCoeff C) C 0 ⟨[], [], phi + 1, []⟩)

/-- `Global::makeResult`: Σ finals − φ ≤ 0 on both sides -/
def flpFinalRows (phi : Nat) (finals : List Nat) : List CRow :=
  [⟨(phi, -1) :: finals.map (fun c => (c, 1)), .le, 0⟩, ⟨(phi, -1) :: finals.map (fun c => (c + 1, 1)), .le, 0⟩]

/-- every row of the LP FactoredLP hands to lp_solve, in push order, and the number of columns -/
def flpGen (S : List Nat) (C b : List Basis) (addConst : Bool) : List CRow × Nat :=
  let st := genRun S S.length 2 (flpSetup C b addConst)
  (st.rows ++ flpFinalRows (flpPhi C addConst) st.finals, st.ncols)

/-- a constant as a basis function: ones over the first state factor -/
def onesBasis (S : List Nat) : Basis := ⟨[0], List.replicate (S.getD 0 0) 1⟩

/-- `deleg = true`: the source solves (no basis, constant basis requested) by calling itself with the single basis `onesBasis`
    and no constant (fixes/C15-4; the flag comes from the translator).  `deleg = false`: the code as first written, where the
    constant is then carried by no rule (finding C15-flp-const-without-basis). -/
def flpGenD (deleg : Bool) (S : List Nat) (C b : List Basis) (addConst : Bool) : List CRow × Nat :=
  if deleg && addConst && C.isEmpty then flpGen S [onesBasis S] b false else flpGen S C b addConst

/-! ## Factored::MDP::LinearProgramming::solveLP -/

def isZeroSmall (q : Rat) : Bool := decide (absQ q ≤ AITB.Gen.equalToleranceSmall)

/-- entries of one basis with the `checkEqualSmall(value, 0.0)` skip; one new column per kept entry;
    `idx i` is the partial index stored with the rule -/
def mdpEntryLoop (mk : Nat → Rat → CRow) (idx : Nat → Nat) : List Rat → Nat → Nat → List (Nat × Nat) × List CRow
  | [], _, _ => ([], [])
  | q :: qs, i, col =>
    if isZeroSmall q then mdpEntryLoop mk idx qs (i+1) col
    else
      let r := mdpEntryLoop mk idx qs (i+1) (col+1)
      ((idx i, col) :: r.1, mk col q :: r.2)

def mdpApply (keys : List Nat) (r : List (Nat × Nat) × List CRow) (st : GenSt) : GenSt :=
  { st with graph := addRules keys r.1 st.graph, ncols := st.ncols + r.1.length, rows := st.rows ++ r.2 }

/-- `h` loop: −w_k h_k(s) -/
def mdpSetupH : List Basis → Nat → GenSt → GenSt
  | [], _, st => st
  | f :: fs, k, st =>
    mdpSetupH fs (k+1) (mdpApply f.tag
      (mdpEntryLoop (fun col q => ⟨[(col, -1), (k, -q)], .eq, 0⟩) (fun i => i) f.vals 0 st.ncols) st)

/-- index stored for entry (sId, aId) of a BasisMatrix given row-major position `i`: `sId + aMult * aId` -/
def smIdx (sizeS sizeA : Nat) (i : Nat) : Nat := i / sizeA + sizeS * (i % sizeA)

/-- `join(S.size(), tag, actionTag)` -/
def joinTag (nS : Nat) (tag atag : List Nat) : List Nat := tag ++ atag.map (· + nS)

/-- `g` loop: +γ w_k g_k(s,a) -/
def mdpSetupG (S A : List Nat) (γ : Rat) : List BasisM → Nat → GenSt → GenSt
  | [], _, st => st
  | f :: fs, k, st =>
    mdpSetupG S A γ fs (k+1) (mdpApply (joinTag S.length f.tag f.atag)
      (mdpEntryLoop (fun col q => ⟨[(col, -1), (k, γ * q)], .eq, 0⟩)
        (smIdx (spacePartial f.tag S) (spacePartial f.atag A)) f.vals 0 st.ncols) st)

/-- `R` loop: +R(s,a) -/
def mdpSetupR (S A : List Nat) : List BasisM → GenSt → GenSt
  | [], st => st
  | f :: fs, st =>
    mdpSetupR S A fs (mdpApply (joinTag S.length f.tag f.atag)
      (mdpEntryLoop (fun col q => ⟨[(col, 1)], .eq, q⟩)
        (smIdx (spacePartial f.tag S) (spacePartial f.atag A)) f.vals 0 st.ncols) st)

def mdpSetup (S A : List Nat) (γ : Rat) (h : List Basis) (g R : List BasisM) : GenSt :=
  mdpSetupR S A R (mdpSetupG S A γ g 0 (mdpSetupH h 0 ⟨[], [], h.length, []⟩))

/-- `Global::makeResult`.  `joined = false`: the code as written — one row `final ≤ 0` PER final factor;
    `joined = true`: one row `Σ finals ≤ 0` (fixes/C15-1).  The driver takes the flag from the translator. -/
def mdpFinalRows (joined : Bool) (finals : List Nat) : List CRow :=
  if joined then [⟨finals.map (fun c => (c, 1)), .le, 0⟩]
  else finals.map (fun c => ⟨[(c, 1)], .le, 0⟩)

def mdpGen (joined : Bool) (S A : List Nat) (γ : Rat) (h : List Basis) (g R : List BasisM) : List CRow × Nat :=
  let F := S ++ A
  let st := genRun F F.length 1 (mdpSetup S A γ h g R)
  (st.rows ++ mdpFinalRows joined st.finals, st.ncols)

/-! ## dense view of a row (what lp_solve receives): later writes to the same column overwrite -/

def denseSet : List (Nat × Rat) → Nat → Rat
  | [], _ => 0
  | e :: es, c => if e.1 = c then e.2 else denseSet es c

/-- dense coefficient of column `c`: the LAST write wins (entries are in write order) -/
def CRow.dense (r : CRow) (c : Nat) : Rat := denseSet r.ent.reverse c

def nodupB : List Nat → Bool
  | [] => true
  | c :: cs => !cs.contains c && nodupB cs

/-- no column is written twice: the sparse sum `lhs` and the dense row agree -/
def CRow.cleanB (r : CRow) : Bool := nodupB (r.ent.map (·.1))

/-- `backProject(ddn, basis)`: C14's model of the library routine (`AITB.Factored.backProject`, proved there to be the
    exact expectation), with the value matrix read row-major as the harness emits it -/
def bpModel (S A : List Nat) (ddn : List DNode) (hk : Basis) : BasisM :=
  let b := AITB.Factored.backProject (toGraph S A ddn) (toT ddn) ⟨hk.tag, hk.vals⟩
  ⟨b.tag, b.atag, b.vals.flatten⟩

/-- rows of a row-major value list: `k` rows of `n` entries -/
def chunkN (n : Nat) : Nat → List Rat → List (List Rat)
  | 0, _ => []
  | k+1, l => l.take n :: chunkN n k (l.drop n)

/-- a parsed BasisMatrix (row-major values) as C14's `BM` (list of rows) -/
def toBM (S A : List Nat) (b : BasisM) : BM := ⟨b.tag, b.atag, chunkN (spacePartial b.atag A) (spacePartial b.tag S) b.vals⟩
def ofBM (b : BM) : BasisM := ⟨b.tag, b.atag, b.vals.flatten⟩
def toBF (hk : Basis) : BF := ⟨hk.tag, hk.vals⟩

/-- the Q-function `LinearProgramming::operator()` returns, as the code computes it from the weights `v` it got from the LP:
    `g = backProject(T, h);  g *= discount * v;  plusEqual(S, A, g, R)`  (C14's models of the three library routines) -/
def qModel (S A : List Nat) (ddn : List DNode) (γ : Rat) (h : List Basis) (R : List BasisM) (v : List Rat) : FM :=
  fmPlusEqualFM S A (fmScaleW (v.map (γ * ·)) (backProjectFV (toGraph S A ddn) (toT ddn) (h.map toBF))) (R.map (toBM S A))

/-! ## LP::solve (src/Utils/LP/LpSolveWrapper.cpp): which calls it makes into lp_solve and when it hands a point back.
    `retry` / `accept` are the lp_solve result codes of the two tests in the source (`if (result == … || …)` before the
    second `::solve`, `if (result == 0 || result == 1)` before the point is copied), taken from the translator. -/

/-- number of `::solve(lp)` calls: a second one (first-index pricing, default basis) iff the first result is a retry code -/
def lpSolveCalls (retry : List Int) (r0 : Int) : Nat := if retry.contains r0 then 2 else 1

/-- the result LP::solve finally looks at (`r1` = result of the second call, if made) -/
def lpSolveFinal (retry : List Int) (r0 r1 : Int) : Int := if retry.contains r0 then r1 else r0

/-- does LP::solve return a point (`std::optional` engaged)? -/
def lpSolveSome (retry accept : List Int) (r0 r1 : Int) : Bool := accept.contains (lpSolveFinal retry r0 r1)

/-- the recorded call sequence is the one the model predicts: right number of calls, and the point is handed back iff the
    last result is an accept code -/
def lpSolveTraceOk (retry accept : List Int) (results : List Int) (gotPoint : Bool) : Bool :=
  match results with
  | [r0] => !retry.contains r0 && gotPoint == accept.contains r0
  | [r0, r1] => retry.contains r0 && gotPoint == accept.contains r1
  | _ => false

/-- every column of the point lp_solve handed back satisfies every row of the LP within `tol` -/
def pointSatB (tol : Rat) (rows : List CRow) (pt : List Rat) : Bool :=
  rows.all (fun r => r.satB tol (fun c => pt.getD c 0))

end AITB.FLP
