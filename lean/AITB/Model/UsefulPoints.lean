/-
  AITB.Model.UsefulPoints — model of `extractBestUsefulPoints` (include/AIToolbox/Utils/Polytope.hpp). Core Lean only.

  Generic in the point type: `key p` = index of the hyperplane `findBestAtPoint` returns for `p`, `val p` = its value there.
  The iterator range is modelled by the lists of its three parts in address order:
    K = [pbegin, it)   one point per supported hyperplane found so far (the `bestValues[..].first` slots),
    U = [it, bound)    not yet examined,
    D = [bound, pend)  discarded.
  `bestValues[vId].second` is always the value of the point currently in that hyperplane's slot, so it is `val` of that point.
-/
namespace AITB.UsefulPoints

section generic
variable {α : Type}

/-- `std::iter_swap(it, --bound)` with `x` the content of slot `it` and `U'` the slots after it up to `bound`:
    `x` becomes the first discarded slot, the last unexamined point (if any) moves into slot `it` -/
def discardFront (x : α) (U' D : List α) : List α × List α :=
  match U'.getLast? with
  | none => ([], x :: D)
  | some z => (z :: U'.dropLast, x :: D)

/-- put `p` into the slot of the (first) kept point with the same key -/
def replaceKey (key : α → Nat) (p : α) : List α → List α
  | [] => []
  | q :: K => if key q == key p then p :: K else q :: replaceKey key p K

/-- first loop `while (it < bound && it < maxBound)`; fuel = number of unexamined points -/
def loop1 (key : α → Nat) (val : α → Rat) (entriesN : Nat) : Nat → List α → List α → List α → (List α × List α × List α)
  | 0, K, U, D => (K, U, D)
  | n+1, K, U, D =>
    match U with
    | [] => (K, U, D)
    | p :: U' =>
      if K.length < entriesN then
        match K.find? (fun q => key q == key p) with
        | none => loop1 key val entriesN n (K ++ [p]) U' D                 -- first supporter of its hyperplane: `it++`
        | some q =>
          if val q < val p then                                             -- better supporter: swap into the slot, discard the old one
            let r := discardFront q U' D
            loop1 key val entriesN n (replaceKey key p K) r.1 r.2
          else
            let r := discardFront p U' D
            loop1 key val entriesN n K r.1 r.2
      else (K, U, D)

/-- second loop `while (it < bound)`: every hyperplane has a slot; only slot contents are exchanged.
    `acc` = already visited slots, reversed -/
def loop2 (key : α → Nat) (val : α → Rat) : List α → List α → List α → (List α × List α)
  | K, [], acc => (K, acc.reverse)
  | K, p :: U', acc =>
    match K.find? (fun q => key q == key p) with
    | some q => if val q < val p then loop2 key val (replaceKey key p K) U' (q :: acc) else loop2 key val K U' (p :: acc)
    | none => loop2 key val K U' (p :: acc)

/-- `extractBestUsefulPoints(pbegin, pend, begin, end)`: (returned range, rest of the array) in address order -/
def extractBestUsefulPoints (key : α → Nat) (val : α → Rat) (entriesN : Nat) (pts : List α) : List α × List α :=
  let r := loop1 key val entriesN pts.length [] pts []
  match r.2.1 with
  | [] => (r.1, r.2.2)                       -- `if (it == bound) return it;`
  | U => let s := loop2 key val r.1 U []
         (s.1, s.2 ++ r.2.2)                 -- `return maxBound;`

end generic
end AITB.UsefulPoints
