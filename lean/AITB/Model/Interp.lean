/-
  AITB.Model.Interp — model of `LPInterpolation` and `sawtoothInterpolation` (src/Utils/Polytope.cpp).
  Core Lean only.

  The four places where the source text was found defective are modelled *as written* and *as repaired*;
  which reading applies is decided by `Gen.C12Src` (regenerated from the source on every run by
  tools/extract_c12.py), never by hand.

  The linear program inside LPInterpolation is an oracle parameter: it receives exactly the rows the
  C++ code pushes and returns `(objective, solution)`; its contract is `LpContract` in Props/C12.
-/
import AITB.Gen.Constants
import AITB.Gen.C12Src
import AITB.Model.Num
import AITB.Model.Prune
namespace AITB.Interp
open AITB.Prune

structure Variant where
  /-- LPInterpolation: `retval.tail(k) = result` (as found) instead of each compatible point's own slot -/
  lpTail : Bool
  /-- LPInterpolation single-point shortcut: ratio over *all* states (0/0 possible) and always applied (as found) -/
  lpSingleRaw : Bool
  /-- sawtooth: `retval[minI] = minC` (as found) instead of `retval[S + minI]` -/
  sawNoOffset : Bool
  /-- sawtooth: early exit on `basicV < v` (as found) instead of `basicV <= v` -/
  sawStrict : Bool
  deriving Repr, DecidableEq

def asFound : Variant := ⟨true, true, true, true⟩
def repaired : Variant := ⟨false, false, false, false⟩
/-- what the source says now -/
def srcVariant : Variant := ⟨Gen.C12Src.lpTail, Gen.C12Src.lpSingleRaw, Gen.C12Src.sawNoOffset, Gen.C12Src.sawStrict⟩

def tolS : Rat := Gen.equalToleranceSmall
/-- `checkEqualSmall(x, 0.0)` -/
def isZeroS (x : Rat) : Bool := decide (absQ x ≤ tolS)

def maxL : List Rat → Rat
  | [] => 0
  | x :: xs => xs.foldl maxQ x

def sumL : List Rat → Rat
  | [] => 0
  | x :: xs => x + sumL xs

/-- `ubQ.rowwise().maxCoeff()`; ubQ is the list of its rows -/
def cornerVals (ubQ : List Vec) : Vec := ubQ.map maxL

/-- `(point.transpose() * ubQ).maxCoeff()` for `A` columns -/
def basicV (point : Vec) (ubQ : List Vec) (A : Nat) : Rat :=
  maxL ((List.range A).map (fun a => dot point (ubQ.map (fun row => row.getD a 0))))

def idxWhere (p : Rat → Bool) (v : Vec) : List Nat :=
  (List.range v.length).filter (fun s => p (v.getD s 0))

def sel (idx : List Nat) (v : Vec) : Vec := idx.map (fun s => v.getD s 0)

/-- `sum_i w_i * p_i[s]` -/
def mixAt (ws : Vec) (ps : List Vec) (s : Nat) : Rat :=
  sumL (List.zipWith (fun w p => w * p.getD s 0) ws ps)

/-- final clean-up loop: `if (checkEqualSmall(x, 0.0) || x < 0.0) x = 0.0` -/
def cleanW (w : Vec) : Vec := w.map (fun x => if isZeroS x || decide (x < 0) then 0 else x)

def zerosN (n : Nat) : Vec := List.replicate n 0

/-- write `vals[i]` at slots `idx[i]` of `base` -/
def scatter (base : Vec) : List Nat → Vec → Vec
  | i :: is, x :: xs => scatter (base.set i x) is xs
  | _, _ => base

inductive Quot where
  | nan | inf | fin (q : Rat)

/-- IEEE `a / b` for a ≥ 0, b ≥ 0 -/
def ieeeDiv (a b : Rat) : Quot :=
  if b == 0 then (if a == 0 then .nan else .inf) else .fin (a / b)

/-- minimum of the finite quotients; `none` when a NaN occurs (Eigen's reduction order decides what
    comes out, not modelled) -/
def minQuot : List Quot → Option (Option Rat) → Option (Option Rat)
  | [], acc => acc
  | .nan :: _, _ => none
  | .inf :: r, acc => minQuot r acc
  | .fin q :: r, some none => minQuot r (some (some q))
  | .fin q :: r, some (some m) => minQuot r (some (some (minQ m q)))
  | .fin _ :: _, none => none

structure LpIn where
  /-- one row per non-zero state: coefficients of the compatible points, `<=` right-hand side -/
  rows : List (Vec × Rat)
  /-- last row: `val_b - sum_s p_b[s] * cornerVals[s]` per compatible point -/
  gains : Vec

structure Out where
  value : Rat
  /-- `none`: the source leaves the weights unspecified on this input (uninitialised read) -/
  weights : Option Vec

/-- `LPInterpolation(point, ubQ, ubV)`; `none` = no prediction (NaN in the shortcut / LP failure) -/
def lpInterp (V : Variant) (lp : LpIn → Option (Rat × Vec)) (point : Vec) (ubQ : List Vec) (A : Nat)
    (pts : List Vec) (vals : Vec) : Option Out :=
  let S := point.length
  let N := pts.length
  let zeroStates := idxWhere isZeroS point
  let nonZero := idxWhere (fun x => !isZeroS x) point
  let compat : List Nat :=
    if zeroStates.isEmpty then List.range N
    else (List.range N).filter (fun i => zeroStates.all (fun s => isZeroS ((pts.getD i []).getD s 0)))
  if compat.isEmpty then
    some ⟨basicV point ubQ A, some (point ++ zerosN N)⟩
  else
  let cv := cornerVals ubQ
  let cpts := compat.map (fun i => pts.getD i [])
  let gains := compat.map (fun i => vals.getD i 0 - dot (pts.getD i []) cv)
  let gainsNZ := compat.map (fun i => vals.getD i 0 - dot (sel nonZero (pts.getD i [])) (sel nonZero cv))
  let sol : Option (Rat × Vec) :=
    match cpts, gains with
    | [cp], [g] =>
      if V.lpSingleRaw then
        match minQuot (List.zipWith ieeeDiv point cp) (some none) with
        | some (some c) => some (c * g, [c])
        | _ => none
      else
        if decide (g < 0) then
          let c := (nonZero.filter (fun s => decide (0 < cp.getD s 0))).foldl (fun m s => minQ m (point.getD s 0 / cp.getD s 0)) 1
          some (c * g, [c])
        else some (0, [0])
    | _, _ => lp ⟨nonZero.map (fun s => (cpts.map (fun p => p.getD s 0), point.getD s 0)), gainsNZ⟩
  match sol with
  | none => none
  | some (unscaled, result) =>
    let ubValue := unscaled + dot point cv
    let base := zerosN (S + N)
    let base := nonZero.foldl (fun b s => b.set s (point.getD s 0 - mixAt result cpts s)) base
    let w := if V.lpTail then scatter base ((List.range compat.length).map (fun i => S + N - compat.length + i)) result
             else scatter base (compat.map (fun i => S + i)) result
    some ⟨ubValue, some (cleanW w)⟩

structure SawAcc where
  minI : Nat := 0
  minCF : Rat := 0
  minC : Option Rat := none

/-- inner loop over the states for stored point `p`: `none` = `goto next`; `some none` = c still DBL_MAX -/
def sawRatio (point p : Vec) : Option (Option Rat) :=
  (List.range point.length).foldl (fun acc s =>
    match acc with
    | none => none
    | some c =>
      let thisZero := isZeroS (p.getD s 0)
      if isZeroS (point.getD s 0) && !thisZero then none
      else if thisZero then some c
      else
        let q := point.getD s 0 / p.getD s 0
        some (some (match c with | none => q | some m => minQ m q))) (some none)

def sawStep (point cv : Vec) (acc : SawAcc) (i : Nat) (p : Vec) (val : Rat) : SawAcc :=
  match sawRatio point p with
  | none => acc
  | some c0 =>
    let c := match c0 with | none => 1 | some m => minQ m 1
    let cf := c * (val - dot p cv)
    if decide (cf < acc.minCF) then ⟨i, cf, some c⟩ else acc

def sawLoop (point cv : Vec) : List Vec → Vec → Nat → SawAcc → SawAcc
  | p :: ps, v :: vs, i, acc => sawLoop point cv ps vs (i+1) (sawStep point cv acc i p v)
  | _, _, _, acc => acc

/-- `sawtoothInterpolation(point, ubQ, ubV)`. `none` = the source indexes an empty point set (crash) -/
def sawtooth (V : Variant) (point : Vec) (ubQ : List Vec) (A : Nat) (pts : List Vec) (vals : Vec) : Option Out :=
  let S := point.length
  let N := pts.length
  let cv := cornerVals ubQ
  let acc := sawLoop point cv pts vals 0 {}
  let bV := basicV point ubQ A
  let v := dot point cv + acc.minCF
  if (if V.sawStrict then decide (bV < v) else decide (bV ≤ v)) then
    some ⟨bV, some (point ++ zerosN N)⟩
  else
    match pts[acc.minI]? with
    | none => none
    | some p =>
      match acc.minC with
      | none => some ⟨v, none⟩
      | some c =>
        let head := List.zipWith (fun x y => x - y * c) point p
        let w := head ++ zerosN N
        some ⟨v, some (w.set (if V.sawNoOffset then acc.minI else S + acc.minI) c)⟩

/-- `sawtoothInterpolation` as the source reads since the guard `minCF >= 0.0 ||` was added to the early exit
    (`Gen.C12Src.sawGuard`): when no stored point helped, the corner-only answer is returned whatever rounding did to
    `basicV <= v`. In exact arithmetic the guard is redundant (`sawtoothG_eq_sawtooth` in Props/C12SawGuard). -/
def sawtoothG (guard : Bool) (V : Variant) (point : Vec) (ubQ : List Vec) (A : Nat) (pts : List Vec) (vals : Vec) : Option Out :=
  let S := point.length
  let N := pts.length
  let cv := cornerVals ubQ
  let acc := sawLoop point cv pts vals 0 {}
  let bV := basicV point ubQ A
  let v := dot point cv + acc.minCF
  if (guard && decide (0 ≤ acc.minCF)) || (if V.sawStrict then decide (bV < v) else decide (bV ≤ v)) then
    some ⟨bV, some (point ++ zerosN N)⟩
  else
    match pts[acc.minI]? with
    | none => none
    | some p =>
      match acc.minC with
      | none => some ⟨v, none⟩
      | some c =>
        let head := List.zipWith (fun x y => x - y * c) point p
        let w := head ++ zerosN N
        some ⟨v, some (w.set (if V.sawNoOffset then acc.minI else S + acc.minI) c)⟩

end AITB.Interp
