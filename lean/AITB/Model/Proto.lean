/-
  AITB.Model.Proto — token parser for the line protocol (core Lean only).
  Lists are length-prefixed; numbers are exact tokens (see Num).
-/
import AITB.Model.Num
namespace AITB

abbrev P := StateT (List String) Option

namespace P
def tok : P String := fun s => match s with
  | [] => none
  | t :: r => some (t, r)
def fail {α} : P α := fun _ => none
def nat : P Nat := do let t ← tok; match t.toNat? with | some n => pure n | none => fail
def int : P Int := do let t ← tok; match parseInt? t with | some n => pure n | none => fail
def q : P Rat := do let t ← tok; match parseQ? t with | some n => pure n | none => fail
def x : P XRat := do let t ← tok; match parseX? t with | some n => pure n | none => fail
def bool : P Bool := do let t ← tok; if t == "1" then pure true else if t == "0" then pure false else fail
def lit (s : String) : P Unit := do let t ← tok; if t == s then pure () else fail
def bar : P Unit := lit "|"
def rep {α} (p : P α) : Nat → P (List α)
  | 0 => pure []
  | n+1 => do let a ← p; let r ← rep p n; pure (a :: r)
def list {α} (p : P α) : P (List α) := do let n ← nat; rep p n
def nats : P (List Nat) := list nat
def qs : P (List Rat) := list q
def xs : P (List XRat) := list x
def natss : P (List (List Nat)) := list nats
def qss : P (List (List Rat)) := list qs
def eof : P Unit := fun s => match s with | [] => some ((), []) | _ => none
def run {α} (p : P α) (toks : List String) : Option α := (p toks).map (·.1)
end P

def showNats (l : List Nat) : String := " ".intercalate (l.map toString)

end AITB

namespace AITB
/-- Result of one protocol line.  `fail` = the property's own clause is false on the
    implementation's output (L3 checker); `diff` = model and implementation differ (L2b).
    A `fail` takes precedence when both are present: it is the failing input. -/
structure Verdict where
  tag : String := ""
  diffs : List String := []
  fails : List String := []

def Verdict.render (v : Verdict) : String :=
  match v.fails, v.diffs with
  | f :: _, _ => "fail " ++ f
  | [], d :: _ => "diff " ++ d
  | [], [] => if v.tag == "" then "ok" else "ok " ++ v.tag

def Verdict.diffIf (v : Verdict) (c : Bool) (msg : String) : Verdict := if c then { v with diffs := v.diffs ++ [msg] } else v
def Verdict.failIf (v : Verdict) (c : Bool) (msg : String) : Verdict := if c then { v with fails := v.fails ++ [msg] } else v
end AITB
