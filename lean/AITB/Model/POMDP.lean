/-
<<<<<<< HEAD
  AITB.Model.POMDP — executable model for C02 (exact POMDP solvers).  Core Lean only.

  Modelled code (paths relative to the library root):
    include/AIToolbox/POMDP/Utils.hpp              updateBeliefUnnormalized, beliefExpectedReward, crossSumBestAtBelief (all three overloads)
    include/AIToolbox/Utils/Polytope.hpp           findBestAtPoint (value and first-best index; the `veccmp` tie-break only picks among equal values)
    include/AIToolbox/POMDP/Algorithms/Utils/Projecter.hpp   computePossibleObservations, computeImmediateRewards (R/|O|), operator()(w,a), operator()(w)
    src/POMDP/Algorithms/IncrementalPruning.cpp    crossSum (values only)
    include/AIToolbox/POMDP/Algorithms/IncrementalPruning.hpp  the per-action merge of the |O| projected lists with a pruner after every merge
                                                   (`ipAction`, left-to-right bracketing; the C++ reverse-binary-tree schedule is another bracketing of the same cross-sum)
    include/AIToolbox/POMDP/Algorithms/RTBSS.hpp   sampleAction, simulate, upperBound  — as written, including the `-inf` start, the strict comparisons,
                                                   the pruned branch that leaves `rew` at the immediate reward, and `checkDifferentSmall(sum, 0.0)`
  The property's own definition: `expectimax` (exhaustive recursion over action–observation trees, zero-probability observations skipped).

  Doubles are read as exact rationals (DESIGN §3).  Vectors are data (`Array Rat`); sizes are explicit.
-/
import AITB.Model.Num
import AITB.Model.MDP
import AITB.Gen.Constants

namespace AITB.POMDP
open AITB.MDP (sumTo maxTo argmaxTo Vec mkVec absR)

/-- POMDP tables: `T s a s1`, `R s a`, `Ob s1 a o` (= getObservationProbability(s1,a,o)), discount `γ` -/
structure Model where
  S : Nat
  A : Nat
  O : Nat
  T : Nat → Nat → Nat → Rat
  R : Nat → Nat → Rat
  Ob : Nat → Nat → Nat → Rat
  γ : Rat

/-! ## vectors -/

/-- `a.dot(b)` over `n` entries -/
def dot (n : Nat) (a b : Vec) : Rat := sumTo n (fun s => a.get s * b.get s)
def vadd (n : Nat) (a b : Vec) : Vec := mkVec n (fun s => a.get s + b.get s)
def vzero (n : Nat) : Vec := mkVec n (fun _ => 0)
def vsum (n : Nat) (v : Vec) : Rat := sumTo n v.get
def vdiv (n : Nat) (v : Vec) (c : Rat) : Vec := mkVec n (fun s => v.get s / c)

/-- maximum of a list (0 on the empty list, which no caller passes) -/
def lmax : List Rat → Rat
  | [] => 0
  | [x] => x
  | x :: y :: r => if lmax (y :: r) < x then x else lmax (y :: r)

/-- upper envelope of a vector list at a point: `findBestAtPoint(b, begin, end, &value)`'s value -/
def env (n : Nat) (Γ : List Vec) (b : Vec) : Rat := lmax (Γ.map (fun α => dot n b α))

/-! ## belief update and the property's definition of optimal value -/

/-- `updateBeliefUnnormalized(model, b, a, o)` -/
def updU (m : Model) (b : Vec) (a o : Nat) : Vec :=
  mkVec m.S (fun s1 => m.Ob s1 a o * sumTo m.S (fun s => b.get s * m.T s a s1))

/-- `beliefExpectedReward(model, b, a)` = R.col(a).dot(b) -/
def expReward (m : Model) (b : Vec) (a : Nat) : Rat := sumTo m.S (fun s => m.R s a * b.get s)

/-- value of action `a` at belief `b` when the continuation is worth `V`: observations of probability 0 are skipped,
    the others lead to the Bayes-updated (normalised) belief -/
def qOf (m : Model) (V : Vec → Rat) (b : Vec) (a : Nat) : Rat :=
  expReward m b a + m.γ * sumTo m.O (fun o =>
    let u := updU m b a o
    let p := vsum m.S u
    if p = 0 then 0 else p * V (vdiv m.S u p))

/-- optimal h-step expected discounted return from belief b: exhaustive expectimax over action–observation trees -/
def expectimax (m : Model) : Nat → Vec → Rat
  | 0 => fun _ => 0
  | h+1 => fun b => maxTo (m.A - 1) (qOf m (expectimax m h) b)

/-- the same recursion when observations of probability `≤ τ` are skipped (`checkDifferentSmall(sum, 0.0)` with τ = 1e-6) -/
def qOfT (m : Model) (τ : Rat) (V : Vec → Rat) (b : Vec) (a : Nat) : Rat :=
  expReward m b a + sumTo m.O (fun o =>
    let u := updU m b a o
    let p := vsum m.S u
    if absR p ≤ τ then 0 else m.γ * p * V (vdiv m.S u p))

def expectimaxT (m : Model) (τ : Rat) : Nat → Vec → Rat
  | 0 => fun _ => 0
  | h+1 => fun b => maxTo (m.A - 1) (qOfT m τ (expectimaxT m τ h) b)

/-! ## Projecter and the full one-step backup -/

/-- `possibleObservations_[a][o]`: some state has `checkDifferentSmall(O(s,a,o), 0.0)` -/
def possible (m : Model) (τ : Rat) (a o : Nat) : Bool :=
  (List.range m.S).any (fun s => decide (τ < absR (m.Ob s a o)))

/-- `immediateRewards_.row(a)` = R(·,a)/|O| -/
def immR (m : Model) (a : Nat) : Vec := mkVec m.S (fun s => m.R s a / (m.O : Rat))

/-- one projection: `T(a) * (v ∘ O(a).col(o)) * discount + immediateRewards_.row(a)` -/
def projVec (m : Model) (α : Vec) (a o : Nat) : Vec :=
  mkVec m.S (fun s => sumTo m.S (fun s1 => m.T s a s1 * (α.get s1 * m.Ob s1 a o)) * m.γ + m.R s a / (m.O : Rat))

/-- `projections[a][o]`: one vector per previous vector, or the single immediate-reward vector when `o` is impossible under `a` -/
def projList (m : Model) (τ : Rat) (Γ : List Vec) (a o : Nat) : List Vec :=
  if possible m τ a o then Γ.map (fun α => projVec m α a o) else [immR m a]

/-- `IncrementalPruning::crossSum` (values) -/
def crossSum (n : Nat) (l1 l2 : List Vec) : List Vec :=
  l1.flatMap (fun v1 => l2.map (fun v2 => vadd n v1 v2))

/-- cross-sum of the lists `P 0 … P (k-1)` -/
def crossTo (n : Nat) : Nat → (Nat → List Vec) → List Vec
  | 0, _ => [vzero n]
  | k+1, P => crossSum n (crossTo n k P) (P k)

/-- concatenation of the lists `G 0 … G (k-1)` -/
def unionTo : Nat → (Nat → List Vec) → List Vec
  | 0, _ => []
  | k+1, G => unionTo k G ++ G k

/-- every vector obtainable with action `a` by assigning one previous vector to each observation -/
def backupA (m : Model) (τ : Rat) (Γ : List Vec) (a : Nat) : List Vec :=
  crossTo m.S m.O (projList m τ Γ a)

/-- the full (unpruned) one-step alpha-vector backup -/
def backupAll (m : Model) (τ : Rat) (Γ : List Vec) : List Vec :=
  unionTo m.A (backupA m τ Γ)

/-- `makeValueFunction(S)` then h exact backups -/
def backupIter (m : Model) (τ : Rat) : Nat → List Vec
  | 0 => [vzero m.S]
  | h+1 => backupAll m τ (backupIter m τ h)

/-! ## Incremental pruning's interleaving, with the pruner as a parameter -/

/-- prune each projected list, then merge them one by one pruning after every cross-sum -/
def ipActionTo (n : Nat) (prune : List Vec → List Vec) : Nat → (Nat → List Vec) → List Vec
  | 0, _ => [vzero n]
  | k+1, P => prune (crossSum n (ipActionTo n prune k P) (prune (P k)))

/-- one timestep of `IncrementalPruning::operator()`: per-action merges, union over actions, final prune -/
def ipStep (m : Model) (τ : Rat) (prune : List Vec → List Vec) (Γ : List Vec) : List Vec :=
  prune (unionTo m.A (fun a => ipActionTo m.S prune m.O (projList m τ Γ a)))

def ipIter (m : Model) (τ : Rat) (prune : List Vec → List Vec) : Nat → List Vec
  | 0 => [vzero m.S]
  | h+1 => ipStep m τ prune (ipIter m τ prune h)

/-! ## IncrementalPruning's merge schedule AS WRITTEN (the "reverse binary tree" loop with front/back/stepsize/diff)

  `ipSchedule O` replays the index arithmetic of the C++ loop and returns the sequence of merges `(i, i+diff)` it performs and the
  slot `front` where the result ends up.  `ipRun` applies those merges to the slots (cross-sum + prune after each), `symRun` applies
  them to sets of observation indices; `scheduleOK O` says the final slot has collected every observation exactly once. -/

structure IpSched where
  front : Int
  back : Int
  stepsize : Int
  diff : Int
  elements : Nat
  oddOld : Bool

/-- `for ( i = front; i != back; i += stepsize ) { merge(i, i+diff); --elements; }` (fuel = elements: each pass decrements it) -/
def ipInner (back stepsize diff : Int) : Nat → Int → Nat → List (Nat × Nat) × Nat
  | 0, _, el => ([], el)
  | f+1, i, el =>
    if i = back then ([], el)
    else
      let r := ipInner back stepsize diff f (i + stepsize) (el - 1)
      ((i.toNat, (i + diff).toNat) :: r.1, r.2)

/-- `while ( elements > 1 ) { … }` -/
def ipOuter : Nat → IpSched → List (Nat × Nat) × Int
  | 0, st => ([], st.front)
  | f+1, st =>
    if st.elements ≤ 1 then ([], st.front)
    else
      let r := ipInner st.back st.stepsize st.diff st.elements st.front st.elements
      let oddNew := r.2 % 2 == 1
      let st' : IpSched :=
        { front := st.back - (if st.oddOld then 0 else st.stepsize),
          back := st.front - (if oddNew then 0 else st.stepsize),
          stepsize := st.stepsize * (-2), diff := st.diff * (-2), elements := r.2, oddOld := oddNew }
      let r2 := ipOuter f st'
      (r.1 ++ r2.1, r2.2)

def ipSchedule (O : Nat) : List (Nat × Nat) × Nat :=
  let odd := O % 2 == 1
  let r := ipOuter O ⟨0, (O : Int) - (if odd then 1 else 0), 2, 1, O, odd⟩
  (r.1, r.2.toNat)

def updSlot {α : Type} (f : Nat → α) (i : Nat) (v : α) : Nat → α := fun j => if j = i then v else f j

/-- `projs[a][i] = prune(crossSum(projs[a][i], projs[a][i+diff]))` for every scheduled merge -/
def ipRun (n : Nat) (prune : List Vec → List Vec) : List (Nat × Nat) → (Nat → List Vec) → (Nat → List Vec)
  | [], sl => sl
  | (d, s) :: ms, sl => ipRun n prune ms (updSlot sl d (prune (crossSum n (sl d) (sl s))))

def symRun : List (Nat × Nat) → (Nat → List Nat) → (Nat → List Nat)
  | [], sl => sl
  | (d, s) :: ms, sl => symRun ms (updSlot sl d (sl d ++ sl s))

/-- the per-action part of `IncrementalPruning::operator()` as written: prune every projected list, run the schedule, take slot `front` -/
def ipActionW (n : Nat) (prune : List Vec → List Vec) (O : Nat) (P : Nat → List Vec) : List Vec :=
  ipRun n prune (ipSchedule O).1 (fun o => prune (P o)) (ipSchedule O).2

/-- decidable: the schedule for `O` observations gathers each observation index exactly once in the final slot -/
def scheduleOK (O : Nat) : Bool :=
  (symRun (ipSchedule O).1 (fun o => [o]) (ipSchedule O).2).isPerm (List.range O)

def ipStepW (m : Model) (τ : Rat) (prune : List Vec → List Vec) (Γ : List Vec) : List Vec :=
  prune (unionTo m.A (fun a => ipActionW m.S prune m.O (projList m τ Γ a)))

def ipIterW (m : Model) (τ : Rat) (prune : List Vec → List Vec) : Nat → List Vec
  | 0 => [vzero m.S]
  | h+1 => ipStepW m τ prune (ipIterW m τ prune h)

/-! ## crossSumBestAtBelief (used by Witness and LinearSupport to build the support vector of a belief) -/

/-- first element of `l` with the largest `b·α` (value part of `findBestAtPoint`; ties between *different* vectors are broken by
    `veccmp` in the C++, which does not change the value) -/
def bestAt (n : Nat) (b : Vec) : List Vec → Vec
  | [] => vzero n
  | [x] => x
  | x :: y :: r => if dot n b (bestAt n b (y :: r)) < dot n b x then x else bestAt n b (y :: r)

/-- `crossSumBestAtBelief(b, row, &entry, &value)`: sum over observations of the best projected vector at `b` -/
def bestRowTo (n : Nat) (b : Vec) : Nat → (Nat → List Vec) → Vec
  | 0, _ => vzero n
  | k+1, P => vadd n (bestRowTo n b k P) (bestAt n b (P k))

/-- `crossSumBestAtBelief(b, projs, &value)`: best action's vector (first maximum over actions, strict `>` to replace) -/
def bestBackupAt (m : Model) (τ : Rat) (Γ : List Vec) (b : Vec) : Vec :=
  let val := fun a => dot m.S b (bestRowTo m.S b m.O (projList m τ Γ a))
  bestRowTo m.S b m.O (projList m τ Γ (argmaxTo (m.A - 1) val))

/-! ## Witness: vectors as sums of one chosen projection per observation, and their one-observation variations -/

/-- Σ_{o<k} c o : the vector `crossSumBestAtBelief` / `addVariations` assemble from one chosen projection per observation -/
def sumVecTo (n : Nat) : Nat → (Nat → Vec) → Vec
  | 0, _ => vzero n
  | k+1, c => vadd n (sumVecTo n k c) (c k)

/-! ## RTBSS as written -/

/-- `RTBSS::upperBound`: discount * maxR * horizon -/
def rtUpper (m : Model) (maxR : Rat) (h : Nat) : Rat := m.γ * maxR * (h : Rat)

/-- loop state of `simulate`: `max` (`none` = -infinity) and the action that set it -/
structure RtAcc where
  max : Option Rat
  arg : Nat
  deriving Repr

/-- `x > max` with `max = -inf` encoded as `none` -/
def gtOpt (x : Rat) : Option Rat → Bool
  | none => true
  | some v => decide (v < x)

/-- Σ_o over observations with `checkDifferentSmall(sum, 0.0)`: discount * sum * simulate(next / sum, horizon-1) -/
def rtFuture (m : Model) (τ : Rat) (V : Vec → Rat) (b : Vec) (a : Nat) : Rat :=
  sumTo m.O (fun o =>
    let u := updU m b a o
    let p := vsum m.S u
    if absR p ≤ τ then 0 else m.γ * p * V (vdiv m.S u p))

/-- body of `for (auto a : actionList)`; `hprev = horizon - 1` -/
def rtStep (m : Model) (τ maxR : Rat) (V : Vec → Rat) (hprev : Nat) (b : Vec) (acc : RtAcc) (a : Nat) : RtAcc :=
  let rew0 := expReward m b a
  let uBound := rew0 + rtUpper m maxR hprev
  let rew := if gtOpt uBound acc.max then rew0 + rtFuture m τ V b a else rew0
  if gtOpt rew acc.max then ⟨some rew, a⟩ else acc

/-- state after actions 0..n-1 -/
def rtLoop (m : Model) (τ maxR : Rat) (V : Vec → Rat) (hprev : Nat) (b : Vec) : Nat → RtAcc
  | 0 => ⟨none, 0⟩
  | n+1 => rtStep m τ maxR V hprev b (rtLoop m τ maxR V hprev b n) n

/-- `RTBSS::simulate(b, horizon)` (value; `-inf` cannot be returned when A ≥ 1, it is rendered as 0 for A = 0) -/
def rtSim (m : Model) (τ maxR : Rat) : Nat → Vec → Rat
  | 0 => fun _ => 0
  | h+1 => fun b => ((rtLoop m τ maxR (rtSim m τ maxR h) h b m.A).max).getD 0

/-- `RTBSS::sampleAction(b, horizon)` = (maxA_, value); maxA_ is written only by the top-level loop -/
def rtSample (m : Model) (τ maxR : Rat) (h : Nat) (b : Vec) : Nat × Rat :=
  match h with
  | 0 => (0, 0)
  | h+1 =>
    let acc := rtLoop m τ maxR (rtSim m τ maxR h) h b m.A
    (acc.arg, acc.max.getD 0)

/-! ## RTBSS parameterised by the two syntactic facts `tools/extract_c02.py` reads from the source

  `geo`    : `upperBound` is the geometric sum Σ_{t=1..h} γ^t·maxR (repaired) instead of γ·maxR·h (as shipped)
  `inside` : `if ( rew > max )` is inside the `if ( uBound > max )` block (repaired) instead of after it (as shipped)
  `rtSampleC ⟨false,false⟩` is `rtSample` (theorem `rtSampleC_shipped`). -/

structure RtCfg where
  geo : Bool
  inside : Bool
  deriving Repr, DecidableEq

/-- the repaired `upperBound` loop: `d *= discount; bound += d * maxR`, `h` times; state (bound, d) -/
def rtGeoLoop (γ maxR : Rat) : Nat → Rat × Rat
  | 0 => (0, 1)
  | t+1 => ((rtGeoLoop γ maxR t).1 + (rtGeoLoop γ maxR t).2 * γ * maxR, (rtGeoLoop γ maxR t).2 * γ)

def rtUpperC (cfg : RtCfg) (m : Model) (maxR : Rat) (h : Nat) : Rat :=
  if cfg.geo then (rtGeoLoop m.γ maxR h).1 else rtUpper m maxR h

def rtStepC (cfg : RtCfg) (m : Model) (τ maxR : Rat) (V : Vec → Rat) (hprev : Nat) (b : Vec) (acc : RtAcc) (a : Nat) : RtAcc :=
  let rew0 := expReward m b a
  let uBound := rew0 + rtUpperC cfg m maxR hprev
  if cfg.inside then
    if gtOpt uBound acc.max then
      (if gtOpt (rew0 + rtFuture m τ V b a) acc.max then ⟨some (rew0 + rtFuture m τ V b a), a⟩ else acc)
    else acc
  else
    let rew := if gtOpt uBound acc.max then rew0 + rtFuture m τ V b a else rew0
    if gtOpt rew acc.max then ⟨some rew, a⟩ else acc

def rtLoopC (cfg : RtCfg) (m : Model) (τ maxR : Rat) (V : Vec → Rat) (hprev : Nat) (b : Vec) : Nat → RtAcc
  | 0 => ⟨none, 0⟩
  | n+1 => rtStepC cfg m τ maxR V hprev b (rtLoopC cfg m τ maxR V hprev b n) n

def rtSimC (cfg : RtCfg) (m : Model) (τ maxR : Rat) : Nat → Vec → Rat
  | 0 => fun _ => 0
  | h+1 => fun b => ((rtLoopC cfg m τ maxR (rtSimC cfg m τ maxR h) h b m.A).max).getD 0

def rtSampleC (cfg : RtCfg) (m : Model) (τ maxR : Rat) (h : Nat) (b : Vec) : Nat × Rat :=
  match h with
  | 0 => (0, 0)
  | h+1 =>
    let acc := rtLoopC cfg m τ maxR (rtSimC cfg m τ maxR h) h b m.A
    (acc.arg, acc.max.getD 0)

/-! ## validity predicates evaluated by the driver -/

def allLt (n : Nat) (p : Nat → Bool) : Bool := (List.range n).all p

/-- transition and observation rows are probability vectors (exactly) -/
def validB (m : Model) : Bool :=
  decide (0 < m.S) && decide (0 < m.A) && decide (0 < m.O) &&
  allLt m.S (fun s => allLt m.A (fun a =>
    allLt m.S (fun s1 => decide (0 ≤ m.T s a s1)) && decide (sumTo m.S (fun s1 => m.T s a s1) = 1) &&
    allLt m.O (fun o => decide (0 ≤ m.Ob s a o)) && decide (sumTo m.O (fun o => m.Ob s a o) = 1)))

/-- no observation probability lies in the tolerance band (0, τ] -/
def sepB (m : Model) (τ : Rat) : Bool :=
  allLt m.S (fun s => allLt m.A (fun a => allLt m.O (fun o => decide (m.Ob s a o = 0) || decide (τ < m.Ob s a o))))

def simplexB (n : Nat) (b : Vec) : Bool :=
  allLt n (fun s => decide (0 ≤ b.get s)) && decide (sumTo n b.get = 1)

/-! ## the linear system `findVerticesNaive` assembles for one plane against one subset of planes and simplex boundaries
  (include/AIToolbox/Utils/Polytope.hpp).  Only the system is modelled (rows and their meaning), not the QR solve. -/

/-- one element of the subset `findVerticesNaive` enumerates: a plane, or the simplex boundary `x_d = 0` -/
inductive FvnElem where
  | plane (α : Vec)
  | boundary (d : Nat)

/-- a linear equation `coef·x + cv·v = rhs` over the unknowns (x, v) -/
structure FvnRow where
  coef : Vec
  cv : Rat
  rhs : Rat

def FvnRow.holds (S : Nat) (r : FvnRow) (x : Vec) (v : Rat) : Bool := decide (dot S r.coef x + r.cv * v = r.rhs)

def fvnPlaneRows : List FvnElem → List FvnRow
  | [] => []
  | .plane α :: r => ⟨α, -1, 0⟩ :: fvnPlaneRows r
  | .boundary _ :: r => fvnPlaneRows r

def fvnBoundaryRows (S : Nat) : List FvnElem → List FvnRow
  | [] => []
  | .plane _ :: r => fvnBoundaryRows S r
  | .boundary d :: r => ⟨mkVec S (fun s => if s = d then 1 else 0), 0, 0⟩ :: fvnBoundaryRows S r

def fvnLimited : List FvnElem → Nat → Bool
  | [], _ => false
  | .plane _ :: r, s => fvnLimited r s
  | .boundary d :: r, s => d == s || fvnLimited r s

/-- the system solved for the plane `new` against the subset `sub`.
    `rowsForm = false` (as shipped): the boundaries are merged into ONE row "sum of the non-limited coordinates = 1";
    `rowsForm = true` (repaired): one row `x_d = 0` per boundary and the row "sum of all coordinates = 1". -/
def fvnRows (rowsForm : Bool) (S : Nat) (new : Vec) (sub : List FvnElem) : List FvnRow :=
  if rowsForm then
    ⟨new, -1, 0⟩ :: (fvnPlaneRows sub ++ fvnBoundaryRows S sub ++ [⟨mkVec S (fun _ => 1), 0, 1⟩])
  else
    ⟨new, -1, 0⟩ :: (fvnPlaneRows sub ++ [⟨mkVec S (fun s => if fvnLimited sub s then 0 else 1), 0, 1⟩])

def fvnSolves (rowsForm : Bool) (S : Nat) (new : Vec) (sub : List FvnElem) (x : Vec) (v : Rat) : Bool :=
  (fvnRows rowsForm S new sub).all (fun r => r.holds S x v)

/-! ## L3 checker for clause (i): every returned vector is a genuine backup of the previous returned list -/

/-- equal on the first n entries (the only ones a dot product over n states reads) -/
def vecEqN (n : Nat) (a b : Vec) : Bool := allLt n (fun s => decide (a.get s = b.get s))

def memN (n : Nat) (l : List Vec) (v : Vec) : Bool := l.any (fun w => vecEqN n w v)

/-- every vector of `cur` is (entrywise) a member of the full backup of `prev` -/
def checkBackupStep (m : Model) (τ : Rat) (prev cur : List Vec) : Bool :=
  !cur.isEmpty && cur.all (fun α => memN m.S (backupAll m τ prev) α)

/-- the chain of lists returned for timesteps 1, 2, … starting from `prev` -/
def checkChain (m : Model) (τ : Rat) : List Vec → List (List Vec) → Bool
  | _, [] => true
  | prev, cur :: rest => checkBackupStep m τ prev cur && checkChain m τ cur rest

def lastOf (prev : List Vec) : List (List Vec) → List Vec
  | [] => prev
  | cur :: rest => lastOf cur rest
=======
  AITB.Model.POMDP — executable model of the approximate POMDP bound solvers (C03).  Core Lean only.

  Modelled code (all in the library copy):
    include/AIToolbox/POMDP/Algorithms/BlindStrategies.hpp   operator() (both start vectors, the 0.0001 clamp, tolerance loop)
    include/AIToolbox/POMDP/Algorithms/FastInformedBound.hpp operator() (plain model: SOSA = T·O; and the SOSA-parameterised form GapMin
                                                             runs on its belief-augmented POMDP), start `max R / max(0.0001, 1-γ)`
    include/AIToolbox/POMDP/Algorithms/QMDP.hpp / QMDP.cpp   = C01 value iteration (AITB.MDP.valueIteration) + `fromQFunction` (columns of Q)
    include/AIToolbox/POMDP/Utils.hpp                        crossSumBestAtBelief (as `backupVec` of the chosen vectors), bestConservativeAction
                                                             (incl. the `checkEqualSmall(prob, 0)` skip), bestPromisingAction (same skip),
                                                             makeSOSA
    include/AIToolbox/POMDP/Algorithms/PBVI.hpp, PERSEUS.hpp one outer step = point backups at the belief set, any sub-list kept (pruning)
    SARSOP.hpp / GapMin.hpp                                   the event system of `Props/C03Anytime.lean` (add backed-up vector, drop vectors,
                                                             overwrite a corner entry of ubQ, push / drop a belief point, FIB pass on the
                                                             belief-augmented model); sampling heuristics and bookkeeping are NOT modelled.

  Specification side (no reals): the belief-MDP Bellman operator `Hop` on *unnormalised* beliefs (`bstep` is linear, nothing is divided),
  its iterates `iterH`, and the two reference families that enclose the optimal value
      lowerRef j k = H^k (x ↦ max_a x·Blind_a^j(start))     (increasing in k, below V*)
      upperRef j k = H^k (x ↦ x·B_MDP^j(start))              (decreasing in k, above V*)
  "lb ≤ V*" is stated as `∀ j k, lb ≤ upperRef j k`, "ub ≥ V*" as `∀ j k, ub ≥ lowerRef j k` (V* = inf upperRef = sup lowerRef).

  Doubles are read as exact rationals (DESIGN §3).  Beliefs / vectors are functions `Nat → Rat` in the specification and `Array Rat`
  (`AITB.MDP.Vec`) where the compiled driver runs them.
-/
import AITB.Model.Num
import AITB.Model.MDP
import AITB.Model.Prune
import AITB.Gen.Constants
import AITB.Gen.C03Src

namespace AITB.POMDP
open AITB.MDP (sumTo maxTo argmaxTo absR Vec Mat mkVec mkMat checkEqualSmall checkDifferentSmall)

structure POMDP where
  S : Nat
  A : Nat
  O : Nat
  /-- getTransitionProbability(s,a,s1) -/
  T : Nat → Nat → Nat → Rat
  /-- getRewardFunction()(s,a) -/
  R : Nat → Nat → Rat
  /-- getObservationProbability(s1,a,o) -/
  Ob : Nat → Nat → Nat → Rat
  /-- getDiscount() -/
  γ : Rat

/-- the underlying MDP (what QMDP hands to ValueIteration) -/
def POMDP.toMDP (m : POMDP) : AITB.MDP.MDP :=
  { S := m.S, A := m.A, T := m.T, R3 := fun s a _ => m.R s a, R := m.R, γ := m.γ }

/-! ## specification: Bellman operator of the belief MDP on unnormalised beliefs -/

/-- `x · α` over the `S` states -/
def dotS (S : Nat) (x α : Nat → Rat) : Rat := sumTo S (fun s => x s * α s)

/-- total mass of an unnormalised belief -/
def mass (S : Nat) (x : Nat → Rat) : Rat := sumTo S x

/-- unnormalised belief update: `(x T_a)(s1) · O(s1,a,o)`  (updateBeliefPartial + updateBeliefPartialUnnormalized) -/
def bstep (m : POMDP) (x : Nat → Rat) (a o : Nat) : Nat → Rat :=
  fun s1 => sumTo m.S (fun s => x s * m.T s a s1) * m.Ob s1 a o

/-- expected immediate reward `x · R(:,a)` -/
def rew (m : POMDP) (x : Nat → Rat) (a : Nat) : Rat := sumTo m.S (fun s => x s * m.R s a)

/-- one-step look-ahead value of action `a` at `x` on the continuation `V` (V positively homogeneous, so nothing is normalised) -/
def qval (m : POMDP) (V : (Nat → Rat) → Rat) (x : Nat → Rat) (a : Nat) : Rat :=
  rew m x a + m.γ * sumTo m.O (fun o => V (bstep m x a o))

/-- Bellman optimality operator of the belief MDP -/
def Hop (m : POMDP) (V : (Nat → Rat) → Rat) (x : Nat → Rat) : Rat := maxTo (m.A - 1) (qval m V x)

/-- `H^k V0` -/
def iterH (m : POMDP) (V0 : (Nat → Rat) → Rat) : Nat → (Nat → Rat) → Rat
  | 0 => V0
  | k+1 => Hop m (iterH m V0 k)

/-- the linear function `x ↦ x · v` -/
def linV (S : Nat) (v : Nat → Rat) (x : Nat → Rat) : Rat := dotS S x v

/-- upper envelope of `n+1` vectors `x ↦ max_{i ≤ n} x · β i` -/
def maxLinV (S n : Nat) (β : Nat → Nat → Rat) (x : Nat → Rat) : Rat := maxTo n (fun i => dotS S x (β i))

/-- unit vector `e_s` -/
def unit (s : Nat) : Nat → Rat := fun i => if i = s then 1 else 0

/-! ## kernels of the solvers -/

/-- the vector a point-based backup creates for action `a` when observation `o` continues with vector `ch o`:
    `R(:,a) + γ Σ_o T_a (O(:,a,o) ∘ ch o)`   (Projecter + crossSumBestAtBelief; the α of bestConservativeAction) -/
def backupVec (m : POMDP) (a : Nat) (ch : Nat → Nat → Rat) : Nat → Rat :=
  fun s => m.R s a + m.γ * sumTo m.O (fun o => sumTo m.S (fun s1 => m.T s a s1 * m.Ob s1 a o * ch o s1))

/-- one Blind-strategies step for action `a` -/
def blindStep (m : POMDP) (a : Nat) (α : Nat → Rat) : Nat → Rat :=
  fun s => m.R s a + m.γ * sumTo m.S (fun s1 => m.T s a s1 * α s1)

/-- one FastInformedBound step on a SOSA table `W a o i j` over `n` (pseudo-)states with rewards `R i a`:
    `Q(i,a) = R(i,a) + γ Σ_o max_a' Σ_j W(a,o,i,j) Q(j,a')` -/
def fibStepW (n A O : Nat) (γ : Rat) (R : Nat → Nat → Rat) (W : Nat → Nat → Nat → Nat → Rat) (Q : Nat → Nat → Rat) : Nat → Nat → Rat :=
  fun i a => R i a + γ * sumTo O (fun o => maxTo (A - 1) (fun a' => sumTo n (fun j => W a o i j * Q j a')))

/-- `makeSOSA(m)[a][o](s,s1) = T(s,a,s1) · O(s1,a,o)` -/
def sosa (m : POMDP) : Nat → Nat → Nat → Nat → Rat := fun a o s s1 => m.T s a s1 * m.Ob s1 a o

/-- FastInformedBound step on the POMDP itself -/
def fibStep (m : POMDP) (Q : Nat → Nat → Rat) : Nat → Nat → Rat := fibStepW m.S m.A m.O m.γ m.R (sosa m) Q

/-- one QMDP (= MDP value iteration on Q) step: `Q(s,a) = R(s,a) + γ Σ_s1 T(s,a,s1) max_a' Q(s1,a')` -/
def qmdpStep (m : POMDP) (Q : Nat → Nat → Rat) : Nat → Nat → Rat :=
  fun s a => m.R s a + m.γ * sumTo m.S (fun s1 => m.T s a s1 * maxTo (m.A - 1) (Q s1))

/-- MDP Bellman backup of a state-value vector -/
def mdpStep (m : POMDP) (v : Nat → Rat) : Nat → Rat :=
  fun s => maxTo (m.A - 1) (fun a => m.R s a + m.γ * sumTo m.S (fun s1 => m.T s a s1 * v s1))

/-- value the corner part of the upper surface assigns to `x`: `(x^T · ubQ).maxCoeff()` -/
def basicVal (S A : Nat) (Q : Nat → Nat → Rat) (x : Nat → Rat) : Rat := maxTo (A - 1) (fun a => sumTo S (fun s => x s * Q s a))

/-- `ubQ.rowwise().maxCoeff()` -/
def cornerVal (A : Nat) (Q : Nat → Nat → Rat) (s : Nat) : Rat := maxTo (A - 1) (Q s)

/-- the value of an interpolation with corner weights `wc` and point weights `wp` (what LPInterpolation / sawtooth return when a
    stored point helps): `Σ_s wc_s · cornerVal_s + Σ_i wp_i · val_i` -/
def interpVal (S A N : Nat) (Q : Nat → Nat → Rat) (vals : Nat → Rat) (wc wp : Nat → Rat) : Rat :=
  sumTo S (fun s => wc s * cornerVal A Q s) + sumTo N (fun i => wp i * vals i)

/-- per-action value of `bestPromisingAction` given the interpolated value `iv o` of every (unnormalised) successor and the
    `checkEqualSmall(prob, 0)` skip flags -/
def promisingVal (m : POMDP) (x : Nat → Rat) (a : Nat) (skip : Nat → Bool) (iv : Nat → Rat) : Rat :=
  rew m x a + m.γ * sumTo m.O (fun o => if skip o then 0 else iv o)

/-! ## data level (what the driver runs): every iterate is materialised -/

def Vec.fn (v : Vec) : Nat → Rat := v.get
def Mat.fn (q : Mat) : Nat → Nat → Rat := q.get

def minTo : Nat → (Nat → Rat) → Rat
  | 0, f => f 0
  | n+1, f => if f (n+1) < minTo n f then f (n+1) else minTo n f

/-- `std::max(0.0001, 1.0 - discount)` — the literal is regenerated from the source -/
def clampDen (γ : Rat) : Rat := if 1 - γ < Gen.C03Src.clamp then Gen.C03Src.clamp else 1 - γ

/-- `ir.row(a).minCoeff()` -/
def minRa (m : POMDP) (a : Nat) : Rat := minTo (m.S - 1) (fun s => m.R s a)
/-- `ir.maxCoeff()` -/
def maxRall (m : POMDP) : Rat := maxTo (m.S - 1) (fun s => maxTo (m.A - 1) (m.R s))
def minRall (m : POMDP) : Rat := minTo (m.S - 1) (fun s => minTo (m.A - 1) (m.R s))

def maxRa (m : POMDP) (a : Nat) : Rat := maxTo (m.S - 1) (fun s => m.R s a)
/-- numerator of the fast start as the source has it now -/
def blindStartNum (m : POMDP) (a : Nat) : Rat := if Gen.C03Src.blindStartIsMin then minRa m a else maxRa m a
/-- numerator of the FIB start as the source has it now -/
def fibStartNum (m : POMDP) : Rat := if Gen.C03Src.fibStartIsMax then maxRall m else minRall m

def blindStepV (m : POMDP) (a : Nat) (α : Vec) : Vec := mkVec m.S (blindStep m a α.get)

def maxAbsDiffV (n : Nat) (a b : Vec) : Rat := AITB.MDP.maxAbsDiff n a.get b.get

structure LoopSt (σ : Type) where
  x : σ
  variation : Rat
  timestep : Nat

/-- the common `while (timestep < horizon && (!useTolerance || variation > tolerance))` loop; fuel = horizon -/
def tolLoop {σ : Type} (step : σ → σ) (dist : σ → σ → Rat) (useTol : Bool) (tol : Rat) : Nat → LoopSt σ → LoopSt σ
  | 0, st => st
  | fuel+1, st =>
    if useTol && !(decide (st.variation > tol)) then st
    else
      let y := step st.x
      tolLoop step dist useTol tol fuel ⟨y, if useTol then dist st.x y else st.variation, st.timestep + 1⟩

/-- BlindStrategies::operator() for one action: `(variation, alpha, iterations)` -/
def blindAction (m : POMDP) (fast : Bool) (horizon : Nat) (tol : Rat) (a : Nat) : LoopSt Vec :=
  let start : Vec := if fast then mkVec m.S (fun _ => blindStartNum m a / clampDen m.γ) else mkVec m.S (fun s => m.R s a)
  tolLoop (blindStepV m a) (maxAbsDiffV m.S) (checkDifferentSmall tol 0) tol horizon ⟨start, tol * 2, 0⟩

structure BlindOut where
  variation : Rat
  alphas : List Vec
  steps : List Nat

def maxL (l : List Rat) (init : Rat) : Rat := l.foldl (fun m x => if m < x then x else m) init

def blind (m : POMDP) (fast : Bool) (horizon : Nat) (tol : Rat) : BlindOut :=
  let rs := (List.range m.A).map (blindAction m fast horizon tol)
  let useTol := checkDifferentSmall tol 0
  ⟨if useTol then maxL (rs.map (·.variation)) 0 else 0, rs.map (·.x), rs.map (·.timestep)⟩

/-- the same step with the reduction over next actions the source has now (`maxCoeff` unless the extractor says otherwise) -/
def fibStepWsrc (n A O : Nat) (γ : Rat) (R : Nat → Nat → Rat) (W : Nat → Nat → Nat → Nat → Rat) (Q : Nat → Nat → Rat) : Nat → Nat → Rat :=
  if Gen.C03Src.fibInnerIsMax then fibStepW n A O γ R W Q
  else fun i a => R i a + γ * sumTo O (fun o => minTo (A - 1) (fun a' => sumTo n (fun j => W a o i j * Q j a')))

def fibStepM (m : POMDP) (Q : Mat) : Mat := mkMat m.S m.A (fibStepWsrc m.S m.A m.O m.γ m.R (sosa m) Q.get)
def maxAbsDiffM (S A : Nat) (x y : Mat) : Rat :=
  maxTo (S - 1) (fun s => maxTo (A - 1) (fun a => absR (x.get s a - y.get s a)))

/-- FastInformedBound::operator()(m) with the default (empty) start -/
def fib (m : POMDP) (horizon : Nat) (tol : Rat) : LoopSt Mat :=
  let start : Mat := mkMat m.S m.A (fun _ _ => fibStartNum m / clampDen m.γ)
  let useTol := checkDifferentSmall tol 0
  let st := tolLoop (fibStepM m) (maxAbsDiffM m.S m.A) useTol tol horizon ⟨start, tol * 2, 0⟩
  { st with variation := if useTol then st.variation else 0 }

/-- FIB on an explicit SOSA table (GapMin's belief-augmented POMDP), warm start `Q0` -/
def fibW (n A O : Nat) (γ : Rat) (R : Mat) (W : Nat → Nat → Nat → Nat → Rat) (Q0 : Mat) (horizon : Nat) (tol : Rat) : LoopSt Mat :=
  let useTol := checkDifferentSmall tol 0
  tolLoop (fun Q => mkMat n A (fibStepWsrc n A O γ R.get W Q.get)) (maxAbsDiffM n A) useTol tol horizon ⟨Q0, tol * 2, 0⟩

def qmdpStepM (m : POMDP) (Q : Mat) : Mat := mkMat m.S m.A (qmdpStep m Q.get)
def mdpStepV (m : POMDP) (v : Vec) : Vec := mkVec m.S (mdpStep m v.get)

def iterV {σ : Type} (f : σ → σ) : Nat → σ → σ
  | 0, x => x
  | k+1, x => iterV f k (f x)

def bstepV (m : POMDP) (x : Vec) (a o : Nat) : Vec := mkVec m.S (bstep m x.get a o)

/-- `H^k V0` on materialised beliefs (cost (A·O)^k) -/
def iterHV (m : POMDP) (V0 : Vec → Rat) : Nat → Vec → Rat
  | 0, x => V0 x
  | k+1, x => maxTo (m.A - 1) (fun a => rew m x.get a + m.γ * sumTo m.O (fun o => iterHV m V0 k (bstepV m x a o)))

def linVV (S : Nat) (v : Vec) (x : Vec) : Rat := dotS S x.get v.get
def maxLinVV (S : Nat) (βs : Array Vec) (x : Vec) : Rat := maxTo (βs.size - 1) (fun i => dotS S x.get (βs.getD i #[]).get)

/-- `upperRef`: `j` MDP backups of the constant `c`, then `k` belief-MDP backups -/
def upperRefV (m : POMDP) (c : Rat) (j k : Nat) (x : Vec) : Rat :=
  iterHV m (linVV m.S (iterV (mdpStepV m) j (mkVec m.S (fun _ => c)))) k x

/-- `lowerRef`: `j` blind steps of every action from the constants `c a`, then `k` belief-MDP backups -/
def lowerRefV (m : POMDP) (c : Nat → Rat) (j k : Nat) (x : Vec) : Rat :=
  iterHV m (maxLinVV m.S ((Array.range m.A).map (fun a => iterV (blindStepV m a) j (mkVec m.S (fun _ => c a))))) k x

/-! ## bestConservativeAction / bestPromisingAction as written (data level) -/

def dotV (S : Nat) (x α : Vec) : Rat := dotS S x.get α.get

/-- `findBestAtPoint(x, begin(Γ), end(Γ))`: highest value at `x`, exact ties broken by `veccmp` (the C12 model of the same function) -/
def bestAt (_S : Nat) (x : Vec) (Γ : Array Vec) : Nat :=
  AITB.Prune.findBest (fun v => AITB.Prune.dot x.toList v) (Γ.toList.map Array.toList)

/-- the α-vector `bestConservativeAction` builds for action `a` at belief `b`: per observation the best vector of `Γ` at the
    successor; `skips = true` (the source as found): nothing at all when `checkEqualSmall(prob, 0)`; `skips = false` (repaired):
    the best vector at the unnormalised successor (any vector of `Γ` when the successor is exactly zero) -/
def conservativeAlphaOf (skips : Bool) (m : POMDP) (b : Vec) (Γ : Array Vec) (a : Nat) : Vec :=
  let ch : Nat → Nat → Rat := fun o =>
    let nb := bstepV m b a o
    if skips && checkEqualSmall (mass m.S nb.get) 0 then (fun _ => 0) else (Γ.getD (bestAt m.S nb Γ) #[]).get
  mkVec m.S (backupVec m a ch)

/-- as the source has it now (`Gen.C03Src.consSkips`) -/
def conservativeAlpha (m : POMDP) (b : Vec) (Γ : Array Vec) (a : Nat) : Vec := conservativeAlphaOf Gen.C03Src.consSkips m b Γ a

/-- `(action, value, alpha)` of `bestConservativeAction` -/
def bestConservative (m : POMDP) (b : Vec) (Γ : Array Vec) : Nat × Rat × Vec :=
  let αs := (Array.range m.A).map (conservativeAlpha m b Γ)
  let id := argmaxTo (m.A - 1) (fun a => dotV m.S b (αs.getD a #[]))
  (id, dotV m.S b (αs.getD id #[]), αs.getD id #[])
>>>>>>> c03

end AITB.POMDP
