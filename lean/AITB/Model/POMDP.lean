/-
  AITB.Model.POMDP — executable model for C02 (exact POMDP solvers).  Core Lean only.

  Modelled code (paths relative to the library root):
    include/AIToolbox/POMDP/Utils.hpp              updateBeliefUnnormalized, beliefExpectedReward, crossSumBestAtBelief (all three overloads)
    include/AIToolbox/Utils/Polytope.hpp           findBestAtPoint (value and first-best index; the `veccmp` tie-break only picks among equal values)
    include/AIToolbox/POMDP/Algorithms/Utils/Projecter.hpp   computePossibleObservations, computeImmediateRewards (R/|O|), operator()(w,a), operator()(w)
    src/POMDP/Algorithms/IncrementalPruning.cpp    crossSum (values only)
    include/AIToolbox/POMDP/Algorithms/IncrementalPruning.hpp  the per-action merge of the |O| projected lists with a pruner after every merge
                                                   (`ipAction`, left-to-right bracketing; the C++ reverse-binary-tree schedule is another bracketing of the same cross-sum)
    include/AIToolbox/POMDP/Algorithms/RTBSS.hpp   sampleAction, simulate, upperBound  — as written, including the `-inf` start, the strict comparisons,
                                                   the pruned branch that leaves `rew` at the immediate reward, and `checkDifferentSmall(sum, 0.0)`
  The property's own definition: `expectimax` (exhaustive recursion over action–observation trees, zero-probability observations skipped).

  Doubles are read as exact rationals (DESIGN §3).  Vectors are data (`Array Rat`); sizes are explicit.
-/
import AITB.Model.Num
import AITB.Model.MDP
import AITB.Gen.Constants
import AITB.Model.PlanOps

namespace AITB.POMDP
open AITB.MDP (sumTo maxTo argmaxTo Vec mkVec absR)

/-- POMDP tables: `T s a s1`, `R s a`, `Ob s1 a o` (= getObservationProbability(s1,a,o)), discount `γ` -/
structure Model where
  S : Nat
  A : Nat
  O : Nat
  T : Nat → Nat → Nat → Rat
  R : Nat → Nat → Rat
  Ob : Nat → Nat → Nat → Rat
  γ : Rat

/-! ## vectors -/

/-- `a.dot(b)` over `n` entries -/
def dot (n : Nat) (a b : Vec) : Rat := sumTo n (fun s => a.get s * b.get s)
def vadd (n : Nat) (a b : Vec) : Vec := mkVec n (fun s => a.get s + b.get s)
def vzero (n : Nat) : Vec := mkVec n (fun _ => 0)
def vsum (n : Nat) (v : Vec) : Rat := sumTo n v.get
def vdiv (n : Nat) (v : Vec) (c : Rat) : Vec := mkVec n (fun s => v.get s / c)

/-- maximum of a list (0 on the empty list, which no caller passes) -/
def lmax : List Rat → Rat
  | [] => 0
  | [x] => x
  | x :: y :: r => if lmax (y :: r) < x then x else lmax (y :: r)

/-- upper envelope of a vector list at a point: `findBestAtPoint(b, begin, end, &value)`'s value -/
def env (n : Nat) (Γ : List Vec) (b : Vec) : Rat := lmax (Γ.map (fun α => dot n b α))

/-! ## belief update and the property's definition of optimal value -/

/-- `updateBeliefUnnormalized(model, b, a, o)` -/
def updU (m : Model) (b : Vec) (a o : Nat) : Vec :=
  mkVec m.S (fun s1 => m.Ob s1 a o * sumTo m.S (fun s => b.get s * m.T s a s1))

/-- `beliefExpectedReward(model, b, a)` = R.col(a).dot(b) -/
def expReward (m : Model) (b : Vec) (a : Nat) : Rat := sumTo m.S (fun s => m.R s a * b.get s)

/-- value of action `a` at belief `b` when the continuation is worth `V`: observations of probability 0 are skipped,
    the others lead to the Bayes-updated (normalised) belief -/
def qOf (m : Model) (V : Vec → Rat) (b : Vec) (a : Nat) : Rat :=
  expReward m b a + m.γ * sumTo m.O (fun o =>
    let u := updU m b a o
    let p := vsum m.S u
    if p = 0 then 0 else p * V (vdiv m.S u p))

/-- optimal h-step expected discounted return from belief b: exhaustive expectimax over action–observation trees -/
def expectimax (m : Model) : Nat → Vec → Rat
  | 0 => fun _ => 0
  | h+1 => fun b => maxTo (m.A - 1) (qOf m (expectimax m h) b)

/-- the same recursion when observations of probability `≤ τ` are skipped (`checkDifferentSmall(sum, 0.0)` with τ = 1e-6) -/
def qOfT (m : Model) (τ : Rat) (V : Vec → Rat) (b : Vec) (a : Nat) : Rat :=
  expReward m b a + sumTo m.O (fun o =>
    let u := updU m b a o
    let p := vsum m.S u
    if absR p ≤ τ then 0 else m.γ * p * V (vdiv m.S u p))

def expectimaxT (m : Model) (τ : Rat) : Nat → Vec → Rat
  | 0 => fun _ => 0
  | h+1 => fun b => maxTo (m.A - 1) (qOfT m τ (expectimaxT m τ h) b)

/-! ## Projecter and the full one-step backup -/

/-- `possibleObservations_[a][o]`: some state has `checkDifferentSmall(O(s,a,o), 0.0)` -/
def possible (m : Model) (τ : Rat) (a o : Nat) : Bool :=
  (List.range m.S).any (fun s => decide (τ < absR (m.Ob s a o)))

/-- `immediateRewards_.row(a)` = R(·,a)/|O| -/
def immR (m : Model) (a : Nat) : Vec := mkVec m.S (fun s => m.R s a / (m.O : Rat))

/-- one projection: `T(a) * (v ∘ O(a).col(o)) * discount + immediateRewards_.row(a)` -/
def projVec (m : Model) (α : Vec) (a o : Nat) : Vec :=
  mkVec m.S (fun s => sumTo m.S (fun s1 => m.T s a s1 * (α.get s1 * m.Ob s1 a o)) * m.γ + m.R s a / (m.O : Rat))

/-- `projections[a][o]`: one vector per previous vector, or the single immediate-reward vector when `o` is impossible under `a` -/
def projList (m : Model) (τ : Rat) (Γ : List Vec) (a o : Nat) : List Vec :=
  if possible m τ a o then Γ.map (fun α => projVec m α a o) else [immR m a]

/-- `IncrementalPruning::crossSum` (values) -/
def crossSum (n : Nat) (l1 l2 : List Vec) : List Vec :=
  l1.flatMap (fun v1 => l2.map (fun v2 => vadd n v1 v2))

/-- cross-sum of the lists `P 0 … P (k-1)` -/
def crossTo (n : Nat) : Nat → (Nat → List Vec) → List Vec
  | 0, _ => [vzero n]
  | k+1, P => crossSum n (crossTo n k P) (P k)

/-- concatenation of the lists `G 0 … G (k-1)` -/
def unionTo : Nat → (Nat → List Vec) → List Vec
  | 0, _ => []
  | k+1, G => unionTo k G ++ G k

/-- every vector obtainable with action `a` by assigning one previous vector to each observation -/
def backupA (m : Model) (τ : Rat) (Γ : List Vec) (a : Nat) : List Vec :=
  crossTo m.S m.O (projList m τ Γ a)

/-- the full (unpruned) one-step alpha-vector backup -/
def backupAll (m : Model) (τ : Rat) (Γ : List Vec) : List Vec :=
  unionTo m.A (backupA m τ Γ)

/-- `makeValueFunction(S)` then h exact backups -/
def backupIter (m : Model) (τ : Rat) : Nat → List Vec
  | 0 => [vzero m.S]
  | h+1 => backupAll m τ (backupIter m τ h)

/-! ## Incremental pruning's interleaving, with the pruner as a parameter -/

/-- prune each projected list, then merge them one by one pruning after every cross-sum -/
def ipActionTo (n : Nat) (prune : List Vec → List Vec) : Nat → (Nat → List Vec) → List Vec
  | 0, _ => [vzero n]
  | k+1, P => prune (crossSum n (ipActionTo n prune k P) (prune (P k)))

/-- one timestep of `IncrementalPruning::operator()`: per-action merges, union over actions, final prune -/
def ipStep (m : Model) (τ : Rat) (prune : List Vec → List Vec) (Γ : List Vec) : List Vec :=
  prune (unionTo m.A (fun a => ipActionTo m.S prune m.O (projList m τ Γ a)))

def ipIter (m : Model) (τ : Rat) (prune : List Vec → List Vec) : Nat → List Vec
  | 0 => [vzero m.S]
  | h+1 => ipStep m τ prune (ipIter m τ prune h)

/-! ## IncrementalPruning's merge schedule AS WRITTEN (the "reverse binary tree" loop with front/back/stepsize/diff)

  `ipSchedule O` replays the index arithmetic of the C++ loop and returns the sequence of merges `(i, i+diff)` it performs and the
  slot `front` where the result ends up.  `ipRun` applies those merges to the slots (cross-sum + prune after each), `symRun` applies
  them to sets of observation indices; `scheduleOK O` says the final slot has collected every observation exactly once. -/

structure IpSched where
  front : Int
  back : Int
  stepsize : Int
  diff : Int
  elements : Nat
  oddOld : Bool

/-- `for ( i = front; i != back; i += stepsize ) { merge(i, i+diff); --elements; }` (fuel = elements: each pass decrements it) -/
def ipInner (back stepsize diff : Int) : Nat → Int → Nat → List (Nat × Nat) × Nat
  | 0, _, el => ([], el)
  | f+1, i, el =>
    if i = back then ([], el)
    else
      let r := ipInner back stepsize diff f (i + stepsize) (el - 1)
      ((i.toNat, (i + diff).toNat) :: r.1, r.2)

/-- `while ( elements > 1 ) { … }` -/
def ipOuter : Nat → IpSched → List (Nat × Nat) × Int
  | 0, st => ([], st.front)
  | f+1, st =>
    if st.elements ≤ 1 then ([], st.front)
    else
      let r := ipInner st.back st.stepsize st.diff st.elements st.front st.elements
      let oddNew := r.2 % 2 == 1
      let st' : IpSched :=
        { front := st.back - (if st.oddOld then 0 else st.stepsize),
          back := st.front - (if oddNew then 0 else st.stepsize),
          stepsize := st.stepsize * (-2), diff := st.diff * (-2), elements := r.2, oddOld := oddNew }
      let r2 := ipOuter f st'
      (r.1 ++ r2.1, r2.2)

def ipSchedule (O : Nat) : List (Nat × Nat) × Nat :=
  let odd := O % 2 == 1
  let r := ipOuter O ⟨0, (O : Int) - (if odd then 1 else 0), 2, 1, O, odd⟩
  (r.1, r.2.toNat)

def updSlot {α : Type} (f : Nat → α) (i : Nat) (v : α) : Nat → α := fun j => if j = i then v else f j

/-- `projs[a][i] = prune(crossSum(projs[a][i], projs[a][i+diff]))` for every scheduled merge -/
def ipRun (n : Nat) (prune : List Vec → List Vec) : List (Nat × Nat) → (Nat → List Vec) → (Nat → List Vec)
  | [], sl => sl
  | (d, s) :: ms, sl => ipRun n prune ms (updSlot sl d (prune (crossSum n (sl d) (sl s))))

def symRun : List (Nat × Nat) → (Nat → List Nat) → (Nat → List Nat)
  | [], sl => sl
  | (d, s) :: ms, sl => symRun ms (updSlot sl d (sl d ++ sl s))

/-- the per-action part of `IncrementalPruning::operator()` as written: prune every projected list, run the schedule, take slot `front` -/
def ipActionW (n : Nat) (prune : List Vec → List Vec) (O : Nat) (P : Nat → List Vec) : List Vec :=
  ipRun n prune (ipSchedule O).1 (fun o => prune (P o)) (ipSchedule O).2

/-- decidable: the schedule for `O` observations gathers each observation index exactly once in the final slot -/
def scheduleOK (O : Nat) : Bool :=
  (symRun (ipSchedule O).1 (fun o => [o]) (ipSchedule O).2).isPerm (List.range O)

def ipStepW (m : Model) (τ : Rat) (prune : List Vec → List Vec) (Γ : List Vec) : List Vec :=
  prune (unionTo m.A (fun a => ipActionW m.S prune m.O (projList m τ Γ a)))

def ipIterW (m : Model) (τ : Rat) (prune : List Vec → List Vec) : Nat → List Vec
  | 0 => [vzero m.S]
  | h+1 => ipStepW m τ prune (ipIterW m τ prune h)

/-! ## crossSumBestAtBelief (used by Witness and LinearSupport to build the support vector of a belief) -/

/-- first element of `l` with the largest `b·α` (value part of `findBestAtPoint`; ties between *different* vectors are broken by
    `veccmp` in the C++, which does not change the value) -/
def bestAt (n : Nat) (b : Vec) : List Vec → Vec
  | [] => vzero n
  | [x] => x
  | x :: y :: r => if dot n b (bestAt n b (y :: r)) < dot n b x then x else bestAt n b (y :: r)

/-- `crossSumBestAtBelief(b, row, &entry, &value)`: sum over observations of the best projected vector at `b` -/
def bestRowTo (n : Nat) (b : Vec) : Nat → (Nat → List Vec) → Vec
  | 0, _ => vzero n
  | k+1, P => vadd n (bestRowTo n b k P) (bestAt n b (P k))

/-- `crossSumBestAtBelief(b, projs, &value)`: best action's vector (first maximum over actions, strict `>` to replace) -/
def bestBackupAt (m : Model) (τ : Rat) (Γ : List Vec) (b : Vec) : Vec :=
  let val := fun a => dot m.S b (bestRowTo m.S b m.O (projList m τ Γ a))
  bestRowTo m.S b m.O (projList m τ Γ (argmaxTo (m.A - 1) val))

/-! ## Witness: vectors as sums of one chosen projection per observation, and their one-observation variations -/

/-- Σ_{o<k} c o : the vector `crossSumBestAtBelief` / `addVariations` assemble from one chosen projection per observation -/
def sumVecTo (n : Nat) : Nat → (Nat → Vec) → Vec
  | 0, _ => vzero n
  | k+1, c => vadd n (sumVecTo n k c) (c k)

/-! ## RTBSS as written -/

/-- `RTBSS::upperBound`: discount * maxR * horizon -/
def rtUpper (m : Model) (maxR : Rat) (h : Nat) : Rat := m.γ * maxR * (h : Rat)

/-- loop state of `simulate`: `max` (`none` = -infinity) and the action that set it -/
structure RtAcc where
  max : Option Rat
  arg : Nat
  deriving Repr

/-- `x > max` with `max = -inf` encoded as `none` -/
def gtOpt (x : Rat) : Option Rat → Bool
  | none => true
  | some v => decide (v < x)

/-- Σ_o over observations with `checkDifferentSmall(sum, 0.0)`: discount * sum * simulate(next / sum, horizon-1) -/
def rtFuture (m : Model) (τ : Rat) (V : Vec → Rat) (b : Vec) (a : Nat) : Rat :=
  sumTo m.O (fun o =>
    let u := updU m b a o
    let p := vsum m.S u
    if absR p ≤ τ then 0 else m.γ * p * V (vdiv m.S u p))

/-- body of `for (auto a : actionList)`; `hprev = horizon - 1` -/
def rtStep (m : Model) (τ maxR : Rat) (V : Vec → Rat) (hprev : Nat) (b : Vec) (acc : RtAcc) (a : Nat) : RtAcc :=
  let rew0 := expReward m b a
  let uBound := rew0 + rtUpper m maxR hprev
  let rew := if gtOpt uBound acc.max then rew0 + rtFuture m τ V b a else rew0
  if gtOpt rew acc.max then ⟨some rew, a⟩ else acc

/-- state after actions 0..n-1 -/
def rtLoop (m : Model) (τ maxR : Rat) (V : Vec → Rat) (hprev : Nat) (b : Vec) : Nat → RtAcc
  | 0 => ⟨none, 0⟩
  | n+1 => rtStep m τ maxR V hprev b (rtLoop m τ maxR V hprev b n) n

/-- `RTBSS::simulate(b, horizon)` (value; `-inf` cannot be returned when A ≥ 1, it is rendered as 0 for A = 0) -/
def rtSim (m : Model) (τ maxR : Rat) : Nat → Vec → Rat
  | 0 => fun _ => 0
  | h+1 => fun b => ((rtLoop m τ maxR (rtSim m τ maxR h) h b m.A).max).getD 0

/-- `RTBSS::sampleAction(b, horizon)` = (maxA_, value); maxA_ is written only by the top-level loop -/
def rtSample (m : Model) (τ maxR : Rat) (h : Nat) (b : Vec) : Nat × Rat :=
  match h with
  | 0 => (0, 0)
  | h+1 =>
    let acc := rtLoop m τ maxR (rtSim m τ maxR h) h b m.A
    (acc.arg, acc.max.getD 0)

/-! ## RTBSS parameterised by the two syntactic facts `tools/extract_c02.py` reads from the source

  `geo`    : `upperBound` is the geometric sum Σ_{t=1..h} γ^t·maxR (repaired) instead of γ·maxR·h (as shipped)
  `inside` : `if ( rew > max )` is inside the `if ( uBound > max )` block (repaired) instead of after it (as shipped)
  `rtSampleC ⟨false,false⟩` is `rtSample` (theorem `rtSampleC_shipped`). -/

structure RtCfg where
  geo : Bool
  inside : Bool
  deriving Repr, DecidableEq

/-- the repaired `upperBound` loop: `d *= discount; bound += d * maxR`, `h` times; state (bound, d) -/
def rtGeoLoop (γ maxR : Rat) : Nat → Rat × Rat
  | 0 => (0, 1)
  | t+1 => ((rtGeoLoop γ maxR t).1 + (rtGeoLoop γ maxR t).2 * γ * maxR, (rtGeoLoop γ maxR t).2 * γ)

def rtUpperC (cfg : RtCfg) (m : Model) (maxR : Rat) (h : Nat) : Rat :=
  if cfg.geo then (rtGeoLoop m.γ maxR h).1 else rtUpper m maxR h

def rtStepC (cfg : RtCfg) (m : Model) (τ maxR : Rat) (V : Vec → Rat) (hprev : Nat) (b : Vec) (acc : RtAcc) (a : Nat) : RtAcc :=
  let rew0 := expReward m b a
  let uBound := rew0 + rtUpperC cfg m maxR hprev
  if cfg.inside then
    if gtOpt uBound acc.max then
      (if gtOpt (rew0 + rtFuture m τ V b a) acc.max then ⟨some (rew0 + rtFuture m τ V b a), a⟩ else acc)
    else acc
  else
    let rew := if gtOpt uBound acc.max then rew0 + rtFuture m τ V b a else rew0
    if gtOpt rew acc.max then ⟨some rew, a⟩ else acc

def rtLoopC (cfg : RtCfg) (m : Model) (τ maxR : Rat) (V : Vec → Rat) (hprev : Nat) (b : Vec) : Nat → RtAcc
  | 0 => ⟨none, 0⟩
  | n+1 => rtStepC cfg m τ maxR V hprev b (rtLoopC cfg m τ maxR V hprev b n) n

def rtSimC (cfg : RtCfg) (m : Model) (τ maxR : Rat) : Nat → Vec → Rat
  | 0 => fun _ => 0
  | h+1 => fun b => ((rtLoopC cfg m τ maxR (rtSimC cfg m τ maxR h) h b m.A).max).getD 0

def rtSampleC (cfg : RtCfg) (m : Model) (τ maxR : Rat) (h : Nat) (b : Vec) : Nat × Rat :=
  match h with
  | 0 => (0, 0)
  | h+1 =>
    let acc := rtLoopC cfg m τ maxR (rtSimC cfg m τ maxR h) h b m.A
    (acc.arg, acc.max.getD 0)

/-! ## validity predicates evaluated by the driver -/

def allLt (n : Nat) (p : Nat → Bool) : Bool := (List.range n).all p

/-- transition and observation rows are probability vectors (exactly) -/
def validB (m : Model) : Bool :=
  decide (0 < m.S) && decide (0 < m.A) && decide (0 < m.O) &&
  allLt m.S (fun s => allLt m.A (fun a =>
    allLt m.S (fun s1 => decide (0 ≤ m.T s a s1)) && decide (sumTo m.S (fun s1 => m.T s a s1) = 1) &&
    allLt m.O (fun o => decide (0 ≤ m.Ob s a o)) && decide (sumTo m.O (fun o => m.Ob s a o) = 1)))

/-- no observation probability lies in the tolerance band (0, τ] -/
def sepB (m : Model) (τ : Rat) : Bool :=
  allLt m.S (fun s => allLt m.A (fun a => allLt m.O (fun o => decide (m.Ob s a o = 0) || decide (τ < m.Ob s a o))))

def simplexB (n : Nat) (b : Vec) : Bool :=
  allLt n (fun s => decide (0 ≤ b.get s)) && decide (sumTo n b.get = 1)

/-! ## the linear system `findVerticesNaive` assembles for one plane against one subset of planes and simplex boundaries
  (include/AIToolbox/Utils/Polytope.hpp).  Only the system is modelled (rows and their meaning), not the QR solve. -/

/-- one element of the subset `findVerticesNaive` enumerates: a plane, or the simplex boundary `x_d = 0` -/
inductive FvnElem where
  | plane (α : Vec)
  | boundary (d : Nat)

/-- a linear equation `coef·x + cv·v = rhs` over the unknowns (x, v) -/
structure FvnRow where
  coef : Vec
  cv : Rat
  rhs : Rat

def FvnRow.holds (S : Nat) (r : FvnRow) (x : Vec) (v : Rat) : Bool := decide (dot S r.coef x + r.cv * v = r.rhs)

def fvnPlaneRows : List FvnElem → List FvnRow
  | [] => []
  | .plane α :: r => ⟨α, -1, 0⟩ :: fvnPlaneRows r
  | .boundary _ :: r => fvnPlaneRows r

def fvnBoundaryRows (S : Nat) : List FvnElem → List FvnRow
  | [] => []
  | .plane _ :: r => fvnBoundaryRows S r
  | .boundary d :: r => ⟨mkVec S (fun s => if s = d then 1 else 0), 0, 0⟩ :: fvnBoundaryRows S r

def fvnLimited : List FvnElem → Nat → Bool
  | [], _ => false
  | .plane _ :: r, s => fvnLimited r s
  | .boundary d :: r, s => d == s || fvnLimited r s

/-- the system solved for the plane `new` against the subset `sub`.
    `rowsForm = false` (as shipped): the boundaries are merged into ONE row "sum of the non-limited coordinates = 1";
    `rowsForm = true` (repaired): one row `x_d = 0` per boundary and the row "sum of all coordinates = 1". -/
def fvnRows (rowsForm : Bool) (S : Nat) (new : Vec) (sub : List FvnElem) : List FvnRow :=
  if rowsForm then
    ⟨new, -1, 0⟩ :: (fvnPlaneRows sub ++ fvnBoundaryRows S sub ++ [⟨mkVec S (fun _ => 1), 0, 1⟩])
  else
    ⟨new, -1, 0⟩ :: (fvnPlaneRows sub ++ [⟨mkVec S (fun s => if fvnLimited sub s then 0 else 1), 0, 1⟩])

def fvnSolves (rowsForm : Bool) (S : Nat) (new : Vec) (sub : List FvnElem) (x : Vec) (v : Rat) : Bool :=
  (fvnRows rowsForm S new sub).all (fun r => r.holds S x v)

/-! ## L3 checker for clause (i): every returned vector is a genuine backup of the previous returned list -/

/-- equal on the first n entries (the only ones a dot product over n states reads) -/
def vecEqN (n : Nat) (a b : Vec) : Bool := allLt n (fun s => decide (a.get s = b.get s))

def memN (n : Nat) (l : List Vec) (v : Vec) : Bool := l.any (fun w => vecEqN n w v)

/-- every vector of `cur` is (entrywise) a member of the full backup of `prev` -/
def checkBackupStep (m : Model) (τ : Rat) (prev cur : List Vec) : Bool :=
  !cur.isEmpty && cur.all (fun α => memN m.S (backupAll m τ prev) α)

/-- the chain of lists returned for timesteps 1, 2, … starting from `prev` -/
def checkChain (m : Model) (τ : Rat) : List Vec → List (List Vec) → Bool
  | _, [] => true
  | prev, cur :: rest => checkBackupStep m τ prev cur && checkChain m τ cur rest

def lastOf (prev : List Vec) : List (List Vec) → List Vec
  | [] => prev
  | cur :: rest => lastOf cur rest

/-! ## Witness: the per-action agenda loop of `Witness::operator()` (LP `findWitness` = oracle parameter) -/

/-- a VEntry's `observations`: for each observation the index of the chosen projection -/
abbrev Choice := List Nat

/-- the projection chosen for observation `o` -/
def choiceVecAt (n : Nat) (P : Nat → List Vec) (c : Choice) : Nat → Vec := fun o => (P o).getD (c.getD o 0) (vzero n)

/-- the VEntry's values: Σ_o projs[o][c[o]] -/
def choiceSum (n k : Nat) (P : Nat → List Vec) (c : Choice) : Vec := sumVecTo n k (choiceVecAt n P c)

/-- every `vObs` that `addVariations(projs, variated)` visits: for each o, every i ≠ variated.observations[o] -/
def allVars (k : Nat) (P : Nat → List Vec) (c : Choice) : List Choice :=
  (List.range k).flatMap (fun o => ((List.range (P o).length).filter (fun i => i != c.getD o 0)).map (fun i => c.set o i))

/-- the body of `addVariations`: skip what is in `triedVectors_`, otherwise record it and push it on the agenda -/
def addVars (vs : List Choice) (ag tr : List Choice) : List Choice × List Choice :=
  vs.foldl (fun p v => if v ∈ p.2 then p else (v :: p.1, v :: p.2)) (ag, tr)

/-- U[a] (as choices), `agenda_` (head = `back()`), `triedVectors_` -/
structure WState where
  U : List Choice
  agenda : List Choice
  tried : List Choice

/-- one iteration of `while ( !agenda_.empty() )`: `findWitness(agenda_.back())`; a witness point `w` yields
    `crossSumBestAtBelief(w, projections[a], a)` (here `best w`), which joins U and whose variations join the agenda (the examined
    entry stays); no witness pops the entry -/
def wStep (n k : Nat) (P : Nat → List Vec) (oracle : List Vec → Vec → Option Vec) (best : Vec → Choice) (st : WState) : WState :=
  match st.agenda with
  | [] => st
  | v :: rest =>
    match oracle (st.U.map (choiceSum n k P)) (choiceSum n k P v) with
    | some w =>
      let r := addVars (allVars k P (best w)) (v :: rest) st.tried
      ⟨st.U ++ [best w], r.1, r.2⟩
    | none => ⟨st.U, rest, st.tried⟩

def wLoop (n k : Nat) (P : Nat → List Vec) (oracle : List Vec → Vec → Option Vec) (best : Vec → Choice) : Nat → WState → WState
  | 0, st => st
  | f+1, st => wLoop n k P oracle best f (wStep n k P oracle best st)

/-- `addDefaultEntry`: the all-zero choice is tried and is the only agenda entry; U is empty -/
def wInit (k : Nat) : WState := ⟨[], [List.replicate k 0], [List.replicate k 0]⟩

/-! ## `findBestAtPoint` with its tie-break, and `crossSumBestAtBelief` built on it -/

/-- `veccmp(a, b) > 0`: at the first index where they differ, `a` is larger -/
def vecGt : Nat → Vec → Vec → Bool
  | 0, _, _ => false
  | n+1, a, b => vecGt n a b || (allLt n (fun i => decide (a.get i = b.get i)) && decide (b.get n < a.get n))

/-- `findBestAtPoint(point, begin, end)` as written: scan forward, replace on a larger value or on an equal value with a
    lexicographically greater vector -/
def bestAtV (n : Nat) (b : Vec) : List Vec → Vec
  | [] => vzero n
  | x :: r => r.foldl (fun best y =>
      if dot n b best < dot n b y || (decide (dot n b y = dot n b best) && vecGt n y best) then y else best) x

def bestRowToV (n : Nat) (b : Vec) : Nat → (Nat → List Vec) → Vec
  | 0, _ => vzero n
  | k+1, P => vadd n (bestRowToV n b k P) (bestAtV n b (P k))

/-- `crossSumBestAtBelief(b, projs)` with `findBestAtPoint`'s tie-break inside each observation; first action on equal values -/
def bestBackupAtV (m : Model) (τ : Rat) (Γ : List Vec) (b : Vec) : Vec :=
  let val := fun a => dot m.S b (bestRowToV m.S b m.O (projList m τ Γ a))
  bestRowToV m.S b m.O (projList m τ Γ (argmaxTo (m.A - 1) val))

/-! ## LinearSupport: the agenda loop of `LinearSupport::operator()` for one timestep (vertex enumeration = oracle parameter) -/

/-- `struct Vertex { belief, support, currentValue, error }` -/
structure LSVertex where
  belief : Vec
  support : Vec
  currentValue : Rat
  error : Rat

/-- goodSupports, agenda_, triedVertices, and the `vertices` batch to examine next -/
structure LSState where
  good : List Vec
  agenda : List LSVertex
  tried : List Vec
  verts : List Vec

/-- the `for` over `vertices`: skip tried ones; `trueValue`/`support` from `crossSumBestAtBelief(vertex, projections)` (= `sup vertex`),
    `currentValue` recomputed with `findBestAtPoint` over goodSupports; push when `acc (trueValue - currentValue)`
    (`diff > tolerance_ && checkDifferentGeneral(diff, tolerance_)`); always mark tried -/
def lsScan (m : Model) (sup : Vec → Vec) (acc : Rat → Bool) (good : List Vec) :
    List Vec → List LSVertex → List Vec → List LSVertex × List Vec
  | [], ag, tr => (ag, tr)
  | x :: xs, ag, tr =>
    if tr.any (fun y => y == x) then lsScan m sup acc good xs ag tr
    else
      let sp := sup x
      let cur := env m.S good x
      let diff := dot m.S x sp - cur
      lsScan m sup acc good xs (if acc diff then ag ++ [⟨x, sp, cur, diff⟩] else ag) (x :: tr)

/-- `agenda_.top()`: an entry of largest error (first one among equals) -/
def lsTop : List LSVertex → Option LSVertex
  | [] => none
  | [v] => some v
  | v :: w :: r => match lsTop (w :: r) with
    | some t => if t.error < v.error then some v else some t
    | none => some v

/-- one pass of the `do { … } while (true)` body; `none` = `break` (agenda empty after the scan) -/
def lsStep (m : Model) (sup : Vec → Vec) (acc : Rat → Bool) (oracle : Vec → List Vec → List Vec) (st : LSState) : Option LSState :=
  let r := lsScan m sup acc st.good st.verts st.agenda st.tried
  match lsTop r.1 with
  | none => none
  | some best =>
    -- pop `best`, then erase every entry the new support makes obsolete
    let rest := (r.1.filter (fun v => !(v.belief == best.belief && v.support == best.support))).filter
                  (fun v => !(decide (v.currentValue < dot m.S v.belief best.support)))
    some ⟨st.good ++ [best.support], rest, r.2, oracle best.support st.good⟩

def lsLoop (m : Model) (sup : Vec → Vec) (acc : Rat → Bool) (oracle : Vec → List Vec → List Vec) : Nat → LSState → LSState
  | 0, st => st
  | f+1, st => match lsStep m sup acc oracle st with
    | none => { st with agenda := [], tried := (lsScan m sup acc st.good st.verts st.agenda st.tried).2, verts := [] }
    | some st' => lsLoop m sup acc oracle f st'

/-- unit vector e_s -/
def cornerB (n s : Nat) : Vec := mkVec n (fun i => if i = s then 1 else 0)

/-- supports of the corners, duplicates dropped (`allSupports.emplace` / `inserted`) -/
def lsCorners (m : Model) (sup : Vec → Vec) : Nat → List Vec
  | 0 => []
  | s+1 =>
    let g := lsCorners m sup s
    let sp := sup (cornerB m.S s)
    if g.any (fun y => y == sp) then g else g ++ [sp]

/-- convex combination Σ λ_i x_i of weighted points -/
def combo (n : Nat) (L : List (Rat × Vec)) : Vec := mkVec n (fun s => (L.map (fun p => p.1 * p.2.get s)).sum)

/-! ## round 2 -/

/-- the per-action merge of `IncrementalPruning::operator()` run on C04's literal copy of the schedule
    (`AITB.Plan.mergeSchedule`: front/back/stepsize/diff/elements/oddOld, constants regenerated from the source);
    `order` only affects the observation links, not the values -/
def ipActionM (n : Nat) (prune : List Vec → List Vec) (O : Nat) (P : Nat → List Vec) : List Vec :=
  AITB.Plan.mergeSchedule (fun x y _ => prune (crossSum n x y)) ((List.range O).map (fun o => prune (P o)))

def ipStepM (m : Model) (τ : Rat) (prune : List Vec → List Vec) (Γ : List Vec) : List Vec :=
  prune (unionTo m.A (fun a => ipActionM m.S prune m.O (projList m τ Γ a)))

def ipIterM (m : Model) (τ : Rat) (prune : List Vec → List Vec) : Nat → List Vec
  | 0 => [vzero m.S]
  | h+1 => ipStepM m τ prune (ipIterM m τ prune h)

/-- no observation probability met while expanding the h-step tree below `b` lies in the band (0, τ]:
    then `checkDifferentSmall(sum, 0.0)` skips exactly the zero-probability observations -/
def skipFreeB (m : Model) (τ : Rat) : Nat → Vec → Bool
  | 0 => fun _ => true
  | h+1 => fun b => allLt m.A (fun a => allLt m.O (fun o =>
      decide (vsum m.S (updU m b a o) = 0) ||
      (decide (τ < absR (vsum m.S (updU m b a o))) && skipFreeB m τ h (vdiv m.S (updU m b a o) (vsum m.S (updU m b a o))))))

end AITB.POMDP
