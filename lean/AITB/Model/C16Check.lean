/-
  AITB.Model.C16Check — the clauses the C16 driver evaluates on the implementation's own outputs.
  `same`   : two runs the property requires to be bit-identical (flattened outputs as exact doubles)
  `differ` : two engine-driven streams that must NOT coincide (another root seed; two objects created one after the other):
             an engine that is not seeded from `Seeder` yields the same stream for every root seed and every object.
  Core Lean only.
-/
import AITB.Model.Num
namespace AITB.Hidden
open AITB

/-- equality of two doubles as values (NaN equals NaN: the runs are compared, not the numbers) -/
def bitEq : XRat → XRat → Bool
  | .nan, .nan => true
  | .pinf, .pinf => true
  | .ninf, .ninf => true
  | .fin p, .fin q => decide (p = q)
  | _, _ => false

/-- index of the first position where the two outputs differ (a missing element differs from everything) -/
def firstDiff : List XRat → List XRat → Nat → Option Nat
  | [], [], _ => none
  | x :: xs, y :: ys, i => if bitEq x y then firstDiff xs ys (i + 1) else some i
  | _, _, i => some i

/-- both finite and within 2^-40 (≈ 1e-12) of each other relative to max(1, |p|, |q|): rounding-level differences, the same discrete answer -/
def lastBitsB : XRat → XRat → Bool
  | .fin p, .fin q =>
      let d := if p < q then q - p else p - q
      let ap := if p < 0 then -p else p
      let aq := if q < 0 then -q else q
      let m := if ap < aq then aq else ap
      decide (d * 1099511627776 ≤ (if m < 1 then 1 else m))
  | x, y => bitEq x y

/-- the two outputs have the same shape and differ only in last bits -/
def lastBitsOnly : List XRat → List XRat → Bool
  | [], [] => true
  | x :: xs, y :: ys => lastBitsB x y && lastBitsOnly xs ys
  | _, _ => false

def sameB (a b : List XRat) : Bool := (firstDiff a b 0).isNone

/-- shortest stream for which a coincidence is treated as "the same engine state" rather than chance -/
def minStream : Nat := 24

/-- clause of `differ`: violated iff both streams are at least `minStream` long and identical -/
def streamsDifferB (a b : List XRat) : Bool := decide (a.length < minStream) || !(sameB a b)

end AITB.Hidden
