/-
  AITB.Model.CassandraPrint — the canonical PRINTER of Cassandra-format files (core Lean only; the driver runs it).

  The harness (harness/c18.cpp, stream `canon`) renders a generated file AST with a deterministic layout; this file is the
  same printer in Lean.  The driver recomputes the text from the AST and compares it byte for byte with what the harness
  fed to the library, so the renderer of these cases is not trusted: `Props.C18m.printFile_parses` proves, for EVERY AST,
  that the operational model accepts the printed text and returns exactly the tables the statements define (`specAt`),
  and `Props.C18m.printModel_roundtrip` that a complete model printed in any of the four forms is read back unchanged.

  Numbers are exact decimals `[-]<ip>.<fp>` given as (sign, digits as a natural number, number of fraction digits).
-/
import AITB.Model.Cassandra
namespace AITB.Cassandra

/-! ## numbers as text -/

def digitChar (d : Nat) : Char := Char.ofNat (48 + d)

/-- decimal digits of `n`, most significant first, prepended to `acc` (fuel = an upper bound on the digit count) -/
def natDigitsAux : Nat → Nat → Str → Str
  | 0, _, acc => acc
  | fuel + 1, n, acc =>
      let acc' := digitChar (n % 10) :: acc
      if n < 10 then acc' else natDigitsAux fuel (n / 10) acc'

def natDigits (n : Nat) : Str := natDigitsAux (n + 1) n []

/-- an exact decimal: `±n / 10^e` -/
structure Dec where
  neg : Bool
  n : Nat
  e : Nat
  deriving Repr, DecidableEq, Inhabited

def Dec.value (d : Dec) : Rat :=
  let q : Rat := (d.n : Rat) / pow10 d.e
  if d.neg then -q else q

def Dec.x (d : Dec) : XRat := .fin d.value

/-- `[-]<ip>.<fp>` with exactly `e` fraction digits and at least one integer digit -/
def printDec (d : Dec) : Str :=
  let ds := natDigits d.n
  let padded := List.replicate (d.e + 1 - ds.length) '0' ++ ds
  let ip := padded.take (padded.length - d.e)
  let fp := padded.drop (padded.length - d.e)
  (if d.neg then ['-'] else []) ++ (ip ++ '.' :: fp)

/-! ## statements as text -/

/-- tokens each preceded by its separator -/
def pToks : List (Str × Str) → Str
  | [] => []
  | (sep, t) :: r => sep ++ t ++ pToks r

def sepFirst : Str := [':', ' ']          -- after the table letter / keyword
def sepColon : Str := [' ', ':', ' ']     -- between index tokens
def sepBlank : Str := [' ']               -- before a value

def printSel : Sel → Str
  | .all => ['*']
  | .idx i => natDigits i

inductive PBody where
  /-- `X: a : d1 : d3 v` (for `R`: `R: a : d1 : d3 : * v`) -/
  | entry (d3 : Sel) (v : Dec)
  /-- `X: a : d1 v_0 … v_{D3-1}` -/
  | rowInline (vs : List Dec)
  /-- `X: a : d1` and the values on the next line -/
  | rowNext (vs : List Dec)
  /-- `X: a` and D1 lines of D3 values -/
  | matrix (rows : List (List Dec))
  deriving Repr, Inhabited

structure PStmt where
  tbl : Char
  a : Sel
  d1 : Sel
  body : PBody
  deriving Repr

def printVec : List Dec → Str
  | [] => []
  | v :: r => printDec v ++ pToks (r.map fun x => (sepBlank, printDec x))

/-- the lines of one statement -/
def printStmt (s : PStmt) : List Str :=
  match s.body with
  | .entry d3 v =>
      if s.tbl == 'R' then
        [[s.tbl] ++ pToks [(sepFirst, printSel s.a), (sepColon, printSel s.d1), (sepColon, printSel d3), (sepColon, ['*']), (sepBlank, printDec v)]]
      else
        [[s.tbl] ++ pToks [(sepFirst, printSel s.a), (sepColon, printSel s.d1), (sepColon, printSel d3), (sepBlank, printDec v)]]
  | .rowInline vs =>
      [[s.tbl] ++ pToks ((sepFirst, printSel s.a) :: (sepColon, printSel s.d1) :: vs.map fun x => (sepBlank, printDec x))]
  | .rowNext vs =>
      [[s.tbl] ++ pToks [(sepFirst, printSel s.a), (sepColon, printSel s.d1)], printVec vs]
  | .matrix rows =>
      ([s.tbl] ++ pToks [(sepFirst, printSel s.a)]) :: rows.map printVec

/-- what the statement means (the specification-side statement) -/
def PStmt.toStmt (s : PStmt) : Stmt :=
  match s.body with
  | .entry d3 v => ⟨s.a, s.d1, .entry d3 v.x⟩
  | .rowInline vs => ⟨s.a, s.d1, .row (vs.map Dec.x)⟩
  | .rowNext vs => ⟨s.a, s.d1, .row (vs.map Dec.x)⟩
  | .matrix rows => ⟨s.a, .all, .matrix (rows.map fun r => r.map Dec.x)⟩

structure PFile where
  k : Kind
  S : Nat
  A : Nat
  O : Nat
  stmts : List PStmt

def unlines : List Str → Str
  | [] => []
  | l :: ls => l ++ '\n' :: unlines ls

/-- sizes as `keyword:<digits>`; the observations line is always present (an MDP file may carry one) and the
    discount is left at its default 1.0 -/
def preambleLines (f : PFile) : List Str :=
  [kwStates ++ ':' :: natDigits f.S, kwActions ++ ':' :: natDigits f.A, kwObservations ++ ':' :: natDigits f.O]

/-- the whole file: sizes, then the statements in order; every line ends with a newline -/
def printFile (f : PFile) : Str := unlines (preambleLines f ++ f.stmts.flatMap printStmt)

/-- statements of one table, in file order -/
def PFile.stmtsOf (f : PFile) (c : Char) : List Stmt := (f.stmts.filter (·.tbl == c)).map PStmt.toStmt

/-! ## a complete model, printed in one of four forms -/

structure PModel where
  k : Kind
  S : Nat
  A : Nat
  O : Nat
  T : Nat → Nat → Nat → Dec      -- T s a s1
  R : Nat → Nat → Nat → Dec      -- R s a s1
  W : Nat → Nat → Nat → Dec      -- W s1 a o

/-- 0 matrix per action, 1 rows with the values on the next line, 2 rows inline, 3 single entries -/
def tableStmts (form : Nat) (c : Char) (D1 D2 D3 : Nat) (g : Nat → Nat → Nat → Dec) : List PStmt :=
  (List.range D2).flatMap fun a =>
    match form with
    | 0 => [⟨c, .idx a, .all, .matrix ((List.range D1).map fun d1 => (List.range D3).map fun d3 => g d1 a d3)⟩]
    | 1 => (List.range D1).map fun d1 => ⟨c, .idx a, .idx d1, .rowNext ((List.range D3).map fun d3 => g d1 a d3)⟩
    | 2 => (List.range D1).map fun d1 => ⟨c, .idx a, .idx d1, .rowInline ((List.range D3).map fun d3 => g d1 a d3)⟩
    | _ => (List.range D1).flatMap fun d1 => (List.range D3).map fun d3 => ⟨c, .idx a, .idx d1, .entry (.idx d3) (g d1 a d3)⟩

def PModel.toFile (m : PModel) (formT formW : Nat) : PFile :=
  { k := m.k, S := m.S, A := m.A, O := m.O,
    stmts := tableStmts formT 'T' m.S m.A m.S m.T ++
             (if m.k == .pomdp then tableStmts formW 'O' m.S m.A m.O m.W else []) ++
             tableStmts 3 'R' m.S m.A m.S m.R }

def printModel (m : PModel) (formT formW : Nat) : Str := printFile (m.toFile formT formW)

end AITB.Cassandra
