/-
  AITB.Model.VE — model of the coordination-graph maximisers (property C13).  Core Lean only.

  Anchors:
    include/AIToolbox/Factored/Utils/GenericVariableElimination.hpp   (removeFactor, operator())
    include/AIToolbox/Factored/Utils/FactorGraph.hpp                  (bestVariableToRemove)
    src/Factored/Bandit/Algorithms/Utils/VariableElimination.cpp      (Global callbacks, makeResult)
    include/AIToolbox/Factored/Bandit/Algorithms/Utils/GraphUtils.hpp (UpdateGraphImpl / MakeGraphImpl)
    src/Factored/Bandit/Algorithms/Utils/LocalSearch.cpp              (evaluateGraph / evaluateFactor)
    src/Factored/Bandit/Algorithms/Utils/UCVE.cpp                     (crossSumF, makeResult)
    src/Factored/Bandit/Algorithms/Utils/MultiObjectiveVariableElimination.cpp (crossSumF, endCrossSum, makeResult)

  Two levels:
  * semantic level: a factor is a function of the joint action with a syntactic scope
    (`Factor`); one elimination step replaces all factors mentioning agent `v` by their
    max over `v` (first maximum wins, as `newCrossSum.first > newFactor.first` does);
    the joint action is recovered by back-substitution (what the accumulated tags encode).
  * table level (`T…`): rules stored per factor node, sorted by partial index, looked up with
    lower_bound, merged on collision, tags accumulated per rule — the data structure the C++
    code manipulates.  `Props/C13.lean` proves the table level computes the semantic level.
-/
import AITB.Model.Num
import AITB.Model.Factored
namespace AITB.VE
open AITB.Factored

/-- a joint action as a total function (agents outside the problem are irrelevant) -/
abbrev Asg := Nat → Nat

def upd (x : Asg) (v k : Nat) : Asg := fun i => if i = v then k else x i

def asgOf (l : List Nat) : Asg := fun i => l.getD i 0
def listOf (n : Nat) (x : Asg) : List Nat := (List.range n).map x

/-- index of the first maximum of f over 0..n (strict update = first maximum wins) -/
def argmaxTo : Nat → (Nat → Rat) → Nat
  | 0, _ => 0
  | n+1, f => let i := argmaxTo n f; if f i < f (n+1) then n+1 else i

/-- max of f over k = 0..n (n+1 candidates) -/
def maxTo (n : Nat) (f : Nat → Rat) : Rat := f (argmaxTo n f)

/-! ## rules: the input of every maximiser (`QFunctionRule`: PartialAction + value) -/

structure Rule where
  keys : List Nat
  vals : List Nat
  value : Rat
  deriving Repr

/-- `match(rule.action, jointAction)`: every named agent takes the named action -/
def matchKV : List Nat → List Nat → Asg → Bool
  | k :: ks, v :: vs, x => (x k == v) && matchKV ks vs x
  | _, _, _ => true

def Rule.eval (r : Rule) (x : Asg) : Rat := if matchKV r.keys r.vals x then r.value else 0

/-- THE DEFINITION the property refers to: total payoff of a joint action = sum of the
    values of the rules it matches (an entry that is absent contributes zero). -/
def payoff : List Rule → Asg → Rat
  | [], _ => 0
  | r :: rs, x => r.eval x + payoff rs x

/-! ## semantic variable elimination -/

structure Factor where
  scope : List Nat
  f : Asg → Rat

def ofRule (r : Rule) : Factor := ⟨r.keys, r.eval⟩

def total : List Factor → Asg → Rat
  | [], _ => 0
  | φ :: fs, x => φ.f x + total fs x

/-- `dom v` = number of actions of agent `v` minus one (every agent has ≥ 1 action) -/
def elimFactor (dom : Nat → Nat) (v : Nat) (dep : List Factor) : Factor where
  scope := (dep.flatMap (·.scope)).filter (· ≠ v)
  f := fun x => maxTo (dom v) (fun k => total dep (upd x v k))

def deps (v : Nat) (fs : List Factor) : List Factor := fs.filter (fun φ => decide (v ∈ φ.scope))
def rest (v : Nat) (fs : List Factor) : List Factor := fs.filter (fun φ => !decide (v ∈ φ.scope))

/-- one `removeFactor(v)`: all factors adjacent to `v` are replaced by their max over `v` -/
def eliminate (dom : Nat → Nat) (v : Nat) (fs : List Factor) : List Factor :=
  elimFactor dom v (deps v fs) :: rest v fs

def elimAll (dom : Nat → Nat) : List Nat → List Factor → List Factor
  | [], fs => fs
  | v :: vs, fs => elimAll dom vs (eliminate dom v fs)

/-- best response of `v` given the (already decided) actions of the agents eliminated later;
    this is what the tag `(agent, agentAction)` stored with each new rule records. -/
def bestResp (dom : Nat → Nat) (v : Nat) (fs : List Factor) (x : Asg) : Nat :=
  argmaxTo (dom v) (fun k => total (deps v fs) (upd x v k))

/-- a tag list `(agent, action)` read as a joint action (later entries are overridden by
    earlier ones; agents without a tag play 0 — `Action(A.size())` is zero-initialised) -/
def asgT : List (Nat × Nat) → Asg
  | [] => fun _ => 0
  | t :: ts => upd (asgT ts) t.1 t.2

/-- back-substitution = the tags accumulated by the eliminations and read in `makeResult`.
    (Returned as data, not as a closure, so that the compiled driver evaluates it once.) -/
def solve (dom : Nat → Nat) : List Nat → List Factor → List (Nat × Nat)
  | [], _ => []
  | v :: vs, fs =>
    let t := solve dom vs (eliminate dom v fs)
    (v, bestResp dom v fs (asgT t)) :: t

def domOf (A : List Nat) (v : Nat) : Nat := A.getD v 1 - 1

def zeroAsg : Asg := fun _ => 0

/-- value reported by VE: sum of the final (constant) factors -/
def veValue (A : List Nat) (order : List Nat) (rules : List Rule) : Rat :=
  total (elimAll (domOf A) order (rules.map ofRule)) zeroAsg

def veAction (A : List Nat) (order : List Nat) (rules : List Rule) : Asg :=
  asgT (solve (domOf A) order (rules.map ofRule))

/-! ## exhaustive maximum (the specification) -/

/-- all joint actions of the space `A`, first agent fastest (index order of `toIndex`) -/
def allActs : List Nat → List (List Nat)
  | [] => [[]]
  | a :: as => (allActs as).flatMap (fun t => (List.range a).map (fun k => k :: t))

def maxL : List Rat → Rat
  | [] => 0
  | [q] => q
  | q :: qs => let m := maxL qs; if m < q then q else m

def payoffL (rules : List Rule) (a : List Nat) : Rat := payoff rules (asgOf a)

def bruteMax (A : List Nat) (rules : List Rule) : Rat := maxL ((allActs A).map (payoffL rules))

/-! ## `FactorGraph::bestVariableToRemove` on the set of factor scopes

The graph has one node per distinct key set; for the heuristic only these sets matter. -/

def nbrs (n v : Nat) (scopes : List (List Nat)) : List Nat :=
  (List.range n).filter (fun u => u != v && scopes.any (fun s => s.contains v && s.contains u))

def sameSet (s t : List Nat) : Bool := s.all t.contains && t.all s.contains

def factorExists (nb : List Nat) (scopes : List (List Nat)) : Bool :=
  !nb.isEmpty && scopes.any (sameSet nb)

def costOf (A : List Nat) (v : Nat) (nb : List Nat) : Nat :=
  nb.foldl (fun c u => c * A.getD u 1) (A.getD v 1)

/-- scan as written: `factorExists` is fixed by the first active variable and never updated -/
def bestVar (A : List Nat) (n : Nat) (active : List Nat) (scopes : List (List Nat)) : Nat :=
  match active with
  | [] => 0
  | first :: more =>
    let nb0 := nbrs n first scopes
    let ex0 := factorExists nb0 scopes
    let step := fun (st : Nat × Nat) (next : Nat) =>
      let nb := nbrs n next scopes
      let ex := factorExists nb scopes
      if !ex && ex0 then st else
      let c := costOf A next nb
      if (ex && !ex0) || c < st.2 then (next, c) else st
    (more.foldl step (first, costOf A first nb0)).1

/-- the elimination order `operator()` follows (`while (graph.variableSize()) removeFactor(best)`) -/
def veOrderAux (A : List Nat) (n : Nat) : Nat → List Nat → List (List Nat) → List Nat
  | 0, _, _ => []
  | _, [], _ => []
  | fuel+1, active, scopes =>
    let v := bestVar A n active scopes
    let nb := nbrs n v scopes
    let scopes' := scopes.filter (fun s => !s.contains v)
    let scopes' := if nb.isEmpty || scopes'.any (sameSet nb) then scopes' else scopes' ++ [nb]
    v :: veOrderAux A n fuel (active.filter (· != v)) scopes'

def veOrder (A : List Nat) (rules : List Rule) : List Nat :=
  let n := A.length
  veOrderAux A n n (List.range n) ((rules.map (·.keys)).eraseDups)

/-! ## dense-table graph used by LocalSearch / MaxPlus / RILS (GraphUtils.hpp) and `evaluateGraph` -/

structure Node where
  keys : List Nat
  table : List Rat
  deriving Repr

/-- `table[id] += value` -/
def addAt : List Rat → Nat → Rat → List Rat
  | [], _, _ => []
  | q :: qs, 0, v => (q + v) :: qs
  | q :: qs, i+1, v => q :: addAt qs i v

/-- `MakeGraphImpl<LocalSearch, rules>`: one zero table per distinct key set, first-use order -/
def lsMake (A : List Nat) : List Rule → List Node → List Node
  | [], g => g
  | r :: rs, g =>
    if g.any (fun nd => nd.keys == r.keys) then lsMake A rs g
    else lsMake A rs (g ++ [⟨r.keys, List.replicate (spacePartial r.keys A) 0⟩])

/-- `UpdateGraphImpl<LocalSearch, rules>` after `setZero`: `factorNode[toIndexPartial(A, rule.action)] += rule.value` -/
def lsAdd (A : List Nat) (r : Rule) : List Node → List Node
  | [] => []
  | nd :: g => if nd.keys == r.keys then ⟨nd.keys, addAt nd.table (toIndexPartialPF A r.keys r.vals) r.value⟩ :: g
               else nd :: lsAdd A r g

def lsUpdate (A : List Nat) : List Rule → List Node → List Node
  | [], g => g
  | r :: rs, g => lsUpdate A rs (lsAdd A r g)

def lsGraph (A : List Nat) (rules : List Rule) : List Node := lsUpdate A rules (lsMake A rules [])

/-- `LocalSearch::evaluateFactor`: `values[toIndexPartial(vars, A, jointAction)]` -/
def evalNode (A : List Nat) (a : List Nat) (nd : Node) : Rat := nd.table.getD (toIndexPartial nd.keys A a) 0

/-- `LocalSearch::evaluateGraph` -/
def evalGraph (A : List Nat) (a : List Nat) : List Node → Rat
  | [] => 0
  | nd :: g => evalNode A a nd + evalGraph A a g

/-! ## well-formedness of inputs (the documented preconditions of the rule-based API) -/

/-- keys strictly ascending, all below `n` -/
def ascBelow (n : Nat) : List Nat → Bool
  | [] => true
  | [k] => decide (k < n)
  | k :: k' :: ks => decide (k < k') && ascBelow n (k' :: ks)

def Rule.wfB (A : List Nat) (r : Rule) : Bool :=
  !r.keys.isEmpty && ascBelow A.length r.keys && validB (sel r.keys A) r.vals

def validAct (A a : List Nat) : Bool := validB A a

end AITB.VE
