/-
  AITB.Model.MOVESem — semantic multi-objective variable elimination, with an absent entry contributing the ZERO
  vector (the behaviour of MultiObjectiveVariableElimination after fixes/C13-2, and of the unchanged code on rule
  sets where every agent action is matched by some rule).  Core Lean only.

  A factor maps a joint action to the LIST of alternative value vectors it may contribute (a rule: one vector; a
  factor produced by an elimination: one vector per action of the eliminated agent and per combination).
  No pruning happens during the elimination (p2/p3 pruning is commented out in the C++ source); the only prune is
  the closing `extractDominated` in `makeResult`.
-/
import AITB.Model.VE
namespace AITB.VE

/-- value vectors as functions objective ↦ value (objectives ≥ the number in use are 0) -/
abbrev Vec := Nat → Rat

def vzero : Vec := fun _ => 0
def vadd (a b : Vec) : Vec := fun i => a i + b i

structure SFactor where
  scope : List Nat
  f : Asg → List Vec

/-- all sums of one alternative per factor (`crossSumF` folded over the factors) -/
def sums : List (List Vec) → List Vec
  | [] => [vzero]
  | S :: Ss => S.flatMap (fun a => (sums Ss).map (vadd a))

def totalS (fs : List SFactor) (x : Asg) : List Vec := sums (fs.map (fun φ => φ.f x))

def depsS (v : Nat) (fs : List SFactor) : List SFactor := fs.filter (fun φ => decide (v ∈ φ.scope))
def restS (v : Nat) (fs : List SFactor) : List SFactor := fs.filter (fun φ => !decide (v ∈ φ.scope))

/-- eliminating `v`: every action of `v` contributes all cross-sums of the adjacent factors (nothing is dropped) -/
def elimFactorS (dom : Nat → Nat) (v : Nat) (dep : List SFactor) : SFactor where
  scope := (dep.flatMap (·.scope)).filter (· ≠ v)
  f := fun x => (List.range (dom v + 1)).flatMap (fun k => totalS dep (upd x v k))

def eliminateS (dom : Nat → Nat) (v : Nat) (fs : List SFactor) : List SFactor :=
  elimFactorS dom v (depsS v fs) :: restS v fs

def elimAllS (dom : Nat → Nat) : List Nat → List SFactor → List SFactor
  | [], fs => fs
  | v :: vs, fs => elimAllS dom vs (eliminateS dom v fs)

structure VRule where
  keys : List Nat
  vals : List Nat
  values : Vec

def VRule.eval (r : VRule) (x : Asg) : Vec := if matchKV r.keys r.vals x then r.values else vzero

def ofVRule (r : VRule) : SFactor := ⟨r.keys, fun x => [r.eval x]⟩

/-- THE DEFINITION: value vector of a joint action = sum of the vectors of the rules it matches -/
def payoffV : List VRule → Asg → Vec
  | [], _ => vzero
  | r :: rs, x => vadd (r.eval x) (payoffV rs x)

end AITB.VE
