/-
  AITB.Model.IndexMap — model of include/AIToolbox/Utils/IndexMap.hpp (`IndexMap` / `IndexMapIterator`),
  the id → item indirection through which every `FilterMap::filter` result is read.  Core Lean only.

  An iterator is a position in the id list (`currentId_`), the range is `ids` over the container `cont`.
  Every operator is modelled as the source writes it: pure position arithmetic followed by
  `(*items_)[*currentId_]`.  `none` = the dereference is outside the id list or the container (undefined
  behaviour in the source: "do *NOT* perform any bound checking").
-/
namespace AITB.IndexMap

structure Rng where
  ids : List Nat
  cont : List Nat

/-- `operator*` at position `pos` (an `Int`: the source's `difference_type` arithmetic may leave the range) -/
def deref (r : Rng) (pos : Int) : Option Nat :=
  if pos < 0 then none else (r.ids[pos.toNat]?).bind (fun id => r.cont[id]?)

/-- `begin()` / `end()` positions -/
def bgn (_ : Rng) : Int := 0
def fin (r : Rng) : Int := r.ids.length

/-- `it + k`, `it += k` -/
def plus (pos k : Int) : Int := pos + k
/-- `it - k`, `it -= k` -/
def minus (pos k : Int) : Int := pos - k
/-- `it[k]` : `(*items_)[*(currentId_ + k)]` -/
def sub (r : Rng) (pos k : Int) : Option Nat := deref r (pos + k)
/-- `a - b` -/
def dist (a b : Int) : Int := a - b

/-- the values a `for (it = begin(); it != end(); ++it) *it` walk yields -/
def walk (r : Rng) : List (Option Nat) := (List.range r.ids.length).map (fun (k : Nat) => deref r (bgn r + (k : Int)))
/-- `*(begin() + k)` for k = 0 … n-1 -/
def walkPlus (r : Rng) : List (Option Nat) := (List.range r.ids.length).map (fun (k : Nat) => deref r (plus (bgn r) (k : Int)))
/-- `begin()[k]` for k = 0 … n-1 -/
def walkSub (r : Rng) : List (Option Nat) := (List.range r.ids.length).map (fun (k : Nat) => sub r (bgn r) (k : Int))
/-- `--it; *it` from `end()` down to `begin()` -/
def walkRev (r : Rng) : List (Option Nat) := (List.range r.ids.length).map (fun (k : Nat) => deref r (fin r - 1 - (k : Int)))
/-- `*(end() - k)` for k = 1 … n -/
def walkMinus (r : Rng) : List (Option Nat) := (List.range r.ids.length).map (fun (k : Nat) => deref r (minus (fin r) ((k : Int) + 1)))
/-- `end() - (end() - k)` for k = 1 … n -/
def dists (r : Rng) : List Int := (List.range r.ids.length).map (fun (k : Nat) => dist (fin r) (minus (fin r) ((k : Int) + 1)))

/-- the items the range denotes: the container's entry of every listed id, in list order -/
def vals (r : Rng) : List (Option Nat) := r.ids.map (fun id => r.cont[id]?)

/-- all ids address the container (the documented precondition of the class) -/
def Valid (r : Rng) : Prop := ∀ id ∈ r.ids, id < r.cont.length

end AITB.IndexMap
