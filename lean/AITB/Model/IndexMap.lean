/-
  AITB.Model.IndexMap — model of include/AIToolbox/Utils/IndexMap.hpp (`IndexMap` / `IndexMapIterator`),
  the id → item indirection through which every `FilterMap::filter` result is read.  Core Lean only.

  An iterator is a position in the id list (`currentId_`), the range is `ids` over the container `cont`.
  Every operator is modelled as the source writes it: pure position arithmetic followed by
  `(*items_)[*currentId_]`.  `none` = the dereference is outside the id list or the container (undefined
  behaviour in the source: "do *NOT* perform any bound checking").
-/
namespace AITB.IndexMap

structure Rng where
  ids : List Nat
  cont : List Nat

/-- `operator*` at position `pos` (an `Int`: the source's `difference_type` arithmetic may leave the range) -/
def deref (r : Rng) (pos : Int) : Option Nat :=
  if pos < 0 then none else (r.ids[pos.toNat]?).bind (fun id => r.cont[id]?)

/-- `begin()` / `end()` positions -/
def bgn (_ : Rng) : Int := 0
def fin (r : Rng) : Int := r.ids.length

/-- `it + k`, `it += k` -/
def plus (pos k : Int) : Int := pos + k
/-- `it - k`, `it -= k` -/
def minus (pos k : Int) : Int := pos - k
/-- `it[k]` : `(*items_)[*(currentId_ + k)]` -/
def sub (r : Rng) (pos k : Int) : Option Nat := deref r (pos + k)
/-- `a - b` -/
def dist (a b : Int) : Int := a - b

/-- the values a `for (it = begin(); it != end(); ++it) *it` walk yields -/
def walk (r : Rng) : List (Option Nat) := (List.range r.ids.length).map (fun (k : Nat) => deref r (bgn r + (k : Int)))
/-- `*(begin() + k)` for k = 0 … n-1 -/
def walkPlus (r : Rng) : List (Option Nat) := (List.range r.ids.length).map (fun (k : Nat) => deref r (plus (bgn r) (k : Int)))
/-- `begin()[k]` for k = 0 … n-1 -/
def walkSub (r : Rng) : List (Option Nat) := (List.range r.ids.length).map (fun (k : Nat) => sub r (bgn r) (k : Int))
/-- `--it; *it` from `end()` down to `begin()` -/
def walkRev (r : Rng) : List (Option Nat) := (List.range r.ids.length).map (fun (k : Nat) => deref r (fin r - 1 - (k : Int)))
/-- `*(end() - k)` for k = 1 … n -/
def walkMinus (r : Rng) : List (Option Nat) := (List.range r.ids.length).map (fun (k : Nat) => deref r (minus (fin r) ((k : Int) + 1)))
/-- `end() - (end() - k)` for k = 1 … n -/
def dists (r : Rng) : List Int := (List.range r.ids.length).map (fun (k : Nat) => dist (fin r) (minus (fin r) ((k : Int) + 1)))

/-- the items the range denotes: the container's entry of every listed id, in list order -/
def vals (r : Rng) : List (Option Nat) := r.ids.map (fun id => r.cont[id]?)

/-- all ids address the container (the documented precondition of the class) -/
def Valid (r : Rng) : Prop := ∀ id ∈ r.ids, id < r.cont.length

/-! ### `IndexMap::sort()` — `std::sort(ids_, [](l, r){ return items_[l] < items_[r]; })`

`std::sort` leaves the order of ids with equal items unspecified; the model is the stable insertion sort.  What every
conforming outcome shares (and what the driver compares) is the *sequence of item values*. -/

def item (cont : List Nat) (id : Nat) : Nat := cont.getD id 0

def insertBy (cont : List Nat) (x : Nat) : List Nat → List Nat
  | [] => [x]
  | y :: ys => if item cont x < item cont y then x :: y :: ys else y :: insertBy cont x ys

def sortIds (cont ids : List Nat) : List Nat := ids.foldr (insertBy cont) []

def nondecr : List Nat → Bool
  | [] => true
  | [_] => true
  | a :: b :: r => decide (a ≤ b) && nondecr (b :: r)

/-- same ids with the same multiplicities (compared in canonical order) -/
def insNat (x : Nat) : List Nat → List Nat
  | [] => [x]
  | y :: ys => if x ≤ y then x :: y :: ys else y :: insNat x ys
def canon (l : List Nat) : List Nat := l.foldr insNat []
def sameBag (a b : List Nat) : Bool := canon a == canon b

/-- the clause evaluated on the implementation's id order after `sort()`: a rearrangement of the ids, items non-decreasing -/
def sortOK (cont ids ids' : List Nat) : Bool := sameBag ids' ids && nondecr (ids'.map (item cont))

/-! ### `IndexSkipMap` / `IndexSkipMapIterator` — iterate the container *without* the listed ids

Iterator state: `currentId_` (a container index) and `currentSkipId_` (a position in the id list).
`skip()`: `while (cur < items.size() && sk < ids.size() && cur == ids[sk]) { ++cur; ++sk; }`;
constructor = `skip()`, `operator++` = `++cur; skip()`, `operator==` compares `cur` only, `end()` has `cur = items.size()`. -/

structure SkipIt where
  cur : Nat
  sk : Nat
deriving Repr, BEq

/-- `skip()` (fuel: every iteration needs `cur < n` and increments `cur`) -/
def skipLoop (ids : List Nat) (n : Nat) : Nat → SkipIt → SkipIt
  | 0, s => s
  | fuel + 1, s =>
    if s.cur < n && s.sk < ids.length && s.cur == ids.getD s.sk 0 then skipLoop ids n fuel ⟨s.cur + 1, s.sk + 1⟩ else s

def skipBegin (ids : List Nat) (n : Nat) : SkipIt := skipLoop ids n (n + 1) ⟨0, 0⟩
def skipNext (ids : List Nat) (n : Nat) (s : SkipIt) : SkipIt := skipLoop ids n (n + 1) ⟨s.cur + 1, s.sk⟩

/-- `for (it = begin(); it != end(); ++it) it.toContainerId()` as written -/
def skipWalkGo (ids : List Nat) (n : Nat) : Nat → SkipIt → List Nat
  | 0, _ => []
  | fuel + 1, s => if s.cur == n then [] else s.cur :: skipWalkGo ids n fuel (skipNext ids n s)

def skipWalkIds (r : Rng) : List Nat := skipWalkGo r.ids r.cont.length (r.cont.length + 1) (skipBegin r.ids r.cont.length)

/-- the same walk with the two loops merged into one recursion over the remaining container positions:
    at position `cur` with the unread skip ids `rest`, either `cur` is `rest`'s head (skipped, head consumed) or it is visited. -/
def skipVisit : Nat → Nat → List Nat → List Nat
  | 0, _, _ => []
  | rem + 1, cur, [] => cur :: skipVisit rem (cur + 1) []
  | rem + 1, cur, x :: xs => if cur = x then skipVisit rem (cur + 1) xs else cur :: skipVisit rem (cur + 1) (x :: xs)

def skipVisitIds (r : Rng) : List Nat := skipVisit r.cont.length 0 r.ids
/-- the items the walk yields -/
def skipVals (r : Rng) : List (Option Nat) := (skipVisitIds r).map (fun i => r.cont[i]?)
/-- what the class is documented to iterate: the container positions that are not listed -/
def skipSpec (r : Rng) : List Nat := (List.range r.cont.length).filter (fun i => !r.ids.contains i)
/-- `IndexSkipMap::size()` as written: the number of *listed* ids -/
def skipSizeAsWritten (r : Rng) : Nat := r.ids.length

end AITB.IndexMap
